// C10 — small multi-fields (native integers): Multi_field_element_with_small_characteristics<min,max> (compile time),
// Shared_multi_field_element_with_small_characteristics<> and Multi_field_operators_with_small_characteristics (run time).
#include <cassert>
#include <climits>
#include <vector>
#include <stdexcept>
#include <numeric>
#include <gudhi/Fields/Multi_field_small.h>
#include <gudhi/Fields/Multi_field_small_shared.h>
#include <gudhi/Fields/Multi_field_small_operators.h>
#include "c10_common.h"

using namespace c10;
using Gudhi::persistence_fields::Multi_field_element_with_small_characteristics;
using Gudhi::persistence_fields::Shared_multi_field_element_with_small_characteristics;
using Gudhi::persistence_fields::Multi_field_operators_with_small_characteristics;

namespace {

typedef Shared_multi_field_element_with_small_characteristics<> SharedSmall;
typedef Multi_field_operators_with_small_characteristics OpsSmall;
const char* const kStatic = "Multi_field_element_with_small_characteristics";
const char* const kShared = "Shared_multi_field_element_with_small_characteristics";
const char* const kOps = "Multi_field_operators_with_small_characteristics";
// documented precondition of the operator class: the square of the product of the characteristics fits an unsigned int
const i128 kOpsMaxProduct = 65535;

struct Range { long lo, hi; };
std::string rdesc(const Range& g, const std::vector<uint64_t>& primes, i128 P) {
  return "range=[" + std::to_string(g.lo) + "," + std::to_string(g.hi) + "] primes=" + range_str(primes) + " product=" + zstr(P);
}

std::vector<i128> reduced_only(const std::vector<i128>& v, i128 P) { std::vector<i128> o; for (i128 x : v) if (x >= 0 && x < P) o.push_back(x); return o; }
std::vector<i128> to_native(const std::vector<i128>& v) { return v; }

// operands of a directed block: boundary values + residues with prescribed zero patterns
std::vector<i128> directed_values(i128 P, const std::vector<uint64_t>& primes, vh::Rng& r, int nrandom) {
  std::vector<i128> v = boundary_values(P, primes, r, nrandom);
  for (i128 x : partial_operands<i128>(primes, P, r, 6)) v.push_back(x);
  return v;
}

// ---------------------------------------------------------------------------------------- run-time classes
void shared_block(vh::Case& c, const Range& g, const std::vector<i128>& as, const std::vector<i128>& bs, bool all_values_for_partial, const std::string& kind, uint64_t salt) {
  std::vector<uint64_t> primes = primes_in(g.lo, g.hi);
  const i128 P = product_of<i128>(primes);
  std::string desc = kind + " class=" + kShared + " " + rdesc(g, primes, P) + " salt=" + std::to_string(salt);
  c.log(desc);
  Rep R(c, kShared, rdesc(g, primes, P));
  c.count(std::string("class.") + kShared);
  if (P > (i128)INT_MAX) c.count("blocks.product_above_2p31");
  if (primes.size() > 1) c.count("blocks.multi_prime_range");
  SharedSmall::initialize((unsigned)g.lo, (unsigned)g.hi);
  std::vector<i128> Qs = subproducts<i128>(primes, c.rng, 12);
  elem_block<SharedSmall, false>(R, P, primes, as, bs, Qs);
  (void)all_values_for_partial;
  finish_block(c, R, desc, salt);
}

void ops_small_block(vh::Case& c, const Range& g, const std::vector<i128>& as, const std::vector<i128>& bs, const std::vector<i128>& cs, const std::string& kind, uint64_t salt) {
  std::vector<uint64_t> primes = primes_in(g.lo, g.hi);
  const i128 P = product_of<i128>(primes);
  std::string desc = kind + " class=" + kOps + " " + rdesc(g, primes, P) + " salt=" + std::to_string(salt);
  c.log(desc);
  Rep R(c, kOps, rdesc(g, primes, P));
  c.count(std::string("class.") + kOps);
  if (primes.size() > 1) c.count("blocks.multi_prime_range");
  OpsSmall op;
  op.set_characteristic((int)g.lo, (int)g.hi);
  std::vector<i128> Qs = subproducts<i128>(primes, c.rng, 12);
  ops_block<OpsSmall, unsigned int>(R, op, P, primes, as, bs, cs, Qs, (i128)UINT_MAX, /*inverse_of_unreduced=*/false);
  // constructor form, copy, assignment
  OpsSmall op2((int)g.lo, (int)g.hi), cp(op), as2;
  as2 = op;
  i128 got = op2.get_characteristic(), g2 = cp.get_characteristic(), g3 = as2.get_characteristic();
  C10_CHECKV(R, i128, K_CHARACTERISTIC, got == P && g2 == P && g3 == P, "characteristic", C10_NIL(i128), C10_NIL(i128), C10_NIL(i128), &got, &P, "constructor_copy_assign");
  finish_block(c, R, desc, salt);
}

// ---------------------------------------------------------------------------------------- compile-time class
template <unsigned lo, unsigned hi>
void static_block(vh::Case& c, const std::vector<i128>& as, const std::vector<i128>& bs, const std::string& kind, uint64_t salt) {
  typedef Multi_field_element_with_small_characteristics<lo, hi> F;
  Range g{(long)lo, (long)hi};
  std::vector<uint64_t> primes = primes_in(g.lo, g.hi);
  const i128 P = product_of<i128>(primes);
  std::string desc = kind + " class=" + kStatic + " " + rdesc(g, primes, P) + " salt=" + std::to_string(salt);
  c.log(desc);
  Rep R(c, kStatic, rdesc(g, primes, P));
  c.count(std::string("class.") + kStatic);
  if (P > (i128)INT_MAX) c.count("blocks.product_above_2p31");
  if (primes.size() > 1) c.count("blocks.multi_prime_range");
  std::vector<i128> Qs = subproducts<i128>(primes, c.rng, 12);
  elem_block<F, false>(R, P, primes, as, bs, Qs);
  finish_block(c, R, desc, salt);
}

// ---------------------------------------------------------------------------------------- exhaustive: tiny products
// (range, class, a) blocks; b (and c) run over the whole window [-3P, 3P] resp. [0, 3P]
const Range kExhRanges[] = {{2, 2}, {2, 3}, {3, 5}, {4, 6}, {2, 5}, {5, 7}, {8, 12}, {3, 7}, {2, 7}};
const int kExhQuickRanges = 7;  // ranges with product <= 35 come first; [3,7] (105) and [2,7] (210) are thorough only
struct ExhBlock { int range; int cls; long a; };  // cls 0 static, 1 shared, 2 operators
std::vector<ExhBlock> make_exh_table() {
  std::vector<ExhBlock> t;
  for (int ri = 0; ri < (int)(sizeof kExhRanges / sizeof kExhRanges[0]); ++ri) {
    long P = (long)product_of<i128>(primes_in(kExhRanges[ri].lo, kExhRanges[ri].hi));
    for (long a = -3 * P; a <= 3 * P; ++a) t.push_back({ri, 0, a});
    for (long a = -3 * P; a <= 3 * P; ++a) t.push_back({ri, 1, a});
    for (long a = 0; a <= 3 * P; ++a) t.push_back({ri, 2, a});
  }
  return t;
}
void exh_case(vh::Case& c) {
  static const std::vector<ExhBlock> table = make_exh_table();
  if (c.k >= (long)table.size()) { c.count("skip.beyond_exhaustive_table"); return; }
  const ExhBlock& b = table[c.k];
  const Range& g = kExhRanges[b.range];
  const i128 P = product_of<i128>(primes_in(g.lo, g.hi));
  c.count("blocks.exhaustive.product" + zstr(P));
  std::vector<i128> as = {(i128)b.a};
  const std::string kind = "exhaustive a=" + std::to_string(b.a);
  if (b.cls == 1) shared_block(c, g, as, window(P), true, kind, 0);
  else if (b.cls == 2) ops_small_block(c, g, as, range_vals(0, 3 * P), range_vals(0, 3 * P), kind, 0);
  else {
    std::vector<i128> bs = window(P);
    switch (b.range) {
      case 0: static_block<2, 2>(c, as, bs, kind, 0); break;
      case 1: static_block<2, 3>(c, as, bs, kind, 0); break;
      case 2: static_block<3, 5>(c, as, bs, kind, 0); break;
      case 3: static_block<4, 6>(c, as, bs, kind, 0); break;
      case 4: static_block<2, 5>(c, as, bs, kind, 0); break;
      case 5: static_block<5, 7>(c, as, bs, kind, 0); break;
      case 6: static_block<8, 12>(c, as, bs, kind, 0); break;
      case 7: static_block<3, 7>(c, as, bs, kind, 0); break;
      case 8: static_block<2, 7>(c, as, bs, kind, 0); break;
    }
  }
}

// ---------------------------------------------------------------------------------------- fixed compile-time ranges
void fixed_case(vh::Case& c) {
  const int kN = 13;
  int which = (int)(c.k % kN);
  uint64_t salt = c.rng.next();
  Range g;
  switch (which) {
    case 0: g = {5, 13}; break; case 1: g = {2, 13}; break; case 2: g = {2, 23}; break; case 3: g = {3, 30}; break;
    case 4: g = {65519, 65521}; break; case 5: g = {7, 10}; break; case 6: g = {24, 30}; break; case 7: g = {65521, 65535}; break;
    case 8: g = {46337, 46340}; break; case 9: g = {2, 19}; break; case 10: g = {13, 23}; break; case 11: g = {11, 11}; break; default: g = {251, 257}; break;
  }
  std::vector<uint64_t> primes = primes_in(g.lo, g.hi);
  const i128 P = product_of<i128>(primes);
  std::vector<i128> vals = directed_values(P, primes, c.rng, 40);
  const std::string kind = "fixed_range";
  switch (which) {
    case 0: static_block<5, 13>(c, vals, vals, kind, salt); break;
    case 1: static_block<2, 13>(c, vals, vals, kind, salt); break;
    case 2: static_block<2, 23>(c, vals, vals, kind, salt); break;
    case 3: static_block<3, 30>(c, vals, vals, kind, salt); break;
    case 4: static_block<65519, 65521>(c, vals, vals, kind, salt); break;
    case 5: static_block<7, 10>(c, vals, vals, kind, salt); break;
    case 6: static_block<24, 30>(c, vals, vals, kind, salt); break;
    case 7: static_block<65521, 65535>(c, vals, vals, kind, salt); break;
    case 8: static_block<46337, 46340>(c, vals, vals, kind, salt); break;
    case 9: static_block<2, 19>(c, vals, vals, kind, salt); break;
    case 10: static_block<13, 23>(c, vals, vals, kind, salt); break;
    case 11: static_block<11, 11>(c, vals, vals, kind, salt); break;
    default: static_block<251, 257>(c, vals, vals, kind, salt); break;
  }
}

// ---------------------------------------------------------------------------------------- run-time classes, random / all ranges
// all sets of >= 2 consecutive primes whose product is < 2^32, as (first prime, last prime), ordered by first prime
struct PSet { uint32_t first, last; uint64_t product; };
const std::vector<PSet>& all_sets() {
  static const std::vector<PSet> sets = [] {
    std::vector<uint32_t> pr;
    for (uint32_t n = 2; n < 65600; ++n) if (is_prime_naive(n)) pr.push_back(n);
    std::vector<PSet> s;
    for (size_t i = 0; i < pr.size(); ++i) {
      uint64_t prod = pr[i];
      for (size_t j = i + 1; j < pr.size(); ++j) {
        prod *= pr[j];
        if (prod > (uint64_t)UINT_MAX) break;
        s.push_back({pr[i], pr[j], prod});
      }
    }
    return s;
  }();
  return sets;
}
// [min, max] with the same primes as [first, last]: the end points need not be prime
Range loosen(vh::Rng& r, uint32_t first, uint32_t last) {
  uint64_t pp = prev_prime_before(first), np = next_prime_after(last);
  long lo = (long)first - (long)r.below(first - pp), hi = (long)last + (long)r.below(np - last);
  if (r.chance(1, 2)) lo = first;
  if (r.chance(1, 2)) hi = last;
  return {lo, hi};
}
void run_time_range_block(vh::Case& c, const Range& g, i128 P, const std::vector<uint64_t>& primes, const std::string& kind, int nvals) {
  uint64_t salt = c.rng.next();
  std::vector<i128> vals = directed_values(P, primes, c.rng, nvals);
  // The operator class documents "product^2 fits an unsigned int" but only its fused methods are marked "not overflow
  // safe"; its other methods are written overflow-safe and the repository's own test drives them with the range [3,30]
  // (product 3234846615), so they are checked for every product that fits the element type (the property's quantifier);
  // the fused methods too, on reduced operands (they used to be checked only within the documented bound, which is narrower
  // than the property: "every ... fused operation on reduced operands equals the exact result reduced").
  bool ops_fused_ok = true;
  bool use_ops = c.rng.chance(1, 2);
  if (use_ops) {
    ops_small_block(c, g, vals, vals, {}, kind, salt);
    if (P > kOpsMaxProduct) c.count("state.ops_class_product_above_2^16");
    if (P > ((i128)1 << 31)) c.count("state.ops_class_product_above_2^31");
    if (ops_fused_ok) {
      std::vector<i128> red = reduced_only(vals, P);
      if (red.size() > 40) red.resize(40);
      ops_small_block(c, g, red, red, red, kind + "_fused", salt);
    }
  } else {
    shared_block(c, g, vals, vals, false, kind, salt);
  }
}
void all_ranges_case(vh::Case& c) {
  const std::vector<PSet>& sets = all_sets();
  // thorough: case k = k-th set (complete enumeration); quick: a seeded sample
  size_t idx = c.thorough ? (size_t)c.k : (size_t)c.rng.below(sets.size());
  if (idx >= sets.size()) { c.count("skip.beyond_exhaustive_table"); return; }
  const PSet& s = sets[idx];
  Range g = c.thorough && !c.rng.chance(1, 3) ? Range{(long)s.first, (long)s.last} : loosen(c.rng, s.first, s.last);
  std::vector<uint64_t> primes = primes_in(s.first, s.last);
  c.count("blocks.range_sets");
  run_time_range_block(c, g, (i128)s.product, primes, "all_ranges", 12);
}
void random_case(vh::Case& c) {
  vh::Rng& r = c.rng;
  // a single prime (any below 2^16, sometimes up to 2^31 for the element class) or a short run of small primes
  unsigned mode = (unsigned)r.below(10);
  Range g;
  if (mode < 3) { uint32_t p = (uint32_t)random_prime_below(r, mode == 0 ? 65536 : 2000); g = loosen(r, p, p); }
  else if (mode < 4) { uint32_t p = (uint32_t)random_prime_below(r, 1u << 31); g = {(long)p, (long)p}; }
  else {
    const std::vector<PSet>& sets = all_sets();
    // favour sets with many primes: they start with a small prime
    size_t idx;
    do { idx = (size_t)r.below(sets.size()); } while (sets[idx].first > 300 && !r.chance(1, 8));
    g = loosen(r, sets[idx].first, sets[idx].last);
  }
  std::vector<uint64_t> primes = primes_in(g.lo, g.hi);
  run_time_range_block(c, g, product_of<i128>(primes), primes, "random_range", 30);
}

// ---------------------------------------------------------------------------------------- refusal
void refuse_case(vh::Case& c) {
  static const Range fixed[] = {{0, 0}, {0, 1}, {1, 1}, {4, 4}, {6, 6}, {9, 9}, {15, 15}, {8, 10}, {14, 16}, {24, 28}, {90, 96}, {114, 126}, {7, 5}, {13, 2}, {1, 0},
                                {65535, 65535}, {65522, 65536}, {561, 561}, {1729, 1729}, {62745, 62745}, {25, 25}, {49, 49}, {1327 + 1, 1361 - 1}, {31398, 31468}};
  const int nfixed = (int)(sizeof fixed / sizeof fixed[0]);
  vh::Rng& r = c.rng;
  int form = (int)(c.k % 3);      // 0 operators.set_characteristic, 1 operators constructor, 2 Shared initialize
  long idx = c.k / 3;
  Range g;
  if (idx < nfixed) g = fixed[idx];
  else {
    unsigned mode = (unsigned)r.below(3);
    if (mode == 0) { long n; do { n = 4 + (long)r.below(100000); } while (is_prime_naive((uint64_t)n)); g = {n, n}; }        // [n,n], n composite
    else if (mode == 1) { long p = (long)random_prime_below(r, 60000); long q = (long)next_prime_after((uint64_t)p); if (q - p < 3) { p = 113; q = 127; } g = {p + 1, q - 1}; }  // a prime gap
    else { long a = 2 + (long)r.below(1000), b = (long)r.below((uint64_t)a); g = {a, b}; }                               // min > max
  }
  std::vector<uint64_t> primes = g.lo <= g.hi ? primes_in(g.lo, g.hi) : std::vector<uint64_t>();
  if (!primes.empty()) { c.count("skip.refuse_range_has_primes"); return; }
  const char* cls = form == 2 ? kShared : kOps;
  const char* why = g.lo > g.hi ? "min_above_max" : g.hi < 2 ? "not_greater_than_1" : g.lo == g.hi ? "single_composite" : "range_without_prime";
  std::string desc = std::string("refuse class=") + cls + " form=" + std::to_string(form) + " range=[" + std::to_string(g.lo) + "," + std::to_string(g.hi) + "]";
  c.log(desc);
  Rep R(c, cls, "range=[" + std::to_string(g.lo) + "," + std::to_string(g.hi) + "]");
  c.count(std::string("refuse.") + why);
  if (form == 0) { OpsSmall op; must_refuse(R, "set_characteristic" + R.fld, why, [&] { op.set_characteristic((int)g.lo, (int)g.hi); }); }
  else if (form == 1) must_refuse(R, "constructor" + R.fld, why, [&] { OpsSmall op((int)g.lo, (int)g.hi); (void)op; });
  else {
    must_refuse(R, "initialize" + R.fld, why, [&] { SharedSmall::initialize((unsigned)g.lo, (unsigned)g.hi); });
    SharedSmall::initialize(3, 5);
    SharedSmall x(7), y(4);
    C10_CHECK(R, K_MUL, (x * y).get_value() == 13 && SharedSmall::get_characteristic() == 15, "mul", "form=after_refusal", "class wrong after a refused initialize");
  }
  c.nontrivial(vh::hash_str(desc));
}

// ---------------------------------------------------------------------------------------- object state
// scenario 0: a REFUSED range on an object that already has a field (",refused_on_live_object"); 1: valid -> valid re-initialisation;
// 2 (operator class): move / swap / assignment followed by a use of the moved-to object.  Products within the documented bound.
void state_case(vh::Case& c) {
  static const Range good[] = {{2, 3}, {3, 5}, {2, 7}, {5, 7}, {3, 11}, {5, 13}, {7, 11}, {11, 13}, {2, 13}, {13, 13}, {251, 251}, {101, 103}, {4, 6}, {8, 12}, {24, 30}};
  static const Range bad[] = {{8, 10}, {14, 16}, {24, 28}, {4, 4}, {9, 9}, {0, 1}, {1, 1}, {7, 5}, {90, 96}, {0, 0}, {114, 126}, {25, 25}, {32, 36}};
  vh::Rng& r = c.rng;
  const int scenario = (int)(c.k % 3);
  const bool ops = scenario == 2 || ((c.k / 3) % 2) == 0;
  const Range g1 = good[r.below(15)];
  Range g2; do { g2 = good[r.below(15)]; } while (g2.lo == g1.lo && g2.hi == g1.hi);
  const Range gb = bad[r.below(13)];
  const char* const kScen[] = {"refused_on_live_object", "reinitialisation", "move_swap_assign"};
  auto rs = [](const Range& g) { return "[" + std::to_string(g.lo) + "," + std::to_string(g.hi) + "]"; };
  const char* cls = ops ? kOps : kShared;
  std::string desc = std::string("state scenario=") + kScen[scenario] + " class=" + cls + " range1=" + rs(g1) + (scenario == 0 ? " refused=" + rs(gb) : " range2=" + rs(g2));
  c.log(desc);
  Rep R(c, cls, "range1=" + rs(g1) + (scenario == 0 ? " refused=" + rs(gb) : " range2=" + rs(g2)));
  c.count(std::string("class.") + cls);
  c.count(std::string("state.scenario.") + kScen[scenario]);
  auto field_blk = [&](OpsSmall* op, const Range& g) {
    std::vector<uint64_t> primes = primes_in(g.lo, g.hi);
    const i128 P = product_of<i128>(primes);
    c.log("block in " + rs(g));
    std::vector<i128> red = reduced_boundary(P, r, 6);
    for (i128 x : partial_operands<i128>(primes, P, r, 2)) if (red.size() < 24) red.push_back(x);
    std::sort(red.begin(), red.end());
    std::vector<i128> Qs = subproducts<i128>(primes, r, 4);
    if (op) ops_block<OpsSmall, unsigned int>(R, *op, P, primes, red, red, red, Qs, (i128)UINT_MAX, false);
    else elem_block<SharedSmall, false>(R, P, primes, red, red, Qs);
  };
  if (scenario == 2) {
    R.sfx = ",after=move_swap_assign";
    ops_move_swap_assign<OpsSmall>(g1, g2, [&](OpsSmall& op, const Range& g) { c.log("set_characteristic " + rs(g)); op.set_characteristic((int)g.lo, (int)g.hi); },
                                   [&](OpsSmall& op, const Range& g) { field_blk(&op, g); });
    finish_block(c, R, desc, r.next());
    return;
  }
  OpsSmall op;
  auto init = [&](const Range& g) { c.log("init " + rs(g)); if (ops) op.set_characteristic((int)g.lo, (int)g.hi); else SharedSmall::initialize((unsigned)g.lo, (unsigned)g.hi); };
  auto blk = [&](const Range& g) { field_blk(ops ? &op : nullptr, g); };
  init(g1);
  blk(g1);
  if (scenario == 1) {
    R.sfx = ",after=reinitialisation";
    init(g2); blk(g2);
    init(g1); blk(g1);
  } else {
    must_refuse(R, "second initialisation with " + rs(gb), "live_object", [&] { init(gb); });
    R.sfx = ",refused_on_live_object";
    const i128 P1 = product_of<i128>(primes_in(g1.lo, g1.hi));
    i128 got = ops ? (i128)op.get_characteristic() : (i128)SharedSmall::get_characteristic();
    C10_CHECKV(R, i128, K_CHARACTERISTIC, got == P1, "characteristic", C10_NIL(i128), C10_NIL(i128), C10_NIL(i128), &got, &P1, "announced_after_refusal");
    if (got != P1) return;
    blk(g1);
  }
  finish_block(c, R, desc, r.next());
}

// ---------------------------------------------------------------------------------------- range end points
// minimum below 2 (negative in the int interface of the operator class): "The characteristics will be all prime numbers in the given
// interval".  Every initialisation first runs in a forked child under a CPU watchdog.
struct Bound { int cls; long lo, hi; };   // cls 0 operators.set_characteristic, 1 operators constructor, 2 shared element
void bounds_case(vh::Case& c) {
  static const Bound table[] = {{0, -5, 7}, {0, 0, 2}, {0, -1, 2}, {0, INT_MIN, 3}, {0, 1, 7}, {0, 0, 13}, {1, -5, 7}, {1, 0, 2}, {1, INT_MIN, 5}, {2, 0, 2}, {2, 1, 7}, {2, 0, 13}};
  const Bound& b = table[c.k % 12];
  vh::Rng& r = c.rng;
  Range g{b.lo, b.hi};
  std::vector<uint64_t> primes = primes_in(g.lo, g.hi);
  const i128 P = product_of<i128>(primes);
  const char* cls = b.cls == 2 ? kShared : kOps;
  uint64_t salt = r.next();
  std::string desc = std::string("range_bounds class=") + cls + " form=" + std::to_string(b.cls) + " " + rdesc(g, primes, P) + " salt=" + std::to_string(salt);
  c.log(desc);
  Rep R(c, cls, rdesc(g, primes, P));
  R.sfx = ",minimum=below_2";
  c.count(std::string("class.") + cls);
  c.count("bounds.minimum_below_2");
  std::vector<i128> red = reduced_boundary(P, r, 8);
  std::vector<i128> Qs = subproducts<i128>(primes, r, 6);
  const std::string call = std::string(cls) + " with [" + std::to_string(b.lo) + "," + std::to_string(b.hi) + "]";
  if (b.cls <= 1) {
    OpsSmall op;
    if (!guarded_init(R, 4, b.cls == 0 ? "set_characteristic" : "constructor", call, [&] {
          if (b.cls == 0) op.set_characteristic((int)b.lo, (int)b.hi); else { OpsSmall o2((int)b.lo, (int)b.hi); op = o2; } })) return;
    i128 got = op.get_characteristic();
    C10_CHECKV(R, i128, K_CHARACTERISTIC, got == P, "characteristic", C10_NIL(i128), C10_NIL(i128), C10_NIL(i128), &got, &P, "product_of_the_primes_of_the_range");
    if (got != P) return;
    ops_block<OpsSmall, unsigned int>(R, op, P, primes, red, red, red, Qs, (i128)UINT_MAX, false);
  } else {
    if (!guarded_init(R, 4, "initialize", call, [&] { SharedSmall::initialize((unsigned)b.lo, (unsigned)b.hi); })) return;
    i128 got = SharedSmall::get_characteristic();
    C10_CHECKV(R, i128, K_CHARACTERISTIC, got == P, "characteristic", C10_NIL(i128), C10_NIL(i128), C10_NIL(i128), &got, &P, "product_of_the_primes_of_the_range");
    if (got != P) return;
    elem_block<SharedSmall, false>(R, P, primes, red, red, Qs);
  }
  finish_block(c, R, desc, salt);
}

}  // namespace

VH_CONFIG("ms_bounds", bounds_case);
VH_CONFIG("ms_state", state_case);
VH_CONFIG("ms_exhaustive", exh_case);
VH_CONFIG("ms_fixed", fixed_case);
VH_CONFIG("ms_all_ranges", all_ranges_case);
VH_CONFIG("ms_random", random_case);
VH_CONFIG("ms_refuse", refuse_case);
VH_MAIN()

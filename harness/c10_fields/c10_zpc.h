// C10 — compile-time Zp_field_element<p>: shared template code of the two translation units.
#ifndef VERIF_C10_ZPC_H_
#define VERIF_C10_ZPC_H_
#include <climits>
#include <array>
#include <gudhi/Fields/Zp_field.h>
#include "c10_common.h"

namespace c10 {

template <unsigned p>
inline void zpc_block(vh::Case& c, const std::string& desc, const std::vector<i128>& as, const std::vector<i128>& bs, uint64_t salt, int nrandom_pairs) {
  typedef Gudhi::persistence_fields::Zp_field_element<p> F;
  c.log(desc);
  Rep R(c, "Zp_field_element", "p=" + std::to_string(p));
  c.count("class.Zp_field_element");
  const i128 P = p;
  const std::vector<uint64_t> primes = {p};
  for (i128 a : as) {
    elem_unary<F, false>(R, P, primes, a, {});
    for (i128 b : bs) elem_binary<F, false>(R, P, a, b);
  }
  for (int i = 0; i < nrandom_pairs; ++i) {
    i128 a = (i128)c.rng.below(p);
    elem_binary<F, false>(R, P, a, (i128)(long)c.rng.next());
    elem_unary<F, false>(R, P, primes, a, {});   // inverse of a random residue (lazily filled static table)
  }
  elem_constants<F>(R, P, primes, {});
  finish_block(c, R, desc, salt);
}

}  // namespace c10
#endif

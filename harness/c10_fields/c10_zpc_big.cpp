// C10 — Zp_field_element<p>, boundary-directed and random operands for primes up to 2^16 (one instantiation per prime).
#include "c10_zpc.h"
using namespace c10;
namespace {
const unsigned kPrimes[] = {251, 257, 32749, 46337, 65519, 65521, 2, 3, 13, 127, 8191};
void boundary_case(vh::Case& c) {
  unsigned p = kPrimes[c.k % (sizeof kPrimes / sizeof kPrimes[0])];
  uint64_t salt = c.rng.next();
  std::string desc = "boundary class=Zp_field_element p=" + std::to_string(p) + " operands=boundary+random salt=" + std::to_string(salt);
  std::vector<i128> vals = boundary_values(p, {p}, c.rng, 60);
  if (p >= 32749) c.count("blocks.prime_ge_32749");
  const int nr = c.thorough ? 20000 : 3000;
  switch (p) {
#define C10_P(p) case p: zpc_block<p>(c, desc, vals, vals, salt, nr); break;
    C10_P(251) C10_P(257) C10_P(32749) C10_P(46337) C10_P(65519) C10_P(65521) C10_P(2) C10_P(3) C10_P(13) C10_P(127) C10_P(8191)
#undef C10_P
  }
}
}  // namespace
VH_CONFIG("zpc_boundary", boundary_case);

// C10 — compile-time Zp_field_element<p, E> for E = unsigned long / unsigned short / unsigned char, and the default element type with
// the narrow / widest integer types (see c10_types.h).
#include "c10_types.h"
#include <gudhi/Fields/Zp_field.h>

using namespace c10;
using Gudhi::persistence_fields::Zp_field_element;

namespace {

// ---------------------------------------------------------------------------------------- Zp_field_element<p, E>
// With a non-default E the members get_inverse / get_partial_inverse / get_*_identity do not compile (they name Zp_field_element<p>):
// constructors, conversions, operators and comparisons are exercised (kLimited).
template <unsigned p, class E>
void static_typed(vh::Case& c) {
  typedef Zp_field_element<p, E> F;
  vh::Rng& r = c.rng;
  const i128 P = p;
  uint64_t salt = r.next();
  std::string desc = std::string("element_type class=Zp_field_element<") + std::to_string(p) + "," + kEtyName[ety<E>()] + "> salt=" + std::to_string(salt);
  c.log(desc);
  Rep R(c, "Zp_field_element", "p=" + std::to_string(p) + " element type " + kEtyName[ety<E>()]);
  set_sig_style<E>(R);
  c.count("class.Zp_field_element"); count_ety<E>(c, P);
  const std::vector<uint64_t> primes = {p};
  std::vector<i128> vals = typed_values<E>(P, primes, r, 40);
  constexpr bool kLimited = !std::is_same_v<E, unsigned int>;
  elem_block<F, false, kLimited>(R, P, primes, vals, vals, {});
  for (int i = 0; i < 3000; ++i) { i128 a = (i128)r.below(p); elem_binary<F, false>(R, P, a, (i128)r.below(p)); elem_binary<F, false>(R, P, a, (i128)(long)r.next()); }
  if (kLimited) c.count("types.limited_api_compile_time_class");
  finish_block(c, R, desc, salt);
}

struct CtBlock { Ety e; unsigned p; };
void ct_case(vh::Case& c) {
  static const CtBlock t[] = {{E_ULONG, 7}, {E_USHORT, 65521}, {E_UCHAR, 251}, {E_UINT, 127}, {E_ULONG, 65521}, {E_USHORT, 32771}, {E_UCHAR, 7}, {E_UINT, 32749},
                              {E_ULONG, 251}, {E_USHORT, 257}, {E_UINT, 7}, {E_ULONG, 257}, {E_USHORT, 251}, {E_UINT, 251}, {E_ULONG, 32771}, {E_USHORT, 7}};
  const CtBlock& b = t[c.k % 16];
#define C10_S(P, E) if (b.p == P && b.e == ety<E>()) { static_typed<P, E>(c); return; }
  C10_S(7, unsigned long) C10_S(251, unsigned long) C10_S(257, unsigned long) C10_S(32771, unsigned long) C10_S(65521, unsigned long)
  C10_S(7, unsigned short) C10_S(251, unsigned short) C10_S(257, unsigned short) C10_S(32771, unsigned short) C10_S(65521, unsigned short)
  C10_S(7, unsigned char) C10_S(251, unsigned char)
  C10_S(7, unsigned int) C10_S(127, unsigned int) C10_S(251, unsigned int) C10_S(32749, unsigned int)
#undef C10_S
  c.count("skip.no_such_instantiation");
}

}  // namespace

VH_CONFIG("ty_zp_ct", ct_case);

// C10 — Zp_field_element<p>, exhaustive operand windows for the small primes (one instantiation per prime).
#include "c10_zpc.h"
using namespace c10;
namespace {
struct Block { unsigned p; long a; };
const unsigned kExhPrimes[] = {2, 3, 5, 7, 11, 13, 17, 19, 23, 29, 31, 37, 41, 43, 47, 53, 59, 61};
std::vector<Block> make_table() {
  std::vector<Block> t;
  for (unsigned p : kExhPrimes) for (long a = -3L * p; a <= 3L * p; ++a) t.push_back({p, a});
  return t;
}
void exh_case(vh::Case& c) {
  static const std::vector<Block> table = make_table();
  if (c.k >= (long)table.size()) { c.count("skip.beyond_exhaustive_table"); return; }
  const Block& b = table[c.k];
  std::string desc = "exhaustive class=Zp_field_element p=" + std::to_string(b.p) + " a=" + std::to_string(b.a) + " b in window";
  c.count("blocks.exhaustive.p" + std::to_string(b.p));
  std::vector<i128> as = {(i128)b.a}, bs = window(b.p);
  switch (b.p) {
#define C10_P(p) case p: zpc_block<p>(c, desc, as, bs, 0, 0); break;
    C10_P(2) C10_P(3) C10_P(5) C10_P(7) C10_P(11) C10_P(13) C10_P(17) C10_P(19) C10_P(23) C10_P(29) C10_P(31) C10_P(37) C10_P(41) C10_P(43) C10_P(47) C10_P(53) C10_P(59) C10_P(61)
#undef C10_P
  }
}
}  // namespace
VH_CONFIG("zpc_exhaustive", exh_case);
VH_MAIN()

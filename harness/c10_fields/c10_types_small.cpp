// C10 — small multi-fields with E = unsigned long / unsigned short / unsigned char, the default element type with the narrow / widest
// integer types, and range end points of the shared class near 2^31 / 2^32 under a CPU watchdog (see c10_types.h).
#include "c10_types.h"
#include <gudhi/Fields/Multi_field_small.h>
#include <gudhi/Fields/Multi_field_small_shared.h>

using namespace c10;
using Gudhi::persistence_fields::Multi_field_element_with_small_characteristics;
using Gudhi::persistence_fields::Shared_multi_field_element_with_small_characteristics;

namespace {

// ---------------------------------------------------------------------------------------- small multi-fields
struct Range { unsigned long lo, hi; };
std::string rdesc(const Range& g, const std::vector<uint64_t>& primes, i128 P) {
  return "range=[" + std::to_string(g.lo) + "," + std::to_string(g.hi) + "] primes=" + range_str(primes) + " product=" + zstr(P);
}
std::vector<uint64_t> primes_of(const Range& g) {
  std::vector<uint64_t> r;
  for (unsigned long q = std::max(g.lo, 2ul); q <= g.hi; ++q) if (is_prime_naive(q)) r.push_back(q);
  return r;
}
std::vector<i128> small_values(i128 P, const std::vector<uint64_t>& primes, vh::Rng& r, i128 emax) {
  std::vector<i128> v = boundary_values(P, primes, r, 30);
  for (i128 x : partial_operands<i128>(primes, P, r, 6)) v.push_back(x);
  for (i128 d = -2; d <= 2; ++d) { v.push_back(emax + d); v.push_back(emax / 2 + d); }
  const i128 big = (i128)1 << 100;
  v.push_back(big + 1); v.push_back(-big - 1);
  return v;
}
// the shared class documents "productOfAllCharacteristics ^ 2 fits into the given Unsigned_integer_type": only such ranges are submitted
template <class E>
void small_shared_typed(vh::Case& c, const Range& g, const char* kind) {
  typedef Shared_multi_field_element_with_small_characteristics<E> F;
  vh::Rng& r = c.rng;
  std::vector<uint64_t> primes = primes_of(g);
  const i128 P = product_of<i128>(primes), emax = (i128)std::numeric_limits<E>::max();
  uint64_t salt = r.next();
  std::string desc = std::string(kind) + " class=Shared_multi_field_element_with_small_characteristics<" + kEtyName[ety<E>()] + "> " + rdesc(g, primes, P) + " salt=" + std::to_string(salt);
  c.log(desc);
  Rep R(c, "Shared_multi_field_element_with_small_characteristics", rdesc(g, primes, P) + " element type " + kEtyName[ety<E>()]);
  set_sig_style<E>(R);
  if (P * P > emax) { c.count("skip.square_of_product_exceeds_element_type"); return; }
  c.count("class.Shared_multi_field_element_with_small_characteristics"); count_ety<E>(c, P);
  if (primes.size() > 1) c.count("blocks.multi_prime_range");
  if (g.hi > (unsigned long)INT_MAX) c.count("bounds.range_end_above_2p31");
  if (!guarded_init(R, 4, "initialize", "Shared_multi_field_element_with_small_characteristics<" + std::string(kEtyName[ety<E>()]) + ">::initialize(" + std::to_string(g.lo) + "," + std::to_string(g.hi) + ")",
                    [&] { F::initialize((unsigned int)g.lo, (unsigned int)g.hi); })) return;
  std::vector<i128> vals = small_values(P, primes, r, emax);
  std::vector<i128> Qs = subproducts<i128>(primes, r, 12);
  elem_block<F, false>(R, P, primes, vals, vals, Qs);
  for (int i = 0; i < 1000; ++i) { i128 a = (i128)r.below((uint64_t)P); elem_binary<F, false>(R, P, a, (i128)r.below((uint64_t)P)); }
  finish_block(c, R, desc, salt);
}
// compile-time class: "the product of all characteristics fits into the given Unsigned_integer_type"; with a non-default element type
// the identities and the (partial) inverse do not compile (kLimited)
template <unsigned lo, unsigned hi, class E>
void small_static_typed(vh::Case& c) {
  typedef Multi_field_element_with_small_characteristics<lo, hi, E> F;
  vh::Rng& r = c.rng;
  Range g{lo, hi};
  std::vector<uint64_t> primes = primes_of(g);
  const i128 P = product_of<i128>(primes), emax = (i128)std::numeric_limits<E>::max();
  uint64_t salt = r.next();
  std::string desc = std::string("element_type class=Multi_field_element_with_small_characteristics<") + std::to_string(lo) + "," + std::to_string(hi) + "," + kEtyName[ety<E>()] + "> " + rdesc(g, primes, P) + " salt=" + std::to_string(salt);
  c.log(desc);
  Rep R(c, "Multi_field_element_with_small_characteristics", rdesc(g, primes, P) + " element type " + kEtyName[ety<E>()]);
  set_sig_style<E>(R);
  c.count("class.Multi_field_element_with_small_characteristics"); count_ety<E>(c, P);
  if (primes.size() > 1) c.count("blocks.multi_prime_range");
  std::vector<i128> vals = small_values(P, primes, r, emax);
  constexpr bool kLimited = !std::is_same_v<E, unsigned int>;
  std::vector<i128> Qs = subproducts<i128>(primes, r, 12);
  elem_block<F, false, kLimited>(R, P, primes, vals, vals, Qs);
  for (int i = 0; i < 1000; ++i) { i128 a = (i128)r.below((uint64_t)P); elem_binary<F, false>(R, P, a, (i128)r.below((uint64_t)P)); }
  if (kLimited) c.count("types.limited_api_compile_time_class");
  finish_block(c, R, desc, salt);
}

void small_case(vh::Case& c) {
  const int kN = 26;
  switch ((int)(c.k % kN)) {
    // shared class, unsigned long: products below 2^16, between 2^16 and 2^31, between 2^31 and 2^32 (the square still fits 64 bits)
    case 0: small_shared_typed<unsigned long>(c, {3, 7}, "element_type"); break;
    case 1: small_shared_typed<unsigned long>(c, {2, 13}, "element_type"); break;
    case 2: small_shared_typed<unsigned long>(c, {2, 23}, "element_type"); break;
    case 3: small_shared_typed<unsigned long>(c, {3, 29}, "element_type"); break;               // 3234846615
    case 4: small_shared_typed<unsigned long>(c, {65519, 65521}, "element_type"); break;        // 4292870399
    case 5: small_shared_typed<unsigned long>(c, {46337, 46349}, "element_type"); break;        // 2147673613 > 2^31
    // shared class, narrow element types: the square of the product fits
    case 6: small_shared_typed<unsigned short>(c, {3, 7}, "element_type"); break;               // 105
    case 7: small_shared_typed<unsigned short>(c, {2, 7}, "element_type"); break;               // 210
    case 8: small_shared_typed<unsigned short>(c, {251, 251}, "element_type"); break;
    case 9: small_shared_typed<unsigned char>(c, {3, 5}, "element_type"); break;                // 15
    case 10: small_shared_typed<unsigned char>(c, {13, 13}, "element_type"); break;
    // shared class, range end points near 2^31 / 2^32 (one prime each, so that the documented bound on the product holds for unsigned long)
    case 11: small_shared_typed<unsigned long>(c, {0, 2}, "range_bounds"); break;
    case 12: small_shared_typed<unsigned long>(c, {2147483647ul, 2147483647ul}, "range_bounds"); break;
    case 13: small_shared_typed<unsigned long>(c, {2147483659ul, 2147483659ul}, "range_bounds"); break;      // 2^31 + 11
    case 14: small_shared_typed<unsigned long>(c, {4294967280ul, 4294967294ul}, "range_bounds"); break;      // contains 4294967291
    case 15: small_shared_typed<unsigned long>(c, {4294967291ul, 4294967295ul}, "range_bounds"); break;      // maximum = UINT_MAX
    // compile-time class
    case 16: small_static_typed<3, 29, unsigned long>(c); break;     // 3234846615 < 2^32
    case 17: small_static_typed<2, 29, unsigned long>(c); break;     // 6469693230 > 2^32
    case 18: small_static_typed<2, 41, unsigned long>(c); break;     // 3.0e14
    case 19: small_static_typed<2, 47, unsigned long>(c); break;     // 6.1e17 < 2^63
    case 20: small_static_typed<3, 7, unsigned short>(c); break;     // 105
    case 21: small_static_typed<2, 13, unsigned short>(c); break;    // 30030
    case 22: small_static_typed<251, 257, unsigned short>(c); break; // 64507: twice the product exceeds the type
    case 23: small_static_typed<2, 7, unsigned char>(c); break;      // 210: twice the product exceeds the type
    case 24: small_static_typed<5, 13, unsigned int>(c); break;      // default element type, all integer types
    default: small_static_typed<2, 23, unsigned int>(c); break;
  }
}
// default element type of the shared small class with all integer types
void small_ext_case(vh::Case& c) {
  static const Range gs[] = {{3, 7}, {5, 13}, {2, 11}, {11, 11}, {127, 127}, {2, 5}, {32749, 32749}, {2, 13}};
  small_shared_typed<unsigned int>(c, gs[c.k % 8], "integer_types");
}

}  // namespace

VH_CONFIG("ty_small", small_case);
VH_CONFIG("ty_small_ext", small_ext_case);

// C10 (thread part) — 8 threads, each using only its own elements of the same field-element type concurrently.
// Built with ThreadSanitizer (variant "tsan", g++, no TBB).  The functional oracle runs in every thread as well.
#include <cassert>
#include <climits>
#include <array>
#include <atomic>
#include <thread>
#include <vector>
#include <gudhi/Fields/Zp_field.h>
#include <gudhi/Fields/Zp_field_shared.h>
#include <gudhi/Fields/Zp_field_operators.h>
#include <gudhi/Fields/Multi_field_small.h>
#include "c10_common.h"

using namespace c10;
using Gudhi::persistence_fields::Zp_field_element;
using Gudhi::persistence_fields::Shared_Zp_field_element;
using Gudhi::persistence_fields::Zp_field_operators;
using Gudhi::persistence_fields::Multi_field_element_with_small_characteristics;

namespace {

const int kThreads = 8;

struct Mismatch { std::string what; uint64_t x, y, got, want; };

// the per-thread workload on element type F over the modulus P (product of `primes`)
template <class F>
void worker(uint64_t P, bool prime_field, uint64_t common_seed, uint64_t own_seed, int nops, std::atomic<int>* gate, std::vector<Mismatch>* out, uint64_t* done) {
  gate->fetch_sub(1);
  while (gate->load() > 0) {}   // start together
  vh::Rng common(common_seed), own(own_seed);
  uint64_t n = 0;
  for (int i = 0; i < nops; ++i) {
    // the first operations use the same residues in every thread (same table slots touched at the same time)
    vh::Rng& r = i < nops / 2 ? common : own;
    uint64_t xv = r.below(P), yv = r.below(P);
    F x((unsigned int)xv), y((unsigned int)yv);
    F prod = x * y, sum = x + y;
    uint64_t wp = (uint64_t)(((unsigned __int128)xv * yv) % P), ws = (xv + yv) % P;
    if ((uint64_t)prod.get_value() != wp) out->push_back({"mul", xv, yv, (uint64_t)prod.get_value(), wp});
    if ((uint64_t)sum.get_value() != ws) out->push_back({"add", xv, yv, (uint64_t)sum.get_value(), ws});
    if (prime_field && xv != 0) {
      F inv = x.get_inverse();
      uint64_t iv = (uint64_t)inv.get_value();
      if (iv >= P || (uint64_t)(((unsigned __int128)iv * xv) % P) != 1) out->push_back({"inverse", xv, 0, iv, 0});
      F one = x * inv;
      if ((uint64_t)one.get_value() != 1) out->push_back({"x_times_inverse", xv, iv, (uint64_t)one.get_value(), 1});
    } else if (!prime_field) {
      auto pi = x.get_partial_inverse((unsigned int)P);
      uint64_t v = (uint64_t)pi.first.get_value(), T = (uint64_t)pi.second;
      uint64_t g = std::gcd(xv, P);   // P is square-free: T must be P/g, v = x^-1 mod T and v = 0 mod g
      if (T != P / g || v >= P || (v * xv) % T != 1 % T || v % g != 0) out->push_back({"partial_inverse", xv, T, v, 0});
    }
    ++n;
  }
  *done = n;
}
// operator objects: one per thread
void worker_ops(unsigned p, uint64_t own_seed, int nops, std::atomic<int>* gate, std::vector<Mismatch>* out, uint64_t* done) {
  gate->fetch_sub(1);
  while (gate->load() > 0) {}
  Zp_field_operators<> op(p);
  vh::Rng r(own_seed);
  uint64_t n = 0;
  for (int i = 0; i < nops; ++i) {
    unsigned xv = (unsigned)r.below(p), yv = (unsigned)r.below(p);
    unsigned got = op.multiply(xv, yv), want = (unsigned)(((uint64_t)xv * yv) % p);
    if (got != want) out->push_back({"ops.multiply", xv, yv, got, want});
    if (xv) { unsigned iv = op.get_inverse(xv); if (((uint64_t)iv * xv) % p != 1) out->push_back({"ops.inverse", xv, 0, iv, 0}); }
    ++n;
  }
  *done = n;
}

template <class F>
void run_threads(vh::Case& c, const char* cls, uint64_t P, bool prime_field, int nops) {
  std::string desc = std::string("threads=8 class=") + cls + " modulus=" + std::to_string(P) + " ops_per_thread=" + std::to_string(nops);
  c.log(desc);
  std::vector<std::vector<Mismatch>> out(kThreads);
  std::vector<uint64_t> done(kThreads, 0);
  std::atomic<int> gate(kThreads);
  uint64_t common_seed = c.rng.next();
  std::vector<uint64_t> seeds;
  for (int t = 0; t < kThreads; ++t) seeds.push_back(c.rng.next());
  std::vector<std::thread> th;
  for (int t = 0; t < kThreads; ++t) th.emplace_back(worker<F>, P, prime_field, common_seed, seeds[t], nops, &gate, &out[t], &done[t]);
  for (auto& t : th) t.join();
  uint64_t total = 0;
  for (int t = 0; t < kThreads; ++t) {
    total += done[t];
    for (const Mismatch& m : out[t]) {
      c.violation("threads.value", std::string("class=") + cls + ",op=" + m.what, desc + ": thread " + std::to_string(t) + " " + m.what + " x=" + std::to_string(m.x) + " y=" + std::to_string(m.y) +
                  " got=" + std::to_string(m.got) + " want=" + std::to_string(m.want));
      break;
    }
  }
  c.count(std::string("class.") + cls);
  c.count("threads.concurrent_runs");
  c.count("threads.operations", total);
  if (total >= (uint64_t)kThreads * 100) c.nontrivial(vh::hash_mix(vh::hash_str(desc), common_seed));
  c.sample("{\"run\":\"" + vh::jesc(desc) + "\"}");
}

void tsan_case(vh::Case& c) {
  // Workaround: with the runtime's SIGABRT handler installed, a ThreadSanitizer report under
  // TSAN_OPTIONS=abort_on_error=1 never terminates the process (the shard hangs instead of dying).
  // Restoring the default disposition lets the orchestrator see the death and attribute it to this case.
  signal(SIGABRT, SIG_DFL);
  const int nops = c.thorough ? 20000 : 4000;
  switch (c.k % 8) {
    case 0: run_threads<Zp_field_element<7>>(c, "Zp_field_element", 7, true, nops); break;
    case 1: run_threads<Zp_field_element<257>>(c, "Zp_field_element", 257, true, nops); break;
    case 2: run_threads<Zp_field_element<65521>>(c, "Zp_field_element", 65521, true, nops); break;
    case 3: run_threads<Zp_field_element<32749>>(c, "Zp_field_element", 32749, true, nops); break;
    case 4: Shared_Zp_field_element<>::initialize(251); run_threads<Shared_Zp_field_element<>>(c, "Shared_Zp_field_element", 251, true, nops); break;
    case 5: run_threads<Multi_field_element_with_small_characteristics<5, 13>>(c, "Multi_field_element_with_small_characteristics", 5005, false, nops); break;
    case 6: run_threads<Zp_field_element<2>>(c, "Zp_field_element", 2, true, nops); break;
    default: {
      std::string desc = "threads=8 class=Zp_field_operators (one object per thread) p=8191";
      c.log(desc);
      std::vector<std::vector<Mismatch>> out(kThreads);
      std::vector<uint64_t> done(kThreads, 0);
      std::atomic<int> gate(kThreads);
      std::vector<std::thread> th;
      std::vector<uint64_t> seeds;
      for (int t = 0; t < kThreads; ++t) seeds.push_back(c.rng.next());
      for (int t = 0; t < kThreads; ++t) th.emplace_back(worker_ops, 8191u, seeds[t], nops, &gate, &out[t], &done[t]);
      for (auto& t : th) t.join();
      uint64_t total = 0;
      for (int t = 0; t < kThreads; ++t) { total += done[t]; if (!out[t].empty()) c.violation("threads.value", "class=Zp_field_operators,op=" + out[t][0].what, desc + ": wrong value in thread " + std::to_string(t)); }
      c.count("class.Zp_field_operators"); c.count("threads.concurrent_runs"); c.count("threads.operations", total);
      c.nontrivial(vh::hash_mix(vh::hash_str(desc), seeds[0]));
    }
  }
}

}  // namespace

VH_CONFIG("threads", tsan_case);
VH_MAIN()

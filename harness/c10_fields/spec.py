import concurrent.futures as _cf
import os as _os
import subprocess as _sp

# ---- sizes of the deterministic block tables (must mirror the tables in the .cpp files; the harness counts
# ---- "skip.beyond_exhaustive_table" for any index past a table, and the floors below pin the block counts)
_P97 = [2, 3, 5, 7, 11, 13, 17, 19, 23, 29, 31, 37, 41, 43, 47, 53, 59, 61, 67, 71, 73, 79, 83, 89, 97]


def _zp_blocks(pmax):      # c10_zp.cpp: (3p+1) operator + (6p+1) shared-element + p Field_Zp blocks per prime, 13+7 Z_2 blocks
    return sum(10 * p + 2 for p in _P97 if p <= pmax) + 20


def _zpc_blocks(pmax):     # c10_zpc_small.cpp: 6p+1 blocks per prime
    return sum(6 * p + 1 for p in _P97 if p <= pmax)


_MS_PRODUCTS = [2, 6, 15, 5, 30, 35, 11, 105, 210]   # c10_msmall.cpp kExhRanges: 2(6P+1) + (3P+1) blocks each
_MG_PRODUCTS = [2, 6, 15, 30]                        # c10_mgmp.cpp kExhRanges: 3(6P+1) + P blocks each
_ms = lambda n: sum(15 * P + 3 for P in _MS_PRODUCTS[:n])
_mg = lambda n: sum(19 * P + 3 for P in _MG_PRODUCTS[:n])
_ALL_SETS = 6893           # runs of >= 2 consecutive primes with product < 2^32

ZPQ, ZPT = _zp_blocks(31), _zp_blocks(97)        # 1642, 10670
ZCQ, ZCT = _zpc_blocks(31), _zpc_blocks(61)      # 971, 3024
MSQ, MST = _ms(7), _ms(9)                        # 1581, 6312
MGQ, MGT = _mg(3), _mg(4)                        # 446, 1019

# ---- optional auxiliary evidence: compile-time refusals (static_assert) checked by negative compile probes
_PROBES = [
    # (name, must_compile, code)
    ("control_Zp_5", True, "#include <gudhi/Fields/Zp_field.h>\nGudhi::persistence_fields::Zp_field_element<5> x(3);"),
    ("Zp_0", False, "#include <gudhi/Fields/Zp_field.h>\nGudhi::persistence_fields::Zp_field_element<0> x(3);"),
    ("Zp_1", False, "#include <gudhi/Fields/Zp_field.h>\nGudhi::persistence_fields::Zp_field_element<1> x(3);"),
    ("Zp_4", False, "#include <gudhi/Fields/Zp_field.h>\nGudhi::persistence_fields::Zp_field_element<4> x(3);"),
    ("Zp_9", False, "#include <gudhi/Fields/Zp_field.h>\nGudhi::persistence_fields::Zp_field_element<9> x;"),
    ("Zp_65535", False, "#include <gudhi/Fields/Zp_field.h>\nGudhi::persistence_fields::Zp_field_element<65535> x(3);"),
    ("Zp_561", False, "#include <gudhi/Fields/Zp_field.h>\nGudhi::persistence_fields::Zp_field_element<561> x(3);"),
    ("control_small_5_13", True, "#include <gudhi/Fields/Multi_field_small.h>\nGudhi::persistence_fields::Multi_field_element_with_small_characteristics<5,13> x(3);"),
    ("small_4_4", False, "#include <gudhi/Fields/Multi_field_small.h>\nGudhi::persistence_fields::Multi_field_element_with_small_characteristics<4,4> x(3);"),
    ("small_8_10", False, "#include <gudhi/Fields/Multi_field_small.h>\nGudhi::persistence_fields::Multi_field_element_with_small_characteristics<8,10> x(3);"),
    ("small_7_5", False, "#include <gudhi/Fields/Multi_field_small.h>\nGudhi::persistence_fields::Multi_field_element_with_small_characteristics<7,5> x(3);"),
    ("small_0_1", False, "#include <gudhi/Fields/Multi_field_small.h>\nGudhi::persistence_fields::Multi_field_element_with_small_characteristics<0,1> x;"),
    ("gmp_4_4", False, "#include <gudhi/Fields/Multi_field.h>\nGudhi::persistence_fields::Multi_field_element<4,4> x(3);"),
    ("gmp_7_5", False, "#include <gudhi/Fields/Multi_field.h>\nGudhi::persistence_fields::Multi_field_element<7,5> x(3);"),
    ("gmp_0_1", False, "#include <gudhi/Fields/Multi_field.h>\nGudhi::persistence_fields::Multi_field_element<0,1> x;"),
]


# (name, minimum, maximum, expected output "product 5*5 (5*-3+5 mod product) % 1000")
_RUN_PROBES = [
    ("control_gmp_static_5_13", "5", "13", "5005 25 995"),
    ("gmp_static_4294967280_4294967294", "4294967280", "4294967294", "4294967291 25 281"),   # one prime: 4294967291
    ("gmp_static_2147483659_2147483659", "2147483659", "2147483659", "2147483659 25 649"),   # the prime 2^31 + 11
]


def _extra(ctx):
    """Negative compile probes: a non-prime compile-time characteristic must be rejected by the compiler.
    Auxiliary evidence only (not a run-time observation); an accepted probe is reported as a violation of kind 'refuse'."""
    d = _os.path.join(ctx["build"], "c10_probes")
    _os.makedirs(d, exist_ok=True)

    def one(pr):
        name, must_compile, code = pr
        src = _os.path.join(d, name + ".cpp")
        with open(src, "w") as f:
            f.write("#include <climits>\n#include <array>\n" + code + "\nint main() { return 0; }\n")
        cmd = ["clang++-14", "-std=gnu++17", "-fsyntax-only", "-DNDEBUG"] + ctx["includes"] + [src]
        p = _sp.run(cmd, stdout=_sp.PIPE, stderr=_sp.STDOUT)
        out = p.stdout.decode("utf-8", "replace")
        return name, must_compile, p.returncode == 0, ("static_assert" in out or "static assertion" in out), out[-600:]

    with _cf.ThreadPoolExecutor(max_workers=4) as ex:
        res = list(ex.map(one, _PROBES))
    info = {}
    for i, (name, must_compile, compiled, by_static_assert, tail) in enumerate(res):
        info[name] = {"must_compile": must_compile, "compiled": compiled, "rejected_by_static_assert": by_static_assert}
        bad = None
        if must_compile and not compiled:
            raise RuntimeError("C10 compile probe control %s does not compile:\n%s" % (name, tail))
        if not must_compile and compiled:
            bad = "non-prime compile-time characteristic accepted by the compiler"
        elif not must_compile and not by_static_assert:
            bad = "rejected, but not by the documented static_assert"
        if bad:
            ctx["agg"]["viol"].append({"kind": "oracle", "unit": "compile_probe", "config": "compile_probe", "case": i,
                                       "check": "refuse.compile_time", "sig": "probe=" + name, "detail": bad + "\n" + tail,
                                       "history": name})
    ctx["info"]["compile_probes"] = info
    ctx["agg"]["counters"]["probe.compile_time_refusals"] = sum(1 for v in info.values() if not v["must_compile"] and not v["compiled"])

    # Run probes: compile-time GMP ranges whose end points lie above 2^31.  Their prime list is built by a static initialiser, so a
    # scan that never ends would hang a harness binary before its first case: each one is a program of its own, run under a timeout.
    def run_one(pr):
        name, lo, hi, want = pr
        src = _os.path.join(d, name + ".cpp")
        exe = _os.path.join(d, name + ".bin")
        with open(src, "w") as f:
            f.write("#include <climits>\n#include <iostream>\n#include <gudhi/Fields/Multi_field.h>\n"
                    "int main() { typedef Gudhi::persistence_fields::Multi_field_element<%su, %su> F; F x(mpz_class(5)), y(mpz_class(-3));\n"
                    "  std::cout << F::get_characteristic() << ' ' << (x * x).get_value() << ' ' << (x * y + x).get_value() %% 1000 << std::endl; return 0; }\n" % (lo, hi))
        p = _sp.run(["clang++-14", "-std=gnu++17", "-O1", "-DNDEBUG"] + ctx["includes"] + [src, "-o", exe, "-lgmpxx", "-lgmp"], stdout=_sp.PIPE, stderr=_sp.STDOUT)
        if p.returncode != 0:
            return name, "does_not_compile", p.stdout.decode("utf-8", "replace")[-600:]
        try:
            q = _sp.run([exe], stdout=_sp.PIPE, stderr=_sp.STDOUT, timeout=10)
        except _sp.TimeoutExpired:
            return name, "never_returns", "no result within 10 s"
        out = q.stdout.decode("utf-8", "replace").strip()
        return name, ("ok" if q.returncode == 0 and out == want else "wrong"), out[-300:]

    with _cf.ThreadPoolExecutor(max_workers=3) as ex:
        rres = list(ex.map(run_one, _RUN_PROBES))
    rinfo = {}
    for i, (name, verdict, tail) in enumerate(rres):
        rinfo[name] = verdict
        if verdict == "ok":
            continue
        if name.startswith("control"):
            raise RuntimeError("C10 run probe control %s: %s\n%s" % (name, verdict, tail))
        check, sig = {"never_returns": ("terminates", "form=static_initialisation,never_returns"),
                      "does_not_compile": ("accept", "form=static_assert,valid_refused"),
                      "wrong": ("characteristic", "form=product_of_the_primes_of_the_range")}[verdict]
        ctx["agg"]["viol"].append({"kind": "oracle", "unit": "run_probe", "config": "run_probe", "case": i, "check": check,
                                   "sig": "class=Multi_field_element," + sig + ",maximum=above_2^31", "detail": name + ": " + verdict + "\n" + tail,
                                   "history": name})
    ctx["info"]["run_probes"] = rinfo
    ctx["agg"]["counters"]["probe.static_ranges_above_2p31"] = len(rres)


_GMP = ["-lgmpxx", "-lgmp"]

SPEC = {
    "property": "C10",
    "rule": "every public constructor / conversion / operator / named method of the 13 field classes is evaluated and compared with exact integer "
            "arithmetic (__int128, mpz_class for the GMP classes) reduced with the mathematical non-negative remainder modulo p or the product "
            "of the primes of the range; partial inverses are checked prime by prime against the statement (T = primes of Q where x is invertible, "
            "value = x^-1 mod each prime of T and 0 mod the other primes of the range). A case is a block: (class, prime or range, first operand) "
            "with the other operands running over the complete window [-3P,3P] (exhaustive configs, seed independent), or (class, prime / range) "
            "with boundary-directed + seeded random operands (0,1,P-1,P,kP+-d, machine-word limits INT_MIN..ULONG_MAX, multiples of the primes of "
            "the range, 2^100 for GMP), or one refused characteristic. non-trivial = block with >= 20 evaluations of which at least one needed a "
            "reduction / an inverse / a partial inverse (or, for refusals, a composite / prime-free range), distinct by hash(block description, seed salt). "
            "Unit 'types': the templated classes are also instantiated with the element types unsigned long / unsigned short / unsigned char at "
            "p in {7, 251, 257, 32771, 65521} (p <= max of the type) and small multi-field products 105 .. 6.1e17 (below / above 2^16, 2^31, 2^32), and the "
            "default element type is driven with short, unsigned short, signed / unsigned char, long long, unsigned long long and __int128 in every "
            "conversion / mixed operator (signatures carry ',element=<type>' resp. 'type=<integer type>'). Object state (configs *_state): "
            "init(valid), block, then (0) init(invalid) must throw and a reduced block is judged in the OLD field without re-initialising "
            "(signatures end in ',refused_on_live_object'), (1) init(other valid), block, init(first), block, (2) move construction / swap / "
            "copy and move assignment / copy construction of the three operator classes, each followed by a block on the moved-to object and a "
            "re-initialisation of the moved-from one. Range end points (configs *_bounds, ty_small): minimum below 2 and negative (int "
            "interfaces), maximum INT_MAX, 2^31+11, 4294967294, UINT_MAX (unsigned interfaces); every such initialisation (and every table "
            "construction of unit 'types') first runs in a forked child under a CPU-time limit, so that one that never returns is ONE violation "
            "(check 'terminates'); a valid range that is refused is check 'accept'; compile-time GMP ranges above 2^31 are separate programs run "
            "under a timeout (run probes)",
    "assumptions": [
        "documented preconditions respected: signed machine-integer operands are only passed in a type that can hold the characteristic; the fused "
        "methods of Zp_field_operators / Multi_field_operators_with_small_characteristics are documented 'not overflow safe': UNREDUCED triples "
        "are only judged when their exact value fits 32 bits, REDUCED triples are always judged (the property demands exactness on reduced "
        "operands for every accepted characteristic / range whose product fits the element type); partial-inverse arguments Q are "
        "sub-products of the range (Q >= 1)",
        "inverse of 0 in a single-prime field is not requested; (partial) inverses of the multi-field operator classes are requested for reduced operands only",
        "Field_Zp and pcoh::Multi_field receive reduced operands only (as the cohomology engine does); re-initialisation of a live object is "
        "exercised in zp_state / mg_state; pcoh::Multi_field never refuses (known finding), so 'refused on a live object' does not apply to it",
        "a prime above Field_Zp's documented maximum 46337 may either be refused or handled exactly",
        "element types other than unsigned int: unsigned long, unsigned short, unsigned char (run-time classes: all members; compile-time classes "
        "Zp_field_element<p,E> / Multi_field_element_with_small_characteristics<lo,hi,E>: constructors, conversions, operators, comparisons only, "
        "because get_inverse / get_partial_inverse / get_*_identity do not compile with a non-default element type); not exercised: "
        "Zp_field_element<p> with p > 2^31, small multi-field products in (2^63, 2^64), get_value / operator arguments of the operator classes "
        "that are wider than the element type (silently narrowed at the call); the shared small class only gets ranges whose squared product fits "
        "its element type (documented)",
        "a range whose minimum is below 2 (or negative) denotes the primes of [2, maximum] ('the characteristics will be all prime numbers in the "
        "given interval'); the watchdog limits (3 s + p^2 / 2e8 s of CPU for a table of size p, 4 s for a range scan) are ~3x what the "
        "repaired code needs under ASan",
        "trusted: the oracle in harness/c10_fields/c10_common.h (__int128 arithmetic, trial-division primes), GMP, libstdc++",
    ],
    "units": [
        {"name": "zp", "src": ["c10_zp.cpp"], "variant": "asan", "chunk": 1,
         "configs": {"zp_exhaustive": {"quick": ZPQ, "thorough": ZPT}, "zp_boundary": {"quick": 18, "thorough": 72},
                     "zp_random_prime": {"quick": 120, "thorough": 3000}, "zp_refuse": {"quick": 320, "thorough": 2000}, "zp_state": {"quick": 360, "thorough": 3600}}},
        {"name": "zpc", "src": ["c10_zpc_small.cpp", "c10_zpc_big.cpp"], "variant": "asan", "chunk": 1,
         "configs": {"zpc_exhaustive": {"quick": ZCQ, "thorough": ZCT}, "zpc_boundary": {"quick": 11, "thorough": 110}}},
        {"name": "msmall", "src": ["c10_msmall.cpp"], "variant": "asan", "chunk": 4,
         "configs": {"ms_exhaustive": {"quick": MSQ, "thorough": MST}, "ms_fixed": {"quick": 13, "thorough": 130},
                     "ms_all_ranges": {"quick": 300, "thorough": _ALL_SETS}, "ms_random": {"quick": 300, "thorough": 5000},
                     "ms_refuse": {"quick": 150, "thorough": 1000}, "ms_state": {"quick": 240, "thorough": 2400}, "ms_bounds": {"quick": 12, "thorough": 48}}},
        {"name": "mgmp", "src": ["c10_mgmp.cpp"], "variant": "asan", "libs": _GMP, "chunk": 4,
         "configs": {"mg_exhaustive": {"quick": MGQ, "thorough": MGT}, "mg_fixed": {"quick": 40, "thorough": 400},
                     "mg_random": {"quick": 200, "thorough": 3000}, "mg_refuse": {"quick": 160, "thorough": 1000}, "mg_state": {"quick": 210, "thorough": 2100},
                     "mg_bounds": {"quick": 22, "thorough": 88}}},
        {"name": "types", "src": ["c10_types_rt.cpp", "c10_types_ct.cpp", "c10_types_small.cpp"], "variant": "asan", "chunk": 1,
         "configs": {"ty_zp_rt": {"quick": 32, "thorough": 64}, "ty_zp_ct": {"quick": 16, "thorough": 64}, "ty_small": {"quick": 26, "thorough": 104},
                     "ty_small_ext": {"quick": 8, "thorough": 32}}},
        {"name": "threads", "src": ["c10_tsan.cpp"], "variant": "tsan", "chunk": 2,
         "configs": {"threads": {"quick": 16, "thorough": 64}}},
        # thorough only: the bulk of the exhaustive sub-spaces again under -O2 + UBSan (other code generation, signed overflow / shift checks)
        {"name": "zp_u", "src": ["c10_zp.cpp"], "variant": "ubsan", "chunk": 1, "tiers": ["thorough"],
         "configs": {"zp_exhaustive": {"thorough": ZPT}, "zp_boundary": {"thorough": 36}, "zp_random_prime": {"thorough": 2000}}},
        {"name": "zpc_u", "src": ["c10_zpc_small.cpp", "c10_zpc_big.cpp"], "variant": "ubsan", "chunk": 1, "tiers": ["thorough"],
         "configs": {"zpc_exhaustive": {"thorough": ZCT}, "zpc_boundary": {"thorough": 44}}},
        {"name": "msmall_u", "src": ["c10_msmall.cpp"], "variant": "ubsan", "chunk": 4, "tiers": ["thorough"],
         "configs": {"ms_exhaustive": {"thorough": MST}, "ms_all_ranges": {"thorough": _ALL_SETS}, "ms_random": {"thorough": 5000}, "ms_fixed": {"thorough": 52}}},
        {"name": "mgmp_u", "src": ["c10_mgmp.cpp"], "variant": "ubsan", "libs": _GMP, "chunk": 4, "tiers": ["thorough"],
         "configs": {"mg_exhaustive": {"thorough": MGT}, "mg_fixed": {"thorough": 200}, "mg_random": {"thorough": 2000}}},
        {"name": "types_u", "src": ["c10_types_rt.cpp", "c10_types_ct.cpp", "c10_types_small.cpp"], "variant": "ubsan", "chunk": 1, "tiers": ["thorough"],
         "configs": {"ty_zp_rt": {"thorough": 32}, "ty_zp_ct": {"thorough": 32}, "ty_small": {"thorough": 52}, "ty_small_ext": {"thorough": 16}}},
    ],
    "floors": {
        "quick": {
            # deterministic exhaustive tables: exact block counts (a lost block would void the 'exhaustive' note)
            "blocks.exhaustive.p31": 499, "blocks.exhaustive.p2": 55, "blocks.exhaustive.product35": 528, "blocks.exhaustive.product15": 516,
            # every class of the property is exercised
            "class.Z2_field_element": 14, "class.Z2_field_operators": 8, "class.Zp_field_element": 900, "class.Shared_Zp_field_element": 900,
            "class.Zp_field_operators": 450, "class.Field_Zp": 150, "class.Multi_field_element": 100, "class.Shared_multi_field_element": 120,
            "class.Multi_field_operators": 150, "class.Multi_field_element_with_small_characteristics": 600,
            "class.Shared_multi_field_element_with_small_characteristics": 900, "class.Multi_field_operators_with_small_characteristics": 300,
            "class.pcoh::Multi_field": 50,
            # operation kinds
            "op.convert.int": 45000, "op.convert.long": 55000, "op.convert.uint": 40000, "op.convert.ulong": 40000, "op.convert.big": 4000,
            "op.add": 1500000, "op.sub": 1500000, "op.mul": 1500000, "op.add_mixed": 25000000, "op.sub_mixed": 25000000, "op.mul_mixed": 25000000,
            "op.inplace": 45000000, "op.fused.mul_add": 13000000, "op.fused.add_mul": 13000000, "op.cmp": 1500000, "op.cmp_mixed": 14000000,
            "op.inverse": 140000, "op.partial_inverse": 350000, "op.partial_identity": 30000, "op.get_value": 12000,
            "op.coh.plus_times_equal": 600000, "op.coh.times_minus": 60000, "op.refuse": 330,
            # state classes named by why_tests_cant: operands p-1, negative / below -p, unreduced, word-wrapping sums, primes near 2^16, one-prime ranges
            "state.negative_operand": 18000, "state.operand_below_minus_p": 12000, "state.operand_ge_p": 14000, "state.operand_p_minus_1": 3000,
            "state.result_needed_reduction": 1800000, "state.sum_wraps_uint32": 100000, "state.fused_exact_above_2p31": 400000,
            "state.partial_inverse_some_primes": 70000, "state.partial_inverse_no_prime": 80000, "state.partial_proper_subproduct": 250000,
            "blocks.prime_ge_32749": 15, "blocks.product_above_2p31": 40, "blocks.product_above_64_bits": 60, "blocks.multi_prime_range": 1200,
            "refuse.composite": 150, "refuse.range_without_prime": 50, "refuse.single_composite": 50, "refuse.not_greater_than_1": 15,
            "refuse.prime_above_documented_maximum": 2,
            "threads.concurrent_runs": 16, "probe.compile_time_refusals": 13,
            # element-type / integer-type instantiations (unit types), object-state scenarios, range end points
            "types.element_ulong": 15, "types.element_ushort": 10, "types.element_uchar": 4, "types.element_uint": 11,
            "types.twice_modulus_exceeds_element_type": 5, "types.modulus_above_2p32": 2, "types.limited_api_compile_time_class": 10,
            "op.convert.short": 2500, "op.convert.ushort": 2300, "op.convert.schar": 800, "op.convert.uchar": 1300, "op.convert.llong": 6000,
            "op.convert.ullong": 3900, "op.convert.int128": 6800, "state.sum_wraps_element_type": 45000, "state.operand_above_2p32": 55000,
            "op.init_under_watchdog": 44, "state.scenario.refused_on_live_object": 135, "state.scenario.reinitialisation": 135,
            "state.scenario.move_swap_assign": 135, "state.refused_above_live_characteristic": 40, "state.refused_below_live_characteristic": 10,
            "bounds.minimum_below_2": 12, "bounds.range_end_above_2p31": 4, "bounds.range_end_INT_MAX": 3, "probe.static_ranges_above_2p31": 3,
            "state.ops_class_product_above_2^31": 25, "state.ops_class_product_above_2^16": 120,
            "_distinct_nontrivial": 3000,
        },
        "thorough": {
            # asan + ubsan units both walk the complete tables: 2 x (10p+2) / 2 x (15P+3) blocks (Zp_field_element adds 2 x (6p+1) up to p = 61)
            "blocks.exhaustive.p97": 1944, "blocks.exhaustive.p61": 1958, "blocks.exhaustive.p2": 110, "blocks.exhaustive.product210": 6306,
            "blocks.exhaustive.product105": 3156, "blocks.exhaustive.product30": 2052, "blocks.range_sets": 13786,
            "class.Z2_field_element": 32, "class.Z2_field_operators": 20, "class.Zp_field_element": 6000, "class.Shared_Zp_field_element": 12000,
            "class.Zp_field_operators": 7000, "class.Field_Zp": 3000, "class.Multi_field_element": 600, "class.Shared_multi_field_element": 1500,
            "class.Multi_field_operators": 2500, "class.Multi_field_element_with_small_characteristics": 5000,
            "class.Shared_multi_field_element_with_small_characteristics": 12000, "class.Multi_field_operators_with_small_characteristics": 4000,
            "class.pcoh::Multi_field": 1000,
            "op.convert.int": 2500000, "op.convert.long": 3000000, "op.convert.uint": 2400000, "op.convert.ulong": 2500000, "op.convert.big": 100000,
            "op.add": 60000000, "op.sub": 60000000, "op.mul": 60000000, "op.add_mixed": 1000000000, "op.sub_mixed": 1000000000, "op.mul_mixed": 1000000000,
            "op.inplace": 1800000000, "op.fused.mul_add": 1400000000, "op.fused.add_mul": 1400000000, "op.cmp": 60000000, "op.cmp_mixed": 550000000,
            "op.inverse": 8000000, "op.partial_inverse": 12000000, "op.partial_identity": 2000000, "op.get_value": 350000,
            "op.coh.plus_times_equal": 22000000, "op.coh.times_minus": 2500000, "op.refuse": 2000,
            "state.negative_operand": 600000, "state.operand_below_minus_p": 400000, "state.operand_ge_p": 500000, "state.operand_p_minus_1": 190000,
            "state.result_needed_reduction": 65000000, "state.sum_wraps_uint32": 3500000, "state.fused_exact_above_2p31": 12000000,
            "state.partial_inverse_some_primes": 2000000, "state.partial_inverse_no_prime": 2800000, "state.partial_proper_subproduct": 8000000,
            "blocks.prime_ge_32749": 150, "blocks.random_prime_gt_16384": 100, "blocks.product_above_2p31": 1800, "blocks.product_above_64_bits": 2000,
            "refuse.composite": 900, "refuse.range_without_prime": 400, "refuse.single_composite": 300, "refuse.not_greater_than_1": 60,
            "refuse.prime_above_documented_maximum": 3,
            "threads.concurrent_runs": 64, "probe.compile_time_refusals": 13,
            # element-type / integer-type instantiations (unit types), object-state scenarios, range end points
            "types.element_ulong": 15, "types.element_ushort": 10, "types.element_uchar": 4, "types.element_uint": 11,
            "types.twice_modulus_exceeds_element_type": 5, "types.modulus_above_2p32": 2, "types.limited_api_compile_time_class": 10,
            "op.convert.short": 2500, "op.convert.ushort": 2300, "op.convert.schar": 800, "op.convert.uchar": 1300, "op.convert.llong": 6000,
            "op.convert.ullong": 3900, "op.convert.int128": 6800, "state.sum_wraps_element_type": 45000, "state.operand_above_2p32": 55000,
            "op.init_under_watchdog": 44, "state.scenario.refused_on_live_object": 135, "state.scenario.reinitialisation": 135,
            "state.scenario.move_swap_assign": 135, "state.refused_above_live_characteristic": 40, "state.refused_below_live_characteristic": 10,
            "bounds.minimum_below_2": 12, "bounds.range_end_above_2p31": 4, "bounds.range_end_INT_MAX": 3, "probe.static_ranges_above_2p31": 3,
            "state.ops_class_product_above_2^31": 25, "state.ops_class_product_above_2^16": 120,
            "_distinct_nontrivial": 22000,
        },
    },
    "exhaustive": {"quick": False, "thorough": False},
    "exhaustive_note": "complete enumeration only of these sub-spaces: (a) single-prime run-time classes (Zp_field_operators, Shared_Zp_field_element, "
                       "Field_Zp, Z2 classes) for every prime p <= 31 (quick) / <= 97 (thorough) and Zp_field_element<p> for p <= 31 / <= 61: all operand "
                       "pairs (triples for fused methods) in [-3p,3p] (Field_Zp: [0,p)); (b) small multi-fields with product 2,5,6,11,15,30,35 (thorough: also "
                       "105, 210) and GMP multi-fields with product 2,6,15 (thorough: 30): all operands in [-3P,3P] and every sub-product Q; (c) thorough: every "
                       "run of >= 2 consecutive primes with product < 2^32 as a range of the shared small multi-field (operands sampled). Everything else is sampled.",
    "extra": _extra,
    "manifest": {
        "text": "Runtime monitor over the 13 coefficient-field classes (Z2 / Zp / multi-field element and operator classes incl. shared and small variants, "
                "and Field_Zp / Multi_field of the cohomology engine): every public constructor, integer conversion (int, long, unsigned, unsigned long, bool, "
                "mpz incl. negative and > 64-bit values), operator (element-element, element-integer, integer-element, in-place), fused method in all "
                "in-place variants, comparison, inverse, partial inverse (every sub-product Q of ranges with <= 6 primes) and identity is compared with exact "
                "__int128 / GMP integer arithmetic reduced by the mathematical remainder, under ASan+UBSan (and again under -O2 UBSan in the thorough tier). "
                "Completely enumerated: all operand pairs/triples in [-3p,3p] for every prime p <= 31 (thorough <= 97; compile-time class <= 61) and for "
                "multi-fields of product <= 35 (thorough <= 210; GMP <= 30), and in thorough every run of >= 2 consecutive primes with product < 2^32 as a "
                "small multi-field range. Sampled with boundary-directed operands: primes 251, 257, 32749, 46337, 65519, 65521, random primes < 2^16, "
                "products above 2^31 and above 2^64, one-prime and prime-free ranges. Non-prime characteristics (0, 1, composites incl. Carmichael numbers "
                "and prime squares, prime-free ranges, min > max) must throw; compile-time refusals are checked by negative compile probes. 8 threads using "
                "their own elements of one type run under ThreadSanitizer. Also: element types unsigned long / short / char, integer types short .. __int128, "
                "refused characteristic on a live object, valid -> valid re-initialisation, move / swap / assignment of the operator classes, range end "
                "points below 2 and around 2^31 / 2^32 under a CPU watchdog. Held on what was observed (~4e8 evaluations quick, ~2e10 thorough), not a proof.",
        "note": "trusted: harness oracle (c10_common.h: __int128, trial division), GMP, libstdc++. Preconditions respected: signed integer types able to hold "
                "the characteristic; fused methods documented 'not overflow safe': unreduced operands only with word-sized exact values, reduced operands always; "
                "Q a sub-product of the range; no inverse of 0 in a prime field; cohomology classes get reduced operands; compile-time classes with a "
                "non-default element type only through the members that compile; primes >= 2^16 are not tried for the run-time Z_p classes "
                "(O(p^2) table construction); initialisations that may not return run in a forked child under a CPU limit.",
        "technique": "runtime monitoring: exhaustive small-field enumeration + boundary-directed/random operands against an exact-integer oracle, under "
                     "AddressSanitizer/UBSan/ThreadSanitizer; negative compile probes for static_assert refusals",
    },
}

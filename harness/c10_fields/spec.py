SPEC = {
    "property": "C10",
    "rule": "wip",
    "assumptions": [],
    "units": [
        {"name": "zp", "src": ["c10_zp.cpp"], "variant": "asan",
         "configs": {"zp_exhaustive": {"quick": 442, "thorough": 442}, "zp_boundary": {"quick": 18, "thorough": 18},
                     "zp_random_prime": {"quick": 100, "thorough": 100}, "zp_refuse": {"quick": 300, "thorough": 300}}, "chunk": 1},
        {"name": "zpc", "src": ["c10_zpc_small.cpp", "c10_zpc_big.cpp"], "variant": "asan",
         "configs": {"zpc_exhaustive": {"quick": 252, "thorough": 971}, "zpc_boundary": {"quick": 11, "thorough": 44}}, "chunk": 1},
    ],
    "floors": {"quick": {}, "thorough": {}},
    "manifest": {"text": "wip", "note": "", "technique": ""},
}

// C10 — coefficient fields implement exact modular arithmetic.
// Shared part of the C10 harness: the independent oracle ("modint": exact integers in __int128 / mpz_class,
// reduced with the mathematical, non-negative remainder), operand generators, counters and the generic monitors
// for the three interface shapes (element classes, stateless operator classes, cohomology coefficient classes).
// No GUDHI header is included here.
#ifndef VERIF_C10_COMMON_H_
#define VERIF_C10_COMMON_H_

#include <climits>
#include <cstdint>
#include <array>
#include <limits>
#include <numeric>
#include <stdexcept>
#include <string>
#include <type_traits>
#include <utility>
#include <vector>
#ifdef C10_WITH_GMP
#include <gmpxx.h>
#endif
#include "common/vh.h"

namespace c10 {

typedef __int128 i128;

// ------------------------------------------------------------------------------------------ oracle: exact residues
// mathematical residue in [0, m) of an exact integer (m > 0).  Works for __int128 and mpz_class (both truncate in %).
template <class Z>
inline Z pmod(const Z& v, const Z& m) {
  Z r = v % m;
  if (r < 0) r += m;
  return r;
}

inline std::string zstr(i128 v) {
  bool neg = v < 0;
  unsigned __int128 u = neg ? (unsigned __int128)0 - (unsigned __int128)v : (unsigned __int128)v;
  std::string s;
  do { s += char('0' + (int)(u % 10)); u /= 10; } while (u);
  if (neg) s += '-';
  std::reverse(s.begin(), s.end());
  return s;
}
#ifdef C10_WITH_GMP
inline std::string zstr(const mpz_class& v) { return v.get_str(); }
#endif

template <class Z, class T>
inline Z toZ(const T& v) {
  if constexpr (std::is_same_v<Z, i128>) return (i128)v;
  else return Z(v);
}

inline bool is_prime_naive(uint64_t n) {
  if (n < 2) return false;
  for (uint64_t d = 2; d * d <= n; ++d) if (n % d == 0) return false;
  return true;
}
// primes q with lo <= q <= hi (as integers; lo may be < 2)
inline std::vector<uint64_t> primes_in(long lo, long hi) {
  std::vector<uint64_t> r;
  for (long q = std::max(lo, 2L); q <= hi; ++q) if (is_prime_naive((uint64_t)q)) r.push_back((uint64_t)q);
  return r;
}
inline uint64_t next_prime_after(uint64_t n) { ++n; while (!is_prime_naive(n)) ++n; return n; }
inline uint64_t prev_prime_before(uint64_t n) { if (n <= 2) return 0; --n; while (n >= 2 && !is_prime_naive(n)) --n; return n >= 2 ? n : 0; }
inline std::string range_str(const std::vector<uint64_t>& primes) {
  std::string s = "{";
  for (size_t i = 0; i < primes.size(); ++i) { if (i) s += ","; if (i >= 6 && i + 2 < primes.size()) { s += "..."; i = primes.size() - 2; continue; } s += std::to_string(primes[i]); }
  return s + "}";
}
template <class Z>
inline Z product_of(const std::vector<uint64_t>& primes) { Z p = 1; for (uint64_t q : primes) p *= toZ<Z>((unsigned long)q); return p; }

// ------------------------------------------------------------------------------------------ counters
enum Ctr {
  K_CONVERT_INT, K_CONVERT_LONG, K_CONVERT_UINT, K_CONVERT_ULONG, K_CONVERT_BOOL, K_CONVERT_BIG, K_ASSIGN, K_CAST,
  K_GET_VALUE, K_ADD, K_SUB, K_MUL, K_ADD_MIXED, K_SUB_MIXED, K_MUL_MIXED, K_INPLACE, K_FUSED_MUL_ADD, K_FUSED_ADD_MUL,
  K_CMP, K_CMP_MIXED, K_INVERSE, K_PARTIAL_INVERSE, K_PARTIAL_IDENTITY, K_IDENTITY, K_CHARACTERISTIC, K_REFUSE,
  K_COH_PLUS_TIMES, K_COH_TIMES_MINUS, K_COH_TIMES, K_COH_PLUS,
  S_NEG_OPERAND, S_LT_MINUS_P, S_GE_P, S_P_MINUS_1, S_RESULT_WRAPPED, S_UINT32_WRAP, S_PARTIAL_MIXED, S_PARTIAL_NONE,
  S_PARTIAL_ALL, S_PROPER_Q, S_FUSED_NEAR_WORD, K_SKIP_INVERSE_OF_ZERO, K_SKIP_FUSED_OVERFLOW, K_SKIP_TYPE,
  K_N
};
static const char* const kCtrName[K_N] = {
  "op.convert.int", "op.convert.long", "op.convert.uint", "op.convert.ulong", "op.convert.bool", "op.convert.big", "op.assign", "op.cast",
  "op.get_value", "op.add", "op.sub", "op.mul", "op.add_mixed", "op.sub_mixed", "op.mul_mixed", "op.inplace", "op.fused.mul_add", "op.fused.add_mul",
  "op.cmp", "op.cmp_mixed", "op.inverse", "op.partial_inverse", "op.partial_identity", "op.identity", "op.characteristic", "op.refuse",
  "op.coh.plus_times_equal", "op.coh.times_minus", "op.coh.times", "op.coh.plus_equal",
  "state.negative_operand", "state.operand_below_minus_p", "state.operand_ge_p", "state.operand_p_minus_1", "state.result_needed_reduction",
  "state.sum_wraps_uint32", "state.partial_inverse_some_primes", "state.partial_inverse_no_prime", "state.partial_inverse_all_primes",
  "state.partial_proper_subproduct", "state.fused_exact_above_2p31", "skip.inverse_of_zero", "skip.fused_would_overflow_word", "skip.type_cannot_hold",
};

struct Rep {
  vh::Case& c;
  std::string cls;    // class under test (stable)
  std::string fld;    // field description, case specific (goes to detail)
  uint64_t n[K_N];
  std::set<std::string> seen;
  int nviol = 0;
  Rep(vh::Case& c_, const std::string& cls_, const std::string& fld_) : c(c_), cls(cls_), fld(fld_) { for (auto& x : n) x = 0; }
  ~Rep() { flush(); }
  void flush() {
    for (int i = 0; i < K_N; ++i) if (n[i]) { c.count(kCtrName[i], n[i]); n[i] = 0; }
  }
  uint64_t total_ops() const { uint64_t t = 0; for (int i = 0; i < S_NEG_OPERAND; ++i) t += n[i]; return t; }
  // one violation record per distinct (check, sig) per case; evaluation goes on (the classes are stateless w.r.t. arithmetic)
  void fail(const std::string& check, const std::string& sig, const std::string& detail) {
    std::string full = "class=" + cls + "," + sig;
    if (!seen.insert(check + "|" + full).second) return;
    if (++nviol > 24) return;
    c.violation(check, full, cls + " over " + fld + ": " + detail);
  }
};

#define C10_CHECK(R, ctr, cond, check, sigexpr, detailexpr) \
  do { ++(R).n[ctr]; if (!(cond)) (R).fail((check), (sigexpr), (detailexpr)); } while (0)

// stable classification of an operand relative to the modulus
template <class Z>
inline const char* opclass(const Z& v, const Z& P) {
  if (v < -P) return "lt_-P";
  if (v == -P) return "eq_-P";
  if (v < 0) return "negative";
  if (v < P) return "reduced";
  if (v == P) return "eq_P";
  return "gt_P";
}
template <class Z>
inline void note_operand(Rep& R, const Z& v, const Z& P) {
  if (v < 0) { ++R.n[S_NEG_OPERAND]; if (v < -P) ++R.n[S_LT_MINUS_P]; }
  else if (v >= P) ++R.n[S_GE_P];
  else if (v == P - 1) ++R.n[S_P_MINUS_1];
}

template <class I> inline const char* tname() {
  if (std::is_same_v<I, int>) return "int";
  if (std::is_same_v<I, long>) return "long";
  if (std::is_same_v<I, unsigned int>) return "uint";
  if (std::is_same_v<I, unsigned long>) return "ulong";
  if (std::is_same_v<I, bool>) return "bool";
  return "other";
}
template <class I> inline Ctr tctr() {
  if (std::is_same_v<I, int>) return K_CONVERT_INT;
  if (std::is_same_v<I, long>) return K_CONVERT_LONG;
  if (std::is_same_v<I, unsigned int>) return K_CONVERT_UINT;
  if (std::is_same_v<I, unsigned long>) return K_CONVERT_ULONG;
  return K_CONVERT_BOOL;
}
// can the exact value v be passed as an I, and (documented precondition of the element classes:
// "Integer_type should be able to contain the characteristic if signed") can I hold P ?
template <class I> inline bool fits(i128 v, i128 P) {
  if (v < (i128)std::numeric_limits<I>::min() || v > (i128)std::numeric_limits<I>::max()) return false;
  if (std::is_signed_v<I> && P > (i128)std::numeric_limits<I>::max()) return false;
  return true;
}
template <bool kBool, class Fn> inline void for_types(Fn&& fn) {
  fn(int{}); fn(long{}); fn((unsigned int)0); fn((unsigned long)0);
  if constexpr (kBool) fn(bool{});
}

// ------------------------------------------------------------------------------------------ oracle: partial inverse
// The property statement: the partial inverse of x w.r.t. a product of primes Q is (v, T) with T = product of the
// primes of Q at which x is invertible, v = x^-1 modulo each prime of T and v = 0 modulo every other prime of the range.
// x, v are compared as residues modulo P = product(primes).  Returns "" when (v, T) is right, else the reason.
template <class Z>
inline std::string partial_inverse_wrong(const std::vector<uint64_t>& primes, const Z& P, const Z& x, const Z& Q, const Z& v,
                                         const Z* T /* nullptr: do not check T */) {
  if (v < 0 || v >= P) return "value_not_reduced";
  Z wantT = 1;
  for (uint64_t q : primes) {
    Z zq = toZ<Z>((unsigned long)q);
    bool inQ = (Q % zq) == 0;
    bool invertible = pmod(x, zq) != 0;
    if (inQ && invertible) {
      wantT *= zq;
      if (pmod(Z(pmod(v, zq) * pmod(x, zq)), zq) != 1) return "not_inverse_at_prime_of_T";
    } else {
      if (pmod(v, zq) != 0) return "nonzero_at_prime_outside_T";
    }
  }
  if (T && *T != wantT) return "wrong_T";
  return "";
}
template <class Z>
inline std::string partial_identity_wrong(const std::vector<uint64_t>& primes, const Z& P, const Z& Q, const Z& v) {
  if (v < 0 || v >= P) return "value_not_reduced";
  for (uint64_t q : primes) {
    Z zq = toZ<Z>((unsigned long)q);
    bool inQ = (Q % zq) == 0;
    if (pmod(v, zq) != (inQ ? 1 : 0)) return inQ ? "not_1_at_prime_of_Q" : "not_0_at_prime_outside_Q";
  }
  return "";
}

// sub-products Q of the range used as partial-inverse arguments: all of them when there are <= 6 primes
template <class Z>
inline std::vector<Z> subproducts(const std::vector<uint64_t>& primes, vh::Rng& r, int nrandom) {
  std::vector<Z> out;
  size_t n = primes.size();
  auto prod_mask = [&](const std::vector<char>& m) { Z q = 1; for (size_t i = 0; i < n; ++i) if (m[i]) q *= toZ<Z>((unsigned long)primes[i]); return q; };
  if (n <= 6) {
    for (unsigned mask = 0; mask < (1u << n); ++mask) { std::vector<char> m(n); for (size_t i = 0; i < n; ++i) m[i] = (mask >> i) & 1; out.push_back(prod_mask(m)); }
    return out;
  }
  std::vector<char> m(n, 0);
  out.push_back(prod_mask(m));                       // Q = 1
  std::fill(m.begin(), m.end(), 1); out.push_back(prod_mask(m));   // Q = P
  for (size_t i = 0; i < n; ++i) { std::fill(m.begin(), m.end(), 0); m[i] = 1; out.push_back(prod_mask(m)); }
  for (size_t i = 0; i < n; ++i) { std::fill(m.begin(), m.end(), 1); m[i] = 0; out.push_back(prod_mask(m)); }
  for (int k = 0; k < nrandom; ++k) { for (size_t i = 0; i < n; ++i) m[i] = (char)r.chance(1, 2); out.push_back(prod_mask(m)); }
  return out;
}
// residues with prescribed zero patterns: multiples of sub-products of the range
template <class Z>
inline std::vector<Z> partial_operands(const std::vector<uint64_t>& primes, const Z& P, vh::Rng& r, int nrandom) {
  std::vector<Z> xs;
  xs.push_back(Z(0)); xs.push_back(pmod(Z(1), P)); xs.push_back(pmod(Z(P - 1), P)); xs.push_back(pmod(Z(2), P));
  std::vector<Z> subs = subproducts<Z>(primes, r, 8);
  for (const Z& s : subs) {
    xs.push_back(pmod(s, P));
    xs.push_back(pmod(Z(s * toZ<Z>((unsigned long)(2 + r.below(1000)))), P));
    xs.push_back(pmod(Z(P - pmod(s, P)), P));
  }
  for (uint64_t q : primes) { Z zq = toZ<Z>((unsigned long)q); xs.push_back(pmod(Z(zq * zq), P)); xs.push_back(pmod(Z(zq + 1), P)); xs.push_back(pmod(Z(zq - 1), P)); }
  for (int k = 0; k < nrandom; ++k) {
    Z v = toZ<Z>((unsigned long)r.next());
    if (P > toZ<Z>((unsigned long)UINT64_MAX >> 1)) { v = v * toZ<Z>((unsigned long)r.next()) + toZ<Z>((unsigned long)r.next()); v = v * toZ<Z>((unsigned long)r.next()); }
    xs.push_back(pmod(v, P));
  }
  return xs;
}

// ------------------------------------------------------------------------------------------ operand sets (native)
// exhaustive window [-3P, 3P]
inline std::vector<i128> window(i128 P) { std::vector<i128> v; for (i128 a = -3 * P; a <= 3 * P; ++a) v.push_back(a); return v; }
// boundary-directed values within [LONG_MIN, ULONG_MAX]: around 0, +-P, +-2P, machine-word limits, the primes of the range, random
inline std::vector<i128> boundary_values(i128 P, const std::vector<uint64_t>& primes, vh::Rng& r, int nrandom) {
  std::vector<i128> v;
  auto add = [&](i128 x) { if (x >= (i128)LONG_MIN && x <= (i128)ULONG_MAX) v.push_back(x); };
  for (i128 k = -3; k <= 3; ++k) for (i128 d = -2; d <= 2; ++d) add(k * P + d);
  add((P - 1) / 2); add((P + 1) / 2); add(P / 2 + 1);
  const i128 words[] = {(i128)INT_MIN, (i128)INT_MIN + 1, -((i128)1 << 16), -((i128)1 << 16) - 1, ((i128)1 << 16) - 1, (i128)1 << 16, ((i128)1 << 16) + 1,
                        (i128)INT_MAX - 1, (i128)INT_MAX, (i128)INT_MAX + 1, (i128)UINT_MAX - 1, (i128)UINT_MAX, (i128)UINT_MAX + 1,
                        (i128)LONG_MIN, (i128)LONG_MIN + 1, (i128)LONG_MAX, (i128)LONG_MAX + 1, (i128)ULONG_MAX - 1, (i128)ULONG_MAX,
                        -(i128)UINT_MAX, -(i128)UINT_MAX - 1, 255, 256, 65535 * (i128)65535};
  for (i128 w : words) add(w);
  if (primes.size() > 1) for (uint64_t q : primes) { add((i128)q); add(-(i128)q); add(P / (i128)q); add(P - (i128)q); add((i128)q * (i128)(1 + r.below(50))); }
  for (int k = 0; k < nrandom; ++k) {
    unsigned mode = (unsigned)r.below(6);
    if (mode == 0) add((i128)r.below((uint64_t)P));                                  // reduced
    else if (mode == 1) add(-(i128)r.below((uint64_t)P * 4 + 7));                    // small negative
    else if (mode == 2) add((i128)(long)r.next());                                   // any long
    else if (mode == 3) add((i128)r.next());                                         // any unsigned long
    else if (mode == 4) add((i128)(int)(uint32_t)r.next());                          // any int
    else add((i128)P - 1 - (i128)r.below(std::min<uint64_t>((uint64_t)P, 64)));      // near P-1
  }
  return v;
}

// ------------------------------------------------------------------------------------------ element classes (native)
// unary observations on one exact operand a
template <class F, bool kBool>
inline void elem_unary(Rep& R, i128 P, const std::vector<uint64_t>& primes, i128 a, const std::vector<i128>& Qs) {
  const i128 ra = pmod(a, P);
  note_operand(R, a, P);
  for_types<kBool>([&](auto tag) {
    using I = decltype(tag);
    if (!fits<I>(a, P)) { ++R.n[K_SKIP_TYPE]; return; }
    const I v = (I)a;
    F f(v);
    C10_CHECK(R, tctr<I>(), (i128)f.get_value() == ra, "convert", std::string("form=constructor,type=") + tname<I>() + ",operand=" + opclass(a, P),
              "F(" + zstr(a) + ").get_value()=" + zstr((i128)f.get_value()) + " want " + zstr(ra));
    F g;
    g = v;
    C10_CHECK(R, K_ASSIGN, (i128)g.get_value() == ra, "convert", std::string("form=assignment,type=") + tname<I>() + ",operand=" + opclass(a, P),
              "(F = " + zstr(a) + ").get_value()=" + zstr((i128)g.get_value()) + " want " + zstr(ra));
    F h((unsigned int)ra);
    C10_CHECK(R, K_CMP_MIXED, (h == v) && (v == h) && !(h != v) && !(v != h), "compare", std::string("form=elem_vs_integer_equal,type=") + tname<I>() + ",operand=" + opclass(a, P),
              "F(" + zstr(ra) + ") compared with the integer " + zstr(a) + " of the same residue: not equal");
    F h2((unsigned int)pmod(ra + 1, P));
    C10_CHECK(R, K_CMP_MIXED, !(h2 == v) && !(v == h2) && (h2 != v) && (v != h2), "compare", std::string("form=elem_vs_integer_differ,type=") + tname<I>() + ",operand=" + opclass(a, P),
              "F(" + zstr(pmod(ra + 1, P)) + ") compared with the integer " + zstr(a) + " of another residue: equal");
  });
  F x((unsigned int)ra);
  C10_CHECK(R, K_CAST, (i128)(unsigned int)x == ra, "convert", "form=cast_to_unsigned", "unsigned(F(" + zstr(ra) + "))=" + zstr((i128)(unsigned int)x));
  { F cp(x); F mv(std::move(cp)); F as; as = x;
    C10_CHECK(R, K_ASSIGN, (i128)mv.get_value() == ra && (i128)as.get_value() == ra, "convert", "form=copy_move", "copy/move of F(" + zstr(ra) + ") changed the value"); }
  if (primes.size() == 1) {
    if (ra == 0) { ++R.n[K_SKIP_INVERSE_OF_ZERO]; }
    else {
      F inv = x.get_inverse();
      i128 iv = (i128)inv.get_value();
      C10_CHECK(R, K_INVERSE, iv >= 0 && iv < P && (iv * ra) % P == 1, "inverse", "form=get_inverse", "inverse of " + zstr(ra) + " returned " + zstr(iv));
      F one = x * inv;
      C10_CHECK(R, K_INVERSE, (i128)one.get_value() == 1 && one == F::get_multiplicative_identity(), "inverse", "form=x_times_inverse", "x*x^-1 = " + zstr((i128)one.get_value()) + " for x=" + zstr(ra));
      auto pi = x.get_partial_inverse((unsigned int)P);
      C10_CHECK(R, K_PARTIAL_INVERSE, (i128)pi.first.get_value() == iv && (i128)pi.second == P, "partial_inverse", "form=single_prime",
                "get_partial_inverse(P) of " + zstr(ra) + " returned (" + zstr((i128)pi.first.get_value()) + "," + zstr((i128)pi.second) + ")");
    }
    C10_CHECK(R, K_PARTIAL_IDENTITY, (i128)F::get_partial_multiplicative_identity((unsigned int)P).get_value() == 1, "partial_identity", "form=single_prime", "partial identity of P is not 1");
  } else {
    F inv = x.get_inverse();
    std::string why = partial_inverse_wrong<i128>(primes, P, ra, P, (i128)inv.get_value(), nullptr);
    C10_CHECK(R, K_INVERSE, why.empty(), "inverse", "form=get_inverse_multi," + why, "get_inverse of " + zstr(ra) + " returned " + zstr((i128)inv.get_value()));
    for (i128 Q : Qs) {
      auto pi = x.get_partial_inverse((unsigned int)Q);
      i128 gv = (i128)pi.first.get_value(), gT = (i128)pi.second;
      why = partial_inverse_wrong<i128>(primes, P, ra, Q, gv, &gT);
      i128 g = std::gcd((unsigned long)ra, (unsigned long)Q);
      if (g == Q) ++R.n[S_PARTIAL_NONE]; else if (g == 1) ++R.n[S_PARTIAL_ALL]; else ++R.n[S_PARTIAL_MIXED];
      if (Q != P && Q != 1) ++R.n[S_PROPER_Q];
      C10_CHECK(R, K_PARTIAL_INVERSE, why.empty(), "partial_inverse", std::string("form=") + (Q == P ? "Q_is_full_product" : "Q_is_proper_subproduct") + "," + why,
                "get_partial_inverse(Q=" + zstr(Q) + ") of x=" + zstr(ra) + " returned (" + zstr(gv) + ", T=" + zstr(gT) + ")");
    }
  }
}
template <class F>
inline void elem_constants(Rep& R, i128 P, const std::vector<uint64_t>& primes, const std::vector<i128>& Qs) {
  C10_CHECK(R, K_IDENTITY, (i128)F::get_additive_identity().get_value() == 0, "identity", "form=additive", "additive identity is " + zstr((i128)F::get_additive_identity().get_value()));
  C10_CHECK(R, K_IDENTITY, (i128)F::get_multiplicative_identity().get_value() == 1 % P, "identity", "form=multiplicative", "multiplicative identity is " + zstr((i128)F::get_multiplicative_identity().get_value()));
  C10_CHECK(R, K_CHARACTERISTIC, (i128)F::get_characteristic() == P, "characteristic", "form=get_characteristic", "get_characteristic()=" + zstr((i128)F::get_characteristic()) + " want " + zstr(P));
  C10_CHECK(R, K_IDENTITY, (i128)F().get_value() == 0, "identity", "form=default_constructed", "default constructed element is not 0");
  if (primes.size() > 1)
    for (i128 Q : Qs) {
      i128 v = (i128)F::get_partial_multiplicative_identity((unsigned int)Q).get_value();
      std::string why = partial_identity_wrong<i128>(primes, P, Q, v);
      C10_CHECK(R, K_PARTIAL_IDENTITY, why.empty(), "partial_identity", "form=multi," + why, "get_partial_multiplicative_identity(" + zstr(Q) + ")=" + zstr(v));
    }
}
// binary observations on exact operands a (becomes the element) and b (element and typed integer)
template <class F, bool kBool>
inline void elem_binary(Rep& R, i128 P, i128 a, i128 b) {
  const i128 ra = pmod(a, P), rb = pmod(b, P);
  const i128 sum = pmod(ra + rb, P), dif = pmod(ra - rb, P), rdif = pmod(rb - ra, P), prd = pmod(ra * rb, P);
  const F x((unsigned int)ra), y((unsigned int)rb);
  if (a == ra && b == rb) {
    if (ra + rb >= P || ra < rb || ra * rb >= P) ++R.n[S_RESULT_WRAPPED];
    if (ra + rb > (i128)UINT_MAX) ++R.n[S_UINT32_WRAP];
    C10_CHECK(R, K_ADD, (i128)(x + y).get_value() == sum, "add", "form=elem+elem", zstr(ra) + "+" + zstr(rb) + " gave " + zstr((i128)(x + y).get_value()) + " want " + zstr(sum));
    C10_CHECK(R, K_SUB, (i128)(x - y).get_value() == dif, "sub", "form=elem-elem", zstr(ra) + "-" + zstr(rb) + " gave " + zstr((i128)(x - y).get_value()) + " want " + zstr(dif));
    C10_CHECK(R, K_MUL, (i128)(x * y).get_value() == prd, "mul", "form=elem*elem", zstr(ra) + "*" + zstr(rb) + " gave " + zstr((i128)(x * y).get_value()) + " want " + zstr(prd));
    { F t(x); t += y; C10_CHECK(R, K_INPLACE, (i128)t.get_value() == sum, "add", "form=elem+=elem", zstr(ra) + "+=" + zstr(rb) + " gave " + zstr((i128)t.get_value())); }
    { F t(x); t -= y; C10_CHECK(R, K_INPLACE, (i128)t.get_value() == dif, "sub", "form=elem-=elem", zstr(ra) + "-=" + zstr(rb) + " gave " + zstr((i128)t.get_value())); }
    { F t(x); t *= y; C10_CHECK(R, K_INPLACE, (i128)t.get_value() == prd, "mul", "form=elem*=elem", zstr(ra) + "*=" + zstr(rb) + " gave " + zstr((i128)t.get_value())); }
    C10_CHECK(R, K_CMP, (x == y) == (ra == rb) && (x != y) == (ra != rb), "compare", "form=elem_vs_elem", zstr(ra) + " vs " + zstr(rb));
  }
  for_types<kBool>([&](auto tag) {
    using I = decltype(tag);
    if (!fits<I>(b, P)) { ++R.n[K_SKIP_TYPE]; return; }
    const I v = (I)b;
    const std::string ts = std::string(",type=") + tname<I>() + ",integer=" + opclass(b, P);
    C10_CHECK(R, K_ADD_MIXED, (i128)(x + v).get_value() == sum, "add", "form=elem+integer" + ts, "F(" + zstr(ra) + ")+" + zstr(b) + " gave " + zstr((i128)(x + v).get_value()) + " want " + zstr(sum));
    C10_CHECK(R, K_SUB_MIXED, (i128)(x - v).get_value() == dif, "sub", "form=elem-integer" + ts, "F(" + zstr(ra) + ")-" + zstr(b) + " gave " + zstr((i128)(x - v).get_value()) + " want " + zstr(dif));
    C10_CHECK(R, K_MUL_MIXED, (i128)(x * v).get_value() == prd, "mul", "form=elem*integer" + ts, "F(" + zstr(ra) + ")*" + zstr(b) + " gave " + zstr((i128)(x * v).get_value()) + " want " + zstr(prd));
    { F t(x); t += v; C10_CHECK(R, K_INPLACE, (i128)t.get_value() == sum, "add", "form=elem+=integer" + ts, "F(" + zstr(ra) + ")+=" + zstr(b) + " gave " + zstr((i128)t.get_value())); }
    { F t(x); t -= v; C10_CHECK(R, K_INPLACE, (i128)t.get_value() == dif, "sub", "form=elem-=integer" + ts, "F(" + zstr(ra) + ")-=" + zstr(b) + " gave " + zstr((i128)t.get_value())); }
    { F t(x); t *= v; C10_CHECK(R, K_INPLACE, (i128)t.get_value() == prd, "mul", "form=elem*=integer" + ts, "F(" + zstr(ra) + ")*=" + zstr(b) + " gave " + zstr((i128)t.get_value())); }
    { I g = v + x; C10_CHECK(R, K_ADD_MIXED, (i128)g == sum, "add", "form=integer+elem" + ts, zstr(b) + "+F(" + zstr(ra) + ") gave " + zstr((i128)g) + " want " + zstr(sum)); }
    { I g = v - x; C10_CHECK(R, K_SUB_MIXED, (i128)g == rdif, "sub", "form=integer-elem" + ts, zstr(b) + "-F(" + zstr(ra) + ") gave " + zstr((i128)g) + " want " + zstr(rdif)); }
    { I g = v * x; C10_CHECK(R, K_MUL_MIXED, (i128)g == prd, "mul", "form=integer*elem" + ts, zstr(b) + "*F(" + zstr(ra) + ") gave " + zstr((i128)g) + " want " + zstr(prd)); }
    C10_CHECK(R, K_CMP_MIXED, (x == v) == (ra == rb) && (v == x) == (ra == rb) && (x != v) == (ra != rb) && (v != x) == (ra != rb), "compare", "form=elem_vs_integer" + ts,
              "F(" + zstr(ra) + ") vs integer " + zstr(b));
  });
}

// ------------------------------------------------------------------------------------------ stateless operator classes
// E = element type passed to the methods (unsigned int / bool / mpz_class), Z = oracle integer type.
// traits: kSignedGetValue: get_value accepts signed machine integers; kFusedWordLimited: fused methods are documented
// "not overflow safe" -> only triples whose exact value fits the element word are submitted.
template <class Z, class E> inline E mkE(const Z& v) {
  if constexpr (std::is_same_v<Z, i128>) return (E)(unsigned long)v;
  else return E(v);
}
template <class Op, class E, class Z>
inline void ops_unary(Rep& R, Op& op, const Z& P, const std::vector<uint64_t>& primes, const Z& a /* >= 0 unless E is a big integer */, const std::vector<Z>& Qs) {
  const Z ra = pmod(a, P);
  note_operand(R, a, P);
  const E e = mkE<Z, E>(a);
  C10_CHECK(R, K_GET_VALUE, toZ<Z>(op.get_value(e)) == ra, "convert", std::string("form=get_value,type=element,operand=") + opclass(a, P), "get_value(" + zstr(a) + ")=" + zstr(toZ<Z>(op.get_value(e))) + " want " + zstr(ra));
  const E eq = mkE<Z, E>(ra), ne = mkE<Z, E>(pmod(Z(ra + 1), P));
  C10_CHECK(R, K_CMP, op.are_equal(e, eq) && op.are_equal(eq, e) && (P == 1 || (!op.are_equal(e, ne) && !op.are_equal(ne, e))), "compare", std::string("form=are_equal,operand=") + opclass(a, P),
            "are_equal(" + zstr(a) + ", same/next residue) wrong");
  if (primes.size() == 1) {
    if (ra == 0) ++R.n[K_SKIP_INVERSE_OF_ZERO];
    else {
      Z iv = toZ<Z>(op.get_inverse(e));
      C10_CHECK(R, K_INVERSE, iv >= 0 && iv < P && pmod(Z(iv * ra), P) == 1, "inverse", std::string("form=get_inverse,operand=") + opclass(a, P), "get_inverse(" + zstr(a) + ")=" + zstr(iv));
      Z one = toZ<Z>(op.multiply(e, mkE<Z, E>(iv)));
      C10_CHECK(R, K_INVERSE, one == 1, "inverse", "form=x_times_inverse", "multiply(x, inverse(x)) = " + zstr(one) + " for x=" + zstr(a));
      auto pi = op.get_partial_inverse(e, (typename Op::Characteristic)mkE<Z, typename Op::Characteristic>(P));
      C10_CHECK(R, K_PARTIAL_INVERSE, toZ<Z>(pi.first) == iv && toZ<Z>(pi.second) == P, "partial_inverse", "form=single_prime", "get_partial_inverse(" + zstr(a) + ", P) = (" + zstr(toZ<Z>(pi.first)) + "," + zstr(toZ<Z>(pi.second)) + ")");
    }
  } else {
    Z iv = toZ<Z>(op.get_inverse(e));
    std::string why = partial_inverse_wrong<Z>(primes, P, ra, P, iv, nullptr);
    C10_CHECK(R, K_INVERSE, why.empty(), "inverse", "form=get_inverse_multi," + why, "get_inverse(" + zstr(a) + ")=" + zstr(iv));
    for (const Z& Q : Qs) {
      auto pi = op.get_partial_inverse(e, mkE<Z, typename Op::Characteristic>(Q));
      Z gv = toZ<Z>(pi.first), gT = toZ<Z>(pi.second);
      why = partial_inverse_wrong<Z>(primes, P, ra, Q, gv, &gT);
      bool all = true, none = true;
      for (uint64_t q : primes) { Z zq = toZ<Z>((unsigned long)q); if (Q % zq == 0) { if (ra % zq == 0) all = false; else none = false; } }
      if (none) ++R.n[S_PARTIAL_NONE]; else if (all) ++R.n[S_PARTIAL_ALL]; else ++R.n[S_PARTIAL_MIXED];
      if (Q != P && Q != 1) ++R.n[S_PROPER_Q];
      C10_CHECK(R, K_PARTIAL_INVERSE, why.empty(), "partial_inverse", std::string("form=") + (Q == P ? "Q_is_full_product" : "Q_is_proper_subproduct") + ",operand=" + opclass(a, P) + "," + why,
                "get_partial_inverse(x=" + zstr(a) + ", Q=" + zstr(Q) + ") returned (" + zstr(gv) + ", T=" + zstr(gT) + ")");
    }
  }
}
template <class Op, class Z>
inline void ops_constants(Rep& R, Op& op, const Z& P, const std::vector<uint64_t>& primes, const std::vector<Z>& Qs) {
  C10_CHECK(R, K_IDENTITY, toZ<Z>(op.get_additive_identity()) == 0, "identity", "form=additive", "additive identity = " + zstr(toZ<Z>(op.get_additive_identity())));
  C10_CHECK(R, K_IDENTITY, toZ<Z>(op.get_multiplicative_identity()) == 1, "identity", "form=multiplicative", "multiplicative identity = " + zstr(toZ<Z>(op.get_multiplicative_identity())));
  C10_CHECK(R, K_CHARACTERISTIC, toZ<Z>(op.get_characteristic()) == P, "characteristic", "form=get_characteristic", "get_characteristic() = " + zstr(toZ<Z>(op.get_characteristic())) + " want " + zstr(P));
  if (primes.size() == 1) {
    C10_CHECK(R, K_PARTIAL_IDENTITY, toZ<Z>(op.get_partial_multiplicative_identity(mkE<Z, typename Op::Characteristic>(P))) == 1, "partial_identity", "form=single_prime", "partial identity of P is not 1");
  } else {
    for (const Z& Q : Qs) {
      Z v = toZ<Z>(op.get_partial_multiplicative_identity(mkE<Z, typename Op::Characteristic>(Q)));
      std::string why = partial_identity_wrong<Z>(primes, P, Q, v);
      C10_CHECK(R, K_PARTIAL_IDENTITY, why.empty(), "partial_identity", "form=multi," + why, "get_partial_multiplicative_identity(" + zstr(Q) + ") = " + zstr(v));
    }
  }
}
template <class Op, class E, class Z>
inline void ops_binary(Rep& R, Op& op, const Z& P, const Z& a, const Z& b) {
  const Z ra = pmod(a, P), rb = pmod(b, P);
  const Z sum = pmod(Z(ra + rb), P), dif = pmod(Z(ra - rb), P), prd = pmod(Z(ra * rb), P);
  const E ea = mkE<Z, E>(a), eb = mkE<Z, E>(b);
  if (ra + rb >= P || ra < rb || ra * rb >= P) ++R.n[S_RESULT_WRAPPED];
  if (ra + rb > toZ<Z>((unsigned long)UINT_MAX)) ++R.n[S_UINT32_WRAP];
  const std::string cl = std::string(",lhs=") + opclass(a, P) + ",rhs=" + opclass(b, P);
  C10_CHECK(R, K_ADD, toZ<Z>(op.add(ea, eb)) == sum, "add", "form=add" + cl, "add(" + zstr(a) + "," + zstr(b) + ")=" + zstr(toZ<Z>(op.add(ea, eb))) + " want " + zstr(sum));
  C10_CHECK(R, K_SUB, toZ<Z>(op.subtract(ea, eb)) == dif, "sub", "form=subtract" + cl, "subtract(" + zstr(a) + "," + zstr(b) + ")=" + zstr(toZ<Z>(op.subtract(ea, eb))) + " want " + zstr(dif));
  C10_CHECK(R, K_MUL, toZ<Z>(op.multiply(ea, eb)) == prd, "mul", "form=multiply" + cl, "multiply(" + zstr(a) + "," + zstr(b) + ")=" + zstr(toZ<Z>(op.multiply(ea, eb))) + " want " + zstr(prd));
  { E t = ea; op.add_inplace(t, eb); C10_CHECK(R, K_INPLACE, toZ<Z>(t) == sum, "add", "form=add_inplace" + cl, "add_inplace(" + zstr(a) + "," + zstr(b) + ") left " + zstr(toZ<Z>(t)) + " want " + zstr(sum)); }
  { E t = ea; op.subtract_inplace_front(t, eb); C10_CHECK(R, K_INPLACE, toZ<Z>(t) == dif, "sub", "form=subtract_inplace_front" + cl, "subtract_inplace_front(" + zstr(a) + "," + zstr(b) + ") left " + zstr(toZ<Z>(t)) + " want " + zstr(dif)); }
  { E t = eb; op.subtract_inplace_back(ea, t); C10_CHECK(R, K_INPLACE, toZ<Z>(t) == dif, "sub", "form=subtract_inplace_back" + cl, "subtract_inplace_back(" + zstr(a) + "," + zstr(b) + ") left " + zstr(toZ<Z>(t)) + " want " + zstr(dif)); }
  { E t = ea; op.multiply_inplace(t, eb); C10_CHECK(R, K_INPLACE, toZ<Z>(t) == prd, "mul", "form=multiply_inplace" + cl, "multiply_inplace(" + zstr(a) + "," + zstr(b) + ") left " + zstr(toZ<Z>(t)) + " want " + zstr(prd)); }
  C10_CHECK(R, K_CMP, op.are_equal(ea, eb) == (ra == rb), "compare", "form=are_equal_pair" + cl, "are_equal(" + zstr(a) + "," + zstr(b) + ")");
}
// fused operations; word_limit > 0: skip triples whose exact intermediate value exceeds it (documented "not overflow safe")
template <class Op, class E, class Z>
inline void ops_fused(Rep& R, Op& op, const Z& P, const Z& a, const Z& b, const Z& c, const Z& word_limit) {
  const Z ma = a * b + c, am = (a + b) * c;
  const std::string cl = std::string(",operands=") + ((a < P && b < P && c < P && a >= 0 && b >= 0 && c >= 0) ? "reduced" : "unreduced");
  if (word_limit > 0 && (ma > word_limit || ma < 0)) ++R.n[K_SKIP_FUSED_OVERFLOW];
  else {
    const Z want = pmod(ma, P);
    if (ma >= (toZ<Z>((unsigned long)1) << 31)) ++R.n[S_FUSED_NEAR_WORD];
    const E ea = mkE<Z, E>(a), eb = mkE<Z, E>(b), ec = mkE<Z, E>(c);
    C10_CHECK(R, K_FUSED_MUL_ADD, toZ<Z>(op.multiply_and_add(ea, eb, ec)) == want, "fused.multiply_and_add", "form=value" + cl,
              "multiply_and_add(" + zstr(a) + "," + zstr(b) + "," + zstr(c) + ")=" + zstr(toZ<Z>(op.multiply_and_add(ea, eb, ec))) + " want " + zstr(want));
    { E t = ea; op.multiply_and_add_inplace_front(t, eb, ec); C10_CHECK(R, K_FUSED_MUL_ADD, toZ<Z>(t) == want, "fused.multiply_and_add", "form=inplace_front" + cl,
              "multiply_and_add_inplace_front(" + zstr(a) + "," + zstr(b) + "," + zstr(c) + ") left " + zstr(toZ<Z>(t)) + " want " + zstr(want)); }
    { E t = ec; op.multiply_and_add_inplace_back(ea, eb, t); C10_CHECK(R, K_FUSED_MUL_ADD, toZ<Z>(t) == want, "fused.multiply_and_add", "form=inplace_back" + cl,
              "multiply_and_add_inplace_back(" + zstr(a) + "," + zstr(b) + "," + zstr(c) + ") left " + zstr(toZ<Z>(t)) + " want " + zstr(want)); }
  }
  if (word_limit > 0 && (am > word_limit || am < 0 || a + b > word_limit)) ++R.n[K_SKIP_FUSED_OVERFLOW];
  else {
    const Z want = pmod(am, P);
    E ea = mkE<Z, E>(a); const E eb = mkE<Z, E>(b), ec = mkE<Z, E>(c);
    C10_CHECK(R, K_FUSED_ADD_MUL, toZ<Z>(op.add_and_multiply(ea, eb, ec)) == want, "fused.add_and_multiply", "form=value" + cl,
              "add_and_multiply(" + zstr(a) + "," + zstr(b) + "," + zstr(c) + ")=" + zstr(toZ<Z>(op.add_and_multiply(ea, eb, ec))) + " want " + zstr(want));
    { E t = ea; op.add_and_multiply_inplace_front(t, eb, ec); C10_CHECK(R, K_FUSED_ADD_MUL, toZ<Z>(t) == want, "fused.add_and_multiply", "form=inplace_front" + cl,
              "add_and_multiply_inplace_front(" + zstr(a) + "," + zstr(b) + "," + zstr(c) + ") left " + zstr(toZ<Z>(t)) + " want " + zstr(want)); }
    { E t = ec; op.add_and_multiply_inplace_back(ea, eb, t); C10_CHECK(R, K_FUSED_ADD_MUL, toZ<Z>(t) == want, "fused.add_and_multiply", "form=inplace_back" + cl,
              "add_and_multiply_inplace_back(" + zstr(a) + "," + zstr(b) + "," + zstr(c) + ") left " + zstr(toZ<Z>(t)) + " want " + zstr(want)); }
  }
}

// ------------------------------------------------------------------------------------------ cohomology coefficient classes
// interface: plus_times_equal(x,y,w)=x+w*y, times(y,w), plus_equal(x,y), times_minus(x,y)=-x*y, inverse(x,Q)->(v,T),
// additive_identity(), multiplicative_identity(), multiplicative_identity(Q), characteristic().  Operands are reduced.
template <class Coh, class E, class Z>
inline void coh_triple(Rep& R, Coh& f, const Z& P, const Z& x, const Z& y, const Z& w) {
  const E ex = mkE<Z, E>(x), ey = mkE<Z, E>(y), ew = mkE<Z, E>(w);
  Z want = pmod(Z(x + w * y), P);
  if (x + w * y >= P) ++R.n[S_RESULT_WRAPPED];
  if (x + w * y >= (toZ<Z>((unsigned long)1) << 30)) ++R.n[S_FUSED_NEAR_WORD];
  Z got = toZ<Z>(f.plus_times_equal(ex, ey, ew));
  C10_CHECK(R, K_COH_PLUS_TIMES, got == want, "coh.plus_times_equal", "form=value", "plus_times_equal(" + zstr(x) + "," + zstr(y) + "," + zstr(w) + ")=" + zstr(got) + " want " + zstr(want));
}
template <class Coh, class E, class Z>
inline void coh_pair(Rep& R, Coh& f, const Z& P, const Z& x, const Z& y) {
  const E ex = mkE<Z, E>(x), ey = mkE<Z, E>(y);
  Z got = toZ<Z>(f.times_minus(ex, ey)), want = pmod(Z(-(x * y)), P);
  C10_CHECK(R, K_COH_TIMES_MINUS, got == want, "coh.times_minus", std::string("form=value,") + (want == 0 ? "product_is_zero" : "product_nonzero"),
            "times_minus(" + zstr(x) + "," + zstr(y) + ")=" + zstr(got) + " want " + zstr(want));
  got = toZ<Z>(f.times(ex, ey)); want = pmod(Z(x * y), P);
  C10_CHECK(R, K_COH_TIMES, got == want, "coh.times", "form=value", "times(" + zstr(x) + "," + zstr(y) + ")=" + zstr(got) + " want " + zstr(want));
  got = toZ<Z>(f.plus_equal(ex, ey)); want = pmod(Z(x + y), P);
  C10_CHECK(R, K_COH_PLUS, got == want, "coh.plus_equal", "form=value", "plus_equal(" + zstr(x) + "," + zstr(y) + ")=" + zstr(got) + " want " + zstr(want));
}
template <class Coh, class E, class Z>
inline void coh_unary(Rep& R, Coh& f, const Z& P, const std::vector<uint64_t>& primes, const Z& x, const std::vector<Z>& Qs) {
  const E ex = mkE<Z, E>(x);
  if (x == P - 1) ++R.n[S_P_MINUS_1];
  if (primes.size() == 1) {
    if (x == 0) { ++R.n[K_SKIP_INVERSE_OF_ZERO]; return; }
    auto pi = f.inverse(ex, mkE<Z, E>(P));
    Z iv = toZ<Z>(pi.first), T = toZ<Z>(pi.second);
    C10_CHECK(R, K_INVERSE, iv >= 0 && iv < P && pmod(Z(iv * x), P) == 1 && T == P, "inverse", "form=coh_inverse_single_prime", "inverse(" + zstr(x) + ",P)=(" + zstr(iv) + "," + zstr(T) + ")");
    Z one = toZ<Z>(f.times(ex, mkE<Z, E>(iv)));
    C10_CHECK(R, K_INVERSE, one == 1, "inverse", "form=x_times_inverse", "times(x, inverse(x))=" + zstr(one) + " for x=" + zstr(x));
  } else {
    for (const Z& Q : Qs) {
      auto pi = f.inverse(ex, mkE<Z, E>(Q));
      Z gv = toZ<Z>(pi.first), gT = toZ<Z>(pi.second);
      std::string why = partial_inverse_wrong<Z>(primes, P, x, Q, gv, &gT);
      bool all = true, none = true;
      for (uint64_t q : primes) { Z zq = toZ<Z>((unsigned long)q); if (Q % zq == 0) { if (x % zq == 0) all = false; else none = false; } }
      if (none) ++R.n[S_PARTIAL_NONE]; else if (all) ++R.n[S_PARTIAL_ALL]; else ++R.n[S_PARTIAL_MIXED];
      if (Q != P && Q != 1) ++R.n[S_PROPER_Q];
      C10_CHECK(R, K_PARTIAL_INVERSE, why.empty(), "partial_inverse", std::string("form=") + (Q == P ? "Q_is_full_product" : "Q_is_proper_subproduct") + "," + why,
                "inverse(x=" + zstr(x) + ", Q=" + zstr(Q) + ") returned (" + zstr(gv) + ", T=" + zstr(gT) + ")");
    }
  }
}

// ------------------------------------------------------------------------------------------ refusal
// fn must throw (any std::exception); returning normally = the characteristic was accepted.
template <class Fn>
inline void must_refuse(Rep& R, const std::string& what, const char* why_sig, Fn&& fn) {
  bool thrown = false;
  try { fn(); } catch (const std::exception&) { thrown = true; }
  C10_CHECK(R, K_REFUSE, thrown, "refuse", std::string("form=") + why_sig, what + " was accepted (no exception)");
}

// a few composite numbers that defeat weak primality tests
static const unsigned kCarmichael[] = {561, 1105, 1729, 2465, 2821, 6601, 8911, 10585, 15841, 29341, 41041, 46657, 52633, 62745, 63973};

inline uint64_t random_prime_below(vh::Rng& r, uint64_t bound) {
  for (;;) { uint64_t c = 2 + r.below(bound - 2); if (is_prime_naive(c)) return c; }
}

}  // namespace c10

#endif  // VERIF_C10_COMMON_H_

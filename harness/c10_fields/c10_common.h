// C10 — coefficient fields implement exact modular arithmetic.
// Shared part of the C10 harness: the independent oracle ("modint": exact integers in __int128 / mpz_class,
// reduced with the mathematical, non-negative remainder), operand generators, counters and the generic monitors
// for the three interface shapes (element classes, stateless operator classes, cohomology coefficient classes).
// No GUDHI header is included here.
#ifndef VERIF_C10_COMMON_H_
#define VERIF_C10_COMMON_H_

#include <climits>
#include <cstdint>
#include <array>
#include <limits>
#include <numeric>
#include <stdexcept>
#include <string>
#include <type_traits>
#include <utility>
#include <vector>
#ifdef C10_WITH_GMP
#include <gmpxx.h>
#endif
#include <cerrno>
#include <csignal>
#include <sys/resource.h>
#include <sys/types.h>
#include <sys/wait.h>
#include <unistd.h>
#include "common/vh.h"

namespace c10 {

typedef __int128 i128;

// ------------------------------------------------------------------------------------------ oracle: exact residues
// mathematical residue in [0, m) of an exact integer (m > 0).  Works for __int128 and mpz_class (both truncate in %).
template <class Z>
inline Z pmod(const Z& v, const Z& m) {
  Z r = v % m;
  if (r < 0) r += m;
  return r;
}

inline std::string zstr(i128 v) {
  bool neg = v < 0;
  unsigned __int128 u = neg ? (unsigned __int128)0 - (unsigned __int128)v : (unsigned __int128)v;
  std::string s;
  do { s += char('0' + (int)(u % 10)); u /= 10; } while (u);
  if (neg) s += '-';
  std::reverse(s.begin(), s.end());
  return s;
}
#ifdef C10_WITH_GMP
inline std::string zstr(const mpz_class& v) { return v.get_str(); }
#endif

template <class Z, class T>
inline Z toZ(const T& v) {
  if constexpr (std::is_same_v<Z, i128>) return (i128)v;
  else return Z(v);
}

inline bool is_prime_naive(uint64_t n) {
  if (n < 2) return false;
  for (uint64_t d = 2; d * d <= n; ++d) if (n % d == 0) return false;
  return true;
}
// primes q with lo <= q <= hi (as integers; lo may be < 2)
inline std::vector<uint64_t> primes_in(long lo, long hi) {
  std::vector<uint64_t> r;
  for (long q = std::max(lo, 2L); q <= hi; ++q) if (is_prime_naive((uint64_t)q)) r.push_back((uint64_t)q);
  return r;
}
inline uint64_t next_prime_after(uint64_t n) { ++n; while (!is_prime_naive(n)) ++n; return n; }
inline uint64_t prev_prime_before(uint64_t n) { if (n <= 2) return 0; --n; while (n >= 2 && !is_prime_naive(n)) --n; return n >= 2 ? n : 0; }
inline std::string range_str(const std::vector<uint64_t>& primes) {
  std::string s = "{";
  for (size_t i = 0; i < primes.size(); ++i) { if (i) s += ","; if (i >= 6 && i + 2 < primes.size()) { s += "..."; i = primes.size() - 2; continue; } s += std::to_string(primes[i]); }
  return s + "}";
}
template <class Z>
inline Z product_of(const std::vector<uint64_t>& primes) { Z p = 1; for (uint64_t q : primes) p *= toZ<Z>((unsigned long)q); return p; }

// ------------------------------------------------------------------------------------------ counters
enum Ctr {
  K_CONVERT_INT, K_CONVERT_LONG, K_CONVERT_UINT, K_CONVERT_ULONG, K_CONVERT_BOOL, K_CONVERT_BIG, K_ASSIGN, K_CAST,
  K_GET_VALUE, K_ADD, K_SUB, K_MUL, K_ADD_MIXED, K_SUB_MIXED, K_MUL_MIXED, K_INPLACE, K_FUSED_MUL_ADD, K_FUSED_ADD_MUL,
  K_CMP, K_CMP_MIXED, K_INVERSE, K_PARTIAL_INVERSE, K_PARTIAL_IDENTITY, K_IDENTITY, K_CHARACTERISTIC, K_REFUSE,
  K_COH_PLUS_TIMES, K_COH_TIMES_MINUS, K_COH_TIMES, K_COH_PLUS,
  S_NEG_OPERAND, S_LT_MINUS_P, S_GE_P, S_P_MINUS_1, S_RESULT_WRAPPED, S_UINT32_WRAP, S_PARTIAL_MIXED, S_PARTIAL_NONE,
  S_PARTIAL_ALL, S_PROPER_Q, S_FUSED_NEAR_WORD, K_SKIP_INVERSE_OF_ZERO, K_SKIP_FUSED_OVERFLOW, K_SKIP_TYPE,
  K_CONVERT_SHORT, K_CONVERT_USHORT, K_CONVERT_SCHAR, K_CONVERT_UCHAR, K_CONVERT_LLONG, K_CONVERT_ULLONG, K_CONVERT_INT128,
  S_SUM_WRAPS_ELEMENT, S_OPERAND_ABOVE_2P32, K_SKIP_RESULT_TYPE, K_INIT_GUARDED,
  K_N
};
static const char* const kCtrName[K_N] = {
  "op.convert.int", "op.convert.long", "op.convert.uint", "op.convert.ulong", "op.convert.bool", "op.convert.big", "op.assign", "op.cast",
  "op.get_value", "op.add", "op.sub", "op.mul", "op.add_mixed", "op.sub_mixed", "op.mul_mixed", "op.inplace", "op.fused.mul_add", "op.fused.add_mul",
  "op.cmp", "op.cmp_mixed", "op.inverse", "op.partial_inverse", "op.partial_identity", "op.identity", "op.characteristic", "op.refuse",
  "op.coh.plus_times_equal", "op.coh.times_minus", "op.coh.times", "op.coh.plus_equal",
  "state.negative_operand", "state.operand_below_minus_p", "state.operand_ge_p", "state.operand_p_minus_1", "state.result_needed_reduction",
  "state.sum_wraps_uint32", "state.partial_inverse_some_primes", "state.partial_inverse_no_prime", "state.partial_inverse_all_primes",
  "state.partial_proper_subproduct", "state.fused_exact_above_2p31", "skip.inverse_of_zero", "skip.fused_would_overflow_word", "skip.type_cannot_hold",
  "op.convert.short", "op.convert.ushort", "op.convert.schar", "op.convert.uchar", "op.convert.llong", "op.convert.ullong", "op.convert.int128",
  "state.sum_wraps_element_type", "state.operand_above_2p32", "skip.result_type_cannot_hold_residue", "op.init_under_watchdog",
};

// stable classification of a failing situation (all strings are literals / static): becomes the violation signature
struct Sig {
  const char* form;
  const char* type = nullptr;   // machine integer type involved
  const char* k1 = nullptr; const char* v1 = nullptr;   // e.g. "operand" -> "lt_-P"
  const char* k2 = nullptr; const char* v2 = nullptr;
  const char* extra = nullptr;  // e.g. the reason given by the partial-inverse oracle
};

struct Rep {
  vh::Case& c;
  std::string cls;    // class under test (stable)
  std::string fld;    // field description, case specific (goes to detail)
  std::string sfx;    // stable suffix of every signature of this block (element type / situation such as ",after=refused_characteristic")
  int coarse = 0;     // 1: the operand classes are left out of the signatures, 2: the integer type as well (they stay in the detail text)
  uint64_t n[K_N];
  std::set<std::string> seen;
  int nviol = 0;
  Rep(vh::Case& c_, const std::string& cls_, const std::string& fld_) : c(c_), cls(cls_), fld(fld_) { for (auto& x : n) x = 0; }
  ~Rep() { flush(); }
  void flush() {
    for (int i = 0; i < K_N; ++i) if (n[i]) { c.count(kCtrName[i], n[i]); n[i] = 0; }
  }
  uint64_t total_ops() const { uint64_t t = 0; for (int i = 0; i < S_NEG_OPERAND; ++i) t += n[i]; for (int i = K_CONVERT_SHORT; i <= K_CONVERT_INT128; ++i) t += n[i]; return t; }
  // one violation record per distinct (check, sig) per case; evaluation goes on (the classes are stateless w.r.t. arithmetic)
  void fail(const std::string& check, const std::string& sig, const std::string& detail) {
    std::string full = "class=" + cls + "," + sig + sfx;
    if (!seen.insert(check + "|" + full).second) return;
    if (++nviol > 24) return;
    c.violation(check, full, cls + " over " + fld + ": " + detail);
  }
  // cold, out-of-line reporter used by the templated monitors (keeps their code small)
  template <class Z>
  __attribute__((noinline)) void failv(const char* check, const Sig& s, const Z* a, const Z* b, const Z* cc, const Z* got, const Z* want) {
    std::string sig = std::string("form=") + s.form;
    if (s.type && coarse < 2) sig += std::string(",type=") + s.type;
    if (s.k1 && coarse < 1) sig += std::string(",") + s.k1 + "=" + s.v1;
    if (s.k2 && coarse < 1) sig += std::string(",") + s.k2 + "=" + s.v2;
    if (s.extra && *s.extra) sig += std::string(",") + s.extra;
    std::string d = std::string(s.form) + (s.type ? std::string(" [") + s.type + "]" : std::string());
    if (coarse) { if (s.k1) d += std::string(" ") + s.k1 + "=" + s.v1; if (s.k2) d += std::string(" ") + s.k2 + "=" + s.v2; }
    if (a) d += " a=" + zstr(*a);
    if (b) d += " b=" + zstr(*b);
    if (cc) d += " c=" + zstr(*cc);
    if (got) d += " got=" + zstr(*got);
    if (want) d += " want=" + zstr(*want);
    if (std::string(check) == "partial_inverse") d += "  (a = x, b = Q or P, got = value returned, want = T returned)";
    fail(check, sig, d);
  }
};

#define C10_CHECK(R, ctr, cond, check, sigexpr, detailexpr) \
  do { ++(R).n[ctr]; if (!(cond)) (R).fail((check), (sigexpr), (detailexpr)); } while (0)
// Z-typed values are passed by address; use C10_NIL(Z) for an absent one
#define C10_NIL(Z) ((const Z*)nullptr)
#define C10_CHECKV(R, Z, ctr, cond, check, a, b, cc, got, want, ...) \
  do { ++(R).n[ctr]; if (__builtin_expect(!(cond), 0)) { const ::c10::Sig sig__{__VA_ARGS__}; (R).template failv<Z>((check), sig__, (a), (b), (cc), (got), (want)); } } while (0)

// stable classification of an operand relative to the modulus
template <class Z>
inline const char* opclass(const Z& v, const Z& P) {
  if (v < -P) return "lt_-P";
  if (v == -P) return "eq_-P";
  if (v < 0) return "negative";
  if (v < P) return "reduced";
  if (v == P) return "eq_P";
  return "gt_P";
}
template <class Z>
inline void note_operand(Rep& R, const Z& v, const Z& P) {
  if (v < 0) { ++R.n[S_NEG_OPERAND]; if (v < -P) ++R.n[S_LT_MINUS_P]; }
  else if (v >= P) ++R.n[S_GE_P];
  else if (v == P - 1) ++R.n[S_P_MINUS_1];
}

template <class I> inline const char* tname() {
  if (std::is_same_v<I, int>) return "int";
  if (std::is_same_v<I, long>) return "long";
  if (std::is_same_v<I, unsigned int>) return "uint";
  if (std::is_same_v<I, unsigned long>) return "ulong";
  if (std::is_same_v<I, bool>) return "bool";
  if (std::is_same_v<I, short>) return "short";
  if (std::is_same_v<I, unsigned short>) return "ushort";
  if (std::is_same_v<I, signed char>) return "schar";
  if (std::is_same_v<I, unsigned char>) return "uchar";
  if (std::is_same_v<I, long long>) return "llong";
  if (std::is_same_v<I, unsigned long long>) return "ullong";
  if (std::is_same_v<I, __int128>) return "int128";
  return "other";
}
template <class I> inline Ctr tctr() {
  if (std::is_same_v<I, int>) return K_CONVERT_INT;
  if (std::is_same_v<I, long>) return K_CONVERT_LONG;
  if (std::is_same_v<I, unsigned int>) return K_CONVERT_UINT;
  if (std::is_same_v<I, unsigned long>) return K_CONVERT_ULONG;
  if (std::is_same_v<I, short>) return K_CONVERT_SHORT;
  if (std::is_same_v<I, unsigned short>) return K_CONVERT_USHORT;
  if (std::is_same_v<I, signed char>) return K_CONVERT_SCHAR;
  if (std::is_same_v<I, unsigned char>) return K_CONVERT_UCHAR;
  if (std::is_same_v<I, long long>) return K_CONVERT_LLONG;
  if (std::is_same_v<I, unsigned long long>) return K_CONVERT_ULLONG;
  if (std::is_same_v<I, __int128>) return K_CONVERT_INT128;
  return K_CONVERT_BOOL;
}
// limits of an integer type as exact integers (std::numeric_limits<__int128> is only specialised in GNU mode)
template <class I> inline i128 tmax() {
  if constexpr (std::is_same_v<I, __int128>) return (i128)(~(unsigned __int128)0 >> 1);
  else return (i128)std::numeric_limits<I>::max();
}
template <class I> inline i128 tmin() {
  if constexpr (std::is_same_v<I, __int128>) return -tmax<I>() - 1;
  else return (i128)std::numeric_limits<I>::min();
}
template <class I> inline constexpr bool tsigned() { return std::is_same_v<I, __int128> || std::is_signed_v<I>; }
// can the exact value v be passed as an I, and (documented precondition of the element classes:
// "Integer_type should be able to contain the characteristic if signed") can I hold P ?
template <class I> inline bool fits(i128 v, i128 P) {
  if (v < tmin<I>() || v > tmax<I>()) return false;
  if (tsigned<I>() && P > tmax<I>()) return false;
  return true;
}
// the machine integer types the conversions are driven with; a translation unit that defines C10_EXT_TYPES also gets the
// narrow and the widest ones (short, unsigned short, signed / unsigned char, long long, unsigned long long, __int128)
template <bool kBool, class Fn> inline void for_types(Fn&& fn) {
  fn(int{}); fn(long{}); fn((unsigned int)0); fn((unsigned long)0);
  if constexpr (kBool) fn(bool{});
#ifdef C10_EXT_TYPES
  fn(short{}); fn((unsigned short)0); fn((signed char)0); fn((unsigned char)0); fn((long long)0); fn((unsigned long long)0); fn((__int128)0);
#endif
}
// unsigned type in which the harness hands a reduced residue to class F: unsigned int, unless F's element type is wider
template <class F> using carrier_t = std::conditional_t<(sizeof(typename F::Element) > sizeof(unsigned int)), typename F::Element, unsigned int>;

// ------------------------------------------------------------------------------------------ oracle: partial inverse
// The property statement: the partial inverse of x w.r.t. a product of primes Q is (v, T) with T = product of the
// primes of Q at which x is invertible, v = x^-1 modulo each prime of T and v = 0 modulo every other prime of the range.
// x, v are compared as residues modulo P = product(primes).  Returns "" when (v, T) is right, else the reason.
template <class Z>
inline const char* partial_inverse_wrong(const std::vector<uint64_t>& primes, const Z& P, const Z& x, const Z& Q, const Z& v,
                                         const Z* T /* nullptr: do not check T */) {
  if (v < 0 || v >= P) return "value_not_reduced";
  Z wantT = 1;
  for (uint64_t q : primes) {
    Z zq = toZ<Z>((unsigned long)q);
    bool inQ = Z(Q % zq) == 0;
    bool invertible = pmod(x, zq) != 0;
    if (inQ && invertible) {
      wantT *= zq;
      if (pmod(Z(pmod(v, zq) * pmod(x, zq)), zq) != 1) return "not_inverse_at_prime_of_T";
    } else {
      if (pmod(v, zq) != 0) return "nonzero_at_prime_outside_T";
    }
  }
  if (T && *T != wantT) return "wrong_T";
  return "";
}
template <class Z>
inline const char* partial_identity_wrong(const std::vector<uint64_t>& primes, const Z& P, const Z& Q, const Z& v) {
  if (v < 0 || v >= P) return "value_not_reduced";
  for (uint64_t q : primes) {
    Z zq = toZ<Z>((unsigned long)q);
    bool inQ = Z(Q % zq) == 0;
    if (pmod(v, zq) != (inQ ? 1 : 0)) return inQ ? "not_1_at_prime_of_Q" : "not_0_at_prime_outside_Q";
  }
  return "";
}
// classification of (x, Q) for the evidence counters
template <class Z>
inline void note_partial(Rep& R, const std::vector<uint64_t>& primes, const Z& P, const Z& x, const Z& Q) {
  bool all = true, none = true;
  for (uint64_t q : primes) { Z zq = toZ<Z>((unsigned long)q); if (Z(Q % zq) == 0) { if (Z(x % zq) == 0) all = false; else none = false; } }
  if (none) ++R.n[S_PARTIAL_NONE]; else if (all) ++R.n[S_PARTIAL_ALL]; else ++R.n[S_PARTIAL_MIXED];
  if (Q != P && Q != 1) ++R.n[S_PROPER_Q];
}

// sub-products Q of the range used as partial-inverse arguments: all of them when there are <= 6 primes
template <class Z>
inline std::vector<Z> subproducts(const std::vector<uint64_t>& primes, vh::Rng& r, int nrandom) {
  std::vector<Z> out;
  size_t n = primes.size();
  auto prod_mask = [&](const std::vector<char>& m) { Z q = 1; for (size_t i = 0; i < n; ++i) if (m[i]) q *= toZ<Z>((unsigned long)primes[i]); return q; };
  if (n <= 6) {
    for (unsigned mask = 0; mask < (1u << n); ++mask) { std::vector<char> m(n); for (size_t i = 0; i < n; ++i) m[i] = (mask >> i) & 1; out.push_back(prod_mask(m)); }
    return out;
  }
  std::vector<char> m(n, 0);
  out.push_back(prod_mask(m));                       // Q = 1
  std::fill(m.begin(), m.end(), 1); out.push_back(prod_mask(m));   // Q = P
  for (size_t i = 0; i < n; ++i) { std::fill(m.begin(), m.end(), 0); m[i] = 1; out.push_back(prod_mask(m)); }
  for (size_t i = 0; i < n; ++i) { std::fill(m.begin(), m.end(), 1); m[i] = 0; out.push_back(prod_mask(m)); }
  for (int k = 0; k < nrandom; ++k) { for (size_t i = 0; i < n; ++i) m[i] = (char)r.chance(1, 2); out.push_back(prod_mask(m)); }
  return out;
}
// residues with prescribed zero patterns: multiples of sub-products of the range
template <class Z>
inline std::vector<Z> partial_operands(const std::vector<uint64_t>& primes, const Z& P, vh::Rng& r, int nrandom) {
  std::vector<Z> xs;
  xs.push_back(Z(0)); xs.push_back(pmod(Z(1), P)); xs.push_back(pmod(Z(P - 1), P)); xs.push_back(pmod(Z(2), P));
  std::vector<Z> subs = subproducts<Z>(primes, r, 8);
  for (const Z& s : subs) {
    xs.push_back(pmod(s, P));
    xs.push_back(pmod(Z(s * toZ<Z>((unsigned long)(2 + r.below(1000)))), P));
    xs.push_back(pmod(Z(P - pmod(s, P)), P));
  }
  for (uint64_t q : primes) { Z zq = toZ<Z>((unsigned long)q); xs.push_back(pmod(Z(zq * zq), P)); xs.push_back(pmod(Z(zq + 1), P)); xs.push_back(pmod(Z(zq - 1), P)); }
  for (int k = 0; k < nrandom; ++k) {
    Z v = toZ<Z>((unsigned long)r.next());
    if (P > toZ<Z>((unsigned long)UINT64_MAX >> 1)) { v = v * toZ<Z>((unsigned long)r.next()) + toZ<Z>((unsigned long)r.next()); v = v * toZ<Z>((unsigned long)r.next()); }
    xs.push_back(pmod(v, P));
  }
  return xs;
}

// ------------------------------------------------------------------------------------------ operand sets (native)
// exhaustive window [-3P, 3P]
inline std::vector<i128> window(i128 P) { std::vector<i128> v; for (i128 a = -3 * P; a <= 3 * P; ++a) v.push_back(a); return v; }
inline std::vector<i128> range_vals(i128 lo, i128 hi) { std::vector<i128> v; for (i128 a = lo; a <= hi; ++a) v.push_back(a); return v; }
// boundary-directed values within [LONG_MIN, ULONG_MAX]: around 0, +-P, +-2P, machine-word limits, the primes of the range, random
inline std::vector<i128> boundary_values(i128 P, const std::vector<uint64_t>& primes, vh::Rng& r, int nrandom) {
  std::vector<i128> v;
  auto add = [&](i128 x) { if (x >= (i128)LONG_MIN && x <= (i128)ULONG_MAX) v.push_back(x); };
  for (i128 k = -3; k <= 3; ++k) for (i128 d = -2; d <= 2; ++d) add(k * P + d);
  add((P - 1) / 2); add((P + 1) / 2); add(P / 2 + 1);
  const i128 words[] = {(i128)INT_MIN, (i128)INT_MIN + 1, -((i128)1 << 16), -((i128)1 << 16) - 1, ((i128)1 << 16) - 1, (i128)1 << 16, ((i128)1 << 16) + 1,
                        (i128)INT_MAX - 1, (i128)INT_MAX, (i128)INT_MAX + 1, (i128)UINT_MAX - 1, (i128)UINT_MAX, (i128)UINT_MAX + 1,
                        (i128)LONG_MIN, (i128)LONG_MIN + 1, (i128)LONG_MAX, (i128)LONG_MAX + 1, (i128)ULONG_MAX - 1, (i128)ULONG_MAX,
                        -(i128)UINT_MAX, -(i128)UINT_MAX - 1, 255, 256, 65535 * (i128)65535};
  for (i128 w : words) add(w);
  if (primes.size() > 1) for (uint64_t q : primes) { add((i128)q); add(-(i128)q); add(P / (i128)q); add(P - (i128)q); add((i128)q * (i128)(1 + r.below(50))); }
  for (int k = 0; k < nrandom; ++k) {
    unsigned mode = (unsigned)r.below(6);
    if (mode == 0) add((i128)r.below((uint64_t)P));                                  // reduced
    else if (mode == 1) add(-(i128)r.below((uint64_t)P * 4 + 7));                    // small negative
    else if (mode == 2) add((i128)(long)r.next());                                   // any long
    else if (mode == 3) add((i128)r.next());                                         // any unsigned long
    else if (mode == 4) add((i128)(int)(uint32_t)r.next());                          // any int
    else add((i128)P - 1 - (i128)r.below(std::min<uint64_t>((uint64_t)P, 64)));      // near P-1
  }
  return v;
}
inline std::vector<i128> reduced_boundary(i128 P, vh::Rng& r, int nrandom) {
  std::vector<i128> v = {0, 1, 2, (P - 1) / 2, (P + 1) / 2, P - 2, P - 1};
  for (int i = 0; i < nrandom; ++i) v.push_back((i128)r.below((uint64_t)P));
  for (auto& x : v) x = pmod(x, P);
  return v;
}

// ------------------------------------------------------------------------------------------ element classes (native)
// unary observations on one exact operand a.  kLimited: the inverses are not requested (compile-time classes instantiated with a
// non-default element type: those members do not compile, see "assumptions")
template <class F, bool kBool, bool kLimited = false>
inline void elem_unary(Rep& R, i128 P, const std::vector<uint64_t>& primes, i128 a, const std::vector<i128>& Qs) {
  typedef i128 Z;
  typedef carrier_t<F> U;
  typedef U QT;   // type in which a product of characteristics Q is passed
  const i128 ra = pmod(a, P), ra1 = pmod(ra + 1, P);
  const char* oc = opclass(a, P);
  note_operand(R, a, P);
  for_types<kBool>([&](auto tag) {
    using I = decltype(tag);
    if (!fits<I>(a, P)) { ++R.n[K_SKIP_TYPE]; return; }
    const I v = (I)a;
    F f(v);
    i128 got = (i128)f.get_value();
    C10_CHECKV(R, Z, tctr<I>(), got == ra, "convert", &a, C10_NIL(Z), C10_NIL(Z), &got, &ra, "constructor", tname<I>(), "operand", oc);
    F g;
    g = v;
    got = (i128)g.get_value();
    C10_CHECKV(R, Z, K_ASSIGN, got == ra, "convert", &a, C10_NIL(Z), C10_NIL(Z), &got, &ra, "assignment", tname<I>(), "operand", oc);
    F h((U)ra);
    C10_CHECKV(R, Z, K_CMP_MIXED, (h == v) && (v == h) && !(h != v) && !(v != h), "compare", &ra, &a, C10_NIL(Z), C10_NIL(Z), C10_NIL(Z), "elem_vs_integer_of_same_residue", tname<I>(), "operand", oc);
    if (P > 1) {
      F h2((U)ra1);
      C10_CHECKV(R, Z, K_CMP_MIXED, !(h2 == v) && !(v == h2) && (h2 != v) && (v != h2), "compare", &ra1, &a, C10_NIL(Z), C10_NIL(Z), C10_NIL(Z), "elem_vs_integer_of_other_residue", tname<I>(), "operand", oc);
    }
  });
  F x((U)ra);
  if (ra <= (i128)UINT_MAX) { i128 got = (i128)(unsigned int)x; C10_CHECKV(R, Z, K_CAST, got == ra, "convert", &ra, C10_NIL(Z), C10_NIL(Z), &got, &ra, "cast_to_unsigned"); }
  { F cp(x); F mv(std::move(cp)); F as; as = x; F sw((U)ra1); swap(as, sw);
    i128 g1 = (i128)mv.get_value(), g2 = (i128)sw.get_value(), g3 = (i128)as.get_value();
    C10_CHECKV(R, Z, K_ASSIGN, g1 == ra && g2 == ra && g3 == ra1, "convert", &ra, C10_NIL(Z), C10_NIL(Z), &g1, &ra, "copy_move_swap"); }
  if constexpr (kLimited) { (void)Qs; return; }
  else if (primes.size() == 1) {
    if (ra == 0) { ++R.n[K_SKIP_INVERSE_OF_ZERO]; }
    else {
      F inv = x.get_inverse();
      i128 iv = (i128)inv.get_value();
      C10_CHECKV(R, Z, K_INVERSE, iv >= 0 && iv < P && (iv * ra) % P == 1, "inverse", &ra, C10_NIL(Z), C10_NIL(Z), &iv, C10_NIL(Z), "get_inverse");
      F one = x * inv;
      i128 ov = (i128)one.get_value();
      C10_CHECKV(R, Z, K_INVERSE, ov == 1 && one == F::get_multiplicative_identity(), "inverse", &ra, &iv, C10_NIL(Z), &ov, C10_NIL(Z), "x_times_inverse");
      auto pi = x.get_partial_inverse((QT)P);
      i128 gv = (i128)pi.first.get_value(), gT = (i128)pi.second;
      C10_CHECKV(R, Z, K_PARTIAL_INVERSE, gv == iv && gT == P, "partial_inverse", &ra, &P, C10_NIL(Z), &gv, &iv, "single_prime");
    }
    i128 one = (i128)F::get_partial_multiplicative_identity((QT)P).get_value();
    C10_CHECKV(R, Z, K_PARTIAL_IDENTITY, one == 1, "partial_identity", &P, C10_NIL(Z), C10_NIL(Z), &one, C10_NIL(Z), "single_prime");
  } else {
    F inv = x.get_inverse();
    i128 iv = (i128)inv.get_value();
    const char* why = partial_inverse_wrong<i128>(primes, P, ra, P, iv, nullptr);
    C10_CHECKV(R, Z, K_INVERSE, !*why, "inverse", &ra, C10_NIL(Z), C10_NIL(Z), &iv, C10_NIL(Z), "get_inverse_multi", nullptr, nullptr, nullptr, nullptr, nullptr, why);
    for (i128 Q : Qs) {
      auto pi = x.get_partial_inverse((QT)Q);
      i128 gv = (i128)pi.first.get_value(), gT = (i128)pi.second;
      why = partial_inverse_wrong<i128>(primes, P, ra, Q, gv, &gT);
      note_partial<i128>(R, primes, P, ra, Q);
      C10_CHECKV(R, Z, K_PARTIAL_INVERSE, !*why, "partial_inverse", &ra, &Q, C10_NIL(Z), &gv, &gT, (Q == P ? "Q_is_full_product" : "Q_is_proper_subproduct"),
                 nullptr, nullptr, nullptr, nullptr, nullptr, why);
    }
  }
}
template <class F>
inline void elem_constants(Rep& R, i128 P, const std::vector<uint64_t>& primes, const std::vector<i128>& Qs) {
  typedef i128 Z;
  i128 got = (i128)F::get_additive_identity().get_value(), want = 0;
  C10_CHECKV(R, Z, K_IDENTITY, got == want, "identity", C10_NIL(Z), C10_NIL(Z), C10_NIL(Z), &got, &want, "additive");
  got = (i128)F::get_multiplicative_identity().get_value(); want = 1 % P;
  C10_CHECKV(R, Z, K_IDENTITY, got == want, "identity", C10_NIL(Z), C10_NIL(Z), C10_NIL(Z), &got, &want, "multiplicative");
  got = (i128)F::get_characteristic(); want = P;
  C10_CHECKV(R, Z, K_CHARACTERISTIC, got == want, "characteristic", C10_NIL(Z), C10_NIL(Z), C10_NIL(Z), &got, &want, "get_characteristic");
  got = (i128)F().get_value(); want = 0;
  C10_CHECKV(R, Z, K_IDENTITY, got == want, "identity", C10_NIL(Z), C10_NIL(Z), C10_NIL(Z), &got, &want, "default_constructed");
  if (primes.size() > 1)
    for (i128 Q : Qs) {
      i128 v = (i128)F::get_partial_multiplicative_identity((carrier_t<F>)Q).get_value();
      const char* why = partial_identity_wrong<i128>(primes, P, Q, v);
      C10_CHECKV(R, Z, K_PARTIAL_IDENTITY, !*why, "partial_identity", &Q, C10_NIL(Z), C10_NIL(Z), &v, C10_NIL(Z), "multi", nullptr, nullptr, nullptr, nullptr, nullptr, why);
    }
}
// binary observations on exact operands a (becomes the element) and b (element and typed integer)
template <class F, bool kBool>
inline void elem_binary(Rep& R, i128 P, i128 a, i128 b) {
  typedef i128 Z;
  const i128 ra = pmod(a, P), rb = pmod(b, P);
  const i128 sum = pmod(ra + rb, P), dif = pmod(ra - rb, P), rdif = pmod(rb - ra, P), prd = pmod(ra * rb, P);
  const F x((carrier_t<F>)ra), y((carrier_t<F>)rb);
  i128 got;
  if (a == ra && b == rb) {
    if (ra + rb >= P || ra < rb || ra * rb >= P) ++R.n[S_RESULT_WRAPPED];
    if (ra + rb > (i128)UINT_MAX) ++R.n[S_UINT32_WRAP];
    if (ra + rb > (i128)std::numeric_limits<typename F::Element>::max()) ++R.n[S_SUM_WRAPS_ELEMENT];
    if (ra > (i128)UINT_MAX || rb > (i128)UINT_MAX) ++R.n[S_OPERAND_ABOVE_2P32];
    got = (i128)(x + y).get_value(); C10_CHECKV(R, Z, K_ADD, got == sum, "add", &ra, &rb, C10_NIL(Z), &got, &sum, "elem+elem");
    got = (i128)(x - y).get_value(); C10_CHECKV(R, Z, K_SUB, got == dif, "sub", &ra, &rb, C10_NIL(Z), &got, &dif, "elem-elem");
    got = (i128)(x * y).get_value(); C10_CHECKV(R, Z, K_MUL, got == prd, "mul", &ra, &rb, C10_NIL(Z), &got, &prd, "elem*elem");
    { F t(x); t += y; got = (i128)t.get_value(); C10_CHECKV(R, Z, K_INPLACE, got == sum, "add", &ra, &rb, C10_NIL(Z), &got, &sum, "elem+=elem"); }
    { F t(x); t -= y; got = (i128)t.get_value(); C10_CHECKV(R, Z, K_INPLACE, got == dif, "sub", &ra, &rb, C10_NIL(Z), &got, &dif, "elem-=elem"); }
    { F t(x); t *= y; got = (i128)t.get_value(); C10_CHECKV(R, Z, K_INPLACE, got == prd, "mul", &ra, &rb, C10_NIL(Z), &got, &prd, "elem*=elem"); }
    C10_CHECKV(R, Z, K_CMP, (x == y) == (ra == rb) && (x != y) == (ra != rb), "compare", &ra, &rb, C10_NIL(Z), C10_NIL(Z), C10_NIL(Z), "elem_vs_elem");
  }
  const char* oc = opclass(b, P);
  for_types<kBool>([&](auto tag) {
    using I = decltype(tag);
    if (!fits<I>(b, P)) { ++R.n[K_SKIP_TYPE]; return; }
    const I v = (I)b;
    const char* tn = tname<I>();
    i128 g;
    g = (i128)(x + v).get_value(); C10_CHECKV(R, Z, K_ADD_MIXED, g == sum, "add", &ra, &b, C10_NIL(Z), &g, &sum, "elem+integer", tn, "integer", oc);
    g = (i128)(x - v).get_value(); C10_CHECKV(R, Z, K_SUB_MIXED, g == dif, "sub", &ra, &b, C10_NIL(Z), &g, &dif, "elem-integer", tn, "integer", oc);
    g = (i128)(x * v).get_value(); C10_CHECKV(R, Z, K_MUL_MIXED, g == prd, "mul", &ra, &b, C10_NIL(Z), &g, &prd, "elem*integer", tn, "integer", oc);
    { F t(x); t += v; g = (i128)t.get_value(); C10_CHECKV(R, Z, K_INPLACE, g == sum, "add", &ra, &b, C10_NIL(Z), &g, &sum, "elem+=integer", tn, "integer", oc); }
    { F t(x); t -= v; g = (i128)t.get_value(); C10_CHECKV(R, Z, K_INPLACE, g == dif, "sub", &ra, &b, C10_NIL(Z), &g, &dif, "elem-=integer", tn, "integer", oc); }
    { F t(x); t *= v; g = (i128)t.get_value(); C10_CHECKV(R, Z, K_INPLACE, g == prd, "mul", &ra, &b, C10_NIL(Z), &g, &prd, "elem*=integer", tn, "integer", oc); }
    // integer (op) element returns the residue in the integer's type: only judged when that type can hold every residue
    if (tmax<I>() < P - 1) ++R.n[K_SKIP_RESULT_TYPE];
    else {
    { I r = v + x; g = (i128)r; C10_CHECKV(R, Z, K_ADD_MIXED, g == sum, "add", &b, &ra, C10_NIL(Z), &g, &sum, "integer+elem", tn, "integer", oc); }
    { I r = v - x; g = (i128)r; C10_CHECKV(R, Z, K_SUB_MIXED, g == rdif, "sub", &b, &ra, C10_NIL(Z), &g, &rdif, "integer-elem", tn, "integer", oc); }
    { I r = v * x; g = (i128)r; C10_CHECKV(R, Z, K_MUL_MIXED, g == prd, "mul", &b, &ra, C10_NIL(Z), &g, &prd, "integer*elem", tn, "integer", oc); }
    }
    C10_CHECKV(R, Z, K_CMP_MIXED, (x == v) == (ra == rb) && (v == x) == (ra == rb) && (x != v) == (ra != rb) && (v != x) == (ra != rb), "compare", &ra, &b, C10_NIL(Z), C10_NIL(Z), C10_NIL(Z),
               "elem_vs_integer", tn, "integer", oc);
  });
}

// ------------------------------------------------------------------------------------------ stateless operator classes
// E = element type passed to the methods (unsigned int / bool / mpz_class), Z = oracle integer type.
template <class Z, class E> inline E mkE(const Z& v) {
  if constexpr (std::is_same_v<Z, i128>) return (E)(unsigned long)v;
  else return E(v);
}
template <class Op, class E, class Z>
inline void ops_unary(Rep& R, Op& op, const Z& P, const std::vector<uint64_t>& primes, const Z& a /* >= 0 unless E is a big integer */, const std::vector<Z>& Qs,
                      bool inverse_of_unreduced = true /* false: (partial) inverses are only asked for reduced operands */) {
  const Z ra = pmod(a, P);
  const char* oc = opclass(a, P);
  note_operand(R, a, P);
  const E e = mkE<Z, E>(a);
  Z got = toZ<Z>(op.get_value(e));
  C10_CHECKV(R, Z, K_GET_VALUE, got == ra, "convert", &a, C10_NIL(Z), C10_NIL(Z), &got, &ra, "get_value", "element", "operand", oc);
  const Z rn = pmod(Z(ra + 1), P);
  const E eq = mkE<Z, E>(ra), ne = mkE<Z, E>(rn);
  C10_CHECKV(R, Z, K_CMP, op.are_equal(e, eq) && op.are_equal(eq, e) && (P == 1 || (!op.are_equal(e, ne) && !op.are_equal(ne, e))), "compare", &a, &ra, C10_NIL(Z), C10_NIL(Z), C10_NIL(Z), "are_equal", nullptr, "operand", oc);
  if (!inverse_of_unreduced && a != ra) return;
  if (primes.size() == 1) {
    if (ra == 0) ++R.n[K_SKIP_INVERSE_OF_ZERO];
    else {
      Z iv = toZ<Z>(op.get_inverse(e));
      C10_CHECKV(R, Z, K_INVERSE, iv >= 0 && iv < P && pmod(Z(iv * ra), P) == 1, "inverse", &a, C10_NIL(Z), C10_NIL(Z), &iv, C10_NIL(Z), "get_inverse", nullptr, "operand", oc);
      Z one = toZ<Z>(op.multiply(e, mkE<Z, E>(iv)));
      C10_CHECKV(R, Z, K_INVERSE, one == 1, "inverse", &a, &iv, C10_NIL(Z), &one, C10_NIL(Z), "x_times_inverse");
      auto pi = op.get_partial_inverse(e, mkE<Z, typename Op::Characteristic>(P));
      Z gv = toZ<Z>(pi.first), gT = toZ<Z>(pi.second);
      C10_CHECKV(R, Z, K_PARTIAL_INVERSE, gv == iv && gT == P, "partial_inverse", &a, &P, C10_NIL(Z), &gv, &gT, "single_prime");
    }
  } else {
    Z iv = toZ<Z>(op.get_inverse(e));
    const char* why = partial_inverse_wrong<Z>(primes, P, ra, P, iv, nullptr);
    C10_CHECKV(R, Z, K_INVERSE, !*why, "inverse", &a, C10_NIL(Z), C10_NIL(Z), &iv, C10_NIL(Z), "get_inverse_multi", nullptr, "operand", oc, nullptr, nullptr, why);
    for (const Z& Q : Qs) {
      auto pi = op.get_partial_inverse(e, mkE<Z, typename Op::Characteristic>(Q));
      Z gv = toZ<Z>(pi.first), gT = toZ<Z>(pi.second);
      why = partial_inverse_wrong<Z>(primes, P, ra, Q, gv, &gT);
      note_partial<Z>(R, primes, P, ra, Q);
      C10_CHECKV(R, Z, K_PARTIAL_INVERSE, !*why, "partial_inverse", &a, &Q, C10_NIL(Z), &gv, &gT, (Q == P ? "Q_is_full_product" : "Q_is_proper_subproduct"),
                 nullptr, "operand", oc, nullptr, nullptr, why);
    }
  }
}
template <class Op, class Z>
inline void ops_constants(Rep& R, Op& op, const Z& P, const std::vector<uint64_t>& primes, const std::vector<Z>& Qs) {
  Z got = toZ<Z>(op.get_additive_identity()), want = 0;
  C10_CHECKV(R, Z, K_IDENTITY, got == want, "identity", C10_NIL(Z), C10_NIL(Z), C10_NIL(Z), &got, &want, "additive");
  got = toZ<Z>(op.get_multiplicative_identity()); want = 1;
  C10_CHECKV(R, Z, K_IDENTITY, got == want, "identity", C10_NIL(Z), C10_NIL(Z), C10_NIL(Z), &got, &want, "multiplicative");
  got = toZ<Z>(op.get_characteristic()); want = P;
  C10_CHECKV(R, Z, K_CHARACTERISTIC, got == want, "characteristic", C10_NIL(Z), C10_NIL(Z), C10_NIL(Z), &got, &want, "get_characteristic");
  if (primes.size() == 1) {
    got = toZ<Z>(op.get_partial_multiplicative_identity(mkE<Z, typename Op::Characteristic>(P))); want = 1;
    C10_CHECKV(R, Z, K_PARTIAL_IDENTITY, got == want, "partial_identity", &P, C10_NIL(Z), C10_NIL(Z), &got, &want, "single_prime");
  } else {
    for (const Z& Q : Qs) {
      Z v = toZ<Z>(op.get_partial_multiplicative_identity(mkE<Z, typename Op::Characteristic>(Q)));
      const char* why = partial_identity_wrong<Z>(primes, P, Q, v);
      C10_CHECKV(R, Z, K_PARTIAL_IDENTITY, !*why, "partial_identity", &Q, C10_NIL(Z), C10_NIL(Z), &v, C10_NIL(Z), "multi", nullptr, nullptr, nullptr, nullptr, nullptr, why);
    }
  }
}
template <class Op, class E, class Z>
inline void ops_binary(Rep& R, Op& op, const Z& P, const Z& a, const Z& b) {
  const Z ra = pmod(a, P), rb = pmod(b, P);
  const Z sum = pmod(Z(ra + rb), P), dif = pmod(Z(ra - rb), P), prd = pmod(Z(ra * rb), P);
  const E ea = mkE<Z, E>(a), eb = mkE<Z, E>(b);
  if (ra + rb >= P || ra < rb || ra * rb >= P) ++R.n[S_RESULT_WRAPPED];
  if (ra + rb > toZ<Z>((unsigned long)UINT_MAX)) ++R.n[S_UINT32_WRAP];
  if constexpr (std::is_integral_v<E>) {
    if (ra + rb > toZ<Z>((unsigned long)std::numeric_limits<E>::max())) ++R.n[S_SUM_WRAPS_ELEMENT];
    if (ra > toZ<Z>((unsigned long)UINT_MAX) || rb > toZ<Z>((unsigned long)UINT_MAX)) ++R.n[S_OPERAND_ABOVE_2P32];
  }
  const char* oa = opclass(a, P); const char* ob = opclass(b, P);
  Z got;
  got = toZ<Z>(op.add(ea, eb)); C10_CHECKV(R, Z, K_ADD, got == sum, "add", &a, &b, C10_NIL(Z), &got, &sum, "add", nullptr, "lhs", oa, "rhs", ob);
  got = toZ<Z>(op.subtract(ea, eb)); C10_CHECKV(R, Z, K_SUB, got == dif, "sub", &a, &b, C10_NIL(Z), &got, &dif, "subtract", nullptr, "lhs", oa, "rhs", ob);
  got = toZ<Z>(op.multiply(ea, eb)); C10_CHECKV(R, Z, K_MUL, got == prd, "mul", &a, &b, C10_NIL(Z), &got, &prd, "multiply", nullptr, "lhs", oa, "rhs", ob);
  { E t = ea; op.add_inplace(t, eb); got = toZ<Z>(t); C10_CHECKV(R, Z, K_INPLACE, got == sum, "add", &a, &b, C10_NIL(Z), &got, &sum, "add_inplace", nullptr, "lhs", oa, "rhs", ob); }
  { E t = ea; op.subtract_inplace_front(t, eb); got = toZ<Z>(t); C10_CHECKV(R, Z, K_INPLACE, got == dif, "sub", &a, &b, C10_NIL(Z), &got, &dif, "subtract_inplace_front", nullptr, "lhs", oa, "rhs", ob); }
  { E t = eb; op.subtract_inplace_back(ea, t); got = toZ<Z>(t); C10_CHECKV(R, Z, K_INPLACE, got == dif, "sub", &a, &b, C10_NIL(Z), &got, &dif, "subtract_inplace_back", nullptr, "lhs", oa, "rhs", ob); }
  { E t = ea; op.multiply_inplace(t, eb); got = toZ<Z>(t); C10_CHECKV(R, Z, K_INPLACE, got == prd, "mul", &a, &b, C10_NIL(Z), &got, &prd, "multiply_inplace", nullptr, "lhs", oa, "rhs", ob); }
  C10_CHECKV(R, Z, K_CMP, op.are_equal(ea, eb) == (ra == rb), "compare", &a, &b, C10_NIL(Z), C10_NIL(Z), C10_NIL(Z), "are_equal_pair", nullptr, "lhs", oa, "rhs", ob);
}
// fused operations; word_limit > 0: UNREDUCED triples whose exact intermediate value exceeds it are skipped (the methods are
// documented "not overflow safe" and the property only quantifies over reduced operands); REDUCED triples are always judged:
// the property demands the exact result for every characteristic the class accepts.
template <class Op, class E, class Z>
inline void ops_fused(Rep& R, Op& op, const Z& P, const Z& a, const Z& b, const Z& c, const Z& word_limit) {
  const Z ma = a * b + c, am = (a + b) * c, apb = a + b;
  const char* cl = (a < P && b < P && c < P && a >= 0 && b >= 0 && c >= 0) ? "reduced" : "unreduced";
  Z got;
  const bool reduced_operands = (a < P && b < P && c < P && a >= 0 && b >= 0 && c >= 0);
  if (word_limit > 0 && !reduced_operands && (ma > word_limit || ma < 0)) ++R.n[K_SKIP_FUSED_OVERFLOW];
  else {
    const Z want = pmod(ma, P);
    if (ma >= (toZ<Z>((unsigned long)1) << 31)) ++R.n[S_FUSED_NEAR_WORD];
    const E ea = mkE<Z, E>(a), eb = mkE<Z, E>(b), ec = mkE<Z, E>(c);
    got = toZ<Z>(op.multiply_and_add(ea, eb, ec));
    C10_CHECKV(R, Z, K_FUSED_MUL_ADD, got == want, "fused.multiply_and_add", &a, &b, &c, &got, &want, "value", nullptr, "operands", cl);
    { E t = ea; op.multiply_and_add_inplace_front(t, eb, ec); got = toZ<Z>(t); C10_CHECKV(R, Z, K_FUSED_MUL_ADD, got == want, "fused.multiply_and_add", &a, &b, &c, &got, &want, "inplace_front", nullptr, "operands", cl); }
    { E t = ec; op.multiply_and_add_inplace_back(ea, eb, t); got = toZ<Z>(t); C10_CHECKV(R, Z, K_FUSED_MUL_ADD, got == want, "fused.multiply_and_add", &a, &b, &c, &got, &want, "inplace_back", nullptr, "operands", cl); }
  }
  if (word_limit > 0 && !reduced_operands && (am > word_limit || am < 0 || apb > word_limit)) ++R.n[K_SKIP_FUSED_OVERFLOW];
  else {
    const Z want = pmod(am, P);
    E ea = mkE<Z, E>(a); const E eb = mkE<Z, E>(b), ec = mkE<Z, E>(c);
    got = toZ<Z>(op.add_and_multiply(ea, eb, ec));
    C10_CHECKV(R, Z, K_FUSED_ADD_MUL, got == want, "fused.add_and_multiply", &a, &b, &c, &got, &want, "value", nullptr, "operands", cl);
    { E t = ea; op.add_and_multiply_inplace_front(t, eb, ec); got = toZ<Z>(t); C10_CHECKV(R, Z, K_FUSED_ADD_MUL, got == want, "fused.add_and_multiply", &a, &b, &c, &got, &want, "inplace_front", nullptr, "operands", cl); }
    { E t = ec; op.add_and_multiply_inplace_back(ea, eb, t); got = toZ<Z>(t); C10_CHECKV(R, Z, K_FUSED_ADD_MUL, got == want, "fused.add_and_multiply", &a, &b, &c, &got, &want, "inplace_back", nullptr, "operands", cl); }
  }
}

// ------------------------------------------------------------------------------------------ block drivers
template <class F, bool kBool, bool kLimited = false>
inline void elem_block(Rep& R, i128 P, const std::vector<uint64_t>& primes, const std::vector<i128>& as, const std::vector<i128>& bs, const std::vector<i128>& Qs) {
  for (i128 a : as) {
    elem_unary<F, kBool, kLimited>(R, P, primes, a, Qs);
    for (i128 b : bs) elem_binary<F, kBool>(R, P, a, b);
  }
  if constexpr (!kLimited) elem_constants<F>(R, P, primes, Qs);
}
// get_value overloads for signed machine integers (Zp_field_operators, Z2_field_operators)
template <class Op>
inline void ops_signed_get_value(Rep& R, Op& op, i128 P, i128 a) {
  for_types<false>([&](auto tag) {
    using I = decltype(tag);
    if (!tsigned<I>()) return;
    if (!fits<I>(a, P)) { ++R.n[K_SKIP_TYPE]; return; }
    note_operand(R, a, P);
    i128 got = (i128)op.get_value((I)a);
    C10_CHECK(R, tctr<I>(), got == pmod(a, P), "convert", std::string("form=get_value,type=") + tname<I>() + ",operand=" + opclass(a, P),
              "get_value(" + zstr(a) + ")=" + zstr(got) + " want " + zstr(pmod(a, P)));
  });
}
// native operator classes (Element = E): operands outside [0, max(E)] are not representable and skipped
template <class Op, class E>
inline void ops_block(Rep& R, Op& op, i128 P, const std::vector<uint64_t>& primes, const std::vector<i128>& as, const std::vector<i128>& bs, const std::vector<i128>& cs,
                      const std::vector<i128>& Qs, i128 word_limit, bool inverse_of_unreduced) {
  const i128 emax = std::is_same_v<E, bool> ? 1 : (i128)std::numeric_limits<E>::max();
  for (i128 a : as) {
    if (a < 0 || a > emax) continue;
    ops_unary<Op, E, i128>(R, op, P, primes, a, Qs, inverse_of_unreduced);
    for (i128 b : bs) {
      if (b < 0 || b > emax) continue;
      ops_binary<Op, E, i128>(R, op, P, a, b);
      for (i128 c : cs) {
        if (c < 0 || c > emax) continue;
        ops_fused<Op, E, i128>(R, op, P, a, b, c, word_limit);
      }
    }
  }
  ops_constants<Op, i128>(R, op, P, primes, Qs);
}
inline void finish_block(vh::Case& c, Rep& R, const std::string& desc, uint64_t salt) {
  bool nt = R.total_ops() >= 20 && (R.n[S_RESULT_WRAPPED] > 0 || R.n[K_INVERSE] > 0 || R.n[K_PARTIAL_INVERSE] > 0);
  if (nt) c.nontrivial(vh::hash_mix(vh::hash_str(desc), salt));
  c.sample("{\"block\":\"" + vh::jesc(desc) + "\",\"evaluations\":" + std::to_string(R.total_ops()) + "}");
}

// ------------------------------------------------------------------------------------------ cohomology coefficient classes
// interface: plus_times_equal(x,y,w)=x+w*y, times(y,w), plus_equal(x,y), times_minus(x,y)=-x*y, inverse(x,Q)->(v,T),
// additive_identity(), multiplicative_identity(), multiplicative_identity(Q), characteristic().  Operands are reduced.
template <class Coh, class E, class Z>
inline void coh_triple(Rep& R, Coh& f, const Z& P, const Z& x, const Z& y, const Z& w) {
  const E ex = mkE<Z, E>(x), ey = mkE<Z, E>(y), ew = mkE<Z, E>(w);
  const Z exact = x + w * y;
  Z want = pmod(exact, P);
  if (exact >= P) ++R.n[S_RESULT_WRAPPED];
  if (exact >= (toZ<Z>((unsigned long)1) << 30)) ++R.n[S_FUSED_NEAR_WORD];
  Z got = toZ<Z>(f.plus_times_equal(ex, ey, ew));
  C10_CHECKV(R, Z, K_COH_PLUS_TIMES, got == want, "coh.plus_times_equal", &x, &y, &w, &got, &want, "value(a+c*b)");
}
template <class Coh, class E, class Z>
inline void coh_pair(Rep& R, Coh& f, const Z& P, const Z& x, const Z& y) {
  const E ex = mkE<Z, E>(x), ey = mkE<Z, E>(y);
  Z got = toZ<Z>(f.times_minus(ex, ey)), want = pmod(Z(-(x * y)), P);
  C10_CHECKV(R, Z, K_COH_TIMES_MINUS, got == want, "coh.times_minus", &x, &y, C10_NIL(Z), &got, &want, "value", nullptr, "product", (want == 0 ? "zero" : "nonzero"));
  got = toZ<Z>(f.times(ex, ey)); want = pmod(Z(x * y), P);
  C10_CHECKV(R, Z, K_COH_TIMES, got == want, "coh.times", &x, &y, C10_NIL(Z), &got, &want, "value");
  got = toZ<Z>(f.plus_equal(ex, ey)); want = pmod(Z(x + y), P);
  C10_CHECKV(R, Z, K_COH_PLUS, got == want, "coh.plus_equal", &x, &y, C10_NIL(Z), &got, &want, "value");
}
template <class Coh, class E, class Z>
inline void coh_unary(Rep& R, Coh& f, const Z& P, const std::vector<uint64_t>& primes, const Z& x, const std::vector<Z>& Qs) {
  const E ex = mkE<Z, E>(x);
  if (x == P - 1) ++R.n[S_P_MINUS_1];
  if (primes.size() == 1) {
    if (x == 0) { ++R.n[K_SKIP_INVERSE_OF_ZERO]; return; }
    auto pi = f.inverse(ex, mkE<Z, E>(P));
    Z iv = toZ<Z>(pi.first), T = toZ<Z>(pi.second);
    C10_CHECKV(R, Z, K_INVERSE, iv >= 0 && iv < P && pmod(Z(iv * x), P) == 1 && T == P, "inverse", &x, &P, C10_NIL(Z), &iv, &T, "coh_inverse_single_prime");
    Z one = toZ<Z>(f.times(ex, mkE<Z, E>(iv)));
    C10_CHECKV(R, Z, K_INVERSE, one == 1, "inverse", &x, &iv, C10_NIL(Z), &one, C10_NIL(Z), "x_times_inverse");
  } else {
    for (const Z& Q : Qs) {
      auto pi = f.inverse(ex, mkE<Z, E>(Q));
      Z gv = toZ<Z>(pi.first), gT = toZ<Z>(pi.second);
      const char* why = partial_inverse_wrong<Z>(primes, P, x, Q, gv, &gT);
      note_partial<Z>(R, primes, P, x, Q);
      C10_CHECKV(R, Z, K_PARTIAL_INVERSE, !*why, "partial_inverse", &x, &Q, C10_NIL(Z), &gv, &gT, (Q == P ? "Q_is_full_product" : "Q_is_proper_subproduct"),
                 nullptr, nullptr, nullptr, nullptr, nullptr, why);
    }
  }
}

// ------------------------------------------------------------------------------------------ refusal
// fn must throw (any std::exception); returning normally = the characteristic was accepted.
template <class Fn>
inline void must_refuse(Rep& R, const std::string& what, const char* why_sig, Fn&& fn) {
  bool thrown = false;
  try { fn(); } catch (const std::exception&) { thrown = true; }
  C10_CHECK(R, K_REFUSE, thrown, "refuse", std::string("form=") + why_sig, what + " was accepted (no exception)");
}

// ------------------------------------------------------------------------------------------ CPU watchdog
// Runs fn() in a forked child under a CPU-time limit, so that an initialisation that never returns becomes ONE named violation
// instead of a hung shard (the orchestrator's own watchdog only fires after half an hour).  The child reports how fn() ended;
// nothing it computed is used: the caller repeats the call in its own process when the child came back.
enum GuardResult { G_RETURNED, G_THREW, G_NEVER_RETURNED, G_DIED };
template <class Fn>
inline GuardResult guarded_probe(unsigned cpu_seconds, Fn&& fn) {
  pid_t pid = fork();
  if (pid < 0) throw std::runtime_error("fork failed");
  if (pid == 0) {
    vh::G().cur_case = -1;   // the child never writes to the result file
    struct rlimit rl; rl.rlim_cur = cpu_seconds; rl.rlim_max = cpu_seconds + 2;
    setrlimit(RLIMIT_CPU, &rl);
    signal(SIGXCPU, SIG_DFL);
    int code = 0;
    try { fn(); } catch (const std::exception&) { code = 3; } catch (...) { code = 4; }
    _exit(code);
  }
  int st = 0;
  while (waitpid(pid, &st, 0) < 0 && errno == EINTR) {}
  if (WIFEXITED(st) && WEXITSTATUS(st) == 0) return G_RETURNED;
  if (WIFEXITED(st) && WEXITSTATUS(st) == 3) return G_THREW;
  if (WIFSIGNALED(st) && (WTERMSIG(st) == SIGXCPU || WTERMSIG(st) == SIGKILL)) return G_NEVER_RETURNED;
  return G_DIED;   // sanitizer report / crash in the child: the caller repeats the call in-process, where it is attributed to the case
}
// initialisation of a field under the watchdog.  Returns true when the caller may go on (fn() returned in the child AND then in this
// process); reports check "terminates" when it never returned, "accept" when a valid characteristic / range was refused.
template <class Fn>
inline bool guarded_init(Rep& R, unsigned cpu_seconds, const char* form, const std::string& what, Fn&& fn) {
  GuardResult g = guarded_probe(cpu_seconds, fn);
  ++R.n[K_INIT_GUARDED];
  if (g == G_NEVER_RETURNED) {
    R.fail("terminates", std::string("form=") + form + ",never_returns", what + " did not return within " + std::to_string(cpu_seconds) + " s of CPU time (forked child killed by the watchdog)");
    return false;
  }
  if (g == G_THREW) {
    R.fail("accept", std::string("form=") + form + ",valid_refused", what + " threw although the characteristic / range is valid (contains a prime)");
    return false;
  }
  try { fn(); } catch (const std::exception& e) {
    R.fail("accept", std::string("form=") + form + ",valid_refused", what + " threw: " + e.what());
    return false;
  }
  return true;
}

// ------------------------------------------------------------------------------------------ object state scenarios
// move construction, swap, copy assignment, move assignment of an operator class, each followed by a use of the moved-to object,
// and re-initialisation of the moved-from one.  init(op, field) gives op the field, blk(op, field) judges a reduced block in it.
template <class Op, class Fld, class Init, class Blk>
inline void ops_move_swap_assign(const Fld& f1, const Fld& f2, Init&& init, Blk&& blk) {
  Op a, b;
  init(a, f1); init(b, f2);
  Op m(std::move(a)); blk(m, f1);          // move construction
  swap(m, b); blk(m, f2); blk(b, f1);      // swap
  Op d; d = m; blk(d, f2); blk(m, f2);     // copy assignment: both usable
  Op e; init(e, f2); e = std::move(b); blk(e, f1);   // move assignment over a live object
  Op g(e); blk(g, f1);                     // copy construction
  init(a, f2); blk(a, f2);                 // a moved-from object can be given a field again
  init(b, f1); blk(b, f1);
}
// an odd composite above p (no factor 2): the table constructions of the Z_p classes overwrite entries before they notice it
inline unsigned long odd_composite_above(vh::Rng& r, unsigned long p) {
  for (;;) { unsigned long n = (p + 1 + r.below(3 * p + 40)) | 1; if (n > p && !is_prime_naive(n)) return n; }
}

// a few composite numbers that defeat weak primality tests
static const unsigned kCarmichael[] = {561, 1105, 1729, 2465, 2821, 6601, 8911, 10585, 15841, 29341, 41041, 46657, 52633, 62745, 63973};

inline uint64_t random_prime_below(vh::Rng& r, uint64_t bound) {
  for (;;) { uint64_t c = 2 + r.below(bound - 2); if (is_prime_naive(c)) return c; }
}

}  // namespace c10

#endif  // VERIF_C10_COMMON_H_

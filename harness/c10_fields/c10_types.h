// C10 — element-type / integer-type instantiations: helpers shared by c10_types_rt.cpp, c10_types_ct.cpp, c10_types_small.cpp.
//  (a) Zp_field_operators<E>, Shared_Zp_field_element<E>, Zp_field_element<p,E>, Shared_multi_field_element_with_small_characteristics<E>
//      and Multi_field_element_with_small_characteristics<lo,hi,E> with E = unsigned long / unsigned short / unsigned char
//      ("A native unsigned integer type: unsigned int, long unsigned int, etc."), at primes / products around the word limits of E;
//  (b) the default element type driven with the integer types short, unsigned short, signed / unsigned char, long long,
//      unsigned long long and __int128 in every conversion / mixed operator (C10_EXT_TYPES);
//  (c) range end points of the small shared multi-field near 2^31 / 2^32, each initialisation under a CPU watchdog.
#ifndef VERIF_C10_TYPES_H_
#define VERIF_C10_TYPES_H_
#define C10_EXT_TYPES 1
#include <cassert>
#include <climits>
#include <array>
#include <vector>
#include <stdexcept>
#include <numeric>
#include "c10_common.h"

namespace c10 {


enum Ety { E_UINT, E_ULONG, E_USHORT, E_UCHAR };
const char* const kEtyName[] = {"uint", "ulong", "ushort", "uchar"};
template <class E> constexpr Ety ety() {
  return std::is_same_v<E, unsigned long> ? E_ULONG : std::is_same_v<E, unsigned short> ? E_USHORT : std::is_same_v<E, unsigned char> ? E_UCHAR : E_UINT;
}
// signature suffix: names the input class (the default element type keeps the signatures of the other units; there the new
// input class is the integer type, which the monitors put into "type=")
template <class E> inline std::string esfx() { return ety<E>() == E_UINT ? std::string() : std::string(",element=") + kEtyName[ety<E>()]; }
template <class E> inline void count_ety(vh::Case& c, i128 P) {
  c.count(std::string("types.element_") + kEtyName[ety<E>()]);
  if (ety<E>() != E_UINT && 2 * P > (i128)std::numeric_limits<E>::max()) c.count("types.twice_modulus_exceeds_element_type");
  if (P > (i128)UINT_MAX) c.count("types.modulus_above_2p32");
}
// CPU limit of the watchdog for an O(p^2) table construction (p = 65521 takes about 8 s under ASan)
inline unsigned table_cpu_limit(uint64_t p) { return 3 + (unsigned)((p * p) / 200000000ull); }

// operands: boundary values around multiples of P and around the word limits of E, plus values beyond 64 bits for __int128
template <class E>
inline std::vector<i128> typed_values(i128 P, const std::vector<uint64_t>& primes, vh::Rng& r, int nrandom) {
  std::vector<i128> v = boundary_values(P, primes, r, nrandom);
  const i128 emax = (i128)std::numeric_limits<E>::max();
  for (i128 d = -2; d <= 2; ++d) { v.push_back(emax + d); v.push_back(emax / 2 + d); v.push_back(-emax + d); }
  const i128 small[] = {SCHAR_MIN, SCHAR_MIN + 1, SCHAR_MAX, UCHAR_MAX, SHRT_MIN, SHRT_MIN + 1, SHRT_MAX, USHRT_MAX, -1, -2, 100, -100, 200, 30000, -30000, 60000};
  for (i128 x : small) v.push_back(x);
  const i128 big = (i128)1 << 100;
  v.push_back(big + 1); v.push_back(-big - 1); v.push_back(big * 3 + P); v.push_back(tmax<__int128>()); v.push_back(tmin<__int128>()); v.push_back(tmin<__int128>() + 1);
  v.push_back((i128)ULONG_MAX + 1); v.push_back((i128)LONG_MIN - 1);
  for (int k = 0; k < 4; ++k) v.push_back((i128)(long)r.next() * ((i128)1 << 40) + (i128)r.below(1000));
  return v;
}


// the typed blocks keep their signatures short: the element type names the input class (non-default element types), resp. the
// integer type does (default element type); the operand classes only go to the detail text
template <class E> inline void set_sig_style(Rep& R) { R.sfx = esfx<E>(); R.coarse = ety<E>() == E_UINT ? 1 : 2; }

}  // namespace c10
#endif

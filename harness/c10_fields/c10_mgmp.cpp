// C10 — GMP multi-fields: Multi_field_element<min,max> (compile time), Shared_multi_field_element, Multi_field_operators
// (run time) and the cohomology engine's Multi_field.  Oracle integers are mpz_class (GMP is part of the trusted base).
#define C10_WITH_GMP 1
#include <cassert>
#include <climits>
#include <iostream>
#include <vector>
#include <stdexcept>
#include <gmpxx.h>
#include <gudhi/Fields/Multi_field.h>
#include <gudhi/Fields/Multi_field_shared.h>
#include <gudhi/Fields/Multi_field_operators.h>
#include <gudhi/Persistent_cohomology/Multi_field.h>
#include "c10_common.h"

using namespace c10;
using Gudhi::persistence_fields::Multi_field_element;
using Gudhi::persistence_fields::Shared_multi_field_element;
using Gudhi::persistence_fields::Multi_field_operators;
typedef Gudhi::persistent_cohomology::Multi_field CohMulti;
typedef mpz_class Z;

namespace {

const char* const kStatic = "Multi_field_element";
const char* const kShared = "Shared_multi_field_element";
const char* const kOps = "Multi_field_operators";
const char* const kCoh = "pcoh::Multi_field";

struct Range { long lo, hi; };
std::string rdesc(const Range& g, const std::vector<uint64_t>& primes, const Z& P) {
  std::string ps = P.get_str();
  if (ps.size() > 40) ps = ps.substr(0, 12) + "...(" + std::to_string(ps.size()) + " digits)";
  return "range=[" + std::to_string(g.lo) + "," + std::to_string(g.hi) + "] primes=" + range_str(primes) + " product=" + ps;
}

Z zrand(vh::Rng& r, int words) { Z v = 0; for (int i = 0; i < words; ++i) { v <<= 64; v += Z((unsigned long)r.next()); } return v; }
Z zrand_below(vh::Rng& r, const Z& P) { int words = (int)(mpz_sizeinbase(P.get_mpz_t(), 2) / 64) + 2; return pmod(zrand(r, words), P); }

// boundary-directed big-integer operands: around multiples of P, machine-word limits, beyond 64 bits, residues with zero patterns
std::vector<Z> gmp_values(const Z& P, const std::vector<uint64_t>& primes, vh::Rng& r, int nrandom) {
  std::vector<Z> v;
  for (int k = -3; k <= 3; ++k) for (int d = -2; d <= 2; ++d) v.push_back(Z(P * k + d));
  v.push_back(Z((P - 1) / 2)); v.push_back(Z((P + 1) / 2));
  const long sl[] = {INT_MIN, (long)INT_MIN + 1, -65536, 65535, 65536, INT_MAX, (long)INT_MAX + 1, (long)UINT_MAX, (long)UINT_MAX + 1, LONG_MIN, LONG_MIN + 1, LONG_MAX, -(long)UINT_MAX};
  for (long x : sl) v.push_back(Z(x));
  v.push_back(Z((unsigned long)ULONG_MAX)); v.push_back(Z(Z((unsigned long)ULONG_MAX) + 1)); v.push_back(Z(-Z((unsigned long)ULONG_MAX) - 2));
  { Z big = 1; big <<= 100; v.push_back(Z(big + 1)); v.push_back(Z(-big - 1)); v.push_back(Z(big * P)); v.push_back(Z(-big * P + 1)); }
  v.push_back(Z(P * P)); v.push_back(Z(P * P - 1)); v.push_back(Z(-(P * P) + 1));
  if (primes.size() > 1) for (uint64_t q : primes) { Z zq((unsigned long)q); v.push_back(zq); v.push_back(Z(-zq)); v.push_back(Z(P / zq)); v.push_back(Z(P - zq)); }
  for (int k = 0; k < nrandom; ++k) {
    unsigned mode = (unsigned)r.below(4);
    if (mode == 0) v.push_back(zrand_below(r, P));
    else if (mode == 1) v.push_back(Z(-zrand_below(r, Z(P * 4 + 7))));
    else if (mode == 2) v.push_back(Z(zrand(r, 1 + (int)r.below(4)) * (r.chance(1, 2) ? 1 : -1)));
    else v.push_back(Z(P - 1 - (long)r.below(64)));
  }
  return v;
}
std::vector<Z> reduced_values(const Z& P, const std::vector<uint64_t>& primes, vh::Rng& r, int nrandom) {
  std::vector<Z> v = {Z(0), pmod(Z(1), P), pmod(Z(2), P), pmod(Z((P - 1) / 2), P), pmod(Z((P + 1) / 2), P), pmod(Z(P - 2), P), pmod(Z(P - 1), P)};
  for (int i = 0; i < nrandom; ++i) v.push_back(zrand_below(r, P));
  if (primes.size() > 1) for (size_t i = 0; i < primes.size() && i < 6; ++i) { Z zq((unsigned long)primes[r.below(primes.size())]); v.push_back(pmod(Z(zq * (1 + (long)r.below(50))), P)); v.push_back(Z(P / zq)); }
  return v;
}
// keep the first `keep` entries and a random sample of the others, at most n in total
std::vector<Z> capped(std::vector<Z> v, size_t n, size_t keep, vh::Rng& r) {
  if (v.size() <= n) return v;
  for (size_t i = keep; i < n; ++i) std::swap(v[i], v[i + r.below(v.size() - i)]);
  v.resize(n);
  return v;
}
std::vector<Z> zwindow(const Z& lo, const Z& hi) { std::vector<Z> v; for (Z a = lo; a <= hi; ++a) v.push_back(a); return v; }

// ---------------------------------------------------------------------------------------- element classes over mpz_class
template <class F>
void gmp_elem_unary(Rep& R, const Z& P, const std::vector<uint64_t>& primes, const Z& a, const std::vector<Z>& Qs) {
  const Z ra = pmod(a, P), ra1 = pmod(Z(ra + 1), P);
  const char* oc = opclass(a, P);
  note_operand(R, a, P);
  F f(a);
  Z got = f.get_value();
  C10_CHECKV(R, Z, K_CONVERT_BIG, got == ra, "convert", &a, C10_NIL(Z), C10_NIL(Z), &got, &ra, "constructor", "mpz", "operand", oc);
  F g;
  g = a;
  got = g.get_value();
  C10_CHECKV(R, Z, K_ASSIGN, got == ra, "convert", &a, C10_NIL(Z), C10_NIL(Z), &got, &ra, "assignment", "mpz", "operand", oc);
  const F x(ra);
  got = (mpz_class)x;
  C10_CHECKV(R, Z, K_CAST, got == ra, "convert", &ra, C10_NIL(Z), C10_NIL(Z), &got, &ra, "cast_to_mpz");
  if (ra <= Z((unsigned long)UINT_MAX)) { got = Z((unsigned long)(unsigned int)x); C10_CHECKV(R, Z, K_CAST, got == ra, "convert", &ra, C10_NIL(Z), C10_NIL(Z), &got, &ra, "cast_to_unsigned"); }
  C10_CHECKV(R, Z, K_CMP_MIXED, (x == a) && (a == x) && !(x != a) && !(a != x), "compare", &ra, &a, C10_NIL(Z), C10_NIL(Z), C10_NIL(Z), "elem_vs_integer_of_same_residue", "mpz", "operand", oc);
  if (P > 1) {
    const F x2(ra1);
    C10_CHECKV(R, Z, K_CMP_MIXED, !(x2 == a) && !(a == x2) && (x2 != a) && (a != x2), "compare", &ra1, &a, C10_NIL(Z), C10_NIL(Z), C10_NIL(Z), "elem_vs_integer_of_other_residue", "mpz", "operand", oc);
  }
  { F cp(x); F mv(std::move(cp)); F as; as = x; F sw(ra1); swap(as, sw);
    Z g1 = mv.get_value(), g2 = sw.get_value(), g3 = as.get_value();
    C10_CHECKV(R, Z, K_ASSIGN, g1 == ra && g2 == ra && g3 == ra1, "convert", &ra, C10_NIL(Z), C10_NIL(Z), &g1, &ra, "copy_move_swap"); }
  F inv = x.get_inverse();
  Z iv = inv.get_value();
  const char* why = partial_inverse_wrong<Z>(primes, P, ra, P, iv, nullptr);
  C10_CHECKV(R, Z, K_INVERSE, !*why, "inverse", &ra, C10_NIL(Z), C10_NIL(Z), &iv, C10_NIL(Z), "get_inverse_multi", nullptr, nullptr, nullptr, nullptr, nullptr, why);
  if (primes.size() == 1 && ra != 0) {
    Z one = (x * inv).get_value();
    C10_CHECKV(R, Z, K_INVERSE, one == 1, "inverse", &ra, &iv, C10_NIL(Z), &one, C10_NIL(Z), "x_times_inverse");
  }
  for (const Z& Q : Qs) {
    auto pi = x.get_partial_inverse(Q);
    Z gv = pi.first.get_value(), gT = pi.second;
    why = partial_inverse_wrong<Z>(primes, P, ra, Q, gv, &gT);
    note_partial<Z>(R, primes, P, ra, Q);
    C10_CHECKV(R, Z, K_PARTIAL_INVERSE, !*why, "partial_inverse", &ra, &Q, C10_NIL(Z), &gv, &gT, (Q == P ? "Q_is_full_product" : "Q_is_proper_subproduct"), nullptr, nullptr, nullptr, nullptr, nullptr, why);
  }
}
template <class F>
void gmp_elem_constants(Rep& R, const Z& P, const std::vector<uint64_t>& primes, const std::vector<Z>& Qs) {
  Z got = F::get_additive_identity().get_value(), want = 0;
  C10_CHECKV(R, Z, K_IDENTITY, got == want, "identity", C10_NIL(Z), C10_NIL(Z), C10_NIL(Z), &got, &want, "additive");
  got = F::get_multiplicative_identity().get_value(); want = 1;
  C10_CHECKV(R, Z, K_IDENTITY, got == want, "identity", C10_NIL(Z), C10_NIL(Z), C10_NIL(Z), &got, &want, "multiplicative");
  got = F::get_characteristic(); want = P;
  C10_CHECKV(R, Z, K_CHARACTERISTIC, got == want, "characteristic", C10_NIL(Z), C10_NIL(Z), C10_NIL(Z), &got, &want, "get_characteristic");
  got = F().get_value(); want = 0;
  C10_CHECKV(R, Z, K_IDENTITY, got == want, "identity", C10_NIL(Z), C10_NIL(Z), C10_NIL(Z), &got, &want, "default_constructed");
  for (const Z& Q : Qs) {
    Z v = F::get_partial_multiplicative_identity(Q).get_value();
    const char* why = partial_identity_wrong<Z>(primes, P, Q, v);
    C10_CHECKV(R, Z, K_PARTIAL_IDENTITY, !*why, "partial_identity", &Q, C10_NIL(Z), C10_NIL(Z), &v, C10_NIL(Z), "multi", nullptr, nullptr, nullptr, nullptr, nullptr, why);
  }
}
template <class F>
void gmp_elem_binary(Rep& R, const Z& P, const Z& a, const Z& b) {
  const Z ra = pmod(a, P), rb = pmod(b, P);
  const Z sum = pmod(Z(ra + rb), P), dif = pmod(Z(ra - rb), P), rdif = pmod(Z(rb - ra), P), prd = pmod(Z(ra * rb), P);
  const F x(ra), y(rb);
  Z got;
  if (a == ra && b == rb) {
    if (ra + rb >= P || ra < rb || ra * rb >= P) ++R.n[S_RESULT_WRAPPED];
    got = (x + y).get_value(); C10_CHECKV(R, Z, K_ADD, got == sum, "add", &ra, &rb, C10_NIL(Z), &got, &sum, "elem+elem");
    got = (x - y).get_value(); C10_CHECKV(R, Z, K_SUB, got == dif, "sub", &ra, &rb, C10_NIL(Z), &got, &dif, "elem-elem");
    got = (x * y).get_value(); C10_CHECKV(R, Z, K_MUL, got == prd, "mul", &ra, &rb, C10_NIL(Z), &got, &prd, "elem*elem");
    { F t(x); t += y; got = t.get_value(); C10_CHECKV(R, Z, K_INPLACE, got == sum, "add", &ra, &rb, C10_NIL(Z), &got, &sum, "elem+=elem"); }
    { F t(x); t -= y; got = t.get_value(); C10_CHECKV(R, Z, K_INPLACE, got == dif, "sub", &ra, &rb, C10_NIL(Z), &got, &dif, "elem-=elem"); }
    { F t(x); t *= y; got = t.get_value(); C10_CHECKV(R, Z, K_INPLACE, got == prd, "mul", &ra, &rb, C10_NIL(Z), &got, &prd, "elem*=elem"); }
    C10_CHECKV(R, Z, K_CMP, (x == y) == (ra == rb) && (x != y) == (ra != rb), "compare", &ra, &rb, C10_NIL(Z), C10_NIL(Z), C10_NIL(Z), "elem_vs_elem");
  }
  const char* oc = opclass(b, P);
  const char* tn = "mpz";
  got = (x + b).get_value(); C10_CHECKV(R, Z, K_ADD_MIXED, got == sum, "add", &ra, &b, C10_NIL(Z), &got, &sum, "elem+integer", tn, "integer", oc);
  got = (x - b).get_value(); C10_CHECKV(R, Z, K_SUB_MIXED, got == dif, "sub", &ra, &b, C10_NIL(Z), &got, &dif, "elem-integer", tn, "integer", oc);
  got = (x * b).get_value(); C10_CHECKV(R, Z, K_MUL_MIXED, got == prd, "mul", &ra, &b, C10_NIL(Z), &got, &prd, "elem*integer", tn, "integer", oc);
  { F t(x); t += b; got = t.get_value(); C10_CHECKV(R, Z, K_INPLACE, got == sum, "add", &ra, &b, C10_NIL(Z), &got, &sum, "elem+=integer", tn, "integer", oc); }
  { F t(x); t -= b; got = t.get_value(); C10_CHECKV(R, Z, K_INPLACE, got == dif, "sub", &ra, &b, C10_NIL(Z), &got, &dif, "elem-=integer", tn, "integer", oc); }
  { F t(x); t *= b; got = t.get_value(); C10_CHECKV(R, Z, K_INPLACE, got == prd, "mul", &ra, &b, C10_NIL(Z), &got, &prd, "elem*=integer", tn, "integer", oc); }
  got = b + x; C10_CHECKV(R, Z, K_ADD_MIXED, got == sum, "add", &b, &ra, C10_NIL(Z), &got, &sum, "integer+elem", tn, "integer", oc);
  got = b - x; C10_CHECKV(R, Z, K_SUB_MIXED, got == rdif, "sub", &b, &ra, C10_NIL(Z), &got, &rdif, "integer-elem", tn, "integer", oc);
  got = b * x; C10_CHECKV(R, Z, K_MUL_MIXED, got == prd, "mul", &b, &ra, C10_NIL(Z), &got, &prd, "integer*elem", tn, "integer", oc);
  C10_CHECKV(R, Z, K_CMP_MIXED, (x == b) == (ra == rb) && (b == x) == (ra == rb) && (x != b) == (ra != rb) && (b != x) == (ra != rb), "compare", &ra, &b, C10_NIL(Z), C10_NIL(Z), C10_NIL(Z),
             "elem_vs_integer", tn, "integer", oc);
}
template <class F>
void gmp_elem_block(Rep& R, const Z& P, const std::vector<uint64_t>& primes, const std::vector<Z>& as, const std::vector<Z>& bs, const std::vector<Z>& Qs) {
  for (const Z& a : as) {
    gmp_elem_unary<F>(R, P, primes, a, Qs);
    for (const Z& b : bs) gmp_elem_binary<F>(R, P, a, b);
  }
  gmp_elem_constants<F>(R, P, primes, Qs);
}

// ---------------------------------------------------------------------------------------- blocks per class
struct Field { Range g; std::vector<uint64_t> primes; Z P; std::string d; };
Field make_field(const Range& g) { Field f; f.g = g; f.primes = primes_in(g.lo, g.hi); f.P = product_of<Z>(f.primes); f.d = rdesc(g, f.primes, f.P); return f; }
void count_field(vh::Case& c, const char* cls, const Field& f) {
  c.count(std::string("class.") + cls);
  if (f.primes.size() > 1) c.count("blocks.multi_prime_range");
  if (mpz_sizeinbase(f.P.get_mpz_t(), 2) > 64) c.count("blocks.product_above_64_bits");
}

template <unsigned lo, unsigned hi>
void static_block(vh::Case& c, const std::vector<Z>& as, const std::vector<Z>& bs, const std::string& kind, uint64_t salt) {
  typedef Multi_field_element<lo, hi> F;
  Field f = make_field({(long)lo, (long)hi});
  std::string desc = kind + " class=" + kStatic + " " + f.d + " salt=" + std::to_string(salt);
  c.log(desc);
  Rep R(c, kStatic, f.d);
  count_field(c, kStatic, f);
  gmp_elem_block<F>(R, f.P, f.primes, as, bs, capped(subproducts<Z>(f.primes, c.rng, 12), 24, 2, c.rng));
  finish_block(c, R, desc, salt);
}
void shared_block(vh::Case& c, const Field& f, const std::vector<Z>& as, const std::vector<Z>& bs, const std::string& kind, uint64_t salt) {
  std::string desc = kind + " class=" + kShared + " " + f.d + " salt=" + std::to_string(salt);
  c.log(desc);
  Rep R(c, kShared, f.d);
  count_field(c, kShared, f);
  Shared_multi_field_element::initialize((unsigned)f.g.lo, (unsigned)f.g.hi);
  gmp_elem_block<Shared_multi_field_element>(R, f.P, f.primes, as, bs, capped(subproducts<Z>(f.primes, c.rng, 12), 24, 2, c.rng));
  finish_block(c, R, desc, salt);
}
void ops_eval_gmp(Rep& R, Multi_field_operators& op, const Field& f, const std::vector<Z>& as, const std::vector<Z>& bs, const std::vector<Z>& cs, const std::vector<Z>& Qs);
void ops_block_gmp(vh::Case& c, const Field& f, const std::vector<Z>& as, const std::vector<Z>& bs, const std::vector<Z>& cs, const std::string& kind, uint64_t salt) {
  std::string desc = kind + " class=" + kOps + " " + f.d + " salt=" + std::to_string(salt);
  c.log(desc);
  Rep R(c, kOps, f.d);
  count_field(c, kOps, f);
  Multi_field_operators op;
  op.set_characteristic((int)f.g.lo, (int)f.g.hi);
  std::vector<Z> Qs = capped(subproducts<Z>(f.primes, c.rng, 12), 24, 2, c.rng);
  ops_eval_gmp(R, op, f, as, bs, cs, Qs);
  Multi_field_operators op2((int)f.g.lo, (int)f.g.hi), cp(op), as2;
  as2 = op;
  Z g1 = op2.get_characteristic(), g2 = cp.get_characteristic(), g3 = as2.get_characteristic();
  C10_CHECKV(R, Z, K_CHARACTERISTIC, g1 == f.P && g2 == f.P && g3 == f.P, "characteristic", C10_NIL(Z), C10_NIL(Z), C10_NIL(Z), &g1, &f.P, "constructor_copy_assign");
  finish_block(c, R, desc, salt);
}
void ops_eval_gmp(Rep& R, Multi_field_operators& op, const Field& f, const std::vector<Z>& as, const std::vector<Z>& bs, const std::vector<Z>& cs, const std::vector<Z>& Qs) {
  const Z nolimit = 0;
  for (const Z& a : as) {
    ops_unary<Multi_field_operators, Z, Z>(R, op, f.P, f.primes, a, Qs, /*inverse_of_unreduced=*/false);
    { Z t = a; op.get_value_inplace(t); Z want = pmod(a, f.P); C10_CHECKV(R, Z, K_GET_VALUE, t == want, "convert", &a, C10_NIL(Z), C10_NIL(Z), &t, &want, "get_value_inplace", "element", "operand", opclass(a, f.P)); }
    for (const Z& b : bs) {
      ops_binary<Multi_field_operators, Z, Z>(R, op, f.P, a, b);
      for (const Z& cc : cs) ops_fused<Multi_field_operators, Z, Z>(R, op, f.P, a, b, cc, nolimit);
    }
  }
  ops_constants<Multi_field_operators, Z>(R, op, f.P, f.primes, Qs);
}
void coh_eval(Rep& R, CohMulti& m, const Field& f, const std::vector<Z>& xs, const std::vector<Z>& ys, const std::vector<Z>& ws, const std::vector<Z>& Qs);
void coh_block(vh::Case& c, const Field& f, const std::vector<Z>& xs, const std::vector<Z>& ys, const std::vector<Z>& ws, const std::string& kind, uint64_t salt) {
  std::string desc = kind + " class=" + kCoh + " " + f.d + " salt=" + std::to_string(salt);
  c.log(desc);
  Rep R(c, kCoh, f.d);
  count_field(c, kCoh, f);
  CohMulti m;   // a fresh object (re-initialisation of a live object: see state_case)
  m.init((int)f.g.lo, (int)f.g.hi);
  std::vector<Z> Qs = capped(subproducts<Z>(f.primes, c.rng, 12), 24, 2, c.rng);
  coh_eval(R, m, f, xs, ys, ws, Qs);
  finish_block(c, R, desc, salt);
}
void coh_eval(Rep& R, CohMulti& m, const Field& f, const std::vector<Z>& xs, const std::vector<Z>& ys, const std::vector<Z>& ws, const std::vector<Z>& Qs) {
  for (const Z& x : xs) {
    // partial inverse for every sub-product, also when the range has one prime (T = 1 or p)
    for (const Z& Q : Qs) {
      auto pi = m.inverse(x, Q);
      Z gv = pi.first, gT = pi.second;
      const char* why = partial_inverse_wrong<Z>(f.primes, f.P, x, Q, gv, &gT);
      note_partial<Z>(R, f.primes, f.P, x, Q);
      C10_CHECKV(R, Z, K_PARTIAL_INVERSE, !*why, "partial_inverse", &x, &Q, C10_NIL(Z), &gv, &gT, (Q == f.P ? "Q_is_full_product" : "Q_is_proper_subproduct"), nullptr, nullptr, nullptr, nullptr, nullptr, why);
    }
    for (const Z& y : ys) {
      coh_pair<CohMulti, Z, Z>(R, m, f.P, x, y);
      for (const Z& w : ws) coh_triple<CohMulti, Z, Z>(R, m, f.P, x, y, w);
    }
  }
  Z got = m.additive_identity(), want = 0;
  C10_CHECKV(R, Z, K_IDENTITY, got == want, "identity", C10_NIL(Z), C10_NIL(Z), C10_NIL(Z), &got, &want, "additive");
  got = m.multiplicative_identity(); want = 1;
  C10_CHECKV(R, Z, K_IDENTITY, got == want, "identity", C10_NIL(Z), C10_NIL(Z), C10_NIL(Z), &got, &want, "multiplicative");
  got = m.characteristic(); want = f.P;
  C10_CHECKV(R, Z, K_CHARACTERISTIC, got == want, "characteristic", C10_NIL(Z), C10_NIL(Z), C10_NIL(Z), &got, &want, "characteristic");
  for (const Z& Q : Qs) {
    Z v = m.multiplicative_identity(Q);
    const char* why = partial_identity_wrong<Z>(f.primes, f.P, Q, v);
    C10_CHECKV(R, Z, K_PARTIAL_IDENTITY, !*why, "partial_identity", &Q, C10_NIL(Z), C10_NIL(Z), &v, C10_NIL(Z), "multi", nullptr, nullptr, nullptr, nullptr, nullptr, why);
  }
}

// ---------------------------------------------------------------------------------------- exhaustive: tiny products
const Range kExhRanges[] = {{2, 2}, {2, 3}, {3, 5}, {2, 5}};
struct ExhBlock { int range; int cls; long a; };   // cls 0 static, 1 shared, 2 operators, 3 cohomology
std::vector<ExhBlock> make_exh_table() {
  std::vector<ExhBlock> t;
  for (int ri = 0; ri < 4; ++ri) {
    long P = (long)product_of<i128>(primes_in(kExhRanges[ri].lo, kExhRanges[ri].hi));
    for (int cls = 0; cls < 3; ++cls) for (long a = -3 * P; a <= 3 * P; ++a) t.push_back({ri, cls, a});
    for (long a = 0; a < P; ++a) t.push_back({ri, 3, a});
  }
  return t;
}
void exh_case(vh::Case& c) {
  static const std::vector<ExhBlock> table = make_exh_table();
  if (c.k >= (long)table.size()) { c.count("skip.beyond_exhaustive_table"); return; }
  const ExhBlock& b = table[c.k];
  Field f = make_field(kExhRanges[b.range]);
  c.count("blocks.exhaustive.product" + f.P.get_str());
  std::vector<Z> as = {Z(b.a)}, win = zwindow(Z(-3 * f.P), Z(3 * f.P)), red = zwindow(Z(0), Z(f.P - 1));
  const std::string kind = "exhaustive a=" + std::to_string(b.a);
  if (b.cls == 0) {
    switch (b.range) {
      case 0: static_block<2, 2>(c, as, win, kind, 0); break;
      case 1: static_block<2, 3>(c, as, win, kind, 0); break;
      case 2: static_block<3, 5>(c, as, win, kind, 0); break;
      case 3: static_block<2, 5>(c, as, win, kind, 0); break;
    }
  } else if (b.cls == 1) shared_block(c, f, as, win, kind, 0);
  else if (b.cls == 2) ops_block_gmp(c, f, as, win, zwindow(Z(-f.P - 1), Z(2 * f.P + 1)), kind, 0);
  else coh_block(c, f, as, red, red, kind, 0);
}

// ---------------------------------------------------------------------------------------- fixed ranges of the plan
const Range kFixed[] = {{2, 2}, {2, 3}, {3, 7}, {5, 13}, {2, 13}, {11, 11}, {2, 31}, {2, 97}, {7, 10}, {90, 100}};
const int kNFixed = 10;
void fixed_case(vh::Case& c) {
  // case -> (range, class); all four classes for each of the ranges
  int ri = (int)((c.k / 4) % kNFixed), cls = (int)(c.k % 4);
  uint64_t salt = c.rng.next();
  Field f = make_field(kFixed[ri]);
  // as: zero-pattern residues first, then boundary values; bs: boundary values only
  std::vector<Z> bnd = gmp_values(f.P, f.primes, c.rng, 24);
  std::vector<Z> vals = partial_operands<Z>(f.primes, f.P, c.rng, 4);
  vals = capped(vals, 50, 4, c.rng);
  for (const Z& x : capped(bnd, 70, 48, c.rng)) vals.push_back(x);
  std::vector<Z> bs = capped(bnd, 56, 48, c.rng);
  std::vector<Z> red = capped(reduced_values(f.P, f.primes, c.rng, 8), 20, 7, c.rng);
  const std::string kind = "fixed_range";
  if (cls == 0) {
    switch (ri) {
      case 0: static_block<2, 2>(c, vals, bs, kind, salt); break;
      case 1: static_block<2, 3>(c, vals, bs, kind, salt); break;
      case 2: static_block<3, 7>(c, vals, bs, kind, salt); break;
      case 3: static_block<5, 13>(c, vals, bs, kind, salt); break;
      case 4: static_block<2, 13>(c, vals, bs, kind, salt); break;
      case 5: static_block<11, 11>(c, vals, bs, kind, salt); break;
      case 6: static_block<2, 31>(c, vals, bs, kind, salt); break;
      case 7: static_block<2, 97>(c, vals, bs, kind, salt); break;
      case 8: static_block<7, 10>(c, vals, bs, kind, salt); break;
      default: static_block<90, 100>(c, vals, bs, kind, salt); break;
    }
  } else if (cls == 1) shared_block(c, f, vals, bs, kind, salt);
  else if (cls == 2) { ops_block_gmp(c, f, vals, bs, {}, kind, salt); ops_block_gmp(c, f, red, red, red, kind + "_fused", salt); }
  else { std::vector<Z> xs = red; for (const Z& x : capped(partial_operands<Z>(f.primes, f.P, c.rng, 4), 50, 4, c.rng)) xs.push_back(x); coh_block(c, f, xs, red, red, kind, salt); }
}

// ---------------------------------------------------------------------------------------- arbitrary ranges
void random_case(vh::Case& c) {
  vh::Rng& r = c.rng;
  unsigned mode = (unsigned)r.below(10);
  Range g;
  if (mode == 0) { long p = (long)random_prime_below(r, 1u << 31); g = {p, p}; }                      // one large prime
  else if (mode == 1) { long p = (long)random_prime_below(r, 70000); g = {p - (long)r.below(3), p + (long)r.below(3)}; if (g.lo < 0) g.lo = 0; }
  else {
    long lo = (long)r.below(mode < 6 ? 60 : 3000);
    long hi = lo + (long)r.below(mode < 6 ? 120 : 400);
    g = {lo, hi};
  }
  Field f = make_field(g);
  if (f.primes.empty()) { c.count("skip.range_without_prime"); return; }
  uint64_t salt = r.next();
  std::vector<Z> bnd = gmp_values(f.P, f.primes, r, 16);
  std::vector<Z> vals = capped(partial_operands<Z>(f.primes, f.P, r, 4), 40, 4, r);
  for (const Z& x : capped(bnd, 60, 48, r)) vals.push_back(x);
  std::vector<Z> bs = capped(bnd, 52, 48, r);
  std::vector<Z> red = capped(reduced_values(f.P, f.primes, r, 6), 16, 7, r);
  const std::string kind = "random_range";
  switch (r.below(3)) {
    case 0: shared_block(c, f, vals, bs, kind, salt); break;
    case 1: ops_block_gmp(c, f, vals, bs, {}, kind, salt); ops_block_gmp(c, f, red, red, red, kind + "_fused", salt); break;
    default: { std::vector<Z> xs = red; for (const Z& x : capped(partial_operands<Z>(f.primes, f.P, r, 4), 40, 4, r)) xs.push_back(x); coh_block(c, f, xs, red, red, kind, salt); }
  }
}

// ---------------------------------------------------------------------------------------- refusal
void refuse_case(vh::Case& c) {
  static const Range fixed[] = {{0, 0}, {0, 1}, {1, 1}, {4, 4}, {6, 6}, {9, 9}, {15, 15}, {8, 10}, {14, 16}, {24, 28}, {90, 96}, {114, 126}, {7, 5}, {13, 2}, {1, 0},
                                {65535, 65535}, {65522, 65536}, {561, 561}, {1729, 1729}, {62745, 62745}, {25, 25}, {49, 49}, {1328, 1360}, {31398, 31468}};
  const int nfixed = (int)(sizeof fixed / sizeof fixed[0]);
  vh::Rng& r = c.rng;
  const int kForms = 5;   // 0 operators.set_characteristic, 1 operators constructor, 2 Shared initialize, 3 pcoh Multi_field::init, 4 compile-time range <8,10>
  int form = (int)(c.k % kForms);
  long idx = c.k / kForms;
  Range g;
  if (form == 4) g = {8, 10};
  else if (idx < nfixed) g = fixed[idx];
  else {
    unsigned mode = (unsigned)r.below(3);
    if (mode == 0) { long n; do { n = 4 + (long)r.below(100000); } while (is_prime_naive((uint64_t)n)); g = {n, n}; }
    else if (mode == 1) { long p = (long)random_prime_below(r, 60000); long q = (long)next_prime_after((uint64_t)p); if (q - p < 3) { p = 113; q = 127; } g = {p + 1, q - 1}; }
    else { long a = 2 + (long)r.below(1000), b = (long)r.below((uint64_t)a); g = {a, b}; }
  }
  std::vector<uint64_t> primes = g.lo <= g.hi ? primes_in(g.lo, g.hi) : std::vector<uint64_t>();
  if (!primes.empty()) { c.count("skip.refuse_range_has_primes"); return; }
  const char* cls = form <= 1 ? kOps : form == 2 ? kShared : form == 3 ? kCoh : kStatic;
  const char* why = g.lo > g.hi ? "min_above_max" : g.hi < 2 ? "not_greater_than_1" : g.lo == g.hi ? "single_composite" : "range_without_prime";
  std::string desc = std::string("refuse class=") + cls + " form=" + std::to_string(form) + " range=[" + std::to_string(g.lo) + "," + std::to_string(g.hi) + "]";
  c.log(desc);
  Rep R(c, cls, "range=[" + std::to_string(g.lo) + "," + std::to_string(g.hi) + "]");
  c.count(std::string("refuse.") + why);
  if (form == 0) { Multi_field_operators op; must_refuse(R, "set_characteristic " + R.fld, why, [&] { op.set_characteristic((int)g.lo, (int)g.hi); }); }
  else if (form == 1) must_refuse(R, "constructor " + R.fld, why, [&] { Multi_field_operators op((int)g.lo, (int)g.hi); (void)op; });
  else if (form == 2) {
    must_refuse(R, "initialize " + R.fld, why, [&] { Shared_multi_field_element::initialize((unsigned)g.lo, (unsigned)g.hi); });
    Shared_multi_field_element::initialize(3, 5);
    Shared_multi_field_element x(Z(7)), y(Z(4));
    C10_CHECK(R, K_MUL, (x * y).get_value() == 13 && Shared_multi_field_element::get_characteristic() == 15, "mul", "form=after_refusal", "class wrong after a refused initialize");
  } else if (form == 3) {
    CohMulti m;
    must_refuse(R, "init " + R.fld, why, [&] { m.init((int)g.lo, (int)g.hi); });
  } else {
    must_refuse(R, "Multi_field_element<8,10>()", why, [&] { Multi_field_element<8, 10> e; (void)e; });
    must_refuse(R, "Multi_field_element<8,10>(3)", why, [&] { Multi_field_element<8, 10> e(Z(3)); (void)e; });
  }
  c.nontrivial(vh::hash_str(desc));
}

// ---------------------------------------------------------------------------------------- object state
// scenario 0: a REFUSED range on an object that already has a field (",refused_on_live_object"); 1: valid -> valid re-initialisation
// (also of the cohomology class); 2 (operator class): move / swap / assignment followed by a use of the moved-to object.
void state_case(vh::Case& c) {
  static const Range good[] = {{2, 3}, {3, 5}, {2, 7}, {5, 13}, {2, 13}, {11, 11}, {2, 31}, {7, 10}, {90, 100}, {2, 61}, {101, 131}, {65519, 65521}, {2, 2}};
  static const Range bad[] = {{8, 10}, {14, 16}, {24, 28}, {4, 4}, {9, 9}, {0, 1}, {1, 1}, {7, 5}, {90, 96}, {0, 0}, {114, 126}, {25, 25}, {1328, 1360}};
  vh::Rng& r = c.rng;
  const int scenario = (int)(c.k % 3);
  // class: 0 operators, 1 shared element, 2 cohomology (re-initialisation only: it never refuses, see the known finding)
  int cls = scenario == 2 ? 0 : scenario == 1 ? (int)((c.k / 3) % 3) : (int)((c.k / 3) % 2);
  const Field f1 = make_field(good[r.below(13)]);
  Field f2; do { f2 = make_field(good[r.below(13)]); } while (f2.P == f1.P);
  const Range gb = bad[r.below(13)];
  const char* const kScen[] = {"refused_on_live_object", "reinitialisation", "move_swap_assign"};
  auto rs = [](const Range& g) { return "[" + std::to_string(g.lo) + "," + std::to_string(g.hi) + "]"; };
  const char* cn = cls == 0 ? kOps : cls == 1 ? kShared : kCoh;
  std::string desc = std::string("state scenario=") + kScen[scenario] + " class=" + cn + " range1=" + rs(f1.g) + (scenario == 0 ? " refused=" + rs(gb) : " range2=" + rs(f2.g));
  c.log(desc);
  Rep R(c, cn, "range1=" + rs(f1.g) + (scenario == 0 ? " refused=" + rs(gb) : " range2=" + rs(f2.g)));
  c.count(std::string("class.") + cn);
  c.count(std::string("state.scenario.") + kScen[scenario]);
  Multi_field_operators op;
  CohMulti m;
  auto blk_in = [&](Multi_field_operators* o, const Field& f) {
    c.log("block in " + rs(f.g));
    std::vector<Z> red = capped(reduced_values(f.P, f.primes, r, 4), 12, 7, r);
    std::sort(red.begin(), red.end());
    std::vector<Z> Qs = capped(subproducts<Z>(f.primes, r, 4), 8, 2, r);
    if (o) ops_eval_gmp(R, *o, f, red, red, red, Qs);
    else if (cls == 1) gmp_elem_block<Shared_multi_field_element>(R, f.P, f.primes, red, red, Qs);
    else coh_eval(R, m, f, red, red, red, Qs);
  };
  if (scenario == 2) {
    R.sfx = ",after=move_swap_assign";
    ops_move_swap_assign<Multi_field_operators>(f1, f2, [&](Multi_field_operators& o, const Field& f) { c.log("set_characteristic " + rs(f.g)); o.set_characteristic((int)f.g.lo, (int)f.g.hi); },
                                                [&](Multi_field_operators& o, const Field& f) { blk_in(&o, f); });
    finish_block(c, R, desc, r.next());
    return;
  }
  auto init = [&](const Range& g) {
    c.log("init " + rs(g));
    if (cls == 0) op.set_characteristic((int)g.lo, (int)g.hi); else if (cls == 1) Shared_multi_field_element::initialize((unsigned)g.lo, (unsigned)g.hi); else m.init((int)g.lo, (int)g.hi);
  };
  auto blk = [&](const Field& f) { blk_in(cls == 0 ? &op : nullptr, f); };
  init(f1.g);
  blk(f1);
  if (scenario == 1) {
    R.sfx = ",after=reinitialisation";
    init(f2.g); blk(f2);
    init(f1.g); blk(f1);
  } else {
    must_refuse(R, "second initialisation with " + rs(gb), "live_object", [&] { init(gb); });
    R.sfx = ",refused_on_live_object";
    Z got = cls == 0 ? op.get_characteristic() : Shared_multi_field_element::get_characteristic();
    C10_CHECKV(R, Z, K_CHARACTERISTIC, got == f1.P, "characteristic", C10_NIL(Z), C10_NIL(Z), C10_NIL(Z), &got, &f1.P, "announced_after_refusal");
    if (got != f1.P) return;
    blk(f1);
  }
  finish_block(c, R, desc, r.next());
}

// ---------------------------------------------------------------------------------------- range end points
// "arbitrary ranges for the GMP ones": negative / zero minimum (int interfaces), end points around INT_MAX, 2^31 and 2^32 (unsigned
// interface).  Every initialisation first runs in a forked child under a CPU watchdog: one that never returns is ONE violation.
struct Bound { int cls; long lo, hi; };   // cls 0 operators.set_characteristic, 1 operators constructor, 2 shared element, 3 cohomology, 4 compile-time element
void bounds_case(vh::Case& c) {
  static const Bound table[] = {
      {0, -5, 100}, {0, 0, 2}, {0, INT_MAX - 18, INT_MAX}, {0, -1, 2}, {0, INT_MIN, 3}, {0, 1, 7},
      {1, -5, 100}, {1, 0, 2}, {1, INT_MAX - 18, INT_MAX},
      {2, 0, 2}, {2, INT_MAX - 18, INT_MAX}, {2, 4294967280L, 4294967294L}, {2, 2147483659L, 2147483659L}, {2, 4294967291L, 4294967295L}, {2, 2147483640L, 2147483660L}, {2, 1, 7},
      {3, -5, 100}, {3, 0, 2}, {3, INT_MAX - 18, INT_MAX}, {3, -1, 2},
      {4, 0, 2}, {4, INT_MAX - 18, INT_MAX}};
  const int kN = (int)(sizeof table / sizeof table[0]);
  const Bound& b = table[c.k % kN];
  vh::Rng& r = c.rng;
  Field f = make_field({b.lo, b.hi});
  const char* cn = b.cls <= 1 ? kOps : b.cls == 2 ? kShared : b.cls == 3 ? kCoh : kStatic;
  uint64_t salt = r.next();
  std::string desc = std::string("range_bounds class=") + cn + " form=" + std::to_string(b.cls) + " " + f.d + " salt=" + std::to_string(salt);
  c.log(desc);
  Rep R(c, cn, f.d);
  R.sfx = b.lo < 2 ? ",minimum=below_2" : b.hi > (long)INT_MAX ? ",maximum=above_2^31" : b.hi == (long)INT_MAX ? ",maximum=INT_MAX" : "";
  count_field(c, cn, f);
  c.count(b.lo < 2 ? "bounds.minimum_below_2" : b.hi > (long)INT_MAX ? "bounds.range_end_above_2p31" : "bounds.range_end_INT_MAX");
  std::vector<Z> red = capped(reduced_values(f.P, f.primes, r, 6), 14, 7, r);
  std::vector<Z> Qs = capped(subproducts<Z>(f.primes, r, 6), 10, 2, r);
  const std::string call = std::string(cn) + " with [" + std::to_string(b.lo) + "," + std::to_string(b.hi) + "]";
  Z got;
  if (b.cls <= 1) {
    Multi_field_operators op;
    if (!guarded_init(R, 4, b.cls == 0 ? "set_characteristic" : "constructor", call, [&] {
          if (b.cls == 0) op.set_characteristic((int)b.lo, (int)b.hi); else { Multi_field_operators o2((int)b.lo, (int)b.hi); op = o2; } })) return;
    got = op.get_characteristic();
    C10_CHECKV(R, Z, K_CHARACTERISTIC, got == f.P, "characteristic", C10_NIL(Z), C10_NIL(Z), C10_NIL(Z), &got, &f.P, "product_of_the_primes_of_the_range");
    if (got != f.P) return;
    ops_eval_gmp(R, op, f, red, red, red, Qs);
  } else if (b.cls == 2) {
    if (!guarded_init(R, 4, "initialize", call, [&] { Shared_multi_field_element::initialize((unsigned)b.lo, (unsigned)b.hi); })) return;
    got = Shared_multi_field_element::get_characteristic();
    C10_CHECKV(R, Z, K_CHARACTERISTIC, got == f.P, "characteristic", C10_NIL(Z), C10_NIL(Z), C10_NIL(Z), &got, &f.P, "product_of_the_primes_of_the_range");
    if (got != f.P) return;
    gmp_elem_block<Shared_multi_field_element>(R, f.P, f.primes, red, red, Qs);
  } else if (b.cls == 3) {
    CohMulti m;
    if (!guarded_init(R, 4, "init", call, [&] { m.init((int)b.lo, (int)b.hi); })) return;
    got = m.characteristic();
    C10_CHECKV(R, Z, K_CHARACTERISTIC, got == f.P, "characteristic", C10_NIL(Z), C10_NIL(Z), C10_NIL(Z), &got, &f.P, "product_of_the_primes_of_the_range");
    if (got != f.P) return;
    coh_eval(R, m, f, red, red, red, Qs);
  } else {
    // compile-time ranges: only those whose static initialisation is known to return can be linked into this binary
    if (b.lo == 0) gmp_elem_block<Multi_field_element<0, 2> >(R, f.P, f.primes, red, red, Qs);
    else gmp_elem_block<Multi_field_element<2147483629u, 2147483647u> >(R, f.P, f.primes, red, red, Qs);
  }
  finish_block(c, R, desc, salt);
}

}  // namespace

VH_CONFIG("mg_state", state_case);
VH_CONFIG("mg_bounds", bounds_case);
VH_CONFIG("mg_exhaustive", exh_case);
VH_CONFIG("mg_fixed", fixed_case);
VH_CONFIG("mg_random", random_case);
VH_CONFIG("mg_refuse", refuse_case);
VH_MAIN()

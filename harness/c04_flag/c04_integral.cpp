#include "c04_exec.h"
VH_CONFIG("exp_intfull", [](vh::Case& c) { c04::run_expansion<c04::Opt_int_full>(c, "intfull"); });
VH_CONFIG("inc_intfull", [](vh::Case& c) { c04::run_incremental<c04::Opt_int_full>(c, "intfull"); });
VH_CONFIG("rips_intfull", [](vh::Case& c) { c04::run_rips<c04::Opt_int_full>(c, "intfull"); });

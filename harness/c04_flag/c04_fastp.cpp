#include "c04_exec.h"
VH_CONFIG("exp_fastp", [](vh::Case& c) { c04::run_expansion<Gudhi::Simplex_tree_options_fast_persistence>(c, "fastp"); });
VH_CONFIG("rips_fastp", [](vh::Case& c) { c04::run_rips<Gudhi::Simplex_tree_options_fast_persistence>(c, "fastp"); });

#include "c04_exec.h"
VH_CONFIG("exp_stable", [](vh::Case& c) { c04::run_expansion<stc::Opt_stable>(c, "stable"); });
VH_CONFIG("rips_stable", [](vh::Case& c) { c04::run_rips<stc::Opt_stable>(c, "stable"); });

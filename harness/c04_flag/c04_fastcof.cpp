#include "c04_exec.h"
VH_CONFIG("exp_fastcof", [](vh::Case& c) { c04::run_expansion<stc::Opt_fast_cofaces>(c, "fastcof"); });
VH_CONFIG("inc_fastcof", [](vh::Case& c) { c04::run_incremental<stc::Opt_fast_cofaces>(c, "fastcof"); });

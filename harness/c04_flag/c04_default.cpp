#include "c04_exec.h"
VH_CONFIG("exp_default", [](vh::Case& c) { c04::run_expansion<Gudhi::Simplex_tree_options_default>(c, "default"); });
VH_CONFIG("rips_default", [](vh::Case& c) { c04::run_rips<Gudhi::Simplex_tree_options_default>(c, "default"); });

#include "c04_exec.h"
VH_CONFIG("mid_full", [](vh::Case& c) { c04::run_mid<Gudhi::Simplex_tree_options_full_featured>(c, "full"); });
VH_CONFIG("mid_default", [](vh::Case& c) { c04::run_mid<Gudhi::Simplex_tree_options_default>(c, "default"); });

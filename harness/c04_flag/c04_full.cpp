#include "c04_exec.h"
VH_CONFIG("exp_full", [](vh::Case& c) { c04::run_expansion<Gudhi::Simplex_tree_options_full_featured>(c, "full"); });
VH_CONFIG("inc_full", [](vh::Case& c) { c04::run_incremental<Gudhi::Simplex_tree_options_full_featured>(c, "full"); });

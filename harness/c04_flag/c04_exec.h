// C04 — flag (clique) expansions build exactly the clique complex, by every route.
#ifndef VERIF_C04_EXEC_H_
#define VERIF_C04_EXEC_H_
#include <gudhi/Simplex_tree.h>
#include <gudhi/Rips_complex.h>
#include <gudhi/distance_functions.h>
#include <gudhi/graph_simplicial_complex.h>
#include "common/vh.h"
#include "common/st_common.h"
#include "oracle/flag.h"
#include <climits>
#include <cmath>
#include <type_traits>

namespace c04 {

using oracle::Simplex;
using oracle::WGraph;
typedef std::map<Simplex, double> Cx;

// option sets that the first version of the check never instantiated
struct Opt_int_full : Gudhi::Simplex_tree_options_full_featured { typedef int Filtration_value; };  // integral values, link_nodes_by_label

// values: option sets with an integral Filtration_value get the 0.5-grid scaled by 2, option sets that store no value get 0 everywhere
template <class ST> constexpr double value_scale() {
  return !ST::Options::store_filtration ? 0.0 : (std::is_integral<typename ST::Filtration_value>::value ? 2.0 : 1.0);
}

template <class ST>
Cx dump(const ST& st) {
  Cx r;
  for (auto sh : st.complex_simplex_range()) r[stc::word(st, sh)] = (double)st.filtration(sh);
  return r;
}
inline int cxdim(const Cx& c) { int d = -1; for (auto& kv : c) d = std::max(d, (int)kv.first.size() - 1); return d; }

inline std::string diff(const Cx& got, const Cx& want) {
  std::string d;
  int n = 0;
  for (auto& kv : want) { auto it = got.find(kv.first); if (it == got.end()) { if (n++ < 6) d += " missing" + oracle::show(kv.first); } else if (it->second != kv.second) { if (n++ < 6) d += " value" + oracle::show(kv.first) + "=" + vh::str(it->second) + "!=" + vh::str(kv.second); } }
  for (auto& kv : got) if (!want.count(kv.first)) { if (n++ < 6) d += " extra" + oracle::show(kv.first); }
  return d;
}
inline std::string diff_class(const Cx& got, const Cx& want) {
  bool miss = false, extra = false, val = false;
  for (auto& kv : want) { auto it = got.find(kv.first); if (it == got.end()) miss = true; else if (it->second != kv.second) val = true; }
  for (auto& kv : got) if (!want.count(kv.first)) extra = true;
  return std::string(miss ? ",missing" : "") + (extra ? ",extra" : "") + (val ? ",value" : "");
}

// max_dim = 0 corner: the routes that start from an inserted graph keep the graph's edges (expansion never removes).
// Returns true iff got = want + exactly the edges of g with their values.
inline bool only_graph_edges_kept(const Cx& got, const Cx& want, const WGraph& g) {
  Cx w2 = want;
  for (int i = 0; i < g.n(); ++i) for (int j = i + 1; j < g.n(); ++j) if (g.has_edge(i, j)) w2[Simplex{g.label[i], g.label[j]}] = g.w[i][j];
  return got == w2 && got != want;
}
inline std::string cls(const Cx& got, const Cx& want, const WGraph& g, int max_dim) {
  if (max_dim == 0 && only_graph_edges_kept(got, want, g)) return ",max_dim=0,graph_edges_kept";
  return diff_class(got, want);
}

// Second, independent enumeration (recursive extension of cliques by larger common neighbours), usable beyond the 2^n bound
// of oracle/flag.h: all cliques with at most max_dim+1 vertices (max_dim < 0: no limit), value = max over vertices and edges.
inline void clique_ext(const WGraph& g, int max_dim, std::vector<int>& cur, double val, const std::vector<int>& cand, Cx& out) {
  for (size_t a = 0; a < cand.size(); ++a) {
    int v = cand[a];
    double nv = std::max(val, g.vval[v]);
    for (int u : cur) nv = std::max(nv, g.w[u][v]);
    cur.push_back(v);
    Simplex s; for (int u : cur) s.push_back(g.label[u]);
    std::sort(s.begin(), s.end());
    out[s] = nv;
    if (max_dim < 0 || (int)cur.size() < max_dim + 1) {
      std::vector<int> nc; for (size_t b = a + 1; b < cand.size(); ++b) if (g.has_edge(v, cand[b])) nc.push_back(cand[b]);
      if (!nc.empty()) clique_ext(g, max_dim, cur, nv, nc, out);
    }
    cur.pop_back();
  }
}
inline Cx clique_enum(const WGraph& g, int max_dim) {
  Cx out; std::vector<int> cur, cand; for (int i = 0; i < g.n(); ++i) cand.push_back(i);
  clique_ext(g, max_dim, cur, -std::numeric_limits<double>::infinity(), cand, out);
  return out;
}

// What the statement gives for the argument max_dim of a route:
//  one-shot routes (expansion, expansion_with_blockers, Rips): cliques with at most max_dim+1 vertices; a NEGATIVE max_dim leaves the
//    inserted graph as it is (expansion "expands the one-skeleton until dimension max_dim": it adds nothing and never removes);
//  incremental route: -1 is documented as "no limit"; any other dim_max < 1 truncates below the edges (vertices are inserted by
//    an explicit request, so they stay).
// (clamped: the enumerations compute max_dim + 1; no harness graph has a clique of 1000 vertices)
inline int one_shot_model_dim(int max_dim) { return max_dim < 0 ? 1 : std::min(max_dim, 1000); }
inline int incremental_model_dim(int dim_max) { return dim_max == -1 ? -1 : (dim_max < -1 ? 0 : std::min(dim_max, 1000)); }
inline std::string dim_class(int max_dim, int cn) {
  if (max_dim == 0) return "";
  if (max_dim < 0) return max_dim == -1 ? ",max_dim=-1" : ",negative_max_dim";
  return std::string(max_dim < cn - 1 ? ",truncated" : ",full") + (max_dim >= 100 ? ",huge_max_dim" : "");
}
inline int extreme_dim(vh::Rng& r) { static const int d[] = {INT_MAX, INT_MIN, -1, -2, 100}; return d[r.below(5)]; }

// labels: 0 contiguous, 1 sparse, 2 sparse with the extremes of Vertex_handle (never -1 = null_vertex)
inline void relabel(vh::Rng& r, WGraph& g, int mode) {
  if (mode == 0) return;
  static const long pool[] = {-7, -2, 0, 3, 4, 9, 40, 100, 1000, 50000, 1 << 20, 1 << 30, (long)INT_MAX - 1, (long)INT_MIN + 1};
  std::set<long> s;
  if (mode == 2 && g.n() >= 1) s.insert((long)INT_MAX);
  if (mode == 2 && g.n() >= 2) s.insert((long)INT_MIN);
  while ((int)s.size() < g.n()) s.insert(pool[r.below(mode == 2 ? 14 : 12)]);
  int i = 0; for (long x : s) g.label[i++] = x;
}
inline bool contiguous_labels(const WGraph& g) { for (int i = 0; i < g.n(); ++i) if (g.label[i] != i) return false; return true; }

// a filtration is any monotone real function: on a third of the graphs every value is shifted by a negative multiple of the grid
// step, so that some or all the vertices / edges of a clique carry negative values (0 is then not a neutral element of max)
inline void shift_values(vh::Rng& r, WGraph& g, double scale) {
  if (!r.chance(1, 3)) return;
  const double shift = -scale * 0.5 * (double)(1 + r.below(8));
  for (int i = 0; i < g.n(); ++i) { g.vval[i] += shift; for (int j = 0; j < g.n(); ++j) if (g.has_edge(i, j)) g.w[i][j] += shift; }
}
inline void count_values(vh::Case& c, const WGraph& g) {
  bool some = false, all = g.n() > 0; int tri_neg = 0;
  for (int i = 0; i < g.n(); ++i) { some = some || g.vval[i] < 0; for (int j = i + 1; j < g.n(); ++j) if (g.has_edge(i, j)) { if (g.w[i][j] < 0) some = true; else all = false; } }
  for (int i = 0; i < g.n(); ++i) for (int j = i + 1; j < g.n(); ++j) for (int k = j + 1; k < g.n(); ++k)
    if (g.has_edge(i, j) && g.has_edge(i, k) && g.has_edge(j, k) && g.w[i][j] < 0 && g.w[i][k] < 0 && g.w[j][k] < 0) ++tri_neg;
  if (some) c.count("graph.some_negative_values");
  if (all && some) c.count("graph.all_values_negative");
  if (tri_neg) c.count("graph.triangle_with_negative_edges_only");
}
// random weighted graph: vertex values <= incident edge values, 5-value grid (ties); now and then the graph without vertices
inline WGraph random_graph(vh::Rng& r, int nmax, int label_mode, double scale) {
  int n = r.chance(1, 25) ? 0 : 1 + (int)r.below(nmax);
  WGraph g = oracle::make_graph(n);
  relabel(r, g, label_mode);
  int kind = (int)r.below(4);  // 0 complete, 1 sparse, 2 medium, 3 all-equal weights
  for (int i = 0; i < n; ++i) g.vval[i] = scale * ((kind == 3) ? 1.0 : 0.5 * (double)r.below(3));
  for (int i = 0; i < n; ++i) for (int j = i + 1; j < n; ++j) {
    bool e = kind == 0 || kind == 3 ? !r.chance(1, 12) : kind == 1 ? r.chance(1, 4) : r.chance(3, 5);
    if (!e) continue;
    double w = (kind == 3) ? scale * 1.0 : std::max({g.vval[i], g.vval[j], scale * 0.5 * (double)r.below(6)});
    g.w[i][j] = g.w[j][i] = w;
  }
  shift_values(r, g, scale);
  return g;
}
// G(n, p) with the same value rules
inline WGraph random_graph_np(vh::Rng& r, int n, unsigned per_mille, double scale) {
  WGraph g = oracle::make_graph(n);
  bool equal = r.chance(1, 5);
  for (int i = 0; i < n; ++i) g.vval[i] = scale * (equal ? 1.0 : 0.5 * (double)r.below(3));
  for (int i = 0; i < n; ++i) for (int j = i + 1; j < n; ++j) {
    if (r.below(1000) >= per_mille) continue;
    g.w[i][j] = g.w[j][i] = equal ? scale * 1.0 : std::max({g.vval[i], g.vval[j], scale * 0.5 * (double)r.below(6)});
  }
  shift_values(r, g, scale);
  return g;
}
inline std::string show_graph(const WGraph& g) {
  std::ostringstream o; o << "n=" << g.n() << " labels=" << vh::vstr(g.label) << " vv=" << vh::vstr(g.vval) << " edges=";
  for (int i = 0; i < g.n(); ++i) for (int j = i + 1; j < g.n(); ++j) if (g.has_edge(i, j)) o << "(" << g.label[i] << "," << g.label[j] << ":" << g.w[i][j] << ")";
  return o.str();
}
// the subgraph induced by the vertices marked present
inline WGraph induced(const WGraph& g, const std::vector<char>& present) {
  std::vector<int> idx; for (int i = 0; i < g.n(); ++i) if (present[i]) idx.push_back(i);
  WGraph sub = oracle::make_graph((int)idx.size());
  for (size_t a = 0; a < idx.size(); ++a) { sub.label[a] = g.label[idx[a]]; sub.vval[a] = g.vval[idx[a]]; for (size_t b = 0; b < idx.size(); ++b) sub.w[a][b] = g.w[idx[a]][idx[b]]; }
  return sub;
}

// deterministic blocker predicates: pure functions of the vertex word, never block dimension <= 1; optionally the oracle also
// customises the value of the simplices it lets through (documented use of the callback) by a dyadic bump >= 0 of the word
struct Blocker {
  int kind; long a; unsigned b; bool customise = false; double bump_unit = 0.25;
  bool operator()(const Simplex& s) const {
    if (s.size() < 3) return false;
    switch (kind) {
      case 0: { uint64_t h = 1; for (long x : s) h = vh::hash_mix(h, (uint64_t)x); return h % b == 0; }
      case 1: return std::find(s.begin(), s.end(), a) != s.end();
      case 2: return s.size() >= b;
      default: return true;
    }
  }
  double bump(const Simplex& s) const { uint64_t h = 11; for (long x : s) h = vh::hash_mix(h, (uint64_t)x + 77); return bump_unit * (double)(h % 4); }
  std::string name() const { static const char* n[] = {"hash_mod", "contains_vertex", "size_at_least", "always"}; return n[kind]; }
};
// Model of the blocker-driven expansion, dimension by dimension: a clique of >= 3 vertices is a candidate iff all its facets were
// kept; the oracle sees it with the largest (customised) value of its facets; kept candidates get that value (+ the bump).
inline Cx blocked_model(const Cx& all, const Blocker& bl, Cx* seen_want) {
  std::vector<Simplex> ss; for (auto& kv : all) ss.push_back(kv.first);
  std::stable_sort(ss.begin(), ss.end(), [](const Simplex& a, const Simplex& b) { return a.size() < b.size(); });
  Cx out;
  for (auto& s : ss) {
    if (s.size() <= 2) { out[s] = all.at(s); continue; }
    bool faces = true; double v = -std::numeric_limits<double>::infinity();
    for (size_t k = 0; k < s.size() && faces; ++k) {
      Simplex f; for (size_t t = 0; t < s.size(); ++t) if (t != k) f.push_back(s[t]);
      auto it = out.find(f); if (it == out.end()) faces = false; else v = std::max(v, it->second);
    }
    if (!faces) continue;
    if (seen_want) (*seen_want)[s] = v;
    if (bl(s)) continue;
    out[s] = bl.customise ? v + bl.bump(s) : v;
  }
  return out;
}

// ---------------------------------------------------------------- how the 1-skeleton is handed to the tree
struct SkelPlan {
  int kind = 0;                              // 0 Proximity_graph (directedS), 1 undirectedS, 2 bidirectionalS, 3 insert_simplex
  std::vector<std::pair<int, int>> edges;    // (source, target) as given: maybe reversed, maybe a second time (same value)
  std::vector<int> vorder;                   // kind 3: order of the vertices
  bool reversed = false, doubled = false;
  std::string name() const { static const char* n[] = {"directed", "undirected", "bidirectional", "insert_simplex"}; return std::string(n[kind]) + (reversed ? "+rev" : "") + (doubled ? "+dup" : ""); }
};
// ordered_vertices: Options::contiguous_vertices wants the vertex set to be 0..k-1 at all times
inline SkelPlan make_plan(vh::Rng& r, const WGraph& g, bool ordered_vertices) {
  SkelPlan p;
  unsigned k = (unsigned)r.below(10);
  p.kind = !contiguous_labels(g) ? 3 : (k < 4 ? 0 : k < 6 ? 1 : k < 8 ? 2 : 3);
  bool variants = r.chance(2, 3);
  for (int i = 0; i < g.n(); ++i) for (int j = i + 1; j < g.n(); ++j) if (g.has_edge(i, j)) p.edges.emplace_back(i, j);
  for (int i = 0; i < g.n(); ++i) p.vorder.push_back(i);
  if (variants) {
    r.shuffle(p.edges); if (!ordered_vertices) r.shuffle(p.vorder);
    size_t ne = p.edges.size();
    for (size_t e = 0; e < ne; ++e) {
      if (r.chance(1, 3)) { std::swap(p.edges[e].first, p.edges[e].second); p.reversed = true; }
      if (r.chance(1, 8)) { auto d = p.edges[e]; if (r.chance(1, 2)) std::swap(d.first, d.second); p.edges.insert(p.edges.begin() + r.below(p.edges.size() + 1), d); p.doubled = true; }
    }
  }
  return p;
}
template <class ST, class Dir>
void insert_boost_graph(ST& st, const WGraph& g, const SkelPlan& p) {
  typedef typename ST::Filtration_value FV;
  typedef boost::adjacency_list<boost::vecS, boost::vecS, Dir, boost::property<Gudhi::vertex_filtration_t, FV>, boost::property<Gudhi::edge_filtration_t, FV>> Gr;
  Gr gr(g.n());
  for (int i = 0; i < g.n(); ++i) boost::put(Gudhi::vertex_filtration_t(), gr, i, (FV)g.vval[i]);
  for (auto& e : p.edges) boost::add_edge(e.first, e.second, (FV)g.w[e.first][e.second], gr);
  st.insert_graph(gr);
}
template <class ST>
void build_skeleton(vh::Case& c, ST& st, const WGraph& g, const SkelPlan& p) {
  typedef typename ST::Filtration_value FV;
  typedef typename ST::Vertex_handle VH;
  switch (p.kind) {
    case 0: insert_boost_graph<ST, boost::directedS>(st, g, p); break;   // = Gudhi::Proximity_graph<ST>
    case 1: insert_boost_graph<ST, boost::undirectedS>(st, g, p); break;
    case 2: insert_boost_graph<ST, boost::bidirectionalS>(st, g, p); break;
    default:
      for (int i : p.vorder) st.insert_simplex(std::vector<VH>{(VH)g.label[i]}, (FV)g.vval[i]);
      for (auto& e : p.edges) st.insert_simplex(std::vector<VH>{(VH)g.label[e.first], (VH)g.label[e.second]}, (FV)g.w[e.first][e.second]);
  }
  (void)c;
}
inline void count_plan(vh::Case& c, const SkelPlan& p, const WGraph& g) {
  static const char* n[] = {"graph.directed", "graph.undirected", "graph.bidirectional", "graph.insert_simplex_skeleton"};
  c.count(n[p.kind]);
  if (p.reversed) c.count("graph.reversed_edges");
  if (p.doubled) c.count("graph.duplicate_edges");
  if (g.n() == 0) c.count("graph.empty");
  if (g.n() > 0 && (g.label.back() == (long)INT_MAX || g.label.front() == (long)INT_MIN)) c.count("graph.extreme_labels");
}
template <class ST>
void insert_graph(ST& st, const WGraph& g) {  // the plain route (labels 0..n-1)
  typedef typename ST::Filtration_value FV;
  Gudhi::Proximity_graph<ST> pg(g.n());
  for (int i = 0; i < g.n(); ++i) boost::put(Gudhi::vertex_filtration_t(), pg, i, (FV)g.vval[i]);
  for (int i = 0; i < g.n(); ++i) for (int j = i + 1; j < g.n(); ++j) if (g.has_edge(i, j)) boost::add_edge(i, j, (FV)g.w[i][j], pg);
  st.insert_graph(pg);
}

// a tree holding exactly the filtered complex cx, built simplex by simplex (faces first)
template <class ST>
void build_from_cx(ST& st, const Cx& cx) {
  std::vector<const Simplex*> order; for (auto& kv : cx) order.push_back(&kv.first);
  std::stable_sort(order.begin(), order.end(), [](const Simplex* a, const Simplex* b) { return a->size() < b->size(); });
  for (auto* s : order) st.insert_simplex(stc::to_vh<ST>(*s), (typename ST::Filtration_value)cx.at(*s));
}
// What a route's tree says about itself, against the complex it holds (`cx` is the complex that was already compared, simplex
// by simplex, with the model): dimension(), its bound, num_simplices(), and operator== with a tree of the same filtered complex.
template <class ST>
bool tree_checks(vh::Case& c, const ST& st, const Cx& cx, const std::string& route, const std::string& sig0) {
  const int d = cxdim(cx);
  const std::string sig = sig0 + (cx.empty() ? ",empty_complex" : "");
  c.count("cmp.dimension");
  if (cx.empty()) c.count("cmp.dimension_of_empty_complex");
  int ub = st.upper_bound_dimension();
  if (ub < d) { c.violation(route + ".upper_bound_dimension", sig, "upper_bound_dimension()=" + vh::str(ub) + " < largest simplex dimension " + vh::str(d)); return false; }
  int dd = st.dimension();
  if (dd != d) { c.violation(route + ".dimension", sig, "dimension()=" + vh::str(dd) + ", largest simplex dimension " + vh::str(d)); return false; }
  c.count("cmp.num_simplices");
  if (st.num_simplices() != cx.size()) { c.violation(route + ".num_simplices", sig, "num_simplices()=" + vh::str(st.num_simplices()) + ", the complex has " + vh::str(cx.size())); return false; }
  ST ref; build_from_cx(ref, cx);
  c.count("cmp.equal_to_model_tree");
  if (!(st == ref) || !(ref == st) || st != ref) { c.violation(route + ".equal_to_model_tree", sig, "operator== with a tree built simplex by simplex from the same filtered complex is false"); return false; }
  return true;
}

// routes 1, 2, 5 on one option set
template <class Options>
void run_expansion(vh::Case& c, const std::string& optname) {
  typedef Gudhi::Simplex_tree<Options> ST;
  typedef typename ST::Simplex_handle SH;
  typedef typename ST::Filtration_value FV;
  vh::Rng& r = c.rng;
  const double sc = value_scale<ST>();
  unsigned lm = Options::contiguous_vertices ? 0 : (unsigned)r.below(8);  // contiguous_vertices: labels 0..n-1 are a documented precondition
  WGraph g = random_graph(r, 9, lm < 5 ? 0 : lm < 7 ? 1 : 2, sc);
  count_values(c, g);
  int max_dim = r.chance(1, 20) ? 0 : r.chance(1, 12) ? extreme_dim(r) : 1 + (int)r.below(6);
  SkelPlan plan = make_plan(r, g, Options::contiguous_vertices);
  count_plan(c, plan, g);
  c.log("[" + optname + "] graph " + show_graph(g) + " max_dim=" + vh::str(max_dim) + " skeleton=" + plan.name());
  if (max_dim < 0 || max_dim >= 100) c.count("arg.extreme_max_dim");
  Cx want = oracle::flag_complex(g, one_shot_model_dim(max_dim));
  if (r.chance(1, 8)) {  // the two enumerations of the model agree
    c.count("oracle.cross_checked");
    if (clique_enum(g, one_shot_model_dim(max_dim)) != want) { c.violation("harness.oracle_mismatch", "flag_complex_vs_clique_enum", "the two clique enumerations differ on " + show_graph(g)); return; }
  }
  int cn = oracle::clique_number(g);
  if (cn >= 4) c.count("graph.clique_number_4plus");
  std::string gsig = "opts=" + optname + dim_class(max_dim, cn) + ",skel=" + plan.name();
  const std::string tsig = "opts=" + optname + (max_dim < 0 || max_dim >= 100 ? ",extreme_max_dim" : "");  // coarse: what the tree says about itself
  auto known_corner = [&](const Cx& got) { return max_dim == 0 && only_graph_edges_kept(got, want, g); };
  ST st1, st2;
  {  // route 1
    build_skeleton(c, st1, g, plan); st1.expansion(max_dim);
    Cx got = dump(st1);
    c.count("cmp.expansion");
    // (each route builds its own tree: the recorded max_dim = 0 deviation of one route must not hide the next routes)
    if (got != want) { c.violation("expansion.clique_complex", gsig + cls(got, want, g, max_dim), "skeleton+expansion differs from the clique complex:" + diff(got, want)); if (!known_corner(got)) return; }
    if (!tree_checks(c, st1, got, "expansion", tsig)) return;
  }
  {  // route 2: blocker-driven expansion with an oracle that never blocks
    build_skeleton(c, st2, g, plan); st2.expansion_with_blockers(max_dim, [](SH) { return false; });
    Cx got = dump(st2);
    c.count("cmp.expansion_never_blocking");
    if (got != want) { c.violation("blockers.never_blocking", gsig + cls(got, want, g, max_dim), "expansion_with_blockers(never) differs from the clique complex:" + diff(got, want)); if (!known_corner(got)) return; }
    if (!tree_checks(c, st2, got, "blockers", tsig)) return;
  }
  c.count("cmp.routes_operator_eq");
  if (!(st1 == st2)) { c.violation("routes.expansion_vs_never_blocking", tsig + ",operator==", "the trees of expansion and of expansion_with_blockers(never) hold the same simplices and values but compare unequal"); return; }
  {  // route 5: deterministic blocker predicate, which may also customise the values
    Blocker bl{(int)r.below(4), g.n() ? g.label[r.below(g.n())] : 0, 2 + (unsigned)r.below(3)};
    if (bl.kind == 2) bl.b = 3 + (unsigned)r.below(3);
    bl.customise = ST::Options::store_filtration && r.chance(1, 2);
    bl.bump_unit = std::is_integral<FV>::value ? 1.0 : 0.25;
    ST st; build_skeleton(c, st, g, plan);
    Cx seen; bool twice = false;
    st.expansion_with_blockers(max_dim, [&](SH sh) {
      Simplex s = stc::word(st, sh);
      if (!seen.emplace(s, (double)st.filtration(sh)).second) twice = true;
      if (bl(s)) return true;
      if (bl.customise) st.assign_filtration(sh, (FV)((double)st.filtration(sh) + bl.bump(s)));
      return false;
    });
    Cx got = dump(st);
    Cx seen_want;
    Cx wantb = blocked_model(want, bl, &seen_want);
    if (max_dim < 2) seen_want.clear();  // nothing above the edges is a candidate
    std::string bsig = gsig + ",pred=" + bl.name() + (bl.customise ? ",customised_values" : "");
    if (!bl.customise && wantb != oracle::largest_unblocked(want, [&](const Simplex& s) { return bl(s); })) { c.violation("harness.oracle_mismatch", "blocked_model_vs_largest_unblocked", "the two models of the blocked expansion differ on " + show_graph(g)); return; }
    bool blocked_some = wantb.size() < want.size();
    int topdim = cxdim(wantb);
    if (blocked_some) c.count("blockers.something_blocked");
    if (blocked_some && topdim >= 2) { c.count("blockers.blocked_and_higher_survives"); }
    if (bl.customise && topdim >= 2) c.count("blockers.customised_value_kept");
    c.count("cmp.expansion_with_blockers");
    if (got != wantb) { c.violation("blockers.maximal_unblocked", bsig + cls(got, wantb, g, max_dim), "expansion_with_blockers(" + bl.name() + ") differs from the largest blocked-simplex-free subcomplex:" + diff(got, wantb)); if (!(max_dim == 0 && only_graph_edges_kept(got, wantb, g))) return; }
    c.count("cmp.blocker_calls", seen.size());
    if (twice) { c.violation("blockers.oracle_called_twice", bsig, "the blocker oracle was called twice on one simplex"); return; }
    if (seen != seen_want) { c.violation("blockers.oracle_calls", bsig + diff_class(seen, seen_want), "simplices / values handed to the oracle differ from the candidates with the largest value of their facets:" + diff(seen, seen_want)); return; }
    if (!tree_checks(c, st, got, "blockers", tsig + ",pred=" + bl.name())) return;
  }
  if (cn >= 3 && g.n() >= 4) c.nontrivial(vh::hash_str(show_graph(g) + vh::str(max_dim) + optname));
  c.sample("{\"opts\":\"" + optname + "\",\"graph\":\"" + vh::jesc(show_graph(g)) + "\",\"max_dim\":" + vh::str(max_dim) + ",\"skeleton\":\"" + plan.name() + "\",\"cliques\":" + vh::str(want.size()) + "}");
}

// routes 3 and 4: incremental edge insertion (link_nodes_by_label option sets), with removals in between
template <class Options>
void run_incremental(vh::Case& c, const std::string& optname) {
  typedef Gudhi::Simplex_tree<Options> ST;
  typedef typename ST::Vertex_handle VH;
  typedef typename ST::Filtration_value FV;
  typedef typename ST::Simplex_handle SH;
  vh::Rng& r = c.rng;
  const double sc = value_scale<ST>();
  unsigned lm = (unsigned)r.below(6);
  WGraph g = random_graph(r, 8, lm < 3 ? 0 : lm < 5 ? 1 : 2, sc);
  count_values(c, g);
  const int n = g.n();
  int max_dim = r.chance(1, 4) ? -1 : (r.chance(1, 15) ? 0 : r.chance(1, 12) ? extreme_dim(r) : 1 + (int)r.below(5));
  const int mdim = incremental_model_dim(max_dim);
  bool in_order = r.chance(1, 2);
  const bool removals = r.chance(1, 2);     // removal steps between the insertions
  const bool accumulate = r.chance(1, 2);   // added_simplices is not emptied between the calls (documented: new simplices are appended)
  c.log("[" + optname + "] graph " + show_graph(g) + " max_dim=" + vh::str(max_dim) + (in_order ? " filtration order" : " random order") + (removals ? " with removals" : "") + (accumulate ? " accumulating" : ""));
  if (n == 0) c.count("graph.empty");
  if (n > 0 && (g.label.back() == (long)INT_MAX || g.label.front() == (long)INT_MIN)) c.count("graph.extreme_labels");
  if (max_dim < -1 || max_dim >= 100) c.count("arg.extreme_max_dim");
  // insertion sequence: vertices and edges
  struct Item { int i, j; double v; };
  std::vector<Item> items;
  for (int i = 0; i < n; ++i) items.push_back({i, i, g.vval[i]});
  for (int i = 0; i < n; ++i) for (int j = i + 1; j < n; ++j) if (g.has_edge(i, j)) items.push_back({i, j, g.w[i][j]});
  r.shuffle(items);
  auto by_value = [](const Item& a, const Item& b) { if (a.v != b.v) return a.v < b.v; return (a.i == a.j) > (b.i == b.j); };
  if (in_order) std::stable_sort(items.begin(), items.end(), by_value);
  else {  // any order, but an edge after its two vertices
    std::vector<Item> out; std::set<int> seen; std::vector<Item> delayed;
    for (auto& it : items) {
      if (it.i == it.j) { out.push_back(it); seen.insert(it.i); std::vector<Item> still; for (auto& e : delayed) { if (seen.count(e.i) && seen.count(e.j)) out.push_back(e); else still.push_back(e); } delayed.swap(still); }
      else if (seen.count(it.i) && seen.count(it.j)) out.push_back(it); else delayed.push_back(it);
    }
    items.swap(out);
  }
  ST st;
  WGraph cur = oracle::make_graph(n); cur.label = g.label;
  std::vector<char> present(n, 0), dead(n, 0);
  bool prefix_used = false, removed_any = false, stale_insertion = false;
  // `exact`: every value in the tree is the model's (always true while edges arrive in non-decreasing order of value; restored by
  // make_filtration_non_decreasing, the documented monotonisation)
  bool exact = true;
  auto sig = [&]() {
    return "opts=" + optname + (in_order ? ",filtration_order" : ",random_order") + (max_dim == -1 ? ",max_dim=-1" : max_dim < -1 ? ",negative_max_dim" : max_dim >= 100 ? ",huge_max_dim" : "") +
           (prefix_used ? ",after_one_shot_prefix" : "") + (removed_any ? ",after_removal" : "");
  };
  auto model = [&]() { return oracle::flag_complex(induced(cur, present), mdim); };
  auto max_present = [&]() { double m = -std::numeric_limits<double>::infinity(); for (int i = 0; i < n; ++i) if (present[i]) { m = std::max(m, cur.vval[i]); for (int j = i + 1; j < n; ++j) if (present[j] && cur.has_edge(i, j)) m = std::max(m, cur.w[i][j]); } return m; };
  auto csig = [&]() { return "opts=" + optname + (removed_any ? ",after_removal" : "") + (stale_insertion ? ",insertion_under_stale_bound" : ""); };  // coarse
  Cx before;
  // after every step: simplex set, values when they have to be right, the dimension bound; dimension() on half of the steps only,
  // so that a bound left stale by a removal survives to the next insertion
  auto observe = [&](const Cx& after, const char* what) {
    Cx got = dump(st);
    std::set<Simplex> gs, ws; for (auto& kv : got) gs.insert(kv.first); for (auto& kv : after) ws.insert(kv.first);
    c.count("cmp.incremental_set");
    if (gs != ws) { c.violation("incremental.simplex_set", sig(), std::string("after ") + what + ": " + diff(got, after)); return false; }
    if (exact) { c.count("cmp.incremental_values"); if (got != after) { c.violation("incremental.values_in_order", sig() + diff_class(got, after), "values differ:" + diff(got, after)); return false; } }
    int d = cxdim(after), ub = st.upper_bound_dimension();
    c.count("cmp.upper_bound_dimension");
    if (ub < d) { c.violation("incremental.upper_bound_dimension", csig(), "upper_bound_dimension()=" + vh::str(ub) + " < largest simplex dimension " + vh::str(d) + " after " + what); return false; }
    if (ub > d && !after.empty()) c.count("state.stale_bound_after_step");
    if (r.chance(1, 2)) {
      c.log("dimension()");
      int dd = st.dimension();
      c.count("cmp.dimension");
      if (ub > d && !after.empty()) c.count("cmp.dimension_under_stale_bound");
      if (dd != d) { c.violation("incremental.dimension", csig() + (after.empty() ? ",empty_complex" : ""), "dimension()=" + vh::str(dd) + ", largest simplex dimension " + vh::str(d) + " after " + what); return false; }
      stale_insertion = false;
    }
    return true;
  };
  // mixed history: the first `prefix` items are given as a 1-skeleton and expanded in one shot, the remaining ones are
  // inserted incrementally into that tree (the property quantifies over every route; a tree "already holding simplices")
  size_t prefix = 0;
  if (max_dim >= 1 && items.size() >= 3 && r.chance(2, 5)) prefix = r.chance(1, 4) ? 1 + (size_t)r.below(items.size() - 1) : items.size() / 2 + (size_t)r.below(items.size() - items.size() / 2);
  if (prefix > 0) {
    prefix_used = true;
    c.count("hist.one_shot_prefix_then_incremental");
    for (size_t t = 0; t < prefix; ++t) {
      auto& it = items[t];
      c.log("insert_simplex " + vh::str(g.label[it.i]) + " " + vh::str(g.label[it.j]) + " f=" + vh::str(it.v));
      if (it.i == it.j) { st.insert_simplex(std::vector<VH>{(VH)g.label[it.i]}, (FV)it.v); present[it.i] = 1; cur.vval[it.i] = it.v; }
      else { st.insert_simplex(std::vector<VH>{(VH)g.label[it.i], (VH)g.label[it.j]}, (FV)it.v); cur.w[it.i][it.j] = cur.w[it.j][it.i] = it.v; }
    }
    c.log("expansion " + vh::str(max_dim));
    st.expansion(max_dim);
    before = model();
    Cx got = dump(st);
    c.count("cmp.expansion");
    if (got != before) { c.violation("expansion.clique_complex", sig() + diff_class(got, before), "insert_simplex skeleton + expansion differs from the clique complex:" + diff(got, before)); return; }
    size_t nv = 0; for (char p : present) nv += p;
    if (before.size() > nv + 2) c.count("hist.one_shot_prefix_has_triangles_or_more");
  }
  std::vector<Item> queue(items.begin() + prefix, items.end());
  std::vector<SH> added;
  if (accumulate) added.assign(1 + r.below(3), st.null_simplex());  // not empty on entry
  int removal_ops = 0; size_t deferrals = 0;
  auto to_vh = [&](const Simplex& s) { return stc::to_vh<ST>(s); };
  // removes the star of `face` top-down, every simplex through remove_maximal_simplex while it is maximal
  auto remove_star = [&](const Simplex& face) {
    std::vector<Simplex> star; for (auto& kv : before) if (std::includes(kv.first.begin(), kv.first.end(), face.begin(), face.end())) star.push_back(kv.first);
    std::stable_sort(star.begin(), star.end(), [](const Simplex& a, const Simplex& b) { return a.size() > b.size(); });
    for (auto& s : star) {
      SH sh = st.find(to_vh(s));
      if (sh == st.null_simplex()) { c.violation("incremental.simplex_set", sig() + ",missing_before_removal", "find(" + oracle::show(s) + ") fails before its removal"); return false; }
      st.remove_maximal_simplex(sh);
      c.count("op.remove_maximal_simplex");
    }
    return true;
  };
  auto requeue = [&](const Item& it, size_t from) { queue.insert(queue.begin() + from + r.below(queue.size() - from + 1), it); };
  for (size_t t = 0; t < queue.size(); ++t) {
    // ---- a removal step now and then
    if (removals && removal_ops < 6 && !before.empty() && r.chance(1, 4)) {
      ++removal_ops;
      unsigned k = (unsigned)r.below(5);
      std::vector<std::pair<int, int>> es; for (int i = 0; i < n; ++i) for (int j = i + 1; j < n; ++j) if (present[i] && present[j] && cur.has_edge(i, j) && before.count(Simplex{g.label[i], g.label[j]})) es.emplace_back(i, j);
      std::vector<int> vs; for (int i = 0; i < n; ++i) if (present[i]) vs.push_back(i);
      if (k < 2 && !es.empty()) {  // the star of an edge
        auto e = es[r.below(es.size())];
        c.log("remove the star of edge " + vh::str(g.label[e.first]) + " " + vh::str(g.label[e.second]));
        if (!remove_star(Simplex{g.label[e.first], g.label[e.second]})) return;
        c.count("op.remove_edge_star");
        Item it{e.first, e.second, cur.w[e.first][e.second]};
        cur.w[e.first][e.second] = cur.w[e.second][e.first] = std::numeric_limits<double>::quiet_NaN();
        if (r.chance(2, 3)) requeue(it, t);
      } else if (k < 3 && !vs.empty()) {  // the star of a vertex
        int i = vs[r.below(vs.size())];
        c.log("remove the star of vertex " + vh::str(g.label[i]));
        if (!remove_star(Simplex{g.label[i]})) return;
        c.count("op.remove_vertex_star");
        bool back = r.chance(1, 2);
        std::vector<Item> again;
        for (int j = 0; j < n; ++j) if (j != i && cur.has_edge(i, j)) { again.push_back({std::min(i, j), std::max(i, j), cur.w[i][j]}); cur.w[i][j] = cur.w[j][i] = std::numeric_limits<double>::quiet_NaN(); }
        present[i] = 0;
        if (back) { for (auto& e : again) requeue(e, t); requeue(Item{i, i, cur.vval[i]}, t); } else dead[i] = 1;
      } else {  // prune_above_filtration (the values have to be the intended ones first: documented monotonisation)
        if (!exact) {
          c.log("make_filtration_non_decreasing");
          st.make_filtration_non_decreasing(); exact = true;
          Cx got = dump(st);
          c.count("cmp.incremental_after_monotonisation");
          if (got != before) { c.violation("incremental.values_after_monotonisation", sig() + diff_class(got, before), "after make_filtration_non_decreasing:" + diff(got, before)); return; }
        }
        double thr = sc * 0.5 * (double)r.below(6);
        c.log("prune_above_filtration " + vh::str(thr));
        st.prune_above_filtration((FV)thr);
        c.count("op.prune_above_filtration");
        std::vector<Item> again;
        for (int i = 0; i < n; ++i) for (int j = i + 1; j < n; ++j) if (cur.has_edge(i, j) && (cur.w[i][j] > thr || (present[i] && cur.vval[i] > thr) || (present[j] && cur.vval[j] > thr))) { if (present[i] && present[j]) again.push_back({i, j, cur.w[i][j]}); cur.w[i][j] = cur.w[j][i] = std::numeric_limits<double>::quiet_NaN(); }
        for (int i = 0; i < n; ++i) if (present[i] && cur.vval[i] > thr) { present[i] = 0; again.push_back({i, i, cur.vval[i]}); }
        if (ST::Options::store_filtration) { for (auto& it : again) requeue(it, t); }
        if (in_order) std::stable_sort(queue.begin() + t, queue.end(), by_value);
      }
      removed_any = true;
      Cx after = model();
      if (after.size() < before.size()) c.count("hist.removal_step_removed_something");
      if (cxdim(after) < cxdim(before) && !after.empty()) c.count("hist.removal_lowered_dimension");
      if (!observe(after, "removal")) return;
      before = after;
      if (t >= queue.size()) break;
    }
    Item it = queue[t];
    if (dead[it.i] || dead[it.j]) { c.count("skip.edge_of_removed_vertex"); continue; }
    if (it.i != it.j && (!present[it.i] || !present[it.j])) {  // documented precondition: an edge after its two vertices
      if (++deferrals > 400) { c.count("skip.edge_without_vertices"); continue; }
      queue.push_back(it); c.count("skip.edge_deferred_until_vertices"); continue;
    }
    if (it.i == it.j && present[it.i]) { c.count("skip.vertex_already_present"); continue; }
    if (it.i != it.j && cur.has_edge(it.i, it.j)) { c.count("skip.edge_already_present"); continue; }
    const bool swapped = it.i != it.j && r.chance(1, 2);
    if (!accumulate) added.clear();
    const size_t from = added.size();
    if (from > 0) c.count("op.insert_with_nonempty_added_simplices");
    if (st.upper_bound_dimension() > cxdim(before) && !before.empty()) { stale_insertion = true; c.count("op.insert_under_stale_bound"); }
    c.log("insert_edge_as_flag " + vh::str(g.label[swapped ? it.j : it.i]) + " " + vh::str(g.label[swapped ? it.i : it.j]) + " f=" + vh::str(it.v));
    if (it.i != it.j && it.v < max_present()) exact = false;
    st.insert_edge_as_flag((VH)g.label[swapped ? it.j : it.i], (VH)g.label[swapped ? it.i : it.j], (FV)it.v, max_dim, added);
    c.count(it.i == it.j ? "op.insert_vertex_as_flag" : "op.insert_edge_as_flag");
    if (swapped) c.count("op.insert_edge_as_flag_swapped");
    if (removed_any) c.count("op.insert_after_removal");
    if (it.i == it.j) { present[it.i] = 1; cur.vval[it.i] = it.v; } else cur.w[it.i][it.j] = cur.w[it.j][it.i] = it.v;
    // current model: cliques of the current graph restricted to present vertices
    Cx after = model();
    // (a) reported simplices = exactly the created ones (as a set, no duplicates, handles valid), appended after what was there
    c.count("cmp.added_simplices");
    if (added.size() < from) { c.violation("incremental.added_simplices", sig() + ",container_emptied", "added_simplices had " + vh::str(from) + " entries on entry and has " + vh::str(added.size()) + " now"); return; }
    std::set<Simplex> rep; bool dup = false;
    for (size_t a = from; a < added.size(); ++a) { if (!rep.insert(stc::word(st, added[a])).second) dup = true; }
    if (from > 0) c.count("cmp.added_simplices_appended_tail");
    std::set<Simplex> created; for (auto& kv : after) if (!before.count(kv.first)) created.insert(kv.first);
    if (dup) { c.violation("incremental.added_duplicates", sig(), "added_simplices lists a simplex twice"); return; }
    if (rep != created) { c.violation("incremental.added_simplices", sig() + (from > 0 ? ",appended" : "") + (rep.size() < created.size() ? ",fewer" : rep.size() > created.size() ? ",more" : ",different"), "added_simplices=" + stc::show_set(rep) + " created=" + stc::show_set(created)); return; }
    // (b) simplex set, (c) values when the insertions so far were in filtration order, (d) dimension
    if (!observe(after, "insertion")) return;
    before = after;
  }
  if (!exact) {
    c.log("make_filtration_non_decreasing");
    st.make_filtration_non_decreasing(); exact = true;
    Cx got = dump(st);
    c.count("cmp.incremental_after_monotonisation");
    if (got != before) { c.violation("incremental.values_after_monotonisation", sig() + diff_class(got, before), "after make_filtration_non_decreasing:" + diff(got, before)); return; }
  }
  {  // the final tree against the model: dimension(), num_simplices(), operator== with a tree built from the model
    Cx got = dump(st);
    if (got != before) { c.violation("incremental.values_in_order", sig() + diff_class(got, before), "final complex differs:" + diff(got, before)); return; }
    if (!tree_checks(c, st, before, "incremental", csig())) return;
  }
  // (e) same complex as the one-shot route on the same option set (labels 0..n-1 only)
  WGraph fin = induced(cur, present);
  if (contiguous_labels(fin) && max_dim >= 0) {
    ST one; insert_graph(one, fin); one.expansion(max_dim);
    c.count("cmp.routes_agree");
    Cx d1 = dump(one), d2 = dump(st);
    if (d1 != d2) { c.violation("routes.one_shot_vs_incremental", sig() + cls(d1, d2, fin, max_dim), "one-shot expansion and incremental insertion differ:" + diff(d1, d2)); return; }
    c.count("cmp.routes_operator_eq");
    one.dimension();
    if (!(one == st)) { c.violation("routes.one_shot_vs_incremental", csig() + ",operator==" + (d1.empty() ? ",empty_complex" : ""), "the one-shot tree and the incremental tree hold the same simplices and values but compare unequal"); return; }
  }
  if (oracle::clique_number(g) >= 3) c.nontrivial(vh::hash_str(show_graph(g) + vh::str(max_dim) + optname + (in_order ? "o" : "r") + (removals ? "x" : "")));
  c.sample("{\"opts\":\"" + optname + "\",\"route\":\"incremental\",\"graph\":\"" + vh::jesc(show_graph(g)) + "\",\"removal_steps\":" + vh::str(removal_ops) + "}");
}

// route 6: Rips builders
template <class Options>
void run_rips(vh::Case& c, const std::string& optname) {
  typedef Gudhi::Simplex_tree<Options> ST;
  typedef typename ST::Filtration_value FV;
  typedef std::vector<double> Point;
  vh::Rng& r = c.rng;
  constexpr bool integral = std::is_integral<FV>::value;
  int n = r.chance(1, 25) ? 0 : 1 + (int)r.below(9), dimp = 1 + (int)r.below(3);
  std::vector<Point> pts(n, Point(dimp));
  for (auto& p : pts) for (auto& x : p) x = (double)r.range(-3, 3);
  // Euclidean distance; an integral Filtration_value gets the (exactly representable) L1 distance through a user functor
  auto l1 = [](const Point& a, const Point& b) { double s = 0; for (size_t k = 0; k < a.size(); ++k) s += std::fabs(a[k] - b[k]); return (FV)s; };
  std::vector<std::vector<FV>> D(n, std::vector<FV>(n, 0));
  std::vector<double> dists;
  for (int i = 0; i < n; ++i) for (int j = 0; j < n; ++j) {
    if (integral) D[i][j] = l1(pts[i], pts[j]);
    else { double s = 0; for (int k = 0; k < dimp; ++k) s += (pts[i][k] - pts[j][k]) * (pts[i][k] - pts[j][k]); D[i][j] = (FV)std::sqrt(s); }
    if (i < j) dists.push_back((double)D[i][j]);
  }
  double thr;
  int tk = (int)r.below(5);
  if (dists.empty()) thr = 1.0;
  else if (tk == 0) thr = dists[r.below(dists.size())];                                       // exactly a distance
  else if (tk == 1) thr = dists[r.below(dists.size())] + (integral ? 1 : 0.01);               // between
  else if (tk == 2) thr = -1.0;                                                               // below everything
  else if (tk == 3) thr = integral ? 1000.0 : std::numeric_limits<double>::infinity();
  else thr = integral ? (double)r.below(12) : 0.5 * (double)r.below(12);
  int max_dim = r.chance(1, 20) ? 0 : r.chance(1, 12) ? extreme_dim(r) : 1 + (int)r.below(5);
  // source: 0 points, 1 lower-triangular matrix, 2 full square matrix, 3 compute_proximity_graph + insert_graph + expansion
  int src = (int)r.below(6); if (src >= 4) src -= 4;
  bool twice = src != 3 && r.chance(1, 3);  // the same Rips_complex object creates a second complex
  static const char* sname[] = {"points", "matrix", "square_matrix", "proximity_graph"};
  std::ostringstream ps; for (auto& p : pts) ps << vh::vstr(p);
  c.log("[" + optname + "] rips " + sname[src] + " " + ps.str() + " thr=" + vh::str(thr) + " max_dim=" + vh::str(max_dim) + (twice ? " two complexes" : ""));
  if (n == 0) c.count("graph.empty");
  if (max_dim < 0 || max_dim >= 100) c.count("arg.extreme_max_dim");
  WGraph g = oracle::make_graph(n);
  for (int i = 0; i < n; ++i) for (int j = i + 1; j < n; ++j) if ((double)D[i][j] <= (double)(FV)thr) g.w[i][j] = g.w[j][i] = ST::Options::store_filtration ? (double)D[i][j] : 0.0;
  Cx want = oracle::flag_complex(g, one_shot_model_dim(max_dim));
  ST st, st_second;
  auto create = [&](auto& rc) { rc.create_complex(st, max_dim); if (twice) rc.create_complex(st_second, max_dim); };
  if (src == 1) {
    std::vector<std::vector<FV>> lower(n);
    for (int i = 0; i < n; ++i) for (int j = 0; j < i; ++j) lower[i].push_back(D[i][j]);
    Gudhi::rips_complex::Rips_complex<FV> rc(lower, (FV)thr);
    create(rc);
  } else if (src == 2) {
    Gudhi::rips_complex::Rips_complex<FV> rc(D, (FV)thr);
    create(rc);
  } else if (src == 0) {
    if constexpr (integral) { Gudhi::rips_complex::Rips_complex<FV> rc(pts, (FV)thr, l1); create(rc); }
    else { Gudhi::rips_complex::Rips_complex<FV> rc(pts, (FV)thr, Gudhi::Euclidean_distance()); create(rc); }
  } else {
    if constexpr (integral) { auto pg = Gudhi::compute_proximity_graph<ST>(pts, (FV)thr, l1); st.insert_graph(pg); }
    else { auto pg = Gudhi::compute_proximity_graph<ST>(pts, (FV)thr, Gudhi::Euclidean_distance()); st.insert_graph(pg); }
    st.expansion(max_dim);
  }
  Cx got = dump(st);
  std::string sig = "opts=" + optname + "," + (src == 1 ? "matrix" : sname[src]) + ",thr_kind=" + vh::str(tk) + (max_dim < 0 ? ",negative_max_dim" : max_dim >= 100 ? ",huge_max_dim" : "");
  static const char* cname[] = {"cmp.rips_points", "cmp.rips_matrix", "cmp.rips_square_matrix", "cmp.rips_proximity_graph"};
  c.count(cname[src]);
  if (got != want) { c.violation("rips.threshold_graph_clique_complex", sig + cls(got, want, g, max_dim), "Rips complex differs from the clique complex of the threshold graph:" + diff(got, want)); if (!(max_dim == 0 && only_graph_edges_kept(got, want, g))) return; }
  const std::string tsig = "opts=" + optname + "," + (src == 1 ? "matrix" : sname[src]);
  if (!tree_checks(c, st, got, "rips", tsig)) return;
  if (twice) {
    c.count("cmp.rips_second_create_complex");
    Cx got2 = dump(st_second);
    if (got2 != got) { c.violation("rips.second_create_complex", sig + diff_class(got2, got), "the second complex created by the same Rips_complex differs from the first:" + diff(got2, got)); return; }
    if (!(st_second == st)) { c.violation("rips.second_create_complex", tsig + ",operator==", "the two complexes created by the same Rips_complex compare unequal"); return; }
  }
  if (want.size() > (size_t)n + 2) c.nontrivial(vh::hash_str(ps.str() + vh::str(thr) + vh::str(max_dim) + optname));
}

// mid-size graphs (10-40 vertices, beyond the 2^n oracle): the recursive enumeration is the model.  Routes 1, 2, 5 and, on
// link_nodes_by_label option sets, the incremental route with the created simplices derived from the link of the new edge.
template <class Options>
void run_mid(vh::Case& c, const std::string& optname) {
  typedef Gudhi::Simplex_tree<Options> ST;
  typedef typename ST::Simplex_handle SH;
  typedef typename ST::Vertex_handle VH;
  typedef typename ST::Filtration_value FV;
  vh::Rng& r = c.rng;
  const double sc = value_scale<ST>();
  int n = 10 + (int)r.below(31);
  unsigned pm = n <= 16 ? 400 + 100 * (unsigned)r.below(5) : n <= 28 ? 200 + 60 * (unsigned)r.below(5) : 100 + 40 * (unsigned)r.below(5);
  WGraph g = random_graph_np(r, n, pm, sc);
  count_values(c, g);
  int max_dim = r.chance(1, 10) ? (r.chance(1, 2) ? INT_MAX : 100) : 2 + (int)r.below(4);
  SkelPlan plan = make_plan(r, g, Options::contiguous_vertices);
  c.log("[" + optname + "] mid graph " + show_graph(g) + " max_dim=" + vh::str(max_dim) + " skeleton=" + plan.name());
  Cx want = clique_enum(g, one_shot_model_dim(max_dim));
  if (want.size() > 5000) { c.count("skip.mid_too_many_cliques"); return; }
  count_plan(c, plan, g);
  c.count("mid.graphs"); c.count("mid.cliques", want.size());
  int cn = cxdim(clique_enum(g, -1)) + 1;
  if (cn >= 4) c.count("mid.clique_number_4plus");
  std::string gsig = "opts=" + optname + ",mid_size" + dim_class(max_dim, cn) + ",skel=" + plan.name();
  ST st1, st2;
  build_skeleton(c, st1, g, plan); st1.expansion(max_dim);
  { Cx got = dump(st1); c.count("cmp.expansion"); if (got != want) { c.violation("expansion.clique_complex", gsig + diff_class(got, want), "skeleton+expansion differs from the clique complex:" + diff(got, want)); return; } if (!tree_checks(c, st1, got, "expansion", "opts=" + optname + ",mid_size")) return; }
  build_skeleton(c, st2, g, plan); st2.expansion_with_blockers(max_dim, [](SH) { return false; });
  { Cx got = dump(st2); c.count("cmp.expansion_never_blocking"); if (got != want) { c.violation("blockers.never_blocking", gsig + diff_class(got, want), "expansion_with_blockers(never) differs from the clique complex:" + diff(got, want)); return; } if (!tree_checks(c, st2, got, "blockers", "opts=" + optname + ",mid_size")) return; }
  c.count("cmp.routes_operator_eq");
  if (!(st1 == st2)) { c.violation("routes.expansion_vs_never_blocking", gsig + ",operator==", "the trees of expansion and of expansion_with_blockers(never) compare unequal"); return; }
  {
    Blocker bl{r.chance(2, 3) ? 0 : 2, 0, 3 + (unsigned)r.below(3)};
    bl.customise = ST::Options::store_filtration && r.chance(1, 2);
    bl.bump_unit = std::is_integral<FV>::value ? 1.0 : 0.25;
    ST st; build_skeleton(c, st, g, plan);
    Cx seen; bool twice = false;
    st.expansion_with_blockers(max_dim, [&](SH sh) {
      Simplex s = stc::word(st, sh);
      if (!seen.emplace(s, (double)st.filtration(sh)).second) twice = true;
      if (bl(s)) return true;
      if (bl.customise) st.assign_filtration(sh, (FV)((double)st.filtration(sh) + bl.bump(s)));
      return false;
    });
    Cx got = dump(st), seen_want;
    Cx wantb = blocked_model(want, bl, &seen_want);
    std::string bsig = gsig + ",pred=" + bl.name() + (bl.customise ? ",customised_values" : "");
    c.count("cmp.expansion_with_blockers");
    if (wantb.size() < want.size() && cxdim(wantb) >= 2) c.count("mid.blocked_and_higher_survives");
    if (got != wantb) { c.violation("blockers.maximal_unblocked", bsig + diff_class(got, wantb), "expansion_with_blockers(" + bl.name() + ") differs from the largest blocked-simplex-free subcomplex:" + diff(got, wantb)); return; }
    c.count("cmp.blocker_calls", seen.size());
    if (twice) { c.violation("blockers.oracle_called_twice", bsig, "the blocker oracle was called twice on one simplex"); return; }
    if (seen != seen_want) { c.violation("blockers.oracle_calls", bsig + diff_class(seen, seen_want), "simplices / values handed to the oracle differ:" + diff(seen, seen_want)); return; }
    if (!tree_checks(c, st, got, "blockers", "opts=" + optname + ",mid_size,pred=" + bl.name())) return;
  }
  if constexpr (Options::link_nodes_by_label) {
    // sparse labels (with the extremes), same graph
    if (r.chance(1, 2)) { std::set<long> s; s.insert((long)INT_MAX); s.insert((long)INT_MIN); while ((int)s.size() < n) { long x = (long)(int32_t)(uint32_t)r.next(); if (x != -1) s.insert(x); } int i = 0; for (long x : s) g.label[i++] = x; c.count("graph.extreme_labels"); }
    int dm = r.chance(1, 3) ? -1 : max_dim;
    Cx all = clique_enum(g, incremental_model_dim(dm));
    if (all.size() > 5000) { c.count("skip.mid_too_many_cliques"); return; }
    bool in_order = r.chance(1, 2), accumulate = r.chance(1, 2);
    std::string isig = "opts=" + optname + ",mid_size" + (in_order ? ",filtration_order" : ",random_order") + (dm == -1 ? ",max_dim=-1" : "");
    c.log(std::string("incremental dim_max=") + vh::str(dm) + (in_order ? " filtration order" : " random order") + " labels=" + vh::vstr(g.label));
    struct Item { int i, j; double v; };
    std::vector<Item> items;
    for (int i = 0; i < n; ++i) items.push_back({i, i, g.vval[i]});
    for (int i = 0; i < n; ++i) for (int j = i + 1; j < n; ++j) if (g.has_edge(i, j)) items.push_back({i, j, g.w[i][j]});
    r.shuffle(items);
    std::stable_sort(items.begin(), items.end(), [](const Item& a, const Item& b) { return (a.i == a.j) > (b.i == b.j); });  // vertices first
    if (in_order) std::stable_sort(items.begin(), items.end(), [](const Item& a, const Item& b) { if (a.v != b.v) return a.v < b.v; return (a.i == a.j) > (b.i == b.j); });
    ST st; std::set<Simplex> have; WGraph cur = oracle::make_graph(n); cur.label = g.label;
    std::vector<SH> added; size_t step = 0;
    for (auto& it : items) {
      if (!accumulate) added.clear();
      size_t from = added.size();
      bool swapped = it.i != it.j && r.chance(1, 2);
      st.insert_edge_as_flag((VH)g.label[swapped ? it.j : it.i], (VH)g.label[swapped ? it.i : it.j], (FV)it.v, dm, added);
      c.count(it.i == it.j ? "op.insert_vertex_as_flag" : "op.insert_edge_as_flag");
      if (swapped) c.count("op.insert_edge_as_flag_swapped");
      if (from > 0) c.count("op.insert_with_nonempty_added_simplices");
      ++step;
      std::set<Simplex> created;
      if (it.i == it.j) { cur.vval[it.i] = it.v; created.insert(Simplex{g.label[it.i]}); }
      else {
        cur.w[it.i][it.j] = cur.w[it.j][it.i] = it.v;
        // cliques containing the new edge = the edge joined with every clique (also the empty one) of its common neighbourhood
        std::vector<char> common(n, 0); for (int x = 0; x < n; ++x) if (x != it.i && x != it.j && cur.has_edge(x, it.i) && cur.has_edge(x, it.j)) common[x] = 1;
        Simplex e{g.label[it.i], g.label[it.j]}; std::sort(e.begin(), e.end()); created.insert(e);
        if (dm == -1 || dm >= 2) for (auto& kv : clique_enum(induced(cur, common), dm == -1 ? -1 : dm - 2)) { Simplex s = kv.first; s.insert(s.end(), e.begin(), e.end()); std::sort(s.begin(), s.end()); created.insert(s); }
      }
      std::set<Simplex> rep; bool dup = false;
      if (added.size() < from) { c.violation("incremental.added_simplices", isig + ",container_emptied", "added_simplices shrank"); return; }
      for (size_t a = from; a < added.size(); ++a) if (!rep.insert(stc::word(st, added[a])).second) dup = true;
      c.count("cmp.added_simplices");
      if (from > 0) c.count("cmp.added_simplices_appended_tail");
      if (dup) { c.violation("incremental.added_duplicates", isig, "added_simplices lists a simplex twice"); return; }
      if (rep != created) { c.violation("incremental.added_simplices", isig + (from > 0 ? ",appended" : "") + (rep.size() < created.size() ? ",fewer" : rep.size() > created.size() ? ",more" : ",different"), "step " + vh::str(step) + ": added_simplices has " + vh::str(rep.size()) + " simplices, created " + vh::str(created.size())); return; }
      for (auto& s : created) have.insert(s);
      if (step % 16 == 0) { std::set<Simplex> gs; for (auto& kv : dump(st)) gs.insert(kv.first); c.count("cmp.incremental_set"); if (gs != have) { c.violation("incremental.simplex_set", isig, "simplex set differs at step " + vh::str(step)); return; } }
    }
    if (!in_order) { st.make_filtration_non_decreasing(); c.count("cmp.incremental_after_monotonisation"); }
    Cx got = dump(st);
    c.count("mid.incremental");
    if (got != all) { c.violation(in_order ? "incremental.values_in_order" : "incremental.values_after_monotonisation", isig + diff_class(got, all), "incremental result differs from the clique complex:" + diff(got, all)); return; }
    if (!tree_checks(c, st, got, "incremental", "opts=" + optname + ",mid_size")) return;
  }
  if (cn >= 3) c.nontrivial(vh::hash_str(show_graph(g) + vh::str(max_dim) + optname));
  c.sample("{\"opts\":\"" + optname + "\",\"route\":\"mid\",\"n\":" + vh::str(n) + ",\"max_dim\":" + vh::str(max_dim) + ",\"cliques\":" + vh::str(want.size()) + "}");
}

}  // namespace c04
#endif

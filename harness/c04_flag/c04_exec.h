// C04 — flag (clique) expansions build exactly the clique complex, by every route.
#ifndef VERIF_C04_EXEC_H_
#define VERIF_C04_EXEC_H_
#include <gudhi/Simplex_tree.h>
#include <gudhi/Rips_complex.h>
#include <gudhi/distance_functions.h>
#include <gudhi/graph_simplicial_complex.h>
#include "common/vh.h"
#include "common/st_common.h"
#include "oracle/flag.h"
#include <cmath>

namespace c04 {

using oracle::Simplex;
using oracle::WGraph;
typedef std::map<Simplex, double> Cx;

template <class ST>
Cx dump(const ST& st) {
  Cx r;
  for (auto sh : st.complex_simplex_range()) r[stc::word(st, sh)] = (double)st.filtration(sh);
  return r;
}

inline std::string diff(const Cx& got, const Cx& want) {
  std::string d;
  int n = 0;
  for (auto& kv : want) { auto it = got.find(kv.first); if (it == got.end()) { if (n++ < 6) d += " missing" + oracle::show(kv.first); } else if (it->second != kv.second) { if (n++ < 6) d += " value" + oracle::show(kv.first) + "=" + vh::str(it->second) + "!=" + vh::str(kv.second); } }
  for (auto& kv : got) if (!want.count(kv.first)) { if (n++ < 6) d += " extra" + oracle::show(kv.first); }
  return d;
}
inline std::string diff_class(const Cx& got, const Cx& want) {
  bool miss = false, extra = false, val = false;
  for (auto& kv : want) { auto it = got.find(kv.first); if (it == got.end()) miss = true; else if (it->second != kv.second) val = true; }
  for (auto& kv : got) if (!want.count(kv.first)) extra = true;
  return std::string(miss ? ",missing" : "") + (extra ? ",extra" : "") + (val ? ",value" : "");
}

// max_dim = 0 corner: the routes that start from an inserted graph keep the graph's edges (expansion never removes).
// Returns true iff got = want + exactly the edges of g with their values.
inline bool only_graph_edges_kept(const Cx& got, const Cx& want, const WGraph& g) {
  Cx w2 = want;
  for (int i = 0; i < g.n(); ++i) for (int j = i + 1; j < g.n(); ++j) if (g.has_edge(i, j)) w2[Simplex{g.label[i], g.label[j]}] = g.w[i][j];
  return got == w2 && got != want;
}
inline std::string cls(const Cx& got, const Cx& want, const WGraph& g, int max_dim) {
  if (max_dim == 0 && only_graph_edges_kept(got, want, g)) return ",max_dim=0,graph_edges_kept";
  return diff_class(got, want);
}

// random weighted graph: vertex values <= incident edge values, 5-value grid (ties)
inline WGraph random_graph(vh::Rng& r, int nmax, bool sparse_labels) {
  int n = 1 + (int)r.below(nmax);
  WGraph g = oracle::make_graph(n);
  if (sparse_labels) { static const long pool[] = {-7, -2, 0, 3, 4, 9, 40, 100, 1000, 50000, 1 << 20, 1 << 30}; std::set<long> s; while ((int)s.size() < n) s.insert(pool[r.below(12)]); int i = 0; for (long x : s) g.label[i++] = x; }
  int kind = (int)r.below(4);  // 0 complete, 1 sparse, 2 medium, 3 all-equal weights
  for (int i = 0; i < n; ++i) g.vval[i] = (kind == 3) ? 1.0 : 0.5 * (double)r.below(3);
  for (int i = 0; i < n; ++i) for (int j = i + 1; j < n; ++j) {
    bool e = kind == 0 || kind == 3 ? !r.chance(1, 12) : kind == 1 ? r.chance(1, 4) : r.chance(3, 5);
    if (!e) continue;
    double w = (kind == 3) ? 1.0 : std::max({g.vval[i], g.vval[j], 0.5 * (double)r.below(6)});
    g.w[i][j] = g.w[j][i] = w;
  }
  return g;
}
inline std::string show_graph(const WGraph& g) {
  std::ostringstream o; o << "n=" << g.n() << " labels=" << vh::vstr(g.label) << " vv=" << vh::vstr(g.vval) << " edges=";
  for (int i = 0; i < g.n(); ++i) for (int j = i + 1; j < g.n(); ++j) if (g.has_edge(i, j)) o << "(" << g.label[i] << "," << g.label[j] << ":" << g.w[i][j] << ")";
  return o.str();
}

// deterministic blocker predicates: pure functions of the vertex word, never block dimension <= 1
struct Blocker {
  int kind; long a; unsigned b;
  bool operator()(const Simplex& s) const {
    if (s.size() < 3) return false;
    switch (kind) {
      case 0: { uint64_t h = 1; for (long x : s) h = vh::hash_mix(h, (uint64_t)x); return h % b == 0; }
      case 1: return std::find(s.begin(), s.end(), a) != s.end();
      case 2: return s.size() >= b;
      default: return true;
    }
  }
  std::string name() const { static const char* n[] = {"hash_mod", "contains_vertex", "size_at_least", "always"}; return n[kind]; }
};

template <class ST>
void insert_graph(ST& st, const WGraph& g) {
  typedef typename ST::Filtration_value FV;
  Gudhi::Proximity_graph<ST> pg(g.n());
  for (int i = 0; i < g.n(); ++i) boost::put(Gudhi::vertex_filtration_t(), pg, i, (FV)g.vval[i]);
  for (int i = 0; i < g.n(); ++i) for (int j = i + 1; j < g.n(); ++j) if (g.has_edge(i, j)) boost::add_edge(i, j, (FV)g.w[i][j], pg);
  st.insert_graph(pg);
}

// routes 1, 2, 5 on one option set
template <class Options>
void run_expansion(vh::Case& c, const std::string& optname) {
  typedef Gudhi::Simplex_tree<Options> ST;
  vh::Rng& r = c.rng;
  WGraph g = random_graph(r, 9, false);
  int max_dim = r.chance(1, 20) ? 0 : 1 + (int)r.below(6);
  c.log("[" + optname + "] graph " + show_graph(g) + " max_dim=" + vh::str(max_dim));
  Cx want = oracle::flag_complex(g, max_dim);
  int cn = oracle::clique_number(g);
  if (cn >= 4) c.count("graph.clique_number_4plus");
  std::string gsig = "opts=" + optname + (max_dim == 0 ? "" : max_dim < cn - 1 ? ",truncated" : ",full");
  {  // route 1
    ST st; insert_graph(st, g); st.expansion(max_dim);
    Cx got = dump(st);
    c.count("cmp.expansion");
    // (each route builds its own tree: the recorded max_dim = 0 deviation of one route must not hide the next routes)
    if (got != want) { c.violation("expansion.clique_complex", gsig + cls(got, want, g, max_dim), "insert_graph+expansion differs from the clique complex:" + diff(got, want)); if (!(max_dim == 0 && only_graph_edges_kept(got, want, g))) return; }
  }
  {  // route 2: blocker-driven expansion with an oracle that never blocks
    ST st; insert_graph(st, g); st.expansion_with_blockers(max_dim, [](typename ST::Simplex_handle) { return false; });
    Cx got = dump(st);
    c.count("cmp.expansion_never_blocking");
    if (got != want) { c.violation("blockers.never_blocking", gsig + cls(got, want, g, max_dim), "expansion_with_blockers(never) differs from the clique complex:" + diff(got, want)); if (!(max_dim == 0 && only_graph_edges_kept(got, want, g))) return; }
  }
  {  // route 5: deterministic blocker predicate
    Blocker bl{(int)r.below(4), g.label[r.below(g.n())], 2 + (unsigned)r.below(3)};
    if (bl.kind == 2) bl.b = 3 + (unsigned)r.below(3);
    ST st; insert_graph(st, g);
    size_t calls = 0;
    st.expansion_with_blockers(max_dim, [&](typename ST::Simplex_handle sh) { ++calls; return bl(stc::word(st, sh)); });
    Cx got = dump(st);
    Cx wantb = oracle::largest_unblocked(want, [&](const Simplex& s) { return bl(s); });
    bool blocked_some = wantb.size() < want.size();
    int topdim = -1; for (auto& kv : wantb) topdim = std::max(topdim, (int)kv.first.size() - 1);
    if (blocked_some) c.count("blockers.something_blocked");
    if (blocked_some && topdim >= 2) { c.count("blockers.blocked_and_higher_survives"); }
    c.count("cmp.expansion_with_blockers");
    if (got != wantb) { c.violation("blockers.maximal_unblocked", gsig + ",pred=" + bl.name() + cls(got, wantb, g, max_dim), "expansion_with_blockers(" + bl.name() + ") differs from the largest blocked-simplex-free subcomplex:" + diff(got, wantb)); return; }
  }
  if (cn >= 3 && g.n() >= 4) c.nontrivial(vh::hash_str(show_graph(g) + vh::str(max_dim) + optname));
  c.sample("{\"opts\":\"" + optname + "\",\"graph\":\"" + vh::jesc(show_graph(g)) + "\",\"max_dim\":" + vh::str(max_dim) + ",\"cliques\":" + vh::str(want.size()) + "}");
}

// routes 3 and 4: incremental edge insertion (link_nodes_by_label option sets)
template <class Options>
void run_incremental(vh::Case& c, const std::string& optname) {
  typedef Gudhi::Simplex_tree<Options> ST;
  typedef typename ST::Vertex_handle VH;
  typedef typename ST::Filtration_value FV;
  vh::Rng& r = c.rng;
  WGraph g = random_graph(r, 8, r.chance(1, 2));
  int max_dim = r.chance(1, 4) ? -1 : (r.chance(1, 15) ? 0 : 1 + (int)r.below(5));
  bool in_order = r.chance(1, 2);
  c.log("[" + optname + "] graph " + show_graph(g) + " max_dim=" + vh::str(max_dim) + (in_order ? " filtration order" : " random order"));
  // insertion sequence: vertices and edges
  struct Item { int i, j; double v; };
  std::vector<Item> items;
  for (int i = 0; i < g.n(); ++i) items.push_back({i, i, g.vval[i]});
  for (int i = 0; i < g.n(); ++i) for (int j = i + 1; j < g.n(); ++j) if (g.has_edge(i, j)) items.push_back({i, j, g.w[i][j]});
  r.shuffle(items);
  if (in_order) std::stable_sort(items.begin(), items.end(), [](const Item& a, const Item& b) { if (a.v != b.v) return a.v < b.v; return (a.i == a.j) > (b.i == b.j); });
  else {  // any order, but an edge after its two vertices
    std::vector<Item> out; std::set<int> seen; std::vector<Item> pending = items;
    // simple pass: vertices keep their random positions, edges are delayed until both ends are present
    std::vector<Item> delayed;
    for (auto& it : pending) {
      if (it.i == it.j) { out.push_back(it); seen.insert(it.i); std::vector<Item> still; for (auto& e : delayed) { if (seen.count(e.i) && seen.count(e.j)) out.push_back(e); else still.push_back(e); } delayed.swap(still); }
      else if (seen.count(it.i) && seen.count(it.j)) out.push_back(it); else delayed.push_back(it);
    }
    items.swap(out);
  }
  ST st;
  WGraph cur = oracle::make_graph(g.n()); cur.label = g.label;
  std::vector<char> present(g.n(), 0);
  std::string sig = "opts=" + optname + (in_order ? ",filtration_order" : ",random_order") + (max_dim < 0 ? ",max_dim=-1" : "");
  Cx before;
  // mixed history: the first `prefix` items are given as a 1-skeleton and expanded in one shot, the remaining ones are
  // inserted incrementally into that tree (the property quantifies over every route; a tree "already holding simplices")
  size_t prefix = 0;
  if (max_dim >= 1 && items.size() >= 3 && r.chance(2, 5)) prefix = r.chance(1, 4) ? 1 + (size_t)r.below(items.size() - 1) : items.size() / 2 + (size_t)r.below(items.size() - items.size() / 2);
  if (prefix > 0) {
    sig += ",after_one_shot_prefix";
    c.count("hist.one_shot_prefix_then_incremental");
    for (size_t t = 0; t < prefix; ++t) {
      auto& it = items[t];
      c.log("insert_simplex " + vh::str(g.label[it.i]) + " " + vh::str(g.label[it.j]) + " f=" + vh::str(it.v));
      if (it.i == it.j) { st.insert_simplex(std::vector<VH>{(VH)g.label[it.i]}, (FV)it.v); present[it.i] = 1; cur.vval[it.i] = it.v; }
      else { st.insert_simplex(std::vector<VH>{(VH)g.label[it.i], (VH)g.label[it.j]}, (FV)it.v); cur.w[it.i][it.j] = cur.w[it.j][it.i] = it.v; }
    }
    c.log("expansion " + vh::str(max_dim));
    st.expansion(max_dim);
    std::vector<int> idx; for (int i = 0; i < g.n(); ++i) if (present[i]) idx.push_back(i);
    WGraph sub = oracle::make_graph((int)idx.size());
    for (size_t a = 0; a < idx.size(); ++a) { sub.label[a] = g.label[idx[a]]; sub.vval[a] = cur.vval[idx[a]]; for (size_t b = 0; b < idx.size(); ++b) sub.w[a][b] = cur.w[idx[a]][idx[b]]; }
    before = oracle::flag_complex(sub, max_dim);
    Cx got = dump(st);
    c.count("cmp.expansion");
    if (got != before) { c.violation("expansion.clique_complex", sig + diff_class(got, before), "insert_simplex skeleton + expansion differs from the clique complex:" + diff(got, before)); return; }
    if (before.size() > idx.size() + 2) c.count("hist.one_shot_prefix_has_triangles_or_more");
  }
  for (size_t t = prefix; t < items.size(); ++t) {
    auto& it = items[t];
    std::vector<typename ST::Simplex_handle> added;
    c.log("insert_edge_as_flag " + vh::str(g.label[it.i]) + " " + vh::str(g.label[it.j]) + " f=" + vh::str(it.v));
    st.insert_edge_as_flag((VH)g.label[it.i], (VH)g.label[it.j], (FV)it.v, max_dim, added);
    c.count(it.i == it.j ? "op.insert_vertex_as_flag" : "op.insert_edge_as_flag");
    if (it.i == it.j) { present[it.i] = 1; cur.vval[it.i] = it.v; } else cur.w[it.i][it.j] = cur.w[it.j][it.i] = it.v;
    // current model: cliques of the current graph restricted to present vertices
    WGraph sub = oracle::make_graph(0);
    std::vector<int> idx; for (int i = 0; i < g.n(); ++i) if (present[i]) idx.push_back(i);
    sub = oracle::make_graph((int)idx.size());
    for (size_t a = 0; a < idx.size(); ++a) { sub.label[a] = g.label[idx[a]]; sub.vval[a] = cur.vval[idx[a]]; for (size_t b = 0; b < idx.size(); ++b) sub.w[a][b] = cur.w[idx[a]][idx[b]]; }
    Cx after = oracle::flag_complex(sub, max_dim);
    // (a) reported simplices = exactly the created ones (as a set, no duplicates, handles valid)
    std::set<Simplex> rep; bool dup = false;
    for (auto sh : added) { if (!rep.insert(stc::word(st, sh)).second) dup = true; }
    std::set<Simplex> created; for (auto& kv : after) if (!before.count(kv.first)) created.insert(kv.first);
    c.count("cmp.added_simplices");
    if (dup) { c.violation("incremental.added_duplicates", sig, "added_simplices lists a simplex twice"); return; }
    if (rep != created) { c.violation("incremental.added_simplices", sig + (rep.size() < created.size() ? ",fewer" : rep.size() > created.size() ? ",more" : ",different"), "added_simplices=" + stc::show_set(rep) + " created=" + stc::show_set(created)); return; }
    // (b) simplex set after each step
    Cx got = dump(st);
    std::set<Simplex> gs, ws; for (auto& kv : got) gs.insert(kv.first); for (auto& kv : after) ws.insert(kv.first);
    c.count("cmp.incremental_set");
    if (gs != ws) { c.violation("incremental.simplex_set", sig, "after insertion: " + diff(got, after)); return; }
    // (c) in filtration order the values are right at every step
    if (in_order && got != after) { c.violation("incremental.values_in_order", sig + diff_class(got, after), "values differ:" + diff(got, after)); return; }
    before = after;
  }
  if (!in_order) {
    st.make_filtration_non_decreasing();
    Cx got = dump(st);
    c.count("cmp.incremental_after_monotonisation");
    if (got != before) { c.violation("incremental.values_after_monotonisation", sig + diff_class(got, before), "after make_filtration_non_decreasing:" + diff(got, before)); return; }
  }
  // (d) same complex as the one-shot route on the same option set (labels 0..n-1 only)
  bool contiguous_labels = true; for (int i = 0; i < g.n(); ++i) if (g.label[i] != i) contiguous_labels = false;
  if (contiguous_labels && max_dim >= 0) {
    ST one; insert_graph(one, g); one.expansion(max_dim);
    c.count("cmp.routes_agree");
    if (dump(one) != dump(st)) { c.violation("routes.one_shot_vs_incremental", sig + cls(dump(one), dump(st), g, max_dim), "one-shot expansion and incremental insertion differ:" + diff(dump(one), dump(st))); return; }
  }
  if (oracle::clique_number(g) >= 3) c.nontrivial(vh::hash_str(show_graph(g) + vh::str(max_dim) + optname + (in_order ? "o" : "r")));
  c.sample("{\"opts\":\"" + optname + "\",\"route\":\"incremental\",\"graph\":\"" + vh::jesc(show_graph(g)) + "\"}");
}

// route 6: Rips builders
template <class Options>
void run_rips(vh::Case& c, const std::string& optname) {
  typedef Gudhi::Simplex_tree<Options> ST;
  typedef typename ST::Filtration_value FV;
  vh::Rng& r = c.rng;
  int n = 1 + (int)r.below(9), dimp = 1 + (int)r.below(3);
  std::vector<std::vector<double>> pts(n, std::vector<double>(dimp));
  for (auto& p : pts) for (auto& x : p) x = (double)r.range(-3, 3);
  std::vector<std::vector<FV>> D(n, std::vector<FV>(n, 0));
  std::vector<double> dists;
  for (int i = 0; i < n; ++i) for (int j = 0; j < n; ++j) { double s = 0; for (int k = 0; k < dimp; ++k) s += (pts[i][k] - pts[j][k]) * (pts[i][k] - pts[j][k]); D[i][j] = (FV)std::sqrt(s); if (i < j) dists.push_back((double)D[i][j]); }
  double thr;
  int tk = (int)r.below(5);
  if (dists.empty()) thr = 1.0;
  else if (tk == 0) thr = dists[r.below(dists.size())];                         // exactly a distance
  else if (tk == 1) thr = dists[r.below(dists.size())] + 0.01;                  // between
  else if (tk == 2) thr = -1.0;                                                 // below everything
  else if (tk == 3) thr = std::numeric_limits<double>::infinity();
  else thr = 0.5 * (double)r.below(12);
  int max_dim = r.chance(1, 20) ? 0 : 1 + (int)r.below(5);
  bool from_matrix = r.chance(1, 2);
  std::ostringstream ps; for (auto& p : pts) ps << vh::vstr(p);
  c.log("[" + optname + "] rips " + std::string(from_matrix ? "distance matrix" : "points") + " " + ps.str() + " thr=" + vh::str(thr) + " max_dim=" + vh::str(max_dim));
  WGraph g = oracle::make_graph(n);
  for (int i = 0; i < n; ++i) for (int j = i + 1; j < n; ++j) if ((double)D[i][j] <= (double)(FV)thr) g.w[i][j] = g.w[j][i] = (double)D[i][j];
  Cx want = oracle::flag_complex(g, max_dim);
  ST st;
  if (from_matrix) {
    std::vector<std::vector<FV>> lower(n);
    for (int i = 0; i < n; ++i) for (int j = 0; j < i; ++j) lower[i].push_back(D[i][j]);
    Gudhi::rips_complex::Rips_complex<FV> rc(lower, (FV)thr);
    rc.create_complex(st, max_dim);
  } else {
    Gudhi::rips_complex::Rips_complex<FV> rc(pts, (FV)thr, Gudhi::Euclidean_distance());
    rc.create_complex(st, max_dim);
  }
  Cx got = dump(st);
  std::string sig = "opts=" + optname + (from_matrix ? ",matrix" : ",points") + ",thr_kind=" + vh::str(tk);
  c.count(from_matrix ? "cmp.rips_matrix" : "cmp.rips_points");
  if (got != want) { c.violation("rips.threshold_graph_clique_complex", sig + cls(got, want, g, max_dim), "Rips complex differs from the clique complex of the threshold graph:" + diff(got, want)); return; }
  if (want.size() > (size_t)n + 2) c.nontrivial(vh::hash_str(ps.str() + vh::str(thr) + vh::str(max_dim) + optname));
}

}  // namespace c04
#endif

#include "c04_exec.h"
VH_CONFIG("mid_fastcof", [](vh::Case& c) { c04::run_mid<stc::Opt_fast_cofaces>(c, "fastcof"); });
VH_CONFIG("mid_stable", [](vh::Case& c) { c04::run_mid<stc::Opt_stable>(c, "stable"); });

_CFG = {}
for n in ["default", "stable", "fastp", "full", "fastcof"]:
    _CFG["exp_" + n] = {"quick": 900, "thorough": 60000}
for n in ["default", "stable", "fastp"]:
    _CFG["rips_" + n] = {"quick": 600, "thorough": 40000}
for n in ["full", "fastcof"]:
    _CFG["inc_" + n] = {"quick": 1500, "thorough": 100000}
SPEC = {
    "property": "C04",
    "rule": "random weighted graphs on 1-9 vertices (complete / sparse / medium / all-equal weights, 5-value grid so ties dominate, isolated vertices, "
            "sparse labels for the incremental routes), max_dim 0-6 (or -1). exp_*: insert_graph+expansion, expansion_with_blockers(never) and "
            "expansion_with_blockers(P) for deterministic predicates P {hash of the vertex word mod k, contains vertex v, size >= s, always} are compared "
            "(simplex set AND values) with the brute-force clique complex / its largest P-free subcomplex; inc_*: insert_edge_as_flag in filtration order "
            "or in any vertices-first order followed by make_filtration_non_decreasing, with added_simplices compared with the model difference after "
            "every call and the result compared with the one-shot route; rips_*: Rips_complex from integer points and from lower-triangular distance "
            "matrices, thresholds on / between / below / above the distances. non-trivial = distinct graph with clique number >= 3",
    "assumptions": ["blocker predicates are pure functions of the vertex set and never block vertices or edges", "only the filtered simplex set is compared (not dimension())",
                    "insert_edge_as_flag is never called on an existing edge/vertex and an edge always after its vertices (documented preconditions)",
                    "oracle/flag.h brute-force enumeration is the trusted model"],
    "units": [{"name": "flag", "src": ["c04_main.cpp", "c04_default.cpp", "c04_stable.cpp", "c04_fastp.cpp", "c04_full.cpp", "c04_fastcof.cpp"],
               "variant": "asan", "configs": _CFG, "chunk": 50},
              {"name": "flag_g", "src": ["c04_main.cpp", "c04_default.cpp", "c04_stable.cpp", "c04_fastp.cpp", "c04_full.cpp", "c04_fastcof.cpp"],
               "variant": "gasan", "tiers": ["thorough"], "configs": {k: {"thorough": 5000} for k in _CFG}, "chunk": 50}],
    "floors": {"quick": {"graph.clique_number_4plus": 500, "blockers.blocked_and_higher_survives": 300, "cmp.added_simplices": 10000,
                         "cmp.incremental_after_monotonisation": 500, "hist.one_shot_prefix_has_triangles_or_more": 300, "cmp.rips_matrix": 400, "cmp.rips_points": 400, "_distinct_nontrivial": 2000}},
    "manifest": {
        "text": "Runtime monitor under ASan+UBSan: every construction route of the flag complex (one-shot, blocker-driven, incremental in two orders, Rips builders) "
                "is run on thousands of random small weighted graphs and compared, simplex set and values, with a brute-force clique enumeration; "
                "added_simplices is compared with the model difference after every incremental call. Sampled graphs; held-on-what-was-observed.",
        "note": "trusted: oracle/flag.h (2^n subset enumeration, n <= 9); documented preconditions of insert_edge_as_flag respected",
        "technique": "runtime monitoring: randomized inputs + brute-force reference oracle, route-vs-route comparison, AddressSanitizer/UBSan",
    },
}

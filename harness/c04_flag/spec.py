_CFG = {}
for n in ["default", "stable", "fastp", "full", "fastcof"]:
    _CFG["exp_" + n] = {"quick": 900, "thorough": 60000}
for n in ["default", "stable", "fastp"]:
    _CFG["rips_" + n] = {"quick": 600, "thorough": 40000}
for n in ["full", "fastcof"]:
    _CFG["inc_" + n] = {"quick": 1500, "thorough": 100000}
# option sets never instantiated before: no stored values (minimal), integral Filtration_value
_CFG["exp_minimal"] = {"quick": 500, "thorough": 30000}
_CFG["rips_minimal"] = {"quick": 300, "thorough": 20000}
_CFG["exp_intfull"] = {"quick": 500, "thorough": 30000}
_CFG["inc_intfull"] = {"quick": 800, "thorough": 50000}
_CFG["rips_intfull"] = {"quick": 300, "thorough": 20000}
_SRC = ["c04_main.cpp", "c04_default.cpp", "c04_stable.cpp", "c04_fastp.cpp", "c04_full.cpp", "c04_fastcof.cpp", "c04_minimal.cpp", "c04_integral.cpp"]
# low-count configs: 10-40 vertices, recursive clique enumeration as the model
_MID = {"mid_" + n: {"quick": 64, "thorough": 4000} for n in ["full", "fastcof", "default", "stable"]}
_FLOORS = {"graph.some_negative_values": 1300, "graph.all_values_negative": 850, "graph.triangle_with_negative_edges_only": 590,
           "graph.clique_number_4plus": 500, "blockers.blocked_and_higher_survives": 300, "cmp.added_simplices": 10000,
           "cmp.incremental_after_monotonisation": 500, "hist.one_shot_prefix_has_triangles_or_more": 150, "cmp.rips_matrix": 350, "cmp.rips_points": 350, "_distinct_nontrivial": 2000,
           # input classes added after the audit (about half of what seed 1 measures)
           "graph.empty": 230, "cmp.dimension_of_empty_complex": 250, "cmp.equal_to_model_tree": 11000,
           "hist.removal_lowered_dimension": 350, "op.insert_under_stale_bound": 200, "cmp.dimension_under_stale_bound": 250,
           "op.insert_edge_as_flag_swapped": 7000, "cmp.added_simplices_appended_tail": 10000,
           "blockers.customised_value_kept": 300, "cmp.blocker_calls": 30000,
           "graph.extreme_labels": 600, "graph.insert_simplex_skeleton": 1200, "graph.undirected": 400, "graph.bidirectional": 400, "graph.reversed_edges": 1200, "graph.duplicate_edges": 900,
           "arg.extreme_max_dim": 400, "mid.graphs": 120, "mid.incremental": 50, "mid.clique_number_4plus": 80,
           "cmp.rips_proximity_graph": 200, "cmp.rips_square_matrix": 200, "cmp.rips_second_create_complex": 300}
SPEC = {
    "property": "C04",
    "rule": "random weighted graphs on 0-9 vertices (the empty graph included; complete / sparse / medium / all-equal weights, 5-value grid so ties dominate, on a third of the graphs all values shifted by a negative multiple of the grid step so that cliques with only negative values exist, isolated vertices; "
            "labels contiguous, sparse, or sparse with INT_MAX / INT_MIN), max_dim 0-6 and {INT_MAX, INT_MIN, -1, -2, 100}. The 1-skeleton is handed over through insert_graph with a "
            "directedS (Proximity_graph) / undirectedS / bidirectionalS boost graph (random edge order and orientation, occasional duplicate edges of equal value) or vertex by vertex "
            "and edge by edge through insert_simplex (the only way for sparse labels). exp_*: skeleton+expansion, expansion_with_blockers(never) and expansion_with_blockers(P) for "
            "deterministic predicates P {hash of the vertex word mod k, contains vertex v, size >= s, always}, P optionally also customising the value with assign_filtration (a dyadic "
            "bump of the word), are compared (simplex set AND values) with the brute-force clique complex / the dimension-by-dimension model of the blocked expansion (candidate = all "
            "facets kept, value seen by the oracle = largest customised value of the facets, at most one call per simplex); every tree is also asked for dimension(), "
            "upper_bound_dimension(), num_simplices() and compared with operator== to a tree built simplex by simplex from the same complex, and the trees of the routes with each other. "
            "inc_*: insert_edge_as_flag(u,v) or (v,u) in filtration order or in any vertices-first order (make_filtration_non_decreasing where the order was broken), added_simplices "
            "emptied or NOT emptied between the calls (the appended tail is compared with the model difference after every call); in half of the cases removal steps in between (the star "
            "of a random edge or vertex removed top-down through remove_maximal_simplex, or prune_above_filtration(t) after monotonisation), removed items are partly inserted again; "
            "dimension() is queried after half of the steps only, so that a bound left stale by a removal survives to the next insertion; dim_max = 0 or < -1 means vertices only. "
            "rips_*: Rips_complex from integer points (Euclidean; an exact L1 functor for the integral option set), lower-triangular and full square distance matrices, "
            "compute_proximity_graph + insert_graph + expansion, 0-9 points, thresholds on / between / below / above the distances, a second create_complex on the same object. "
            "mid_* (low count): G(n,p) on 10-40 vertices with at most 5000 cliques, routes 1, 2, 5 and the incremental route (created simplices derived from the link of the new edge), "
            "a recursive clique enumeration as the model. Option sets: default, stable handles, fast_persistence (contiguous vertices: labels 0..n-1 only), full_featured, fast cofaces, "
            "minimal (no stored value: sets only) and full_featured with Filtration_value = int. non-trivial = distinct graph with clique number >= 3",
    "assumptions": ["blocker predicates are pure functions of the vertex set and never block vertices or edges; a customising oracle only raises the value, by a function of the vertex set",
                    "a negative max_dim given to a one-shot route (expansion, expansion_with_blockers, Rips create_complex) is expected to leave the inserted graph as it is (expansion adds nothing "
                    "below dimension 2 and never removes); for insert_edge_as_flag -1 is the documented 'no limit' and every other dim_max < 1 is expected to give the vertices only",
                    "insert_edge_as_flag is never called on an existing edge/vertex and an edge always after its vertices (documented preconditions); the label -1 (null_vertex) is never used; "
                    "option sets with contiguous_vertices only get the labels 0..n-1, inserted in increasing order",
                    "prune_above_filtration is only called when the stored values are the intended ones (in filtration order, or after make_filtration_non_decreasing)",
                    "duplicate edges of a boost graph carry equal values (the documentation leaves the choice of the representative open)",
                    "with the integral option set the Rips distance functor returns exact integers (L1 distance on integer points); Rips_complex<double> into the minimal tree is compared as a set",
                    "oracle/flag.h brute-force enumeration is the trusted model for n <= 9 (cross-checked on 1/8 of the cases with the recursive enumeration of c04_exec.h, which is the model for 10-40 vertices)"],
    "units": [{"name": "flag", "src": _SRC, "variant": "asan", "configs": _CFG, "chunk": 50},
              {"name": "flag_mid", "src": ["c04_main.cpp", "c04_mid_a.cpp", "c04_mid_b.cpp"], "variant": "asan", "configs": _MID, "chunk": 3},
              {"name": "flag_g", "src": _SRC, "variant": "gasan", "tiers": ["thorough"], "configs": {k: {"thorough": 5000} for k in _CFG}, "chunk": 50}],
    "floors": {"quick": _FLOORS},
    "manifest": {
        "text": "Runtime monitor under ASan+UBSan: every construction route of the flag complex (one-shot, blocker-driven with and without customised values, incremental in two orders "
                "with removals in between, Rips builders) is run on thousands of random small weighted graphs (the empty graph, extreme labels and extreme max_dim included; every "
                "admissible boost graph flavour) and a few hundred graphs of 10-40 vertices, and compared, simplex set and values, with a brute-force clique enumeration; "
                "added_simplices is compared with the model difference after every incremental call; every resulting tree also has to report the right dimension() / num_simplices() and "
                "to compare equal (operator==) to a tree of the same complex. Sampled graphs; held-on-what-was-observed.",
        "note": "trusted: oracle/flag.h (2^n subset enumeration, n <= 9) and the recursive clique enumeration in c04_exec.h (n <= 40); documented preconditions of insert_edge_as_flag, "
                "insert_graph and contiguous_vertices respected",
        "technique": "runtime monitoring: randomized inputs + brute-force reference oracle, route-vs-route comparison, AddressSanitizer/UBSan",
    },
}

#include "c04_exec.h"
VH_CONFIG("exp_minimal", [](vh::Case& c) { c04::run_expansion<Gudhi::Simplex_tree_options_minimal>(c, "minimal"); });
VH_CONFIG("rips_minimal", [](vh::Case& c) { c04::run_rips<Gudhi::Simplex_tree_options_minimal>(c, "minimal"); });

#include "common/vh.h"
VH_MAIN()

// C09 harness translation unit: the instantiations of unit C09_UNIT (see c09_units.inc) of the body in c09_body.h.
#include "c09_body.h"
#include "c09_units.inc"
VH_MAIN()

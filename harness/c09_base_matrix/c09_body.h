// C09 — general (base) matrices behave as dense matrices over their field, whatever the column representation.
// One templated harness body; instantiated per option struct in c09_main.cpp (a few instantiations per binary).
//
// Per case: a random history of 5-60 operations on a Matrix<Opt> (base flavour, optionally with column compression) and on
// the dense Z_p model of zp_dense.h.  After EVERY operation: get_number_of_columns, is_zero_column and is_zero_entry of
// every cell (these do not trigger the lazy row reordering) and - always when swaps are off, with probability 1/2 when
// they are on - get_column(i).get_content (full length, one random shorter length, default length) of every column and
// get_row(r) of every row known to exist.
#ifndef VERIF_C09_BODY_H_
#define VERIF_C09_BODY_H_

#include <gudhi/Matrix.h>
#include <gudhi/persistence_matrix_options.h>

#include <climits>
#include <memory>
#include <set>
#include <map>
#include <stdexcept>
#include <type_traits>

#include "common/vh.h"
#include "zp_dense.h"

namespace c09 {

using Gudhi::persistence_matrix::Column_indexation_types;
using Gudhi::persistence_matrix::Column_types;

// RA: 0 = no row access, 1 = intrusive rows, 2 = set rows
template <Column_types CT, bool Z2, int RA, bool RR, bool MAPC, bool SW, bool COMP>
struct Opt {
  using Field_coeff_operators = Gudhi::persistence_fields::Zp_field_operators<>;
  using Index = unsigned int;
  using Dimension = int;
  static const bool is_z2 = Z2;
  static const Column_types column_type = CT;
  static const Column_indexation_types column_indexation_type = Column_indexation_types::CONTAINER;
  static const bool has_matrix_maximal_dimension_access = false;
  static const bool has_column_pairings = false;
  static const bool has_vine_update = false;
  static const bool can_retrieve_representative_cycles = false;
  static const bool is_of_boundary_type = true;  // zero_entry / zero_column are only offered with this value
  static const bool has_column_compression = COMP;
  static const bool has_row_access = (RA != 0);
  static const bool has_intrusive_rows = (RA != 2);
  static const bool has_removable_rows = RR;
  static const bool has_removable_columns = MAPC;
  static const bool has_map_column_container = MAPC;
  static const bool has_column_and_row_swaps = SW;
};

inline const char* ct_name(Column_types t) {
  switch (t) {
    case Column_types::LIST: return "LIST";
    case Column_types::SET: return "SET";
    case Column_types::HEAP: return "HEAP";
    case Column_types::VECTOR: return "VECTOR";
    case Column_types::NAIVE_VECTOR: return "NAIVE_VECTOR";
    case Column_types::SMALL_VECTOR: return "SMALL_VECTOR";
    case Column_types::UNORDERED_SET: return "UNORDERED_SET";
    case Column_types::INTRUSIVE_LIST: return "INTRUSIVE_LIST";
    case Column_types::INTRUSIVE_SET: return "INTRUSIVE_SET";
  }
  return "?";
}

inline std::string exc_class(const std::exception& e) {
  if (dynamic_cast<const std::out_of_range*>(&e)) return "out_of_range";
  if (dynamic_cast<const std::invalid_argument*>(&e)) return "invalid_argument";
  if (dynamic_cast<const std::logic_error*>(&e)) return "logic_error";
  if (dynamic_cast<const std::bad_alloc*>(&e)) return "bad_alloc";
  return "std_exception";
}

template <class O>
struct Run {
  using M = Gudhi::persistence_matrix::Matrix<O>;
  using Entry = typename M::Matrix_entry;
  using InCol = typename std::conditional<O::is_z2, std::vector<unsigned>, std::vector<std::pair<unsigned, unsigned>>>::type;
  static constexpr bool Z2 = O::is_z2, RA = O::has_row_access, RR = O::has_row_access && O::has_removable_rows,
                        MAPC = O::has_map_column_container, SW = O::has_column_and_row_swaps,
                        COMP = O::has_column_compression;

  vh::Case& c;
  vh::Rng& r;
  const std::string ct;
  Dense D;
  std::unique_ptr<M> m;
  bool pending = false;          // a lazy row permutation may be pending inside the matrix
  int L = 0;                     // lower bound of the size of a non-removable row container
  std::vector<char> exists;      // removable rows: rows that certainly exist in the row container
  std::vector<char> seen;        // row index appeared in a column given to insert_column / the constructor
  std::vector<char> added_only;  // row never given in an inserted column which received a value through an addition
  std::set<std::pair<unsigned, int>> za;  // cells zeroed while already zero, not yet re-created by an addition
  std::set<std::string> kinds;
  unsigned n_additive = 0, peak_nnz = 0;
  bool did_corner = false;
  std::vector<char> hole;        // column index skipped by an insertion beyond the end (documented: an empty column)
  bool did_force = false;        // the last observation really called get_column / get_row (there was something to read)
  unsigned obs_salt = 0;         // selects the shorter length given to get_content in the observation of this step
  // a second matrix of the same type (own settings, own lazy row permutation): its columns are used as entry ranges
  std::unique_ptr<M> m2;
  std::unique_ptr<Dense> D2;
  static constexpr bool UNSORTED_OK = O::column_type == Column_types::HEAP || O::column_type == Column_types::UNORDERED_SET;

  Run(vh::Case& c_, unsigned p, int R) : c(c_), r(c_.rng), ct(ct_name(O::column_type)), D(p, R), exists(R, 0), seen(R, 0), added_only(R, 0) {}

  // ------------------------------------------------------------------ generators
  SparseCol rand_sparse() {
    static const unsigned dens[6] = {0, 1, 2, 4, 6, 9};
    unsigned d = dens[r.below(6)];
    SparseCol s;
    for (int row = 0; row < D.R; ++row)
      if (r.below(10) < d) s.push_back({(unsigned)row, 1 + (unsigned)r.below(D.p - 1)});
    return s;
  }
  SparseCol sparse_of(const DCol& d) const {
    SparseCol s;
    for (int row = 0; row < D.R; ++row) if (d[row]) s.push_back({(unsigned)row, d[row]});
    return s;
  }
  InCol make_in(const SparseCol& s) {
    InCol in;
    for (auto& e : s) {
      if constexpr (Z2) in.push_back(e.first);
      else in.push_back({e.first, r.chance(1, 8) ? e.second + D.p : e.second});  // the constructor reduces mod p
    }
    return in;
  }
  std::vector<Entry> make_range(const SparseCol& s) {
    std::vector<Entry> v;
    for (auto& e : s) {
      v.emplace_back(e.first);
      if constexpr (!Z2) v.back().set_element(e.second);
    }
    return v;
  }
  bool is_hole(unsigned i) const { return i < hole.size() && hole[i]; }
  void unhole(unsigned i) { if (i < hole.size()) hole[i] = 0; }
  std::vector<unsigned> hole_list() const {
    std::vector<unsigned> v;
    for (unsigned i = 0; i < hole.size(); ++i) if (hole[i] && i < D.present.size() && D.present[i]) v.push_back(i);
    return v;
  }
  // the second matrix: 3 columns over the same field, built on first use
  bool ensure_second() {
    if (m2) return true;
    D2.reset(new Dense(D.p, D.R));
    std::vector<InCol> cols;
    std::string lg = "second Matrix(columns";
    for (unsigned i = 0; i < 3; ++i) {
      SparseCol s = rand_sparse();
      lg += " " + show_sparse(s);
      cols.push_back(make_in(s));
      D2->insert_at(i, D2->dense_of(s));
    }
    c.log(lg + "," + vh::str(D.p) + ")");
    try { m2.reset(new M(cols, D.p)); }
    catch (const std::exception& e) { c.violation("exception", "ct=" + ct + ",op=construct_second,what=" + exc_class(e), e.what()); return false; }
    return true;
  }
  static std::string show_sparse(const SparseCol& s) {
    std::string o = "{";
    for (size_t i = 0; i < s.size(); ++i) { if (i) o += ","; o += std::to_string(s[i].first) + ":" + std::to_string(s[i].second); }
    return o + "}";
  }
  int pick_coef(std::string& raw) {
    int p = (int)D.p;
    unsigned k = (unsigned)r.below(20);
    switch (k) {
      case 0: case 1: case 2: raw = "0"; return 0;
      case 3: case 4: raw = "1"; return 1;
      case 5: case 6: raw = "2"; return 2;
      case 7: case 8: raw = "p-1"; return p - 1;
      case 9: case 10: raw = "p"; return p;
      case 11: raw = "p+1"; return p + 1;
      case 12: case 13: raw = "-1"; return -1;
      case 14: raw = "-p"; return -p;
      case 15: raw = "large"; return r.chance(1, 2) ? INT_MAX : 1000003;
      case 16: raw = "below-p"; return -(p + 1 + (int)r.below(40));
      default: raw = "small"; return (int)r.below(3 * p);
    }
  }
  // pick a present column, preferring zero / non-zero columns as requested (0: any, 1: prefer zero, 2: prefer non-zero)
  bool pick_col(unsigned& out, int prefer, long exclude = -1) {
    std::vector<unsigned> all, pref;
    for (unsigned i : D.present_list()) {
      if ((long)i == exclude) continue;
      if constexpr (COMP) { if (exclude >= 0 && D.find(i) == D.find((unsigned)exclude)) continue; }
      all.push_back(i);
      if ((prefer == 1 && D.zero_col(i)) || (prefer == 2 && !D.zero_col(i))) pref.push_back(i);
    }
    if (all.empty()) return false;
    out = (!pref.empty() && r.chance(3, 4)) ? r.pick(pref) : r.pick(all);
    return true;
  }

  // ------------------------------------------------------------------ construction
  bool construct() {
    unsigned mode = (unsigned)r.below(3);
    try {
      if (mode == 0) {
        if constexpr (Z2) { c.log("construct Matrix()"); m.reset(new M()); }
        else { c.log("construct Matrix(0," + vh::str(D.p) + ")"); m.reset(new M(0u, D.p)); }
      } else if (mode == 1) {
        unsigned n = (unsigned)r.below(9);
        c.log("construct Matrix(" + vh::str(n) + "," + vh::str(D.p) + ")");
        m.reset(new M(n, D.p));
        if (RA && !RR) L = std::max(L, (int)n);
      } else {
        unsigned n = (unsigned)r.below(5);
        std::vector<InCol> cols;
        std::string lg = "construct Matrix(columns";
        for (unsigned i = 0; i < n; ++i) {
          SparseCol s = rand_sparse();
          lg += " " + show_sparse(s);
          cols.push_back(make_in(s));
          note_inserted(i, s);
          D.insert_at(i, D.dense_of(s));
          if constexpr (COMP) D.merge_identical(i);
        }
        c.log(lg + "," + vh::str(D.p) + ")");
        m.reset(new M(cols, D.p));
        if (RA && !RR) L = std::max(L, (int)n);
      }
    } catch (const std::exception& e) {
      c.violation("exception", "ct=" + ct + ",op=construct,what=" + exc_class(e), e.what());
      return false;
    }
    c.count("construct.mode" + vh::str(mode));
    return true;
  }
  void note_inserted(unsigned /*idx*/, const SparseCol& s) {
    for (auto& e : s) { seen[e.first] = 1; exists[e.first] = 1; }
    if (!s.empty()) L = std::max(L, (int)s.back().first + 1);
  }
  void refresh_rows_after_ordered_state() {  // the matrix is in an ordered state: non-zero logical rows exist physically
    int mx = D.max_nonzero_row();
    L = std::max(L, mx + 1);
    for (int row = 0; row < D.R; ++row) if (D.row_nonzero(row)) exists[row] = 1;
  }

  // ------------------------------------------------------------------ observation
  // compares the matrix with model X.  report=false: silent (used to accept either reading of an ambiguous operation)
  bool observe(const Dense& X, const std::string& opsig, bool force, bool rows_first, bool report) {
    auto fail = [&](const std::string& check, const std::string& sig, const std::string& detail) {
      if (report) c.violation(check, "ct=" + ct + "," + opsig + "," + sig, detail + " | model:" + X.show_all());
      return false;
    };
    try {
      unsigned nc = m->get_number_of_columns();
      if (report) c.count("cmp.ncols");
      if (nc != X.count_present())
        return fail("ncols", "count_differs", "get_number_of_columns=" + vh::str(nc) + " model=" + vh::str(X.count_present()));
      std::vector<unsigned> cols = X.present_list();
      for (unsigned i : cols) {
        bool zc = m->is_zero_column(i);
        if (report) c.count("cmp.is_zero_column");
        if (zc != X.zero_col(i))
          return fail("is_zero_column", X.zero_col(i) ? "nonzero_reported_for_zero_column" : "zero_reported_for_nonzero_column",
                      "is_zero_column(" + vh::str(i) + ")=" + vh::str(zc));
        for (int row = 0; row < X.R; ++row) {
          bool ze = m->is_zero_entry(i, (unsigned)row);
          if (ze != (X.col[i][row] == 0))
            return fail("is_zero_entry", std::string(ze ? "zero_reported_for_nonzero_entry" : "nonzero_reported_for_zero_entry") +
                                             (seen[row] ? "" : ",queried_row=fresh"),
                        "is_zero_entry(" + vh::str(i) + "," + vh::str(row) + ")=" + vh::str(ze));
        }
        if (report) c.count("cmp.is_zero_entry", (uint64_t)X.R);
      }
      if (!force) return true;
      for (int pass = 0; pass < 2; ++pass) {
        bool do_rows = (pass == 0) == rows_first;
        if (!do_rows) {
          for (unsigned i : cols) {
            const auto& colref = m->get_column(i);
            did_force = true;
            auto content = colref.get_content(X.R);
            if (report) c.count("cmp.get_content");
            bool same = (int)content.size() == X.R;
            for (int row = 0; same && row < X.R; ++row) same = ((unsigned)content[row] == X.col[i][row]);
            if (!same) {
              std::string got = "[";
              for (size_t q = 0; q < content.size(); ++q) got += (q ? " " : "") + vh::str((unsigned)content[q]);
              return fail("get_content", "content_differs", "get_column(" + vh::str(i) + ").get_content(R)=" + got + "]");
            }
            if (X.R >= 1) {  // one shorter length per column and step: the first len rows
              int len = (int)((obs_salt + i) % (unsigned)X.R);
              auto part = colref.get_content(len);
              if (report) c.count("cmp.get_content_shorter_length");
              same = (int)part.size() == len;
              for (int row = 0; same && row < len; ++row) same = ((unsigned)part[row] == X.col[i][row]);
              if (!same) {
                std::string got = "[";
                for (size_t q = 0; q < part.size(); ++q) got += (q ? " " : "") + vh::str((unsigned)part[q]);
                return fail("get_content", "shorter_length_content_differs", "get_column(" + vh::str(i) + ").get_content(" + vh::str(len) + ")=" + got + "]");
              }
            }
            auto trimmed = colref.get_content();
            int want_len = 0;
            for (int row = 0; row < X.R; ++row) if (X.col[i][row]) want_len = row + 1;
            same = (int)trimmed.size() == want_len;
            for (int row = 0; same && row < want_len; ++row) same = ((unsigned)trimmed[row] == X.col[i][row]);
            if (!same) return fail("get_content", "default_length_content_differs", "get_column(" + vh::str(i) + ").get_content() has size " + vh::str(trimmed.size()));
          }
        } else {
          if constexpr (RA) {
            for (int row = 0; row < X.R; ++row) {
              bool ex = RR ? (bool)exists[row] : (row < L);
              if (!ex) { if (report) c.count("skip.get_row_not_materialised"); continue; }
              const auto& rw = m->get_row((unsigned)row);
              did_force = true;
              if (report) c.count("cmp.get_row");
              std::map<unsigned, unsigned> got;  // key: column index (plain) or class (compressed)
              for (const auto& e : rw) {
                unsigned ci = e.get_column_index();
                if ((int)e.get_row_index() != row)
                  return fail("get_row", "entry_with_other_row_index", "row " + vh::str(row) + " lists an entry whose get_row_index() is " + vh::str(e.get_row_index()));
                if (ci >= X.present.size() || !X.present[ci])
                  return fail("get_row", "entry_with_unknown_column_index", "row " + vh::str(row) + " lists column " + vh::str(ci));
                unsigned key = COMP ? X.find(ci) : ci;
                unsigned val = 1;
                if constexpr (!Z2) val = e.get_element();
                if (!got.emplace(key, val).second)
                  return fail("get_row", "duplicate_entry", "row " + vh::str(row) + " lists column " + vh::str(ci) + " twice");
              }
              std::map<unsigned, unsigned> want;
              for (unsigned i : cols) if (X.col[i][row]) want[COMP ? X.find(i) : i] = X.col[i][row];
              if (got != want) {
                std::string d = "get_row(" + vh::str(row) + ") = {";
                for (auto& kv : got) d += " " + vh::str(kv.first) + ":" + vh::str(kv.second);
                d += " } expected {";
                for (auto& kv : want) d += " " + vh::str(kv.first) + ":" + vh::str(kv.second);
                bool missing = false, extra = false, wrongval = false;
                for (auto& kv : want) { auto it = got.find(kv.first); if (it == got.end()) missing = true; else if (it->second != kv.second) wrongval = true; }
                for (auto& kv : got) if (!want.count(kv.first)) extra = true;
                return fail("get_row", std::string(missing ? "missing_entry" : extra ? "extra_entry" : wrongval ? "wrong_value" : "differs"), d + " }");
              }
            }
          }
        }
      }
    } catch (const std::exception& e) {
      return fail("exception", std::string("during=read,what=") + exc_class(e), e.what());
    }
    return true;
  }

  // ------------------------------------------------------------------ one step
  // returns false when the case must stop (violation reported)
  bool step() {
    unsigned np = D.count_present();
    enum { INS, REM, ADD_I, ADD_R, MTA_I, MTA_R, MSA_I, MSA_R, ZE, ZC, SWC, SWR, ERR, NOPS };
    unsigned w[NOPS] = {0};
    w[INS] = np < 2 ? 40 : (np >= 8 ? 0 : 12);
    if (np >= 1) {
      if constexpr (!COMP) { w[REM] = 4; w[ZE] = 10; w[ZC] = 3; }
      w[ADD_R] = 7; w[MTA_R] = 5; w[MSA_R] = 5;
      if constexpr (RR) w[ERR] = 4;
      if constexpr (SW && MAPC) w[ERR] = 3;
      if constexpr (SW) w[SWR] = 9;
    }
    if (np >= 2) {
      w[ADD_I] = 12; w[MTA_I] = 8; w[MSA_I] = 8;
      if constexpr (SW) w[SWC] = 6;
    }
    unsigned tot = 0; for (unsigned x : w) tot += x;
    unsigned pickv = (unsigned)r.below(tot), op = 0;
    while (pickv >= w[op]) { pickv -= w[op]; ++op; }

    std::string opsig;
    Dense alt = D; bool has_alt = false;
    const std::string pend = pending ? ",lazy_pending" : "";  // signatures only carry the corner flags that hold
    bool ok = true, force_obs = false;
    auto guarded = [&](auto&& f) {
      try { f(); }
      catch (const std::exception& e) { c.violation("exception", "ct=" + ct + "," + opsig + ",what=" + exc_class(e), e.what()); ok = false; }
    };
    auto touched = [&](unsigned t) {  // column t changed by an additive operation
      for (auto it = za.begin(); it != za.end();) {
        if (it->first == t && D.col[t][it->second] != 0) { c.count(ct + ".zero_absent_then_created"); did_corner = true; it = za.erase(it); }
        else ++it;
      }
    };

    if (op == INS) {
      SparseCol s = rand_sparse();
      if (np >= 1 && r.chance(1, 4)) { unsigned j; if (pick_col(j, 0)) s = sparse_of(D.col[j]); }  // duplicate of an existing column
      InCol in = make_in(s);
      // index: the end, or (no row access, no compression) an explicitly removed index / the end given explicitly / 1-3
      // positions beyond the end (the skipped indices are documented as empty columns: the model inserts them as such)
      unsigned idx = D.next; bool explicit_idx = false, beyond = false;
      if constexpr (!RA && !COMP) {
        if (r.chance(1, 3)) {
          explicit_idx = true;
          std::vector<unsigned> holes;
          for (unsigned i = 0; i < D.next; ++i) if (!D.present[i]) holes.push_back(i);
          if (!holes.empty() && r.chance(2, 3)) idx = r.pick(holes);
          else if (np <= 6 && r.chance(1, 2)) { idx = D.next + 1 + (unsigned)r.below(3); beyond = true; }
        }
      }
      // insert_boundary is documented as equivalent to insert_column for a basic matrix (the dimension is ignored)
      const bool as_boundary = !explicit_idx && r.chance(1, 2);
      const bool with_dim = as_boundary && !COMP && r.chance(1, 3);
      const int dim = with_dim ? (int)r.below(4) : 0;
      opsig = std::string(as_boundary ? "op=insert_boundary" : "op=insert_column") +
              (explicit_idx ? (beyond ? ",at=beyond_end" : idx == D.next ? ",at=end_explicit" : ",at=removed_index") : "") +
              (s.empty() ? ",col=empty" : "") + pend;
      c.log(std::string(as_boundary ? "insert_boundary " : "insert_column ") + show_sparse(s) + (explicit_idx ? " at " + vh::str(idx) : "") +
            (with_dim ? " dim " + vh::str(dim) : ""));
      guarded([&] {
        if (as_boundary) { if (with_dim) m->insert_boundary(in, dim); else m->insert_boundary(in); }
        else {
          if constexpr (!RA && !COMP) { if (explicit_idx) m->insert_column(in, idx); else m->insert_column(in); }
          else m->insert_column(in);
        }
      });
      if (!ok) return false;
      for (auto it = za.begin(); it != za.end();) { if (it->first >= D.next || it->first == idx) it = za.erase(it); else ++it; }
      if (beyond) {
        for (unsigned i = D.next; i < idx; ++i) {
          D.insert_at(i, DCol(D.R, 0));
          if (hole.size() <= i) hole.resize(i + 1, 0);
          hole[i] = 1;
          c.count("op.insert_column.skipped_index");
        }
        c.count("op.insert_column.beyond_end");
      }
      unhole(idx);
      if (as_boundary) c.count("op.insert_boundary");
      if (as_boundary && pending) c.count("op.insert_boundary_while_lazy_pending");
      D.insert_at(idx, D.dense_of(s));
      if constexpr (COMP) { D.uf[idx] = idx; D.merge_identical(idx); }
      note_inserted(idx, s);
      pending = false;  // an insertion applies the pending row permutation first
      refresh_rows_after_ordered_state();
      c.count("op.insert_column"); kinds.insert("ins");
      if (s.empty()) c.count(ct + ".insert_empty_column");
    } else if (op == REM) {
      if constexpr (!COMP) {
        bool last = !MAPC || r.chance(1, 2);
        unsigned idx = 0;
        if (!last) { pick_col(idx, 0); }
        opsig = std::string("op=") + (last ? "remove_last" : "remove_column") +
                (is_hole(last ? (D.next ? D.next - 1 : 0) : idx) ? ",col=skipped_index" : "") + pend;
        if (last) {
          c.log("remove_last");
          guarded([&] { m->remove_last(); });
          if (!ok) return false;
          unsigned gone = D.next ? D.next - 1 : 0;
          for (auto it = za.begin(); it != za.end();) { if (it->first == gone) it = za.erase(it); else ++it; }
          if (D.next && is_hole(gone)) c.count("hole.removed");
          unhole(gone);
          D.remove_last();
          c.count("op.remove_last");
        } else {
          if constexpr (MAPC) {
            c.log("remove_column " + vh::str(idx));
            guarded([&] { m->remove_column(idx); });
            if (!ok) return false;
            for (auto it = za.begin(); it != za.end();) { if (it->first == idx) it = za.erase(it); else ++it; }
            D.remove_column(idx);
            if (is_hole(idx)) c.count("hole.removed");
            unhole(idx);
            c.count("op.remove_column");
          }
        }
        kinds.insert("rem");
      }
    } else if (op >= ADD_I && op <= MSA_R) {
      const bool by_index = (op == ADD_I || op == MTA_I || op == MSA_I);
      const int kind = (op == ADD_I || op == ADD_R) ? 0 : (op == MTA_I || op == MTA_R) ? 1 : 2;
      static const char* kname[3] = {"add_to", "multiply_target_and_add_to", "multiply_source_and_add_to"};
      unsigned t; pick_col(t, (int)r.below(3));
      if (!za.empty() && r.chance(1, 3)) {  // aim at a column holding a cell that was zeroed while already zero
        auto it = za.begin(); std::advance(it, (long)r.below(za.size()));
        if (it->first < D.present.size() && D.present[it->first]) t = it->first;
      }
      if constexpr (!RA && !COMP) {  // aim at a column which only exists because an insertion beyond the end skipped its index
        std::vector<unsigned> hl = hole_list();
        if (!hl.empty() && r.chance(1, 5)) t = r.pick(hl);
      }
      int coef = 1; std::string raw = "none";
      if (kind != 0) coef = pick_coef(raw);
      unsigned cv = D.norm(coef);
      // source
      DCol src; std::string srckind; unsigned sidx = 0; std::vector<Entry> range; bool range_is_column = false;
      bool self_source = false, range_is_other = false, unsorted = false;
      if (by_index) {
        // "any sequence of column additions": the source may be the target itself (or, with compression, another member of
        // the target's class, i.e. the same stored column)
        if (r.chance(1, 12)) {
          sidx = t; self_source = true;
          if constexpr (COMP) { std::vector<unsigned> mem = D.members(t); sidx = r.pick(mem); }
          c.count("op.additive_with_source_equal_to_target");
        } else if (!pick_col(sidx, (int)r.below(3), (long)t)) { c.count("skip.no_distinct_source"); return true; }
        if constexpr (!RA && !COMP) {
          if (!self_source && r.chance(1, 6)) {
            std::vector<unsigned> hl;
            for (unsigned h : hole_list()) if (h != t) hl.push_back(h);
            if (!hl.empty()) sidx = r.pick(hl);
          }
        }
        src = D.col[sidx]; srckind = "index";
      } else {
        // an entry range: either a vector of entries (only in an ordered state: its row indices are public ones), or a
        // column of the matrix itself obtained through get_column (which applies the pending permutation)
        bool want_col = np >= 2 && r.chance(SW ? 1u : 2u, 5u);
        if (r.chance(1, 12)) {
          // the entry range is the target column itself (with compression: the column of a member of the target's class,
          // i.e. the same stored column): "any sequence of column additions" includes c += c given in this form
          sidx = t; self_source = true; range_is_column = true;
          if constexpr (COMP) { std::vector<unsigned> mem = D.members(t); sidx = r.pick(mem); }
          src = D.col[sidx]; srckind = "range_column";
          c.count("op.range_column_aliasing_target");
        } else if (D.p < 1000 && r.chance(1, 8)) {
          // a column of a second matrix of the same type; half of the time (swaps on) that matrix has a pending row swap
          if (!ensure_second()) return false;
          sidx = (unsigned)r.below(3); range_is_other = true; srckind = "range_other_matrix";
          if constexpr (SW && !COMP) {
            if (r.chance(1, 2)) {
              int a = (int)r.below(D.R), b = (int)r.below(D.R);
              opsig = std::string("op=swap_rows,matrix=second");
              c.log("  second.swap_rows " + vh::str(a) + " " + vh::str(b));
              guarded([&] { m2->swap_rows((unsigned)a, (unsigned)b); });
              if (!ok) return false;
              D2->swap_rows(a, b);
              c.count("op.other_matrix_source_with_pending_swap");
            }
          }
          src = D2->col[sidx];
        } else if (want_col && pick_col(sidx, (int)r.below(3), (long)t)) { range_is_column = true; src = D.col[sidx]; srckind = "range_column"; }
        else {
          // (the row indices of an entry vector are public ones, also while a lazy row swap is pending inside the matrix)
          if (pending) c.count("op.entry_vector_while_lazy_pending");
          SparseCol s = rand_sparse();
          if (r.chance(1, 5)) s = sparse_of(D.col[t]);  // same content as the target
          if constexpr (COMP) {
            // make the target identical to a column of another class (exercises the merge of two classes)
            unsigned j;
            if (kind != 2 && r.chance(1, 3) && pick_col(j, 2, (long)t)) {
              DCol diff(D.R, 0);
              for (int q = 0; q < D.R; ++q)
                diff[q] = D.norm((long long)D.col[j][q] - (long long)(kind == 1 ? cv : 1u) * D.col[t][q]);
              s = sparse_of(diff);
              c.count("op.make_identical_to_other_class");
            }
          }
          if constexpr (UNSORTED_OK) {  // documented for HEAP and UNORDERED_SET columns: the range does not need to be ordered
            if (s.size() >= 2 && r.chance(1, 2)) {
              SparseCol before = s;
              r.shuffle(s);
              unsorted = (s != before);
              if (unsorted) c.count("op.range_vector_unsorted");
            }
          }
          range = make_range(s); src = D.dense_of(s); srckind = "range_vector";
          c.log("  range " + show_sparse(s));
        }
      }
      const bool tz = D.zero_col(t), sz = Dense::is_zero(src);
      const bool src_hole = (by_index || range_is_column) && is_hole(sidx), tgt_hole = is_hole(t);
      opsig = std::string("op=") + kname[kind] + (by_index ? "" : ",src=range") + (self_source ? ",src=target" : "") +
              (range_is_other ? ",src=other_matrix_column" : "") + (unsorted ? ",src=unsorted" : "") +
              (src_hole ? ",src=skipped_index" : "") + (tgt_hole ? ",tgt=skipped_index" : "") +
              (sz ? ",src=empty" : "") + (tz ? ",tgt=empty" : "") +
              ((kind && cv == 0) ? ",coef=zero" : "") + (raw == "below-p" ? ",coef_below_minus_p" : "") + pend;
      c.log(std::string(kname[kind]) + " src=" + (srckind == "range_vector" ? std::string("range") : vh::str(sidx) + (range_is_column ? "(get_column)" : range_is_other ? "(second.get_column)" : "")) +
            " coef=" + vh::str(coef) + " tgt=" + vh::str(t));
      guarded([&] {
        if (by_index) {
          if (kind == 0) m->add_to(sidx, t);
          else if (kind == 1) m->multiply_target_and_add_to(sidx, coef, t);
          else m->multiply_source_and_add_to(coef, sidx, t);
        } else if (range_is_column) {
          const auto& sc = m->get_column(sidx);
          if (kind == 0) m->add_to(sc, t);
          else if (kind == 1) m->multiply_target_and_add_to(sc, coef, t);
          else m->multiply_source_and_add_to(coef, sc, t);
        } else if (range_is_other) {
          const auto& sc = m2->get_column(sidx);  // applies the pending row permutation of the second matrix
          if (kind == 0) m->add_to(sc, t);
          else if (kind == 1) m->multiply_target_and_add_to(sc, coef, t);
          else m->multiply_source_and_add_to(coef, sc, t);
        } else {
          if (kind == 0) m->add_to(range, t);
          else if (kind == 1) m->multiply_target_and_add_to(range, coef, t);
          else m->multiply_source_and_add_to(coef, range, t);
        }
      });
      if (!ok) return false;
      if (range_is_column) { pending = false; refresh_rows_after_ordered_state(); }
      auto apply = [&](Dense& X, unsigned col) {
        if (kind == 0) X.add(src, X.col[col]);
        else if (kind == 1) X.mul_target_add(src, cv, X.col[col]);
        else X.mul_source_add(cv, src, X.col[col]);
      };
      if constexpr (COMP) {
        // an operation on one member is an operation on its class.  Zero columns: the library keeps each in the class it
        // was in; reading "identical columns are compressed together" literally, all zero columns form one class.  Both
        // readings are accepted (model D = first, alt = second).
        if (tz) {
          std::vector<unsigned> zeros;
          for (unsigned i : D.present_list()) if (D.zero_col(i) && D.find(i) != D.find(t)) zeros.push_back(i);
          if (!zeros.empty()) {
            has_alt = true; alt = D;
            for (unsigned i : zeros) alt.unite(t, i);
            for (unsigned i : alt.members(t)) apply(alt, i);
            alt.merge_identical(t);
          }
        }
        for (unsigned i : D.members(t)) { apply(D, i); touched(i); }
        D.merge_identical(t);
      } else {
        apply(D, t); touched(t);
      }
      if (pending == false) refresh_rows_after_ordered_state();
      for (int q = 0; q < D.R; ++q) if (!seen[q] && D.row_nonzero(q)) added_only[q] = 1;
      ++n_additive;
      c.count(std::string("op.") + kname[kind] + (by_index ? ".index" : range_is_column ? ".range_column" : range_is_other ? ".range_other_matrix" : ".range_vector"));
      if (range_is_other) c.count("op.other_matrix_column_as_source");
      if (self_source && !by_index) { c.count(std::string("op.") + kname[kind] + ".range_column_aliasing_target"); force_obs = true; }
      if (src_hole) c.count("hole.addition_source");
      if (tgt_hole) c.count("hole.addition_target");
      kinds.insert(kname[kind]);
      if (tz) { c.count(ct + ".into_empty_target"); did_corner = true; }
      if (tz && kind == 2) c.count(ct + ".scaled_source_into_empty_target");
      if (sz) c.count(ct + ".empty_source");
      if (kind && cv == 0) { c.count(ct + ".coef_zero"); did_corner = true; }
      if (kind && raw == "below-p") c.count("coef.below_minus_p");
      if (pending) c.count("op.additive_while_lazy_pending");
    } else if (op == ZE) {
      if constexpr (!COMP) {
        unsigned t; pick_col(t, 2);
        if constexpr (!RA) { std::vector<unsigned> hl = hole_list(); if (!hl.empty() && r.chance(1, 6)) t = r.pick(hl); }
        int row = (int)r.below(D.R);
        if (!D.zero_col(t) && r.chance(1, 2)) {  // aim at a present entry half of the time
          std::vector<int> nz; for (int q = 0; q < D.R; ++q) if (D.col[t][q]) nz.push_back(q);
          row = r.pick(nz);
        }
        bool absent = D.col[t][row] == 0;
        opsig = std::string("op=zero_entry") + (is_hole(t) ? ",col=skipped_index" : "") + (absent ? ",entry=absent" : "") + (seen[row] ? "" : ",row=fresh") + pend;
        if (is_hole(t)) c.count("hole.zeroed");
        c.log("zero_entry col=" + vh::str(t) + " row=" + vh::str(row));
        guarded([&] { m->zero_entry(t, (unsigned)row); });
        if (!ok) return false;
        D.col[t][row] = 0;
        if (absent) { za.insert({t, row}); c.count(ct + ".zero_entry_absent"); did_corner = true; } else c.count(ct + ".zero_entry_present");
        c.count("op.zero_entry"); kinds.insert("ze");
      }
    } else if (op == ZC) {
      if constexpr (!COMP) {
        unsigned t; pick_col(t, (int)r.below(3));
        if constexpr (!RA) { std::vector<unsigned> hl = hole_list(); if (!hl.empty() && r.chance(1, 4)) t = r.pick(hl); }
        opsig = std::string("op=zero_column") + (is_hole(t) ? ",col=skipped_index" : "") + (D.zero_col(t) ? ",col=empty" : "") + pend;
        if (is_hole(t)) c.count("hole.zeroed");
        c.log("zero_column " + vh::str(t));
        guarded([&] { m->zero_column(t); });
        if (!ok) return false;
        if (D.zero_col(t)) c.count(ct + ".zero_column_empty");
        std::fill(D.col[t].begin(), D.col[t].end(), 0u);
        for (auto it = za.begin(); it != za.end();) { if (it->first == t) it = za.erase(it); else ++it; }
        c.count("op.zero_column"); kinds.insert("zc");
      }
    } else if (op == SWC) {
      if constexpr (SW && !COMP) {
        unsigned a, b; pick_col(a, 0);
        const bool same = r.chance(1, 8);  // swap_columns(a, a) is a no-op of the model
        if (same) b = a; else if (!pick_col(b, 0, (long)a)) return true;
        opsig = std::string("op=swap_columns") + (same ? ",same_index" : "") + ((is_hole(a) || is_hole(b)) ? ",col=skipped_index" : "") + pend;
        if (same) c.count("op.swap_columns.same_index");
        if (is_hole(a) != is_hole(b)) {
          c.count("hole.swapped");
          if (hole.size() <= std::max(a, b)) hole.resize(std::max(a, b) + 1, 0);
          std::swap(hole[a], hole[b]);  // the column object created for the skipped index travels with the swap
        }
        c.log("swap_columns " + vh::str(a) + " " + vh::str(b));
        guarded([&] { m->swap_columns(a, b); });
        if (!ok) return false;
        D.swap_columns(a, b);
        za.clear();
        if (RA) pending = true;
        c.count("op.swap_columns"); kinds.insert("swc");
      }
    } else if (op == SWR) {
      if constexpr (SW && !COMP) {
        int a = (int)r.below(D.R), b = (int)r.below(D.R);
        if (r.chance(1, 2)) {  // prefer rows holding something
          std::vector<int> nzr; for (int q = 0; q < D.R; ++q) if (D.row_nonzero(q)) nzr.push_back(q);
          if (!nzr.empty()) a = r.pick(nzr);
        }
        bool beyond = (unsigned)std::max(a, b) >= D.count_present();
        opsig = std::string("op=swap_rows") + ((seen[a] && seen[b]) ? "" : ",row=fresh") + (beyond ? ",row_index_ge_ncols" : "") + pend;
        c.log("swap_rows " + vh::str(a) + " " + vh::str(b));
        guarded([&] { m->swap_rows((unsigned)a, (unsigned)b); });
        if (!ok) return false;
        D.swap_rows(a, b);
        std::swap(seen[a], seen[b]);  // what the matrix knows about a row index travels with the row
        std::swap(added_only[a], added_only[b]);
        za.clear();
        pending = true;
        c.count("op.swap_rows"); kinds.insert("swr");
        if (beyond) c.count("op.swap_rows.row_index_ge_ncols");
        if (!(seen[a] && seen[b])) c.count("op.swap_rows.fresh_row");
      }
    } else if (op == ERR) {
      // erase_empty_row: documented precondition = the row is empty (in the model: every row without a non-zero value, also
      // one whose index the matrix never saw, or saw only through an addition, or while a lazy swap is pending)
      std::vector<int> cand;
      for (int q = 0; q < D.R; ++q) if (!D.row_nonzero(q)) cand.push_back(q);
      if (cand.empty()) { c.count("skip.no_empty_row"); return true; }
      int row = r.pick(cand);
      const bool known = seen[row] && (RR ? (bool)exists[row] : true);
      opsig = std::string("op=erase_empty_row") + (known ? "" : seen[row] ? ",row=not_materialised" : ",row=fresh") + pend;
      if (!seen[row]) c.count("op.erase_empty_row.row_never_inserted");
      if (!seen[row] && added_only[row]) c.count("op.erase_empty_row.row_created_by_addition_only");
      added_only[row] = 0;
      if (!known) c.count("op.erase_empty_row.row_not_known");
      if (pending) c.count("op.erase_empty_row.while_lazy_pending");
      c.log("erase_empty_row " + vh::str(row));
      guarded([&] { m->erase_empty_row((unsigned)row); });
      if (!ok) return false;
      if (pending) std::fill(exists.begin(), exists.end(), 0); else exists[row] = 0;
      seen[row] = 0;  // the matrix may forget everything about that row index
      c.count("op.erase_empty_row"); kinds.insert("err");
    }

    peak_nnz = std::max(peak_nnz, D.nnz());
    // observation
    obs_salt = (unsigned)r.below(64);
    did_force = false;
    bool force = !SW || r.chance(1, 2);
    if (force_obs) force = true;  // (get_column was called by the operation itself: nothing lazy is left to preserve)
    bool rows_first = r.chance(1, 2);
    if (has_alt) {
      if (!observe(D, opsig, force, rows_first, false)) {
        if (observe(alt, opsig, force, rows_first, false)) { D = alt; c.count("info.compression_all_zero_columns_one_class"); }
      }
    }
    if (!observe(D, opsig, force, rows_first, true)) return false;
    if (force && did_force) {
      if (pending) c.count("obs.forced_while_lazy_pending");
      pending = false; refresh_rows_after_ordered_state(); c.count("obs.forcing");
    } else c.count("obs.non_forcing_only");
    c.count("steps");
    return true;
  }
};

// libstdc++ assertion failures (_GLIBCXX_ASSERTIONS) end in abort() without any stack; print one through the sanitizer
// runtime so that the orchestrator can attribute the abort to a frame of the library.
extern "C" void __sanitizer_print_stack_trace(void);
inline void abort_with_stack(int sig) {
  __sanitizer_print_stack_trace();
  vh::fatal_signal_handler(sig);
}

template <class O>
void run_case(vh::Case& c) {
  static bool handler_installed = (signal(SIGABRT, abort_with_stack), true);
  (void)handler_installed;
  vh::Rng& r = c.rng;
  // without is_z2 the characteristic 2 goes through the general Z_p code; 257 and 4099 have values beyond one byte (4099
  // only once in 40 cases: the field operators compute their table of inverses in O(p^2) per matrix)
  static const unsigned primes[8] = {2, 3, 3, 5, 7, 13, 251, 257};
  unsigned p = O::is_z2 ? 2u : primes[r.below(8)];
  if (!O::is_z2 && r.chance(1, 40)) p = 4099;
  if (!O::is_z2 && p == 2) c.count("field.p2_with_general_coefficients");
  if (p > 256) c.count("field.p_above_256");
  if (p == 4099) c.count("field.p_4099");
  // shapes are deliberately non-square: up to 16 rows for at most 8 columns
  int R = r.chance(O::has_column_compression ? 2u : 1u, 4u) ? 1 + (int)r.below(4) : 1 + (int)r.below(16);
  Run<O> run(c, p, R);
  c.log(std::string("ct=") + run.ct + " p=" + vh::str(p) + " R=" + vh::str(R));
  if (!run.construct()) return;
  if (!run.observe(run.D, "op=construct", true, false, true)) return;
  run.refresh_rows_after_ordered_state();
  int nops = 5 + (int)r.below(56);
  for (int s = 0; s < nops; ++s)
    if (!run.step()) return;
  c.count("cases_completed");
  if (run.n_additive >= 3 && run.kinds.size() >= 3 && run.peak_nnz >= 4 && run.did_corner)
    c.nontrivial(vh::hash_str(vh::G().history));
  c.sample("{\"history\":\"" + vh::jesc(vh::G().history.substr(0, 700)) + "\"}");
}

}  // namespace c09

#define C09_INST(NAME, CT, Z2, RA, RR, MAPC, SW, COMP)                                                             \
  VH_CONFIG(NAME, (&c09::run_case<c09::Opt<Gudhi::persistence_matrix::Column_types::CT, Z2, RA, RR, MAPC, SW, COMP>>))

#endif

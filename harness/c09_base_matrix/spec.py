import re

# (config name, unit) lists are parsed from c09_units.inc so that the spec and the instantiations cannot drift apart
import os as _os
_HERE = _os.path.dirname(_os.path.abspath(__file__))


def _units():
    txt = open(_os.path.join(_HERE, "c09_units.inc")).read()
    units, cur = {}, None
    for line in txt.splitlines():
        m = re.match(r"#(?:el)?if C09_UNIT == (\d+)", line)
        if m:
            cur = int(m.group(1))
            units[cur] = []
            continue
        m = re.match(r'C09_INST\("([^"]+)"', line)
        if m and cur is not None:
            units[cur].append(m.group(1))
    return units


_U = _units()
QUICK_UNITS = [k for k in sorted(_U) if k < 100]       # units 0..5: the 24 quick instantiations (also run in thorough)
THOROUGH_UNITS = [k for k in sorted(_U) if k >= 100]   # units 100..: additional instantiations, thorough tier only

_units_spec = []
for k in QUICK_UNITS:
    _units_spec.append({"name": "u%d" % k, "src": ["c09_main.cpp"], "variant": "asan", "defs": ["C09_UNIT=%d" % k],
                        "configs": {n: {"quick": 2000, "thorough": 20000} for n in _U[k]}, "chunk": 250})
for k in THOROUGH_UNITS:
    _units_spec.append({"name": "t%d" % k, "src": ["c09_main.cpp"], "variant": "asan", "defs": ["C09_UNIT=%d" % k],
                        "tiers": ["thorough"],
                        "configs": {n: {"thorough": 20000} for n in _U[k]}, "chunk": 1250})
# gcc ASan+UBSan build of two quick units (gcc's UBSan sees invalid-bool / enum loads clang's does not)
for k in (0, 3):
    _units_spec.append({"name": "g%d" % k, "src": ["c09_main.cpp"], "variant": "gasan", "defs": ["C09_UNIT=%d" % k],
                        "tiers": ["thorough"],
                        "configs": {n: {"thorough": 5000} for n in _U[k]}, "chunk": 625})

_CT = ["HEAP", "VECTOR", "LIST", "SET", "NAIVE_VECTOR", "SMALL_VECTOR", "UNORDERED_SET", "INTRUSIVE_LIST", "INTRUSIVE_SET"]

# input classes added after the audit (about half of what seeds 1-3 measure in the quick tier)
_NEW_FLOORS = [("op.range_column_aliasing_target", 14000), ("op.add_to.range_column_aliasing_target", 6000),
               ("op.multiply_target_and_add_to.range_column_aliasing_target", 4000),
               ("op.multiply_source_and_add_to.range_column_aliasing_target", 4000),
               ("op.insert_boundary", 55000), ("op.insert_boundary_while_lazy_pending", 2300),
               ("op.insert_column.beyond_end", 5500), ("hole.addition_source", 20000), ("hole.addition_target", 30000),
               ("hole.zeroed", 8000), ("hole.swapped", 2500), ("hole.removed", 1100),
               ("op.range_vector_unsorted", 4500), ("field.p2_with_general_coefficients", 1700), ("field.p_above_256", 2000),
               ("field.p_4099", 300), ("op.swap_columns.same_index", 3000),
               ("op.erase_empty_row.row_never_inserted", 6000), ("op.erase_empty_row.row_created_by_addition_only", 600),
               ("op.erase_empty_row.while_lazy_pending", 300),
               ("op.other_matrix_column_as_source", 19000), ("op.other_matrix_source_with_pending_swap", 4000),
               ("cmp.get_content_shorter_length", 2300000)]

SPEC = {
    "property": "C09",
    "rule": "random histories of 5-60 operations on a base Matrix<Options> (1-16 rows, <= 8 columns, deliberately non-square; "
            "is_z2 with p = 2, or general coefficients with p in {2,3,5,7,13,251,257} and, once in 40 cases, 4099; built by one of 3 "
            "constructors): insert_column / insert_boundary (half of the insertions at the end; with a random ignored dimension one "
            "third of the time) at the end, at the explicit index of a removed column, or (no row access, no compression) 1-3 "
            "positions beyond the end - the skipped indices are empty columns of the model and are then addressed like any column "
            "(reads, additions from / into them, zeroing, swaps, removal; aimed at on purpose) -, remove_last / remove_column, "
            "add_to / multiply_target_and_add_to / multiply_source_and_add_to by column index, by a vector of entries (in random "
            "order half of the time for HEAP and UNORDERED_SET columns, where this is documented as allowed), by a column obtained "
            "with get_column - once in 12 range operations the target column itself or, with compression, the column of a member "
            "of its class - and by a column of a second matrix of the same type which, when swaps are on, has its own pending row "
            "swap half of the time (coefficients 0,1,2,p-1,p,p+1,-1,-p,large,<-p,random; sources "
            "and targets preferentially empty one third of the time; with compression, sources chosen so that the target becomes "
            "identical to a column of another class), zero_entry (present and absent entries), zero_column, swap_columns (once in 8 "
            "with twice the same index), swap_rows "
            "(any row index < R, including rows >= number of columns and rows never given to the matrix), erase_empty_row of any "
            "row that is empty in the model (also never inserted, created only by an addition, or while a swap is pending); the same "
            "operation is applied to a dense Z_p model (zp_dense.h).  After every operation get_number_of_columns, is_zero_column and "
            "is_zero_entry of every cell are compared (these do not trigger the lazy row reordering); get_column(i).get_content "
            "(length R, one random length < R, default length) of every column and get_row(r) (as the set of (column, value); "
            "(class, value) with compression; every listed entry must report row r) of every materialised row are compared after "
            "every operation when swaps are off and after a random half "
            "of them when swaps are on (they trigger the reordering).  With column compression an operation on a column is applied "
            "to its whole class in the model (both readings of 'class of a zero column' are accepted). "
            "non-trivial = distinct history with >= 3 additive operations, >= 3 operation kinds, >= 4 non-zero entries at some point "
            "and at least one corner operand (empty target, coefficient = 0 mod p, zero_entry of an absent entry, creation of an "
            "entry at a cell that was zeroed while absent)",
    "assumptions": [
        "additions by index use source == target (or, with compression, another member of the target's class) once in 12 operations, additions by entry range use get_column(target) (or get_column of a member of the target's class) once in 12 operations; expected result in both forms: the column scaled by (coefficient + 1)",
        "the row indices of an entry vector used as a source are public ones (also while a lazy row swap is pending)",
        "an index skipped by insert_column(column, index) beyond the end is an empty column that exists (counted by get_number_of_columns, readable, writable), as documented for remove_last / remove_column; no column is inserted at such an index while it exists; operations never address a removed index",
        "insert_boundary is equivalent to insert_column for a basic matrix (documented); its dimension argument is ignored",
        "get_row(r) is only called for rows that certainly exist in the row container (lower bound derived from the model); get_row of a row that never received an entry is undocumented and stays excluded",
        "erase_empty_row on any row without a non-zero value in the model (its documented precondition), whether or not the matrix ever saw the row index",
        "inserted / range values are non-zero mod p and < p in a range (documented as non-zero elements of the field; 0 or >= p stay excluded); p is prime; ranges are sorted by increasing row index except for HEAP and UNORDERED_SET columns",
        "the second matrix is only read (get_column after swap_rows); it is built over the same p with its own settings; it is not used with p = 4099",
        "iteration over a column (begin/end) and Column::size() are not compared (lazy representations are allowed to differ)",
        "a SIGABRT handler prints a sanitizer stack so that libstdc++ assertion failures are attributed to a library frame",
        "the dense model harness/c09_base_matrix/zp_dense.h is the trusted oracle",
    ],
    "units": _units_spec,
    "floors": {
        # roughly half of what a normal quick run measures (seed 1: 48000 cases, 1.46M steps)
        "quick": dict([("_distinct_nontrivial", 19000), ("steps", 700000), ("cmp.get_row", 1500000), ("cmp.get_content", 2300000),
                       ("op.swap_rows.row_index_ge_ncols", 20000), ("op.swap_rows.fresh_row", 11000),
                       ("obs.forced_while_lazy_pending", 35000), ("op.additive_while_lazy_pending", 12000),
                       ("op.erase_empty_row", 10000), ("op.remove_column", 7000), ("op.make_identical_to_other_class", 6000),
                       ("op.add_to.range_vector", 50000), ("op.additive_with_source_equal_to_target", 15000), ("op.multiply_source_and_add_to.range_column", 12000)] +
                      _NEW_FLOORS +
                      [(ct + ".into_empty_target", 12000) for ct in _CT] +
                      [(ct + ".scaled_source_into_empty_target", 3500) for ct in _CT] +
                      [(ct + ".coef_zero", 7500) for ct in _CT] +
                      [(ct + ".zero_entry_absent", 1200) for ct in _CT] +
                      [(ct + ".zero_absent_then_created", 200) for ct in _CT]),
        "thorough": dict([("_distinct_nontrivial", 300000), ("steps", 20000000), ("cmp.get_row", 30000000)] +
                         [(ct + ".into_empty_target", 150000) for ct in _CT] +
                         [(ct + ".coef_zero", 90000) for ct in _CT] +
                         [(ct + ".zero_absent_then_created", 3000) for ct in _CT] +
                         [(n, 10 * v) for (n, v) in _NEW_FLOORS]),
    },
    "exhaustive": {"quick": False, "thorough": False},
    "manifest": {
        "text": "Runtime monitor: for every one of the 9 column containers, both coefficient modes and a pairwise-style selection of "
                "row-access / removable-row / map-container / swap / compression options, thousands of random operation histories "
                "(corner operands included: empty sources and targets, coefficients congruent to 0, zeroing of absent entries, row "
                "indices beyond the number of columns, a column added onto itself by index or as entry range, columns at indices "
                "skipped by an insertion beyond the end, unsorted ranges where allowed, columns of another matrix as source) are applied to the real Matrix and to a dense Z_p reference; after every "
                "operation every cell, every column content, every emptiness flag, the column count and every materialised row are "
                "compared, under ASan+UBSan and libstdc++ assertions. Held on what was observed, not a proof.",
        "note": "trusted: the dense model in harness/c09_base_matrix/zp_dense.h; get_row of never-materialised rows, range elements "
                "that are 0 or >= p and addressing of removed column indices are outside the exercised domain",
        "technique": "runtime monitoring: randomized operation histories + dense reference-model oracle after every step, under "
                     "AddressSanitizer/UBSan/_GLIBCXX_ASSERTIONS",
    },
}

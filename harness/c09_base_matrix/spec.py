import re

# (config name, unit) lists are parsed from c09_units.inc so that the spec and the instantiations cannot drift apart
import os as _os
_HERE = _os.path.dirname(_os.path.abspath(__file__))


def _units():
    txt = open(_os.path.join(_HERE, "c09_units.inc")).read()
    units, cur = {}, None
    for line in txt.splitlines():
        m = re.match(r"#(?:el)?if C09_UNIT == (\d+)", line)
        if m:
            cur = int(m.group(1))
            units[cur] = []
            continue
        m = re.match(r'C09_INST\("([^"]+)"', line)
        if m and cur is not None:
            units[cur].append(m.group(1))
    return units


_U = _units()
QUICK_UNITS = [k for k in sorted(_U) if k < 100]       # units 0..5: the 24 quick instantiations (also run in thorough)
THOROUGH_UNITS = [k for k in sorted(_U) if k >= 100]   # units 100..: additional instantiations, thorough tier only

_units_spec = []
for k in QUICK_UNITS:
    _units_spec.append({"name": "u%d" % k, "src": ["c09_main.cpp"], "variant": "asan", "defs": ["C09_UNIT=%d" % k],
                        "configs": {n: {"quick": 2000, "thorough": 20000} for n in _U[k]}, "chunk": 250})
for k in THOROUGH_UNITS:
    _units_spec.append({"name": "t%d" % k, "src": ["c09_main.cpp"], "variant": "asan", "defs": ["C09_UNIT=%d" % k],
                        "tiers": ["thorough"],
                        "configs": {n: {"thorough": 20000} for n in _U[k]}, "chunk": 1250})
# gcc ASan+UBSan build of two quick units (gcc's UBSan sees invalid-bool / enum loads clang's does not)
for k in (0, 3):
    _units_spec.append({"name": "g%d" % k, "src": ["c09_main.cpp"], "variant": "gasan", "defs": ["C09_UNIT=%d" % k],
                        "tiers": ["thorough"],
                        "configs": {n: {"thorough": 5000} for n in _U[k]}, "chunk": 625})

_CT = ["HEAP", "VECTOR", "LIST", "SET", "NAIVE_VECTOR", "SMALL_VECTOR", "UNORDERED_SET", "INTRUSIVE_LIST", "INTRUSIVE_SET"]

SPEC = {
    "property": "C09",
    "rule": "random histories of 5-60 operations on a base Matrix<Options> (1-16 rows, <= 8 columns, deliberately non-square; "
            "p = 2 or p in {3,5,7,13}; built by one of 3 constructors): insert_column (end / explicit index of a removed column), "
            "remove_last / remove_column, add_to / multiply_target_and_add_to / multiply_source_and_add_to by column index, by a "
            "vector of entries and by a column obtained with get_column (coefficients 0,1,2,p-1,p,p+1,-1,-p,large,<-p,random; sources "
            "and targets preferentially empty one third of the time; with compression, sources chosen so that the target becomes "
            "identical to a column of another class), zero_entry (present and absent entries), zero_column, swap_columns, swap_rows "
            "(any row index < R, including rows >= number of columns and rows never given to the matrix), erase_empty_row; the same "
            "operation is applied to a dense Z_p model (zp_dense.h).  After every operation get_number_of_columns, is_zero_column and "
            "is_zero_entry of every cell are compared (these do not trigger the lazy row reordering); get_column(i).get_content "
            "(fixed and default length) of every column and get_row(r) (as the set of (column, value); (class, value) with "
            "compression) of every materialised row are compared after every operation when swaps are off and after a random half "
            "of them when swaps are on (they trigger the reordering).  With column compression an operation on a column is applied "
            "to its whole class in the model (both readings of 'class of a zero column' are accepted). "
            "non-trivial = distinct history with >= 3 additive operations, >= 3 operation kinds, >= 4 non-zero entries at some point "
            "and at least one corner operand (empty target, coefficient = 0 mod p, zero_entry of an absent entry, creation of an "
            "entry at a cell that was zeroed while absent)",
    "assumptions": [
        "additions by index use source == target (or, with compression, another member of the target's class) once in 12 operations; a column of the matrix obtained through get_column is never passed as an entry range for an addition onto itself (aliased entry ranges are not exercised)",
        "the row indices of an entry vector used as a source are public ones (also while a lazy row swap is pending)",
        "no insertion beyond the end (no holes other than those left by remove_column); operations never address a removed index",
        "get_row(r) is only called for rows that certainly exist in the row container (lower bound derived from the model)",
        "erase_empty_row only on empty rows whose index was given to the matrix in an inserted column (and not erased since)",
        "inserted / range values are non-zero mod p; p is prime; ranges are sorted by increasing row index",
        "iteration over a column (begin/end) and Column::size() are not compared (lazy representations are allowed to differ)",
        "a SIGABRT handler prints a sanitizer stack so that libstdc++ assertion failures are attributed to a library frame",
        "the dense model harness/c09_base_matrix/zp_dense.h is the trusted oracle",
    ],
    "units": _units_spec,
    "floors": {
        # roughly half of what a normal quick run measures (seed 1: 48000 cases, 1.46M steps)
        "quick": dict([("_distinct_nontrivial", 19000), ("steps", 700000), ("cmp.get_row", 1500000), ("cmp.get_content", 2300000),
                       ("op.swap_rows.row_index_ge_ncols", 20000), ("op.swap_rows.fresh_row", 11000),
                       ("obs.forced_while_lazy_pending", 35000), ("op.additive_while_lazy_pending", 12000),
                       ("op.erase_empty_row", 5000), ("op.remove_column", 7000), ("op.make_identical_to_other_class", 6000),
                       ("op.add_to.range_vector", 50000), ("op.additive_with_source_equal_to_target", 15000), ("op.multiply_source_and_add_to.range_column", 12000)] +
                      [(ct + ".into_empty_target", 12000) for ct in _CT] +
                      [(ct + ".scaled_source_into_empty_target", 3500) for ct in _CT] +
                      [(ct + ".coef_zero", 7500) for ct in _CT] +
                      [(ct + ".zero_entry_absent", 1200) for ct in _CT] +
                      [(ct + ".zero_absent_then_created", 200) for ct in _CT]),
        "thorough": dict([("_distinct_nontrivial", 300000), ("steps", 20000000), ("cmp.get_row", 30000000)] +
                         [(ct + ".into_empty_target", 150000) for ct in _CT] +
                         [(ct + ".coef_zero", 90000) for ct in _CT] +
                         [(ct + ".zero_absent_then_created", 3000) for ct in _CT]),
    },
    "exhaustive": {"quick": False, "thorough": False},
    "manifest": {
        "text": "Runtime monitor: for every one of the 9 column containers, both coefficient modes and a pairwise-style selection of "
                "row-access / removable-row / map-container / swap / compression options, thousands of random operation histories "
                "(corner operands included: empty sources and targets, coefficients congruent to 0, zeroing of absent entries, row "
                "indices beyond the number of columns) are applied to the real Matrix and to a dense Z_p reference; after every "
                "operation every cell, every column content, every emptiness flag, the column count and every materialised row are "
                "compared, under ASan+UBSan and libstdc++ assertions. Held on what was observed, not a proof.",
        "note": "trusted: the dense model in harness/c09_base_matrix/zp_dense.h; self-addition (source = target or same compressed class) "
                "and addressing of never-inserted column indices are outside the exercised domain",
        "technique": "runtime monitoring: randomized operation histories + dense reference-model oracle after every step, under "
                     "AddressSanitizer/UBSan/_GLIBCXX_ASSERTIONS",
    },
}

// C09 oracle: a dense matrix over Z_p stored as a vector of column vectors, with exactly the operations of the
// property statement.  Deliberately naive; no GUDHI includes.  Row indices are always the *logical* (public) ones:
// a row swap is applied immediately, there is no laziness here.
#ifndef VERIF_C09_ZP_DENSE_H_
#define VERIF_C09_ZP_DENSE_H_

#include <vector>
#include <utility>
#include <string>
#include <numeric>

namespace c09 {

typedef std::vector<unsigned> DCol;                              // length R, values in [0,p)
typedef std::vector<std::pair<unsigned, unsigned>> SparseCol;    // (row, value) ascending rows, value in [1,p)

struct Dense {
  unsigned p;
  int R;                        // number of rows the harness works with (the matrix under test is not told)
  std::vector<DCol> col;        // col[i], meaningful iff present[i]
  std::vector<char> present;
  unsigned next = 0;            // next insertion index of insert_column(column)
  std::vector<unsigned> uf;     // union-find over column indices (only used for the column-compressed flavour)

  Dense(unsigned p_, int R_) : p(p_), R(R_) {}

  unsigned norm(long long v) const { long long m = v % (long long)p; if (m < 0) m += p; return (unsigned)m; }

  DCol dense_of(const SparseCol& s) const {
    DCol d(R, 0);
    for (auto& e : s) d[e.first] = norm(e.second);
    return d;
  }
  static bool is_zero(const DCol& d) { for (unsigned v : d) if (v) return false; return true; }
  bool zero_col(unsigned i) const { return is_zero(col[i]); }
  unsigned count_present() const { unsigned n = 0; for (char c : present) n += c != 0; return n; }
  std::vector<unsigned> present_list() const {
    std::vector<unsigned> v; for (unsigned i = 0; i < present.size(); ++i) if (present[i]) v.push_back(i); return v;
  }
  bool row_nonzero(int r) const {
    for (unsigned i = 0; i < present.size(); ++i) if (present[i] && col[i][r]) return true;
    return false;
  }
  int max_nonzero_row() const {
    for (int r = R - 1; r >= 0; --r) if (row_nonzero(r)) return r;
    return -1;
  }
  unsigned nnz() const {
    unsigned n = 0;
    for (unsigned i = 0; i < present.size(); ++i) if (present[i]) for (unsigned v : col[i]) n += v != 0;
    return n;
  }

  void ensure(unsigned idx) {
    if (col.size() <= idx) { col.resize(idx + 1); present.resize(idx + 1, 0); }
    while (uf.size() <= idx) uf.push_back((unsigned)uf.size());
  }
  // insert_column(column) / insert_column(column, index)
  void insert_at(unsigned idx, const DCol& d) {
    ensure(idx);
    col[idx] = d; present[idx] = 1;
    if (idx >= next) next = idx + 1;
  }
  // remove_column(index): documented: if it was the last used index the "last index" decreases by one
  void remove_column(unsigned idx) {
    if (idx + 1 == next) --next;
    if (idx < present.size()) { present[idx] = 0; col[idx].clear(); }
  }
  void remove_last() {
    if (next == 0) return;
    --next;
    if (next < present.size()) { present[next] = 0; col[next].clear(); }
  }

  // target += source
  void add(const DCol& s, DCol& t) const { for (int r = 0; r < R; ++r) t[r] = (t[r] + s[r]) % p; }
  // target = coef * target + source
  void mul_target_add(const DCol& s, unsigned coef, DCol& t) const {
    for (int r = 0; r < R; ++r) t[r] = (unsigned)(((unsigned long long)t[r] * coef + s[r]) % p);
  }
  // target += coef * source
  void mul_source_add(unsigned coef, const DCol& s, DCol& t) const {
    for (int r = 0; r < R; ++r) t[r] = (unsigned)((t[r] + (unsigned long long)s[r] * coef) % p);
  }
  void swap_rows(int a, int b) {
    for (unsigned i = 0; i < present.size(); ++i) if (present[i]) std::swap(col[i][a], col[i][b]);
  }
  void swap_columns(unsigned a, unsigned b) { col[a].swap(col[b]); }

  // ---- column classes of the compressed flavour: "identical columns share one representative"
  unsigned find(unsigned i) const { while (uf[i] != i) i = uf[i]; return i; }
  void unite(unsigned a, unsigned b) { a = find(a); b = find(b); if (a != b) uf[b] = a; }
  std::vector<unsigned> members(unsigned i) const {
    std::vector<unsigned> v; unsigned f = find(i);
    for (unsigned j = 0; j < present.size(); ++j) if (present[j] && find(j) == f) v.push_back(j);
    return v;
  }
  // after column i (and its class) received new content: classes whose (non-zero) content is identical merge
  void merge_identical(unsigned i) {
    if (zero_col(i)) return;
    for (unsigned j = 0; j < present.size(); ++j)
      if (present[j] && find(j) != find(i) && col[j] == col[i]) unite(i, j);
  }

  std::string show(const DCol& d) const {
    std::string o = "[";
    for (int r = 0; r < R; ++r) { if (r) o += " "; o += std::to_string(d[r]); }
    return o + "]";
  }
  std::string show_all() const {
    std::string o;
    for (unsigned i = 0; i < present.size(); ++i) if (present[i]) o += " c" + std::to_string(i) + "=" + show(col[i]);
    return o;
  }
};

}  // namespace c09

#endif

def _cfg(q, t):
    return {"quick": q, "thorough": t}


def _simplicial(name, src, q, t):
    # config names carry the unit name: the orchestrator's shard files are keyed by config name only
    return {"name": name, "src": [src], "variant": "asan", "libs": ["-lgmpxx", "-lgmp"], "chunk": 10,
            "configs": {name + "_rand_zp": _cfg(q, t), name + "_tors_zp": _cfg(q, t),
                        name + "_rand_mf": _cfg(q, t), name + "_tors_mf": _cfg(q, t)}}


# about half of what a normal quick run measures (thorough: 10x, its case counts are 15-20x)
_FLOORS_QUICK = {
    # every complex type
    "complex.st_default": 1200, "complex.st_fastp": 800, "complex.st_full": 800, "complex.st_key8": 800, "complex.hasse": 800,
    "complex.cubical_plain": 200, "complex.cubical_periodic": 180, "cubical.with_periodic_direction": 130, "cmp.hasse_structure": 800,
    "key8.over_limit": 100, "key8.at_limit": 80,
    # fields and parameters
    "tuple.zp": 7000, "tuple.multi": 4500, "tuple.minlen.neg": 2500, "tuple.minlen.zero": 4000, "tuple.minlen.pos": 5000,
    "tuple.pdm.0": 5500, "tuple.pdm.1": 5500, "tuple.p46337": 2,
    "cmp.pairs.p2": 1900, "cmp.pairs.p3": 1900, "cmp.pairs.p5": 600, "cmp.pairs.p7": 600, "cmp.pairs.p11": 600, "cmp.pairs.p13": 600,
    "cmp.pairs.p251": 600, "cmp.pairs.multi_per_prime": 15000,
    # where the fields disagree
    "state.z2_z3_differ": 1500, "state.z2_z3_finite_positive_differ": 1200, "state.multi_case_with_proper_subproduct": 700,
    "pairs.multi.proper_subproduct": 4500,
    # depth of the diagrams
    "pairs.finite.dim1": 170000, "pairs.finite.dim2": 140000, "pairs.finite.dim3": 40000, "pairs.finite.dim4": 4000,
    "pairs.essential.dim1": 4500, "pairs.essential.dim2": 6000, "pairs.essential.dim3": 1500, "pairs.finite.zero_length": 150000,
    # derived queries
    "cmp.betti_numbers": 11000, "cmp.persistent_betti_numbers": 35000, "cmp.intervals_in_dimension": 75000, "cmp.output_diagram": 11000,
    # oracle / library validation
    "library.space_with_torsion": 60, "cmp.library_betti_closed_form": 5000,
    "_distinct_nontrivial": 2400,
}

SPEC = {
    "property": "C02",
    "rule": "one case = one filtered complex + 3 (Z_p) or 2 (multi-field) parameter tuples (field, min_interval_length, persistence_dim_max) run "
            "one after the other on the SAME complex object (stale keys of the previous run included). Complexes: (rand) random simplicial "
            "complexes on <= 9 vertices, dimension <= 4, or k-skeleta of simplices; (tors) the torsion library c02_torsion_library.h - 6-vertex "
            "RP^2, Moore spaces M(Z_m,1) m=2..7, Klein bottle (3x3 and 4x4 grids), torus, spheres, their suspensions, double suspension of RP^2, "
            "wedges, disjoint unions - each optionally coned off completely (later stage of the filtration) or over a random subcomplex; "
            "(cub) cubical grids of dimension 1-4 from random top-cell values, plain and (partially) periodic. Values: random monotone, either all "
            "distinct (random linear extension), on a coarse grid of 2-16 levels (heavy ties), by stage, by dimension or constant; vertex labels "
            "permuted / sparse (contiguous for fast_persistence). Complex types: Simplex_tree with default / fast_persistence (float) / "
            "full_featured / 8-bit-key options (must throw out_of_range above 255 simplices, must work up to 255), Hasse_complex built from a "
            "keyed tree that is then destroyed, Bitmap_cubical_complex over both bases. Fields: Z_p, p in {2,3,5,7,11,13,251} (46337 in its own "
            "config), multi-field ranges [2,2],[2,3],[3,3],[3,5],[2,5],[2,7],[4,7],[5,13],[2,13],[2,31],[11,11]; min_interval_length in "
            "{-1,0,.5,1,10} or a random integer; persistence_dim_max in {false,true}. Compared: the multiset {(dim, birth value, death value)} of "
            "get_persistent_pairs against oracle/zp_reduce.h run on the cells in the order filtration_simplex_range() exposes (independent "
            "boundary signs), after dropping intervals with death-birth <= min_interval_length (in the complex' Filtration_value arithmetic) and "
            "classes of dimension >= dimension + persistence_dim_max; in multi-field mode, for EVERY prime q of the range, the intervals whose "
            "product q divides against the Z_q diagram, and every product must divide the product of the range's primes; then betti_numbers, "
            "betti_number, persistent_betti_numbers/_number (3 random (from,to)), intervals_in_dimension (d = -1..dim+2) and the parsed "
            "output_diagram against a naive recount from the reported pairs. non-trivial = some compared diagram has a finite interval of "
            "positive length in dimension >= 1; distinct by hash of the logged complex and parameters.",
    "assumptions": [
        "complexes are built by insertions only, so dimension() is exact; 'top dimension' is the largest cell dimension (checked against dimension())",
        "filtration values are finite dyadic numbers (exact in float and double, printed exactly by output_diagram); no NaN, no infinity",
        "the filtration order exposed by the complex is checked to be a valid filtration first (C03 / C13 own that property)",
        "diagrams are compared as value multisets including zero-length intervals when min_interval_length < 0, not as cell pairings",
        "cubical handles are bitmap positions (mixed-radix doubled coordinates, first direction fastest); cross-checked per cell through "
        "dimension() and boundary_simplex_range(); periodic sides >= 3",
        "non-prime / out-of-range characteristics (config refused) are only required not to cause a memory error or UB; whether they throw is counted, not judged",
        "trusted: oracle/zp_reduce.h, c02_torsion_library.h (validated against closed-form Betti numbers by config lib_selfcheck and inside every "
        "library case over Z_2 and Z_3), c02_cubical_model.h, GMP, libstdc++",
    ],
    "units": [
        _simplicial("st_default", "c02_st_default.cpp", 600, 9000),
        _simplicial("st_fastp", "c02_st_fastp.cpp", 400, 6000),
        _simplicial("st_full", "c02_st_full.cpp", 400, 6000),
        _simplicial("st_key8", "c02_st_key8.cpp", 400, 6000),
        _simplicial("hasse", "c02_hasse.cpp", 400, 6000),
        {"name": "cubical", "src": ["c02_cubical.cpp"], "variant": "asan", "libs": ["-lgmpxx", "-lgmp"], "chunk": 10,
         "configs": {"cub_zp": _cfg(400, 8000), "cub_mf": _cfg(400, 8000)}},
        {"name": "misc", "src": ["c02_misc.cpp"], "variant": "asan", "libs": ["-lgmpxx", "-lgmp"], "chunk": 1,
         "configs": {"lib_selfcheck": _cfg(150, 3000), "bigprime": _cfg(4, 16), "refused": _cfg(24, 240)}},
    ],
    "floors": {"quick": dict(_FLOORS_QUICK), "thorough": {k: 10 * v for k, v in _FLOORS_QUICK.items() if k != "tuple.p46337"}},
    "exhaustive": {"quick": False, "thorough": False},
    "manifest": {
        "text": "Runtime monitor under ASan+UBSan: thousands of filtered complexes (random simplicial complexes, a validated library of torsion "
                "spaces - RP^2, Moore spaces M(Z_m,1), Klein bottle, suspensions, wedges, unions, cone-offs - and cubical grids incl. periodic "
                "ones) are given to Persistent_cohomology through Simplex_tree (4 option sets incl. 8-bit keys), Hasse_complex and "
                "Bitmap_cubical_complex, over Z_p (p = 2..251 and 46337) and over multi-field prime ranges, with every combination class of "
                "min_interval_length and persistence_dim_max. The reported pairs are compared, as multisets of (dimension, birth, death), with a "
                "naive textbook column reduction over the same field run on the filtration order the complex itself exposes; in multi-field mode "
                "the comparison is made for every prime of the range through the carried product; Betti numbers, persistent Betti numbers, "
                "per-dimension interval lists and the printed diagram are recounted from the pairs. Held on what was observed, not a proof.",
        "note": "trusted: harness/oracle/zp_reduce.h, harness/c02_pcoh/c02_torsion_library.h (validated against closed-form Betti numbers), "
                "c02_cubical_model.h, GMP; finite dyadic values only; complexes built by insertion only; diagrams compared, not cell pairings",
        "technique": "runtime monitoring: randomized + library inputs, independent Z_p boundary-matrix reduction as oracle, under AddressSanitizer/UBSan",
    },
}

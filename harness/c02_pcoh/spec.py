def _cfg(q, t):
    return {"quick": q, "thorough": t}


def _simplicial(name, src, q, t):
    # config names carry the unit name: the orchestrator's shard files are keyed by config name only
    return {"name": name, "src": [src], "variant": "asan", "libs": ["-lgmpxx", "-lgmp"], "chunk": 10,
            "configs": {name + "_rand_zp": _cfg(q, t), name + "_tors_zp": _cfg(q, t),
                        name + "_rand_mf": _cfg(q, t), name + "_tors_mf": _cfg(q, t)}}


# about half of what a normal quick run measures (thorough: 10x, its case counts are 15-20x)
_FLOORS_QUICK = {
    # every complex type
    "complex.st_default": 1200, "complex.st_fastp": 800, "complex.st_full": 800, "complex.st_key8": 800, "complex.hasse": 800,
    "complex.cubical_plain": 200, "complex.cubical_periodic": 180, "cubical.with_periodic_direction": 130, "cmp.hasse_structure": 800,
    "key8.over_limit": 100, "key8.at_limit": 80,
    # fields and parameters
    "tuple.zp": 7000, "tuple.multi": 4500, "tuple.minlen.neg": 2500, "tuple.minlen.zero": 4000, "tuple.minlen.pos": 5000,
    "tuple.pdm.0": 5500, "tuple.pdm.1": 5500, "tuple.p46337": 2,
    "cmp.pairs.p2": 1900, "cmp.pairs.p3": 1900, "cmp.pairs.p5": 600, "cmp.pairs.p7": 600, "cmp.pairs.p11": 600, "cmp.pairs.p13": 600,
    "cmp.pairs.p251": 600, "cmp.pairs.multi_per_prime": 15000,
    # where the fields disagree
    "state.z2_z3_differ": 1500, "state.z2_z3_finite_positive_differ": 1200, "state.multi_case_with_proper_subproduct": 700,
    "pairs.multi.proper_subproduct": 4500,
    # depth of the diagrams
    "pairs.finite.dim1": 170000, "pairs.finite.dim2": 140000, "pairs.finite.dim3": 40000, "pairs.finite.dim4": 4000,
    "pairs.essential.dim1": 4500, "pairs.essential.dim2": 6000, "pairs.essential.dim3": 1500, "pairs.finite.zero_length": 150000,
    # derived queries
    "cmp.betti_numbers": 11000, "cmp.persistent_betti_numbers": 35000, "cmp.intervals_in_dimension": 75000, "cmp.output_diagram": 11000,
    # input classes added after the audit of the quantifier
    "complex.st_intfv": 400, "complex.st_keyi8": 600, "keyi8.over_limit": 70, "keyi8.at_limit": 60,
    "intfv.with_negative_values": 150, "guard.output_diagram_integral_negative_birth": 250,
    "order.custom_ties": 500, "order.custom_ties.differs_from_default": 330, "order.ignore_infinite": 450,
    "order.ignore_infinite.with_ignored_simplices": 350, "hasse.from_stream": 250,
    "cubical.from_vertices": 130, "cubical.periodic_side_1": 50, "cubical.periodic_side_2": 45, "cubical.with_infinite_cells": 45,
    "cubical.dim5": 5,
    "tuple.reinit.multi.other_first": 400, "tuple.reinit.multi.same_twice": 200, "tuple.reinit.zp.other_first": 600,
    "tuple.reinit.zp.same_twice": 300, "cmp.reinit_field_state": 600, "cmp.reinit_then_compute": 1500,
    "guard.multi_field_init": 50, "guard.multi_field_init.range_end_INT_MAX": 10, "tuple.mf_range.range_end=INT_MAX": 16,
    "tuple.mf_range.range=just_below_INT_MAX": 8, "tuple.mf_range.range=above_46337": 16, "tuple.mf_range.range=wide": 16,
    "tuple.mf_range.range_start<2": 16, "tuple.mf_range.range=narrow": 8, "primes_in_wide_ranges": 250,
    "cmp.pairs.zp_characteristic": 8000,
    # oracle / library validation
    "library.space_with_torsion": 60, "cmp.library_betti_closed_form": 5000,
    "_distinct_nontrivial": 2400,
}

SPEC = {
    "property": "C02",
    "rule": "one case = one filtered complex + 3 (Z_p) or 2 (multi-field) parameter tuples (field, min_interval_length, persistence_dim_max) run "
            "one after the other on the SAME complex object (stale keys of the previous run included); in 1 tuple out of 8 "
            "init_coefficients is called twice on the Persistent_cohomology object before computing (first with other coefficients, or "
            "twice the same; both coefficient classes; for the multi-field the state of a twice-initialised Multi_field is also compared "
            "with the Chinese-remainder idempotents of the last range and with a fresh object). Complexes: (rand) random simplicial "
            "complexes on <= 9 vertices, dimension <= 4, or k-skeleta of simplices; (tors) the torsion library c02_torsion_library.h - 6-vertex "
            "RP^2, Moore spaces M(Z_m,1) m=2..7, Klein bottle (3x3 and 4x4 grids), torus, spheres, their suspensions, double suspension of RP^2, "
            "wedges, disjoint unions - each optionally coned off completely (later stage of the filtration) or over a random subcomplex; "
            "(cub) cubical grids of dimension 1-5 from random top-cell OR vertex values (input_top_cells = false), plain and (partially) "
            "periodic with periodic sides of 1-4 cells, 1 case in 6 with some input values at +infinity (then min_interval_length >= 0). Values: random monotone, either all "
            "distinct (random linear extension), on a coarse grid of 2-16 levels (heavy ties), by stage, by dimension or constant; vertex labels "
            "permuted / sparse (contiguous for fast_persistence). Filtration order of a Simplex_tree: the default one, or (1 in 8) "
            "initialize_filtration(Comparator, Ignorer) with a comparator that keeps (value, dimension) and re-breaks the remaining ties at "
            "random, or (1 in 7) a random upward-closed set of simplices at +infinity and initialize_filtration(ignore_infinite_values = "
            "true) - the expected diagram is that of the cells the range exposes, 'top dimension' stays dimension() of the whole complex. "
            "Complex types: Simplex_tree with default / fast_persistence (float) / full_featured / int Filtration_value (values 2v+off, "
            "off in {0,3,5,-1,-3,-8,-1000}: negative births, never-ending intervals end at INT_MAX) / uint8_t and int8_t Simplex_key "
            "options (must throw out_of_range above 255 / 127 simplices, must work up to there), Hasse_complex built from a keyed tree "
            "that is then destroyed or (1 in 3) read by operator>> from the text format, Bitmap_cubical_complex over both bases. Fields: Z_p, p in {2,3,5,7,11,13,251} (46337 in its own "
            "config), multi-field ranges [2,2],[2,3],[3,3],[3,5],[2,5],[2,7],[4,7],[5,13],[2,13],[2,31],[11,11], and in config mf_ranges "
            "(complexes <= 300 / 120 simplices) [2,100],[2,47],[90,100],[0,5],[1,3],[46337,46349],[65521,65537],[2147483587,2147483646],"
            "[2147483629,INT_MAX],[INT_MAX,INT_MAX], where Multi_field::init is first run alone in a forked copy of the process with a "
            "1 s CPU budget (it must return); min_interval_length in "
            "{-1,0,.5,1,10} or a random integer; persistence_dim_max in {false,true}. Compared: the multiset {(dim, birth value, death value)} of "
            "get_persistent_pairs against oracle/zp_reduce.h run on the cells in the order filtration_simplex_range() exposes (independent "
            "boundary signs), after dropping intervals with death-birth <= min_interval_length (in the complex' Filtration_value arithmetic) and "
            "classes of dimension >= dimension + persistence_dim_max; in multi-field mode, for EVERY prime q of the range, the intervals whose "
            "product q divides against the Z_q diagram, and every product must divide the product of the range's primes; then betti_numbers, "
            "betti_number, persistent_betti_numbers/_number (3 random (from,to)), intervals_in_dimension (d = -1..dim+2) and the parsed "
            "output_diagram against a naive recount from the reported pairs (a never-ending interval ends at +infinity, or at the largest "
            "value of a Filtration_value without infinity; with such a type and a negative birth output_diagram is first tried in a forked "
            "copy of the process: it must not die of undefined behaviour); in Z_p mode every pair must carry p. non-trivial = some compared diagram has a finite interval of "
            "positive length in dimension >= 1; distinct by hash of the logged complex and parameters.",
    "assumptions": [
        "complexes are built by insertions only, so dimension() is exact; 'top dimension' is the largest cell dimension of the whole complex "
        "(checked against dimension()), also when the filtration ignores the simplices at +infinity",
        "filtration values are dyadic numbers (exact in float and double, printed exactly by output_diagram) or small integers for the int "
        "Filtration_value; no NaN; +infinity only (a) on simplices that initialize_filtration(true) then ignores and (b) on cubical cells, "
        "and then only with min_interval_length >= 0 (whether a pair [inf,inf) has length 0 for a negative minimum length is left open); "
        "no -infinity",
        "NOT covered (outside the property as read): orders given to initialize_filtration(Comparator, Ignorer) along which the values are "
        "not monotone; compute_persistent_cohomology called twice on one object; write_output_diagram (same comparator as output_diagram, "
        "which is exercised); negative range bounds of the multi-field",
        "the two forked guards (Multi_field::init alone with 1 s of CPU, output_diagram with 5 s) have budgets 3-4 orders of magnitude above "
        "the cost of a correct run; a correct library never meets them",
        "the filtration order exposed by the complex is checked to be a valid filtration first (C03 / C13 own that property)",
        "diagrams are compared as value multisets including zero-length intervals when min_interval_length < 0, not as cell pairings",
        "cubical handles are bitmap positions (mixed-radix doubled coordinates, first direction fastest); cross-checked per cell through "
        "dimension() and boundary_simplex_range(); periodic sides >= 1 (a side of 1 makes both facets of an edge the same vertex: the "
        "two incidences cancel in the oracle)",
        "non-prime / out-of-range characteristics (config refused) are only required not to cause a memory error or UB; whether they throw is counted, not judged",
        "trusted: oracle/zp_reduce.h, c02_torsion_library.h (validated against closed-form Betti numbers by config lib_selfcheck and inside every "
        "library case over Z_2 and Z_3), c02_cubical_model.h, GMP, libstdc++",
    ],
    "units": [
        _simplicial("st_default", "c02_st_default.cpp", 600, 9000),
        _simplicial("st_fastp", "c02_st_fastp.cpp", 400, 6000),
        _simplicial("st_full", "c02_st_full.cpp", 400, 6000),
        _simplicial("st_key8", "c02_st_key8.cpp", 400, 6000),
        _simplicial("hasse", "c02_hasse.cpp", 400, 6000),
        _simplicial("st_intfv", "c02_st_intfv.cpp", 200, 3000),
        _simplicial("st_keyi8", "c02_st_keyi8.cpp", 300, 4500),
        {"name": "cubical", "src": ["c02_cubical.cpp"], "variant": "asan", "libs": ["-lgmpxx", "-lgmp"], "chunk": 10,
         "configs": {"cub_zp": _cfg(400, 8000), "cub_mf": _cfg(400, 8000)}},
        {"name": "misc", "src": ["c02_misc.cpp"], "variant": "asan", "libs": ["-lgmpxx", "-lgmp"], "chunk": 1,
         "configs": {"lib_selfcheck": _cfg(150, 3000), "bigprime": _cfg(4, 16), "refused": _cfg(24, 240),
                     "mf_ranges": _cfg(60, 900)}},
    ],
    "floors": {"quick": dict(_FLOORS_QUICK), "thorough": {k: 10 * v for k, v in _FLOORS_QUICK.items() if k != "tuple.p46337"}},
    "exhaustive": {"quick": False, "thorough": False},
    "manifest": {
        "text": "Runtime monitor under ASan+UBSan: thousands of filtered complexes (random simplicial complexes, a validated library of torsion "
                "spaces - RP^2, Moore spaces M(Z_m,1), Klein bottle, suspensions, wedges, unions, cone-offs - and cubical grids incl. periodic "
                "ones) are given to Persistent_cohomology through Simplex_tree (6 option sets incl. signed / unsigned 8-bit keys and an int "
                "Filtration_value with negative values; default, tie-re-breaking custom and infinity-ignoring filtration orders), Hasse_complex "
                "(from a tree or read from a stream) and Bitmap_cubical_complex (from top cells or vertices, periodic sides from 1 cell, cells "
                "at +infinity), over Z_p (p = 2..251 and 46337) and over multi-field prime ranges (narrow, wide, above 46337, ending at "
                "INT_MAX), with every combination class of min_interval_length and persistence_dim_max, also after a second init_coefficients "
                "on the same object. The reported pairs are compared, as multisets of (dimension, birth, death), with a "
                "naive textbook column reduction over the same field run on the filtration order the complex itself exposes; in multi-field mode "
                "the comparison is made for every prime of the range through the carried product; Betti numbers, persistent Betti numbers, "
                "per-dimension interval lists and the printed diagram are recounted from the pairs. Held on what was observed, not a proof.",
        "note": "trusted: harness/oracle/zp_reduce.h, harness/c02_pcoh/c02_torsion_library.h (validated against closed-form Betti numbers), "
                "c02_cubical_model.h, GMP; finite dyadic values only; complexes built by insertion only; diagrams compared, not cell pairings",
        "technique": "runtime monitoring: randomized + library inputs, independent Z_p boundary-matrix reduction as oracle, under AddressSanitizer/UBSan",
    },
}

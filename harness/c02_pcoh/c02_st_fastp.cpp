// C02 — Persistent_cohomology over Simplex_tree<Gudhi::Simplex_tree_options_fast_persistence>
#include "c02_simplicial.h"
using namespace c02;
VH_CONFIG("st_fastp_rand_zp", [](vh::Case& c) { run_st_case<Gudhi::Simplex_tree_options_fast_persistence>(c, "st_fastp", "random", false, 0); });
VH_CONFIG("st_fastp_tors_zp", [](vh::Case& c) { run_st_case<Gudhi::Simplex_tree_options_fast_persistence>(c, "st_fastp", "torsion", false, 0); });
VH_CONFIG("st_fastp_rand_mf", [](vh::Case& c) { run_st_case<Gudhi::Simplex_tree_options_fast_persistence>(c, "st_fastp", "random", true, 0); });
VH_CONFIG("st_fastp_tors_mf", [](vh::Case& c) { run_st_case<Gudhi::Simplex_tree_options_fast_persistence>(c, "st_fastp", "torsion", true, 0); });
VH_MAIN()

// C02 — Persistent_cohomology over Bitmap_cubical_complex (both base classes), from random top-cell values.
// (Incidences / values of cubical complexes are C13's subject; here the complex is only cross-checked enough to trust the
//  coordinate model that feeds the independent reduction.)
#include <gudhi/Bitmap_cubical_complex.h>
#include <gudhi/Bitmap_cubical_complex_periodic_boundary_conditions_base.h>
#include "c02_common.h"
#include "c02_cubical_model.h"
using namespace c02;

typedef Gudhi::cubical_complex::Bitmap_cubical_complex_base<double> Base;
typedef Gudhi::cubical_complex::Bitmap_cubical_complex<Base> Plain;
typedef Gudhi::cubical_complex::Bitmap_cubical_complex_periodic_boundary_conditions_base<double> PBase;
typedef Gudhi::cubical_complex::Bitmap_cubical_complex<PBase> Periodic;

template <class Cx>
static void run_on(vh::Case& c, Cx& cx, const c02cub::Grid& G, bool distinct, bool multi, const std::string& sig0, bool with_inf) {
  Exposure E;
  std::vector<std::size_t> handles;
  for (auto sh : cx.filtration_simplex_range()) handles.push_back(sh);
  if (handles.size() != G.ncells || cx.num_simplices() != G.ncells) { c.violation("exposure.complex_differs_from_input", sig0, "number of cells " + vh::str(handles.size()) + " vs model " + vh::str(G.ncells)); return; }
  std::vector<long> pos_of(G.ncells, -1);
  for (size_t k = 0; k < handles.size(); ++k) {
    if (handles[k] >= G.ncells || pos_of[handles[k]] >= 0) { c.violation("exposure.complex_differs_from_input", sig0, "filtration range is not a permutation of the cells"); return; }
    pos_of[handles[k]] = (long)k;
  }
  E.cells.resize(G.ncells); E.vals.resize(G.ncells);
  for (size_t k = 0; k < handles.size(); ++k) {
    std::size_t h = handles[k];
    E.cells[k].dim = G.dim_of(h);
    std::multiset<std::size_t> wb, gb;
    for (auto& f : G.faces(h)) { E.cells[k].bdry.emplace_back((int)pos_of[f.first], (oracle::i64)f.second); wb.insert(f.first); }
    for (auto f : cx.boundary_simplex_range(h)) gb.insert(f);
    E.vals[k] = (double)cx.filtration(h);
    if ((int)cx.dimension(h) != E.cells[k].dim || gb != wb) { c.violation("exposure.cubical_model_mismatch", sig0, "cell " + vh::str(h) + ": dimension or boundary differs from the coordinate model"); return; }
  }
  E.dim = G.d;
  std::string why;
  if (!E.valid(why)) { c.violation("exposure.order_not_a_filtration", sig0, why); return; }
  if ((int)cx.dimension() != E.dim) { c.violation("exposure.dimension", sig0, "dimension()=" + vh::str(cx.dimension())); return; }
  // cells at +infinity: only with min_interval_length >= 0 (what [inf,inf) means for a negative minimum length is left open)
  run_tuples(c, cx, E, nullptr, distinct, multi, sig0, !with_inf);
}

static void run_cubical(vh::Case& c, bool multi) {
  vh::Rng& r = c.rng;
  const bool periodic_class = r.chance(1, 2);
  int d = 1 + (int)r.below(3);
  if (r.chance(1, 12)) d = 4;
  if (r.chance(1, 40)) d = 5;
  const bool vertex_input = r.chance(1, 3);   // values given on the vertices (input_top_cells = false) instead of the top cells
  const bool with_inf = r.chance(1, 6);       // some input values are +infinity ("missing" cells)
  std::vector<int> n(d); std::vector<char> per(d, 0);
  for (;;) {
    size_t cells = 1;
    for (int i = 0; i < d; ++i) {
      per[i] = periodic_class && r.chance(1, 2);
      n[i] = per[i] ? 1 + (int)r.below(4) : 1 + (int)r.below(d >= 5 ? 2 : d == 4 ? 3 : 5);   // periodic sides of 1 and 2 cells included
      cells *= per[i] ? 2 * n[i] : 2 * n[i] + 1;
    }
    if (cells <= 1500) break;
  }
  // sizes of the input: top cells per direction, or vertices per direction (n+1, n in a periodic direction)
  std::vector<unsigned> sizes(d); size_t count = 1;
  for (int i = 0; i < d; ++i) { sizes[i] = vertex_input ? (per[i] ? n[i] : n[i] + 1) : n[i]; count *= sizes[i]; }
  std::vector<double> in(count);
  bool distinct = false;
  int mode = (int)r.below(6);
  if (mode == 0) { std::vector<int> perm(count); for (size_t i = 0; i < count; ++i) perm[i] = (int)i; r.shuffle(perm); for (size_t i = 0; i < count; ++i) in[i] = perm[i]; distinct = false; }
  else { static const int Ls[] = {1, 2, 3, 5, 9}; int L = Ls[mode - 1]; for (auto& v : in) v = 0.5 * (double)r.below(L); }
  bool has_inf = false;
  if (with_inf) { unsigned den = 2 + (unsigned)r.below(6); for (auto& v : in) if (r.chance(1, den)) { v = kInf; has_inf = true; } }
  std::vector<bool> dirs(per.begin(), per.end());
  std::string mask; for (char b : per) mask += b ? '1' : '0';
  c.log(std::string("cubical class=") + (periodic_class ? "periodic" : "plain") + " sizes=" + vh::vstr(n) + " periodic=" + mask +
        (vertex_input ? " vertex_values=" : " top_cells=") + vh::vstr(in));
  c02cub::Grid G(n, per);
  const std::string sig0 = std::string("cx=") + (periodic_class ? "cubical_periodic" : "cubical_plain") + ",src=cubical" + (vertex_input ? ",from_vertices" : "") + (has_inf ? ",infinite_cells" : "");
  c.count(periodic_class ? "complex.cubical_periodic" : "complex.cubical_plain");
  if (std::count(per.begin(), per.end(), (char)1)) c.count("cubical.with_periodic_direction");
  for (int i = 0; i < d; ++i) if (per[i] && n[i] <= 2) { c.count("cubical.periodic_side_" + vh::str(n[i])); }
  if (vertex_input) c.count("cubical.from_vertices");
  if (has_inf) c.count("cubical.with_infinite_cells");
  if (d == 5) c.count("cubical.dim5");
  if (periodic_class) { Periodic cx(sizes, in, dirs, !vertex_input); run_on(c, cx, G, distinct, multi, sig0, has_inf); }
  else { Plain cx(sizes, in, !vertex_input); run_on(c, cx, G, distinct, multi, sig0, has_inf); }
}

VH_CONFIG("cub_zp", [](vh::Case& c) { run_cubical(c, false); });
VH_CONFIG("cub_mf", [](vh::Case& c) { run_cubical(c, true); });
VH_MAIN()

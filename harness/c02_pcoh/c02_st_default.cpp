// C02 — Persistent_cohomology over Simplex_tree<Gudhi::Simplex_tree_options_default>
#include "c02_simplicial.h"
using namespace c02;
VH_CONFIG("st_default_rand_zp", [](vh::Case& c) { run_st_case<Gudhi::Simplex_tree_options_default>(c, "st_default", "random", false, 0); });
VH_CONFIG("st_default_tors_zp", [](vh::Case& c) { run_st_case<Gudhi::Simplex_tree_options_default>(c, "st_default", "torsion", false, 0); });
VH_CONFIG("st_default_rand_mf", [](vh::Case& c) { run_st_case<Gudhi::Simplex_tree_options_default>(c, "st_default", "random", true, 0); });
VH_CONFIG("st_default_tors_mf", [](vh::Case& c) { run_st_case<Gudhi::Simplex_tree_options_default>(c, "st_default", "torsion", true, 0); });
VH_MAIN()

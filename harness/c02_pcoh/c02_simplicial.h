// C02 — Simplex_tree / Hasse_complex side of the monitor.
#ifndef VERIF_C02_SIMPLICIAL_H_
#define VERIF_C02_SIMPLICIAL_H_
#include <gudhi/Simplex_tree.h>
#include <gudhi/Hasse_complex.h>
#include "c02_common.h"

namespace c02 {

struct Opt_key8 : Gudhi::Simplex_tree_options_default {   // 8-bit keys: at most 255 simplices can be numbered
  typedef std::uint8_t Simplex_key;
};

template <class St>
void build_tree(vh::Rng& r, const FModel& M, St& st) {
  typedef typename St::Vertex_handle V;
  typedef typename St::Filtration_value FV;
  const size_t n = M.sx.size();
  std::vector<size_t> ord(n); for (size_t i = 0; i < n; ++i) ord[i] = i;
  r.shuffle(ord);
  if (r.chance(3, 4)) {
    // route A: one simplex at a time, faces first, each with its own value
    std::stable_sort(ord.begin(), ord.end(), [&](size_t a, size_t b) { return M.sx[a].size() < M.sx[b].size(); });
    for (size_t i : ord) { std::vector<V> s(M.sx[i].begin(), M.sx[i].end()); st.insert_simplex(s, (FV)M.val[i]); }
  } else {
    // route B: simplices with all their faces in random order, then the values are assigned one by one
    for (size_t i : ord) { std::vector<V> s(M.sx[i].begin(), M.sx[i].end()); st.insert_simplex_and_subfaces(s, (FV)0); }
    for (size_t i : ord) { std::vector<V> s(M.sx[i].begin(), M.sx[i].end()); st.assign_filtration(st.find(s), (FV)M.val[i]); }
    st.clear_filtration();
  }
}

// reads the exposed filtration order of a Simplex_tree.  `order` receives the vertex words.
template <class St>
bool expose_tree(vh::Case& c, St& st, const FModel& M, Exposure& E, std::vector<Simplex>& order, const std::string& sig0) {
  order.clear(); E.vals.clear();
  for (auto sh : st.filtration_simplex_range()) {
    Simplex s; for (auto v : st.simplex_vertex_range(sh)) s.push_back((long)v);
    std::sort(s.begin(), s.end());
    order.push_back(s); E.vals.push_back((double)st.filtration(sh));
  }
  // the tree must hold exactly the model (it was built by insertions only); otherwise the comparison below is meaningless
  std::map<Simplex, double> got, want;
  for (size_t i = 0; i < order.size(); ++i) got[order[i]] = E.vals[i];
  for (size_t i = 0; i < M.sx.size(); ++i) want[M.sx[i]] = (double)(typename St::Filtration_value)M.val[i];
  if (got != want || order.size() != M.sx.size()) { c.violation("exposure.complex_differs_from_input", sig0, "filtration_simplex_range does not enumerate the inserted complex with its values"); return false; }
  E.cells = oracle::cells_from_simplices(order);
  E.dim = -1; for (auto& cl : E.cells) E.dim = std::max(E.dim, cl.dim);
  std::string why;
  if (!E.valid(why)) { c.violation("exposure.order_not_a_filtration", sig0, why); return false; }
  if ((int)st.dimension() != E.dim) { c.violation("exposure.dimension", sig0, "dimension()=" + vh::str(st.dimension()) + " but the largest simplex has dimension " + vh::str(E.dim)); return false; }
  return true;
}

// key_limit > 0: the key type can number at most key_limit simplices; beyond, the constructor must throw std::out_of_range
template <class Opt>
void run_st_case(vh::Case& c, const std::string& cxname, const std::string& src, bool multi, int key_limit = 0) {
  typedef Gudhi::Simplex_tree<Opt> St;
  vh::Rng& r = c.rng;
  int maxs = key_limit ? (r.chance(1, 6) ? 420 : key_limit - 5) : 1400;
  FModel M = make_model(r, src, Opt::contiguous_vertices, maxs);
  if (key_limit && r.chance(1, 5) && (int)M.sx.size() < key_limit - 3) {
    // pad with isolated vertices to land on the boundary of the key range
    int target = key_limit - 2 + (int)r.below(5);
    long next = 5000;
    while ((int)M.sx.size() < target) { M.sx.push_back({next++}); M.val.push_back(M.val[r.below(M.val.size())]); }
    M.space.known = false; M.desc += " padded_to=" + vh::str(target);
  }
  c.log(show_model(M));
  const std::string sig0 = "cx=" + cxname + ",src=" + src;
  c.count("complex." + cxname);
  St st;
  build_tree(r, M, st);
  Exposure E; std::vector<Simplex> order;
  if (!expose_tree(c, st, M, E, order, sig0)) return;
  if (key_limit && (int)st.num_simplices() > key_limit) {
    c.log("expect std::out_of_range from the constructor (" + vh::str(st.num_simplices()) + " simplices)");
    bool thrown = false;
    try {
      if (multi) { Gudhi::persistent_cohomology::Persistent_cohomology<St, Multi_field> pc(st, r.chance(1, 2)); }
      else { Gudhi::persistent_cohomology::Persistent_cohomology<St, Field_Zp> pc(st, r.chance(1, 2)); }
    } catch (const std::out_of_range&) { thrown = true; }
    c.count("key8.over_limit");
    if (!thrown) { c.violation("key_range.out_of_range_expected", sig0, vh::str(st.num_simplices()) + " simplices accepted with 8-bit keys"); }
    return;
  }
  if (key_limit) { c.count("key8.within_limit"); if ((int)st.num_simplices() >= key_limit - 2) c.count("key8.at_limit"); }
  run_tuples(c, st, E, &M, M.distinct_values, multi, sig0);
}

inline void run_hasse_case(vh::Case& c, const std::string& src, bool multi) {
  typedef Gudhi::Simplex_tree<> St;
  typedef Gudhi::Hasse_complex<> H;
  vh::Rng& r = c.rng;
  FModel M = make_model(r, src, false, 1400);
  c.log(show_model(M));
  const std::string sig0 = "cx=hasse,src=" + src;
  c.count("complex.hasse");
  std::unique_ptr<St> st(new St);
  build_tree(r, M, *st);
  Exposure E; std::vector<Simplex> order;
  if (!expose_tree(c, *st, M, E, order, sig0)) return;
  // documented precondition of the conversion: key(sh) is the rank of sh in the filtration
  int cnt = 0;
  for (auto sh : st->filtration_simplex_range()) st->assign_key(sh, cnt++);
  c.log("Hasse_complex(simplex tree with keys in filtration order); simplex tree destroyed");
  H h(*st);
  st.reset();
  // what the Hasse complex exposes: handles 0..n-1 in order; cell k is the k-th simplex of the tree
  std::vector<double> tree_vals = E.vals;
  if (h.num_simplices() != E.cells.size()) { c.violation("hasse.structure", sig0 + ",num_simplices", "num_simplices " + vh::str(h.num_simplices())); return; }
  size_t k = 0;
  for (auto sh : h.filtration_simplex_range()) {
    if ((size_t)sh != k) { c.violation("hasse.structure", sig0 + ",filtration_range", "k-th handle is not k"); return; }
    E.vals[k] = (double)h.filtration(sh);
    std::multiset<int> gb, wb;
    for (auto f : h.boundary_simplex_range(sh)) gb.insert((int)f);
    for (auto& f : E.cells[k].bdry) wb.insert(f.first);
    if (h.dimension(sh) != E.cells[k].dim || gb != wb || E.vals[k] != tree_vals[k]) {
      c.violation("hasse.structure", sig0 + ",cell_differs", "cell " + vh::str(k) + " " + oracle::show(order[k]) + ": dimension / boundary / value differ from the simplex it was built from");
      return;
    }
    ++k;
  }
  c.count("cmp.hasse_structure");
  if (h.dimension() != E.dim) { c.violation("exposure.dimension", sig0, "Hasse dimension()=" + vh::str(h.dimension())); return; }
  run_tuples(c, h, E, &M, M.distinct_values, multi, sig0);
}

}  // namespace c02
#endif

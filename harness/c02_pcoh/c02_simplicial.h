// C02 — Simplex_tree / Hasse_complex side of the monitor.
#ifndef VERIF_C02_SIMPLICIAL_H_
#define VERIF_C02_SIMPLICIAL_H_
#include <gudhi/Simplex_tree.h>
#include <gudhi/Hasse_complex.h>
#include "c02_common.h"

namespace c02 {

struct Opt_key8 : Gudhi::Simplex_tree_options_default {   // 8-bit keys: at most 255 simplices can be numbered
  typedef std::uint8_t Simplex_key;
};
struct Opt_keyi8 : Gudhi::Simplex_tree_options_default {  // signed 8-bit keys (null_key = -1): at most 127 simplices
  typedef std::int8_t Simplex_key;
};
struct Opt_intfv : Gudhi::Simplex_tree_options_default {  // integral filtration values: no infinity, filtration(null_simplex()) = INT_MAX
  typedef int Filtration_value;
};

template <class St>
void build_tree(vh::Rng& r, const FModel& M, St& st) {
  typedef typename St::Vertex_handle V;
  typedef typename St::Filtration_value FV;
  const size_t n = M.sx.size();
  std::vector<size_t> ord(n); for (size_t i = 0; i < n; ++i) ord[i] = i;
  r.shuffle(ord);
  if (r.chance(3, 4)) {
    // route A: one simplex at a time, faces first, each with its own value
    std::stable_sort(ord.begin(), ord.end(), [&](size_t a, size_t b) { return M.sx[a].size() < M.sx[b].size(); });
    for (size_t i : ord) { std::vector<V> s(M.sx[i].begin(), M.sx[i].end()); st.insert_simplex(s, (FV)M.val[i]); }
  } else {
    // route B: simplices with all their faces in random order, then the values are assigned one by one
    for (size_t i : ord) { std::vector<V> s(M.sx[i].begin(), M.sx[i].end()); st.insert_simplex_and_subfaces(s, (FV)0); }
    for (size_t i : ord) { std::vector<V> s(M.sx[i].begin(), M.sx[i].end()); st.assign_filtration(st.find(s), (FV)M.val[i]); }
    st.clear_filtration();
  }
}

// reads the exposed filtration order of a Simplex_tree.  `order` receives the vertex words.
// ignore_inf: the filtration was initialised with ignore_infinite_values = true, the simplices at +infinity must be absent from it
template <class St>
bool expose_tree(vh::Case& c, St& st, const FModel& M, Exposure& E, std::vector<Simplex>& order, const std::string& sig0, bool ignore_inf = false) {
  order.clear(); E.vals.clear();
  for (auto sh : st.filtration_simplex_range()) {
    Simplex s; for (auto v : st.simplex_vertex_range(sh)) s.push_back((long)v);
    std::sort(s.begin(), s.end());
    order.push_back(s); E.vals.push_back((double)st.filtration(sh));
  }
  // the tree must hold exactly the model (it was built by insertions only); otherwise the comparison below is meaningless
  std::map<Simplex, double> got, want;
  for (size_t i = 0; i < order.size(); ++i) got[order[i]] = E.vals[i];
  for (size_t i = 0; i < M.sx.size(); ++i) if (!(ignore_inf && M.val[i] == kInf)) want[M.sx[i]] = (double)(typename St::Filtration_value)M.val[i];
  if (got != want || order.size() != want.size()) { c.violation("exposure.complex_differs_from_input", sig0, "filtration_simplex_range does not enumerate the inserted complex (minus the ignored simplices) with its values"); return false; }
  if (st.num_simplices() != M.sx.size()) { c.violation("exposure.complex_differs_from_input", sig0, "num_simplices() differs from the number of inserted simplices"); return false; }
  E.cells = oracle::cells_from_simplices(order);
  // dimension of the COMPLEX (what persistence_dim_max refers to), ignored simplices included
  E.dim = M.dim();
  std::string why;
  if (!E.valid(why)) { c.violation("exposure.order_not_a_filtration", sig0, why); return false; }
  if ((int)st.dimension() != E.dim) { c.violation("exposure.dimension", sig0, "dimension()=" + vh::str(st.dimension()) + " but the largest simplex has dimension " + vh::str(E.dim)); return false; }
  return true;
}

// An order of the simplices that differs from the default one ONLY among simplices of equal value and equal dimension (random
// instead of reverse lexicographic): values stay non-decreasing along it and faces stay before cofaces, as
// initialize_filtration(Comparator, Ignorer) requires.  (Orders whose values are not monotone are outside the property.)
template <class St>
void custom_tie_order(vh::Rng& r, St& st) {
  typedef typename St::Simplex_handle SH;
  std::map<Simplex, uint64_t> tb;
  auto word = [&](SH a) { Simplex w; for (auto v : st.simplex_vertex_range(a)) w.push_back((long)v); std::sort(w.begin(), w.end()); return w; };
  for (auto sh : st.complex_simplex_range()) tb[word(sh)] = r.next();
  auto cmp = [&](SH a, SH b) {
    if (!(st.filtration(a) == st.filtration(b))) return st.filtration(a) < st.filtration(b);
    int da = st.dimension(a), db = st.dimension(b); if (da != db) return da < db;
    Simplex wa = word(a), wb = word(b);
    uint64_t ta = tb[wa], tc = tb[wb]; if (ta != tc) return ta < tc;
    return wa < wb;
  };
  st.initialize_filtration(cmp, [](SH) { return false; });
}

// key_limit > 0: the key type can number at most key_limit simplices; beyond, the constructor must throw std::out_of_range
template <class Opt>
void run_st_case(vh::Case& c, const std::string& cxname, const std::string& src, bool multi, int key_limit = 0) {
  typedef Gudhi::Simplex_tree<Opt> St;
  typedef typename St::Filtration_value FV;
  vh::Rng& r = c.rng;
  const std::string kname = key_limit == 127 ? "keyi8" : "key8";
  int maxs = key_limit ? (r.chance(1, 6) ? 420 : key_limit - 5) : 1400;
  FModel M = make_model(r, src, Opt::contiguous_vertices, maxs);
  if (key_limit && r.chance(1, 5) && (int)M.sx.size() < key_limit - 3) {
    // pad with isolated vertices to land on the boundary of the key range
    int target = key_limit - 2 + (int)r.below(5);
    long next = 5000;
    while ((int)M.sx.size() < target) { M.sx.push_back({next++}); M.val.push_back(M.val[r.below(M.val.size())]); }
    M.space.known = false; M.desc += " padded_to=" + vh::str(target);
  }
  // how the filtration order is obtained: 0 default, 1 custom comparator that re-breaks ties, 2 some simplices (with their cofaces)
  // at +infinity and initialize_filtration(ignore_infinite_values = true)
  int order_mode = 0;
  if (r.chance(1, 8)) order_mode = 1;
  else if (std::numeric_limits<FV>::has_infinity && r.chance(1, 7)) order_mode = 2;
  if (!std::numeric_limits<FV>::has_infinity) {
    // integral Filtration_value: the model's values are multiples of 1/2; make them integers and, half of the time, partly or all negative
    static const std::vector<int> offs = {0, 0, 3, 5, -1, -3, -8, -1000};
    int off = r.pick(offs);
    for (auto& v : M.val) v = 2 * v + off;
    M.desc += " values:=2*v+" + vh::str(off);
    bool neg = false; for (auto v : M.val) if (v < 0) neg = true;
    if (neg) c.count("intfv.with_negative_values");
  }
  if (order_mode == 2) {
    std::map<Simplex, size_t> pos; for (size_t i = 0; i < M.sx.size(); ++i) pos[M.sx[i]] = i;
    std::vector<size_t> by_dim(M.sx.size()); for (size_t i = 0; i < by_dim.size(); ++i) by_dim[i] = i;
    std::stable_sort(by_dim.begin(), by_dim.end(), [&](size_t a, size_t b) { return M.sx[a].size() < M.sx[b].size(); });
    unsigned den = 2 + (unsigned)r.below(12); size_t ninf = 0;
    for (size_t i : by_dim) {
      const Simplex& sx = M.sx[i];
      if (sx.size() == 1) continue;                     // vertices stay finite
      bool inf = r.chance(1, den);
      for (size_t k = 0; k < sx.size() && !inf; ++k) { Simplex f; for (size_t t = 0; t < sx.size(); ++t) if (t != k) f.push_back(sx[t]); if (M.val[pos[f]] == kInf) inf = true; }
      if (inf) { M.val[i] = kInf; ++ninf; }
    }
    M.desc += " infinite_simplices=" + vh::str(ninf);
    if (ninf) { M.space.known = false; M.distinct_values = false; c.count("order.ignore_infinite.with_ignored_simplices"); }
  }
  c.log(show_model(M));
  const std::string sig0 = "cx=" + cxname + ",src=" + src + (order_mode == 1 ? ",order=custom_ties" : order_mode == 2 ? ",order=ignore_infinite" : "");
  c.count("complex." + cxname);
  St st;
  build_tree(r, M, st);
  if (order_mode == 1) { c.log("initialize_filtration(comparator: value, dimension, random tie-break; nothing ignored)"); custom_tie_order(r, st); c.count("order.custom_ties"); }
  if (order_mode == 2) { c.log("initialize_filtration(ignore_infinite_values = true)"); st.initialize_filtration(true); c.count("order.ignore_infinite"); }
  Exposure E; std::vector<Simplex> order;
  if (!expose_tree(c, st, M, E, order, sig0, order_mode == 2)) return;
  if (order_mode == 1) {
    // did the custom order really differ from the default one?  (informative)
    St st2(st); st2.initialize_filtration();
    size_t k = 0; bool differs = false;
    for (auto sh : st2.filtration_simplex_range()) { Simplex w; for (auto v : st2.simplex_vertex_range(sh)) w.push_back((long)v); std::sort(w.begin(), w.end()); if (k >= order.size() || w != order[k]) differs = true; ++k; }
    if (differs) c.count("order.custom_ties.differs_from_default");
  }
  if (key_limit && (int)st.num_simplices() > key_limit) {
    c.log("expect std::out_of_range from the constructor (" + vh::str(st.num_simplices()) + " simplices)");
    bool thrown = false;
    try {
      if (multi) { Gudhi::persistent_cohomology::Persistent_cohomology<St, Multi_field> pc(st, r.chance(1, 2)); }
      else { Gudhi::persistent_cohomology::Persistent_cohomology<St, Field_Zp> pc(st, r.chance(1, 2)); }
    } catch (const std::out_of_range&) { thrown = true; }
    c.count(kname + ".over_limit");
    if (!thrown) { c.violation("key_range.out_of_range_expected", sig0, vh::str(st.num_simplices()) + " simplices accepted with 8-bit keys"); }
    return;
  }
  if (key_limit) { c.count(kname + ".within_limit"); if ((int)st.num_simplices() >= key_limit - 2) c.count(kname + ".at_limit"); }
  run_tuples(c, st, E, &M, M.distinct_values, multi, sig0);
}

inline void run_hasse_case(vh::Case& c, const std::string& src, bool multi) {
  typedef Gudhi::Simplex_tree<> St;
  typedef Gudhi::Hasse_complex<> H;
  vh::Rng& r = c.rng;
  FModel M = make_model(r, src, false, 1400);
  c.log(show_model(M));
  const std::string sig0 = "cx=hasse,src=" + src;
  c.count("complex.hasse");
  std::unique_ptr<St> st(new St);
  build_tree(r, M, *st);
  Exposure E; std::vector<Simplex> order;
  if (!expose_tree(c, *st, M, E, order, sig0)) return;
  std::unique_ptr<H> hp;
  if (r.chance(1, 3)) {
    // route 2: the text format read by operator>> : number of cells, then per cell "dim  positions of the facets  value"
    std::ostringstream os; os.precision(17);
    os << E.cells.size() << "\n";
    for (size_t k = 0; k < E.cells.size(); ++k) {
      os << E.cells[k].dim;
      for (auto& f : E.cells[k].bdry) os << " " << f.first;
      os << " " << E.vals[k] << "\n";
    }
    c.log("Hasse_complex read by operator>> from a stream (cells in the filtration order of the tree); simplex tree destroyed");
    c.count("hasse.from_stream");
    std::istringstream is(os.str());
    hp.reset(new H);
    is >> *hp;
  } else {
    // route 1; documented precondition of the conversion: key(sh) is the rank of sh in the filtration
    int cnt = 0;
    for (auto sh : st->filtration_simplex_range()) st->assign_key(sh, cnt++);
    c.log("Hasse_complex(simplex tree with keys in filtration order); simplex tree destroyed");
    c.count("hasse.from_tree");
    hp.reset(new H(*st));
  }
  H& h = *hp;
  st.reset();
  // what the Hasse complex exposes: handles 0..n-1 in order; cell k is the k-th simplex of the tree
  std::vector<double> tree_vals = E.vals;
  if (h.num_simplices() != E.cells.size()) { c.violation("hasse.structure", sig0 + ",num_simplices", "num_simplices " + vh::str(h.num_simplices())); return; }
  size_t k = 0;
  for (auto sh : h.filtration_simplex_range()) {
    if ((size_t)sh != k) { c.violation("hasse.structure", sig0 + ",filtration_range", "k-th handle is not k"); return; }
    E.vals[k] = (double)h.filtration(sh);
    std::multiset<int> gb, wb;
    for (auto f : h.boundary_simplex_range(sh)) gb.insert((int)f);
    for (auto& f : E.cells[k].bdry) wb.insert(f.first);
    if (h.dimension(sh) != E.cells[k].dim || gb != wb || E.vals[k] != tree_vals[k]) {
      c.violation("hasse.structure", sig0 + ",cell_differs", "cell " + vh::str(k) + " " + oracle::show(order[k]) + ": dimension / boundary / value differ from the simplex it was built from");
      return;
    }
    ++k;
  }
  c.count("cmp.hasse_structure");
  if (h.dimension() != E.dim) { c.violation("exposure.dimension", sig0, "Hasse dimension()=" + vh::str(h.dimension())); return; }
  run_tuples(c, h, E, &M, M.distinct_values, multi, sig0);
}

}  // namespace c02
#endif

// C02 — Persistent_cohomology over Hasse_complex<> built from a Simplex_tree whose keys are the filtration ranks
#include "c02_simplicial.h"
using namespace c02;
VH_CONFIG("hasse_rand_zp", [](vh::Case& c) { run_hasse_case(c, "random", false); });
VH_CONFIG("hasse_tors_zp", [](vh::Case& c) { run_hasse_case(c, "torsion", false); });
VH_CONFIG("hasse_rand_mf", [](vh::Case& c) { run_hasse_case(c, "random", true); });
VH_CONFIG("hasse_tors_mf", [](vh::Case& c) { run_hasse_case(c, "torsion", true); });
VH_MAIN()

// C02 — Persistent_cohomology over Simplex_tree<Gudhi::Simplex_tree_options_full_featured>
#include "c02_simplicial.h"
using namespace c02;
VH_CONFIG("st_full_rand_zp", [](vh::Case& c) { run_st_case<Gudhi::Simplex_tree_options_full_featured>(c, "st_full", "random", false, 0); });
VH_CONFIG("st_full_tors_zp", [](vh::Case& c) { run_st_case<Gudhi::Simplex_tree_options_full_featured>(c, "st_full", "torsion", false, 0); });
VH_CONFIG("st_full_rand_mf", [](vh::Case& c) { run_st_case<Gudhi::Simplex_tree_options_full_featured>(c, "st_full", "random", true, 0); });
VH_CONFIG("st_full_tors_mf", [](vh::Case& c) { run_st_case<Gudhi::Simplex_tree_options_full_featured>(c, "st_full", "torsion", true, 0); });
VH_MAIN()

// C02 — Persistent_cohomology over a Simplex_tree whose Filtration_value is int (no infinity; negative values included)
#include "c02_simplicial.h"
using namespace c02;
VH_CONFIG("st_intfv_rand_zp", [](vh::Case& c) { run_st_case<Opt_intfv>(c, "st_intfv", "random", false, 0); });
VH_CONFIG("st_intfv_tors_zp", [](vh::Case& c) { run_st_case<Opt_intfv>(c, "st_intfv", "torsion", false, 0); });
VH_CONFIG("st_intfv_rand_mf", [](vh::Case& c) { run_st_case<Opt_intfv>(c, "st_intfv", "random", true, 0); });
VH_CONFIG("st_intfv_tors_mf", [](vh::Case& c) { run_st_case<Opt_intfv>(c, "st_intfv", "torsion", true, 0); });
VH_MAIN()

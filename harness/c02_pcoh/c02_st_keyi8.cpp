// C02 — Persistent_cohomology over Simplex_tree<Opt_keyi8> (signed 8-bit Simplex_key: at most 127 simplices, null_key = -1)
#include "c02_simplicial.h"
using namespace c02;
VH_CONFIG("st_keyi8_rand_zp", [](vh::Case& c) { run_st_case<Opt_keyi8>(c, "st_keyi8", "random", false, 127); });
VH_CONFIG("st_keyi8_tors_zp", [](vh::Case& c) { run_st_case<Opt_keyi8>(c, "st_keyi8", "torsion", false, 127); });
VH_CONFIG("st_keyi8_rand_mf", [](vh::Case& c) { run_st_case<Opt_keyi8>(c, "st_keyi8", "random", true, 127); });
VH_CONFIG("st_keyi8_tors_mf", [](vh::Case& c) { run_st_case<Opt_keyi8>(c, "st_keyi8", "torsion", true, 127); });
VH_MAIN()

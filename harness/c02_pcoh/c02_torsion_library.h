// C02 — library of programmatic triangulations with prescribed (torsion) homology.  No GUDHI header.
//
// Every Space carries its INTEGRAL homology as closed-form data (free ranks and torsion coefficients per dimension);
// Betti numbers over Z_p follow from the universal coefficient theorem:
//     b_k(Z_p) = free[k] + #{t in tors[k] : p | t} + #{t in tors[k-1] : p | t}.
// The library is validated against oracle::betti (config lib_selfcheck and, again, inside every torsion case).
#ifndef VERIF_C02_TORSION_LIBRARY_H_
#define VERIF_C02_TORSION_LIBRARY_H_
#include "oracle/zp_reduce.h"
#include <set>
#include <string>
#include <vector>
#include <algorithm>

namespace tl {

typedef oracle::Simplex Simplex;

struct Space {
  std::string name;
  std::set<Simplex> sx;                 // closed under faces, vertex labels 0..nv-1
  bool known = true;                    // closed-form homology below is valid
  std::vector<int> free;                // free[k] = rank of the free part of H_k
  std::vector<std::vector<int>> tors;   // tors[k] = torsion coefficients of H_k
  int nv() const { int n = 0; for (auto& s : sx) if (s.size() == 1) n = std::max(n, (int)s[0] + 1); return n; }
  int dim() const { int d = -1; for (auto& s : sx) d = std::max(d, (int)s.size() - 1); return d; }
  void fit() { int d = dim(); free.resize(d + 1, 0); tors.resize(d + 1); }
};

inline void add_closed(std::set<Simplex>& sx, Simplex s) {
  std::sort(s.begin(), s.end());
  s.erase(std::unique(s.begin(), s.end()), s.end());
  for (unsigned m = 1; m < (1u << s.size()); ++m) {
    Simplex f;
    for (size_t t = 0; t < s.size(); ++t) if (m >> t & 1) f.push_back(s[t]);
    sx.insert(f);
  }
}

inline Space from_facets(const std::string& name, const std::vector<Simplex>& facets, std::vector<int> free,
                         std::vector<std::vector<int>> tors) {
  Space S; S.name = name;
  for (auto& f : facets) add_closed(S.sx, f);
  S.free = free; S.tors = tors; S.fit();
  return S;
}

// boundary of the (d+1)-simplex = S^d   (d >= 0; S^0 = two points)
inline Space sphere(int d) {
  std::vector<Simplex> facets;
  for (int k = 0; k <= d + 1; ++k) { Simplex f; for (int v = 0; v <= d + 1; ++v) if (v != k) f.push_back(v); facets.push_back(f); }
  std::vector<int> free(d + 1, 0);
  if (d == 0) free[0] = 2; else { free[0] = 1; free[d] = 1; }
  return from_facets("S" + std::to_string(d), facets, free, {});
}

inline Space point() { return from_facets("pt", {{0}}, {1}, {}); }

// the 6-vertex real projective plane: H = (Z, Z_2, 0)
inline Space rp2() {
  return from_facets("RP2", {{0,1,2},{0,2,3},{0,3,4},{0,4,5},{0,1,5},{1,2,4},{2,3,5},{1,3,4},{2,4,5},{1,3,5}}, {1, 0, 0}, {{}, {2}, {}});
}

// Moore space M(Z_m, 1): a disk whose boundary (a 3m-gon) is wrapped m times around the 3-cycle a0 a1 a2.
// Made simplicial by a ring of 3m fresh vertices r_j and a centre c: 3m+4 vertices, 9m triangles.  H = (Z, Z_m, 0).
inline Space moore(int m) {
  std::vector<Simplex> facets;
  const int R = 3 * m;
  auto a = [](int j) { return (long)(j % 3); };
  auto r = [R](int j) { return (long)(3 + (j % R)); };
  const long c = 3 + R;
  for (int j = 0; j < R; ++j) {
    facets.push_back({a(j), a(j + 1), r(j)});
    facets.push_back({a(j + 1), r(j), r(j + 1)});
    facets.push_back({r(j), r(j + 1), c});
  }
  std::vector<std::vector<int>> tors = {{}, {}, {}};
  if (m > 1) tors[1].push_back(m);
  return from_facets("M" + std::to_string(m), facets, {1, 0, 0}, tors);
}

// n x m grid of squares on a cylinder, closed up straight (torus) or with a flip (Klein bottle)
inline Space grid_surface(int n, int m, bool flip) {
  auto id = [&](int i, int j) -> long {
    // (i, j + m) ~ (flip ? -i : i, j) ; (i + n, j) ~ (i, j)
    while (j >= m) { j -= m; if (flip) i = -i; }
    i = ((i % n) + n) % n;
    return (long)(j * n + i);
  };
  std::vector<Simplex> facets;
  for (int i = 0; i < n; ++i)
    for (int j = 0; j < m; ++j) {
      facets.push_back({id(i, j), id(i + 1, j), id(i + 1, j + 1)});
      facets.push_back({id(i, j), id(i, j + 1), id(i + 1, j + 1)});
    }
  if (flip) return from_facets("Klein", facets, {1, 1, 0}, {{}, {2}, {}});
  return from_facets("Torus", facets, {1, 2, 1}, {});
}
inline Space klein() { return grid_surface(4, 4, true); }
inline Space torus() { return grid_surface(3, 3, false); }

// ------------------------------------------------------------------------------------------------ operations
inline Space suspension(const Space& X) {
  Space S; S.name = "Susp(" + X.name + ")"; S.known = X.known;
  const long N = X.nv(), Sp = X.nv() + 1;
  S.sx = X.sx;
  S.sx.insert({N}); S.sx.insert({Sp});
  for (auto& s : X.sx) { Simplex a = s; a.push_back(N); S.sx.insert(a); Simplex b = s; b.push_back(Sp); S.sx.insert(b); }
  const int d = X.dim();
  S.free.assign(d + 2, 0); S.tors.assign(d + 2, {});
  S.free[0] = 1;
  for (int k = 0; k <= d; ++k) {
    S.free[k + 1] = (k < (int)X.free.size() ? X.free[k] : 0) - (k == 0 ? 1 : 0);
    if (k < (int)X.tors.size()) S.tors[k + 1] = X.tors[k];
  }
  return S;
}

// B relabelled by v -> v + shift, except (when glue >= 0) vertex 0 of B -> vertex `glue` of A
inline void relabel_into(std::set<Simplex>& out, const Space& B, long shift, long glue) {
  for (auto& s : B.sx) {
    Simplex t;
    for (long v : s) t.push_back((glue >= 0 && v == 0) ? glue : v + shift);
    std::sort(t.begin(), t.end());
    out.insert(t);
  }
}

inline Space wedge(const Space& A, const Space& B) {
  Space S; S.name = "Wedge(" + A.name + "," + B.name + ")"; S.known = A.known && B.known;
  S.sx = A.sx;
  relabel_into(S.sx, B, A.nv() - 1, 0);
  const int d = std::max(A.dim(), B.dim());
  S.free.assign(d + 1, 0); S.tors.assign(d + 1, {});
  for (int k = 0; k <= d; ++k) {
    int fa = k < (int)A.free.size() ? A.free[k] : 0, fb = k < (int)B.free.size() ? B.free[k] : 0;
    S.free[k] = fa + fb - (k == 0 ? 1 : 0);
    if (k < (int)A.tors.size()) for (int t : A.tors[k]) S.tors[k].push_back(t);
    if (k < (int)B.tors.size()) for (int t : B.tors[k]) S.tors[k].push_back(t);
  }
  return S;
}

inline Space disjoint(const Space& A, const Space& B) {
  Space S; S.name = "Union(" + A.name + "," + B.name + ")"; S.known = A.known && B.known;
  S.sx = A.sx;
  relabel_into(S.sx, B, A.nv(), -1);
  const int d = std::max(A.dim(), B.dim());
  S.free.assign(d + 1, 0); S.tors.assign(d + 1, {});
  for (int k = 0; k <= d; ++k) {
    S.free[k] = (k < (int)A.free.size() ? A.free[k] : 0) + (k < (int)B.free.size() ? B.free[k] : 0);
    if (k < (int)A.tors.size()) for (int t : A.tors[k]) S.tors[k].push_back(t);
    if (k < (int)B.tors.size()) for (int t : B.tors[k]) S.tors[k].push_back(t);
  }
  return S;
}

// cone over the subcomplex generated by `base` (a set of simplices of X); the apex is vertex X.nv().
// full = true  <=> base is all of X (then the result is contractible); otherwise the homology is not given in closed form.
inline Space cone_over(const Space& X, const std::set<Simplex>& base, bool full) {
  Space S; S.name = std::string(full ? "Cone(" : "PartialCone(") + X.name + ")";
  const long apex = X.nv();
  S.sx = X.sx;
  S.sx.insert({apex});
  std::set<Simplex> closed;
  for (auto& s : base) add_closed(closed, s);
  for (auto& s : closed) { Simplex a = s; a.push_back(apex); S.sx.insert(a); }
  if (full) { S.known = true; S.free.assign(S.dim() + 1, 0); S.free[0] = 1; S.tors.assign(S.dim() + 1, {}); }
  else { S.known = false; S.fit(); }
  return S;
}

// Betti numbers over Z_p by the universal coefficient theorem
inline std::vector<int> betti_uct(const Space& S, long p) {
  const int d = S.dim();
  std::vector<int> b(d + 1, 0);
  for (int k = 0; k <= d; ++k) {
    b[k] = k < (int)S.free.size() ? S.free[k] : 0;
    if (k < (int)S.tors.size()) for (int t : S.tors[k]) if (t % p == 0) b[k]++;
    if (k >= 1 && k - 1 < (int)S.tors.size()) for (int t : S.tors[k - 1]) if (t % p == 0) b[k]++;
  }
  return b;
}

// a list of cells (dimension-sorted order is a valid filtration) for oracle::betti
inline std::vector<oracle::Cell> cells_of(const Space& S) {
  std::vector<Simplex> order(S.sx.begin(), S.sx.end());
  std::stable_sort(order.begin(), order.end(), [](const Simplex& a, const Simplex& b) { return a.size() < b.size(); });
  return oracle::cells_from_simplices(order);
}

// structural sanity of a Space: closed under faces, labels contiguous
inline bool well_formed(const Space& S) {
  std::set<long> vs;
  for (auto& s : S.sx) {
    if (s.empty() || !std::is_sorted(s.begin(), s.end()) || std::adjacent_find(s.begin(), s.end()) != s.end()) return false;
    if (s.size() == 1) vs.insert(s[0]);
    if (s.size() > 1)
      for (size_t k = 0; k < s.size(); ++k) { Simplex f; for (size_t t = 0; t < s.size(); ++t) if (t != k) f.push_back(s[t]); if (!S.sx.count(f)) return false; }
  }
  long i = 0; for (long v : vs) if (v != i++) return false;
  return true;
}

// closed pseudo-surface test used for the grid surfaces: every edge lies in exactly two triangles
inline bool every_edge_in_two_triangles(const Space& S) {
  std::map<Simplex, int> cnt;
  for (auto& s : S.sx) if (s.size() == 3) for (int k = 0; k < 3; ++k) { Simplex e; for (int t = 0; t < 3; ++t) if (t != k) e.push_back(s[t]); cnt[e]++; }
  for (auto& s : S.sx) if (s.size() == 2 && cnt[s] != 2) return false;
  return true;
}

inline std::vector<Space> atoms() {
  std::vector<Space> v = {rp2(), klein(), torus(), sphere(1), sphere(2), sphere(0)};
  for (int m = 2; m <= 7; ++m) v.push_back(moore(m));
  return v;
}

}  // namespace tl
#endif

// C02 — minimal independent model of a (partially periodic) cubical grid: cell <-> doubled coordinates, signed faces.
// No GUDHI header.  (The dedicated cubical check is C13; this is only what C02 needs to feed oracle::reduce.)
//
// direction i with n_i top cells: non-periodic -> doubled coordinate x_i in [0, 2 n_i]; periodic -> x_i in Z/(2 n_i).
// even x_i = vertex, odd x_i = edge.  dimension = number of odd coordinates.  position in the bitmap = mixed-radix number
// of the tuple, first direction fastest (the documented order of the input).  Faces: move ONE odd coordinate by -1 / +1;
// sign by the product orientation  side * (-1)^(number of odd coordinates before that direction).
#ifndef VERIF_C02_CUBICAL_MODEL_H_
#define VERIF_C02_CUBICAL_MODEL_H_
#include <vector>
#include <cstddef>
#include <utility>

namespace c02cub {

struct Grid {
  int d = 0;
  std::vector<int> n, ext;
  std::vector<char> per;
  std::size_t ncells = 1;
  Grid(const std::vector<int>& n_, const std::vector<char>& per_) : d((int)n_.size()), n(n_), per(per_) {
    for (int i = 0; i < d; ++i) { ext.push_back(per[i] ? 2 * n[i] : 2 * n[i] + 1); ncells *= (std::size_t)ext[i]; }
  }
  std::vector<int> coord(std::size_t idx) const {
    std::vector<int> c(d);
    for (int i = 0; i < d; ++i) { c[i] = (int)(idx % (std::size_t)ext[i]); idx /= (std::size_t)ext[i]; }
    return c;
  }
  std::size_t index(const std::vector<int>& c) const {
    std::size_t idx = 0, mul = 1;
    for (int i = 0; i < d; ++i) { idx += (std::size_t)c[i] * mul; mul *= (std::size_t)ext[i]; }
    return idx;
  }
  int dim_of(std::size_t idx) const { int k = 0; for (int x : coord(idx)) k += x & 1; return k; }
  // (position of the face, sign)
  std::vector<std::pair<std::size_t, int>> faces(std::size_t idx) const {
    std::vector<std::pair<std::size_t, int>> out;
    std::vector<int> c = coord(idx);
    int rank = 0;
    for (int i = 0; i < d; ++i) if (c[i] & 1) {
      for (int s = -1; s <= 1; s += 2) {
        std::vector<int> f = c;
        int y = c[i] + s;
        if (per[i]) y = ((y % ext[i]) + ext[i]) % ext[i];
        f[i] = y;
        out.emplace_back(index(f), s * (rank % 2 ? -1 : 1));
      }
      ++rank;
    }
    return out;
  }
};

}  // namespace c02cub
#endif

// C02 — Persistent cohomology returns the true persistence pairs for every field.
// Shared monitor, templated on the complex type.  The oracle is oracle::reduce (textbook column reduction over Z_p) run
// on the cells listed in the filtration order THE COMPLEX ITSELF EXPOSES, so no tie-break can matter.
#ifndef VERIF_C02_COMMON_H_
#define VERIF_C02_COMMON_H_

#include <gudhi/Persistent_cohomology.h>
#include <gudhi/Persistent_cohomology/Multi_field.h>

#include "common/vh.h"
#include "oracle/zp_reduce.h"
#include "c02_torsion_library.h"

#include <cerrno>
#include <climits>
#include <cmath>
#include <memory>
#include <sstream>
#include <stdexcept>
#include <type_traits>
#include <sys/time.h>
#include <sys/wait.h>
#include <unistd.h>

namespace c02 {

using oracle::Simplex;
using oracle::Cell;
using oracle::Bar;
using oracle::Interval;
using oracle::i64;
typedef Gudhi::persistent_cohomology::Field_Zp Field_Zp;
typedef Gudhi::persistent_cohomology::Multi_field Multi_field;

const double kInf = std::numeric_limits<double>::infinity();

// double -> Filtration_value; a Filtration_value without infinity (integers) uses its extreme values instead, as the complexes do
template <class FV> FV to_fv(double x) {
  if (!std::numeric_limits<FV>::has_infinity) {
    if (x == kInf) return std::numeric_limits<FV>::max();
    if (x == -kInf) return std::numeric_limits<FV>::lowest();
  }
  return (FV)x;
}
// the "death value" of a never-ending interval in the complex' Filtration_value: +infinity, or the largest value of a type without one
template <class FV> double essential_death() {
  return std::numeric_limits<FV>::has_infinity ? kInf : (double)std::numeric_limits<FV>::max();
}

// ------------------------------------------------------------------------------------------------ guarded execution
// Runs fn() in a forked copy of the process with a CPU-time budget, for the two situations where the failure mode of the library
// is "never returns" or "undefined behaviour that kills the process" and the harness wants ONE classified violation per case
// instead of a watchdog hang / a shard restart.  The budget is 3-4 orders of magnitude above the cost of a correct run (the
// guarded calls take microseconds to milliseconds), so it never decides a verdict on a correct library.  The child writes nothing
// to the evidence file; its sanitizer report, if any, goes to the shard's stderr.
struct Guarded { enum Kind { ok, timeout, died } kind = ok; int sig = 0; };
template <class F>
Guarded guarded(F fn, int cpu_ms) {
  fflush(stdout); fflush(stderr);
  pid_t pid = fork();
  if (pid < 0) throw std::runtime_error("fork failed");
  if (pid == 0) {
    vh::G().cur_case = -1;                   // (the fatal-signal hook of vh.h must not write a history record from the child)
    signal(SIGVTALRM, SIG_DFL); signal(SIGALRM, SIG_DFL);
    struct itimerval tv; memset(&tv, 0, sizeof tv);
    tv.it_value.tv_sec = cpu_ms / 1000; tv.it_value.tv_usec = (cpu_ms % 1000) * 1000;
    setitimer(ITIMER_VIRTUAL, &tv, nullptr); // CPU time of the child only
    alarm(60);                               // wall-clock backstop (a blocked child)
    fn();
    _exit(0);
  }
  int st = 0;
  while (waitpid(pid, &st, 0) < 0) { if (errno != EINTR) throw std::runtime_error("waitpid failed"); }
  Guarded g;
  if (WIFEXITED(st) && WEXITSTATUS(st) == 0) return g;
  g.sig = WIFSIGNALED(st) ? WTERMSIG(st) : 0;
  g.kind = (g.sig == SIGVTALRM || g.sig == SIGALRM) ? Guarded::timeout : Guarded::died;
  return g;
}

// ------------------------------------------------------------------------------------------------ what the complex exposes
struct Exposure {
  std::vector<Cell> cells;    // cell k = k-th element of filtration_simplex_range(); boundary in positions, independent signs
  std::vector<double> vals;   // filtration value of position k, read through the complex
  int dim = -1;               // dimension of the complex (max over ALL its cells, also those the filtration ignores)
  std::map<i64, std::vector<Bar>> cache;
  const std::vector<Bar>& bars(i64 p) {
    auto it = cache.find(p);
    if (it == cache.end()) it = cache.emplace(p, oracle::reduce(cells, p).bars).first;
    return it->second;
  }
  // valid filtration: faces first, values non-decreasing along the order and from face to coface
  bool valid(std::string& why) const {
    for (size_t k = 0; k < cells.size(); ++k) {
      if (k && vals[k] < vals[k - 1]) { why = "values decrease along the exposed order at position " + vh::str(k); return false; }
      for (auto& f : cells[k].bdry) {
        if (f.first < 0 || f.first >= (int)k) { why = "face not before coface at position " + vh::str(k); return false; }
        if (cells[f.first].dim != cells[k].dim - 1) { why = "face of wrong dimension at position " + vh::str(k); return false; }
      }
    }
    return true;
  }
};

// expected diagram over Z_p, in the arithmetic of the complex' Filtration_value
template <class FV>
std::vector<Interval> expected_diagram(Exposure& E, i64 p, double minlen, bool pdm) {
  const int dim_max = E.dim + (pdm ? 1 : 0);
  std::vector<Interval> out;
  for (const Bar& b : E.bars(p)) {
    if (b.dim >= dim_max) continue;                    // classes of top dimension, unless asked for
    FV bv = (FV)E.vals[b.birth];
    if (b.death >= 0) {
      FV dv = (FV)E.vals[b.death];
      if (!(dv - bv > (FV)minlen)) continue;           // intervals no longer than the requested minimum length
      out.push_back(Interval{b.dim, (double)bv, (double)dv});
    } else {
      out.push_back(Interval{b.dim, (double)bv, kInf});
    }
  }
  std::sort(out.begin(), out.end());
  return out;
}

inline std::vector<int> primes_in(int lo, int hi) {   // trial division in 64 bits: hi may be INT_MAX
  std::vector<int> ps;
  for (i64 q = std::max(lo, 2); q <= (i64)hi; ++q) { bool pr = true; for (i64 t = 2; t * t <= q && pr; ++t) if (q % t == 0) pr = false; if (pr) ps.push_back((int)q); }
  return ps;
}

struct Tuple {
  bool multi = false;
  int p = 2;              // Z_p
  int pmin = 2, pmax = 3; // multi-field range
  double minlen = 0;
  bool pdm = false;
  // init_coefficients called twice on the same Persistent_cohomology object before computing:
  // 0 = once; 1 = first with other coefficients (p0 / [pmin0,pmax0]), then the real ones; 2 = the real ones twice
  int reinit = 0;
  int p0 = 2, pmin0 = 2, pmax0 = 3;
  std::string show() const {
    std::ostringstream o;
    if (reinit == 1) { o << "init_coefficients("; if (multi) o << pmin0 << "," << pmax0; else o << p0; o << ") first, then "; }
    if (reinit == 2) o << "init_coefficients called twice with ";
    if (multi) o << "multi_field[" << pmin << "," << pmax << "]"; else o << "Z_" << p;
    o << " min_interval_length=" << minlen << " persistence_dim_max=" << pdm;
    return o.str();
  }
  std::string cls() const {
    return std::string("field=") + (multi ? "multi" : "zp") + ",pdm=" + (pdm ? "1" : "0") + ",minlen=" + (minlen < 0 ? "neg" : minlen == 0 ? "zero" : "pos") +
           (reinit ? ",reinit" : "");
  }
};

struct Got { int dim; double b, d; int ddim; mpz_class ch; };

inline std::vector<Interval> as_intervals(const std::vector<Got>& g) {
  std::vector<Interval> v;
  for (auto& x : g) v.push_back(Interval{x.dim, x.b, x.d});
  std::sort(v.begin(), v.end());
  return v;
}

// multiset comparison; returns "" when equal, else a stable classification and fills detail
inline std::string multiset_diff(const std::vector<Interval>& got, const std::vector<Interval>& want, std::string& detail) {
  if (got == want) return "";
  std::vector<Interval> extra, missing;
  std::set_difference(got.begin(), got.end(), want.begin(), want.end(), std::back_inserter(extra));
  std::set_difference(want.begin(), want.end(), got.begin(), got.end(), std::back_inserter(missing));
  detail = "reported but not in oracle: " + oracle::show(extra) + " | in oracle but not reported: " + oracle::show(missing) +
           " | #reported=" + vh::str(got.size()) + " #oracle=" + vh::str(want.size());
  return std::string("diff=") + (extra.empty() ? "" : "extra") + (!extra.empty() && !missing.empty() ? "+" : "") + (missing.empty() ? "" : "missing");
}

template <class Pcoh> void init_coeff(Pcoh& pc, const Tuple& t, Field_Zp*) {
  if (t.reinit == 1) pc.init_coefficients(t.p0);
  if (t.reinit == 2) pc.init_coefficients(t.p);
  pc.init_coefficients(t.p);
}
template <class Pcoh> void init_coeff(Pcoh& pc, const Tuple& t, Multi_field*) {
  if (t.reinit == 1) pc.init_coefficients(t.pmin0, t.pmax0);
  if (t.reinit == 2) pc.init_coefficients(t.pmin, t.pmax);
  pc.init_coefficients(t.pmin, t.pmax);
}

// State of a multi-field that was initialised twice, through the public interface of the coefficient class that
// Persistent_cohomology::init_coefficients forwards to: the characteristic must be the product of the primes of the LAST range, the
// identity must be 1 modulo every prime of it, and the partial identity of q must be 1 modulo q and 0 modulo the other primes
// (Chinese remainders) - all of it independent of the library - and equal to what a fresh object gives.
inline bool check_reinit_field(vh::Case& c, const Tuple& t) {
  const std::string sig = std::string("field=multi,reinit=") + (t.reinit == 1 ? "other_range_first" : "same_range_twice");
  Multi_field a, fresh;
  if (t.reinit == 1) a.init(t.pmin0, t.pmax0); else a.init(t.pmin, t.pmax);
  a.init(t.pmin, t.pmax);
  fresh.init(t.pmin, t.pmax);
  std::vector<int> ps = primes_in(t.pmin, t.pmax);
  mpz_class prod = 1; for (int q : ps) prod *= q;
  c.count("cmp.reinit_field_state");
  if (mpz_class(a.characteristic()) != prod) {
    c.violation("coefficients.reinit_equals_fresh", sig, "after " + t.show() + ": characteristic() = " + mpz_class(a.characteristic()).get_str() + ", the product of the primes of the range is " + prod.get_str());
    return false;
  }
  bool ok = mpz_class(a.multiplicative_identity()) == mpz_class(fresh.multiplicative_identity());
  for (int q : ps) {
    mpz_class e = a.multiplicative_identity(mpz_class(q));
    if (e != mpz_class(fresh.multiplicative_identity(mpz_class(q)))) ok = false;
    for (int q2 : ps) if (e % q2 != (q2 == q ? 1 : 0)) ok = false;
    if (mpz_class(a.multiplicative_identity()) % q != 1) ok = false;
  }
  if (!ok) { c.violation("coefficients.reinit_equals_fresh", sig, "after " + t.show() + ": the (partial) multiplicative identities are not the Chinese-remainder idempotents of the range"); return false; }
  return true;
}

// ------------------------------------------------------------------------------------------------ consistency of the derived queries
template <class Cx, class Pcoh>
bool check_implied(vh::Case& c, Cx& cx, Pcoh& pcoh, const std::vector<Got>& got, const Exposure& E, const std::string& sig) {
  typedef typename Cx::Filtration_value FV;
  vh::Rng& r = c.rng;
  const int D = E.dim + 2;
  // the derived queries are checked twice: right after the computation, and again after output_diagram(), which sorts the
  // stored pairs in place (a query that depends on the order of the stored pairs would only be wrong the second time)
  auto derived_queries = [&](const std::string& sg) -> bool {
  // Betti numbers = number of never-ending pairs per dimension
  std::vector<int> imp(D + 1, 0);
  for (auto& g : got) if (g.ddim < 0 && g.dim >= 0 && g.dim <= D) imp[g.dim]++;
  std::vector<int> bn = pcoh.betti_numbers();
  c.count("cmp.betti_numbers");
  for (int d = 0; d <= std::max(D, (int)bn.size() - 1); ++d) {
    int g = d < (int)bn.size() ? bn[d] : 0, w = d <= D ? imp[d] : 0;
    if (g != w) { c.violation("betti_numbers.implied_by_pairs", sg, "betti_numbers()[" + vh::str(d) + "]=" + vh::str(g) + " but the pairs imply " + vh::str(w)); return false; }
  }
  for (int d = -1; d <= D; ++d) {
    int g = pcoh.betti_number(d), w = (d >= 0 ? imp[d] : 0);
    c.count("cmp.betti_number");
    if (g != w) { c.violation("betti_number.implied_by_pairs", sg, "betti_number(" + vh::str(d) + ")=" + vh::str(g) + " but the pairs imply " + vh::str(w)); return false; }
  }
  // persistent Betti numbers: birth <= from and (never dies or death > to)
  for (int rep = 0; rep < 3; ++rep) {
    double f0, t0;
    if (E.vals.empty()) { f0 = 0; t0 = 0; }
    else {
      f0 = E.vals[r.below(E.vals.size())] + 0.25 * (double)r.range(-1, 1);
      t0 = E.vals[r.below(E.vals.size())] + 0.25 * (double)r.range(-1, 1);
    }
    if (r.chance(1, 8)) t0 = kInf;
    if (r.chance(1, 10)) f0 = -1;
    FV from = to_fv<FV>(f0), to = to_fv<FV>(t0);
    std::vector<int> pimp(D + 1, 0);
    for (auto& g : got) if ((FV)g.b <= from && (g.ddim < 0 || (FV)g.d > to) && g.dim >= 0 && g.dim <= D) pimp[g.dim]++;
    std::vector<int> pb = pcoh.persistent_betti_numbers(from, to);
    c.count("cmp.persistent_betti_numbers");
    for (int d = 0; d <= std::max(D, (int)pb.size() - 1); ++d) {
      int g = d < (int)pb.size() ? pb[d] : 0, w = d <= D ? pimp[d] : 0;
      if (g != w) { c.violation("persistent_betti_numbers.implied_by_pairs", sg, "persistent_betti_numbers(" + vh::str(f0) + "," + vh::str(t0) + ")[" + vh::str(d) + "]=" + vh::str(g) + " but the pairs imply " + vh::str(w)); return false; }
    }
    for (int d = -1; d <= D; ++d) {
      int g = pcoh.persistent_betti_number(d, from, to), w = d >= 0 ? pimp[d] : 0;
      c.count("cmp.persistent_betti_number");
      if (g != w) { c.violation("persistent_betti_number.implied_by_pairs", sg, "persistent_betti_number(" + vh::str(d) + "," + vh::str(f0) + "," + vh::str(t0) + ")=" + vh::str(g) + " but the pairs imply " + vh::str(w)); return false; }
    }
  }
  // per-dimension interval lists
  for (int d = -1; d <= D; ++d) {
    auto iv = pcoh.intervals_in_dimension(d);
    std::vector<std::pair<double, double>> g, w;
    for (auto& x : iv) g.emplace_back((double)x.first, (double)x.second);
    for (auto& x : got) if (x.dim == d) w.emplace_back(x.b, x.ddim < 0 ? essential_death<FV>() : x.d);
    std::sort(g.begin(), g.end()); std::sort(w.begin(), w.end());
    c.count("cmp.intervals_in_dimension");
    if (g != w) { c.violation("intervals_in_dimension.implied_by_pairs", sg, "intervals_in_dimension(" + vh::str(d) + ") has " + vh::str(g.size()) + " intervals, the pairs imply " + vh::str(w.size()) + " (or values differ)"); return false; }
  }
    return true;
  };
  if (!derived_queries(sig)) return false;
  // A Filtration_value without infinity (an integer type) and a never-ending interval born at a negative value: sorting the intervals
  // by length for the output must not overflow.  Undefined behaviour is only visible as a sanitizer abort, so output_diagram is
  // first tried in a forked copy of the process (see guarded()); the real call below is only made when the copy survived.
  if (!std::numeric_limits<FV>::has_infinity) {
    bool neg_essential = false;
    for (auto& g : got) if (g.ddim < 0 && g.b < 0) neg_essential = true;
    if (neg_essential && got.size() >= 2) {
      c.log("output_diagram (first in a forked copy: integral Filtration_value, never-ending interval with a negative birth)");
      c.count("guard.output_diagram_integral_negative_birth");
      Guarded gd = guarded([&] { std::ostringstream os; pcoh.output_diagram(os); }, 5000);
      if (gd.kind != Guarded::ok) {
        c.violation("output_diagram.no_undefined_behaviour", "integral_filtration,essential_negative_birth",
                    "output_diagram on a copy of the process was killed by signal " + vh::str(gd.sig) + " (sanitizer report, if any, in the shard's stderr); " +
                    vh::str(got.size()) + " pairs, Filtration_value without infinity, a never-ending interval born at a negative value");
        return false;
      }
    }
  }
  // printed diagram: "product  dim  birth  death"
  {
    std::ostringstream os;
    pcoh.output_diagram(os);
    std::istringstream is(os.str());
    typedef std::tuple<std::string, int, double, double> Row;
    std::vector<Row> g, w;
    std::string ch, sb, sd; int dm;
    while (is >> ch >> dm >> sb >> sd) g.emplace_back(ch, dm, strtod(sb.c_str(), nullptr), strtod(sd.c_str(), nullptr));
    for (auto& x : got) w.emplace_back(x.ch.get_str(), x.dim, x.b, x.ddim < 0 ? essential_death<FV>() : x.d);
    std::sort(g.begin(), g.end()); std::sort(w.begin(), w.end());
    c.count("cmp.output_diagram");
    if (g != w) { c.violation("output_diagram.implied_by_pairs", sig, "output_diagram prints " + vh::str(g.size()) + " rows, the pairs imply " + vh::str(w.size()) + " (or rows differ): " + os.str().substr(0, 400)); return false; }
    // sorting for the output must not change the set of pairs
    std::vector<Interval> after;
    for (auto& pr : pcoh.get_persistent_pairs()) {
      auto sb2 = std::get<0>(pr); auto sd2 = std::get<1>(pr);
      after.push_back(Interval{(int)cx.dimension(sb2), (double)cx.filtration(sb2), sd2 == cx.null_simplex() ? kInf : (double)cx.filtration(sd2)});
    }
    std::sort(after.begin(), after.end());
    if (after != as_intervals(got)) { c.violation("output_diagram.pairs_preserved", sig, "get_persistent_pairs changed as a multiset after output_diagram"); return false; }
  }
  c.count("cmp.derived_queries_after_output_diagram");
  if (!derived_queries(sig + ",after_output_diagram")) return false;
  return true;
}

// ------------------------------------------------------------------------------------------------ one (complex, field, parameters) tuple
struct TupleInfo { bool finite_pos_dim1 = false; bool proper_subproduct = false; size_t npairs = 0; };

template <class Cx, class Field>
bool run_tuple_f(vh::Case& c, Cx& cx, Exposure& E, const Tuple& t, const std::string& sig0, TupleInfo& info) {
  typedef Gudhi::persistent_cohomology::Persistent_cohomology<Cx, Field> Pcoh;
  typedef typename Cx::Filtration_value FV;
  const std::string sig = sig0 + "," + t.cls();
  c.log("persistence " + t.show());
  if (t.reinit) {
    c.count(std::string("tuple.reinit.") + (t.multi ? "multi" : "zp") + (t.reinit == 1 ? ".other_first" : ".same_twice"));
    if (t.multi && !check_reinit_field(c, t)) return false;
  }
  Pcoh pcoh(cx, t.pdm);
  init_coeff(pcoh, t, (Field*)nullptr);
  pcoh.compute_persistent_cohomology((FV)t.minlen);
  if (t.reinit) c.count("cmp.reinit_then_compute");
  c.count(std::string("tuple.") + (t.multi ? "multi" : "zp"));
  c.count(std::string("tuple.pdm.") + (t.pdm ? "1" : "0"));
  c.count(std::string("tuple.minlen.") + (t.minlen < 0 ? "neg" : t.minlen == 0 ? "zero" : "pos"));

  std::vector<Got> got;
  for (auto& pr : pcoh.get_persistent_pairs()) {
    auto sb = std::get<0>(pr); auto sd = std::get<1>(pr);
    if (sb == cx.null_simplex()) { c.violation("pairs.wellformed", sig + ",null_birth", "a reported pair has a null birth simplex"); return false; }
    Got g;
    g.dim = (int)cx.dimension(sb); g.b = (double)cx.filtration(sb);
    if (sd == cx.null_simplex()) { g.d = kInf; g.ddim = -1; }
    else { g.d = (double)cx.filtration(sd); g.ddim = (int)cx.dimension(sd); }
    g.ch = mpz_class(std::get<2>(pr));
    if (g.ddim >= 0 && (g.ddim != g.dim + 1 || g.d < g.b)) {
      c.violation("pairs.wellformed", sig + ",death_not_a_coface_dimension", "pair (dim " + vh::str(g.dim) + ", " + vh::str(g.b) + ") - (dim " + vh::str(g.ddim) + ", " + vh::str(g.d) + ")");
      return false;
    }
    got.push_back(g);
  }
  info.npairs = got.size();
  c.count("pairs.reported", got.size());
  for (auto& g : got) {
    if (g.ddim >= 0) { c.count("pairs.finite.dim" + vh::str(std::min(g.dim, 4))); if (g.d == g.b) c.count("pairs.finite.zero_length"); }
    else c.count("pairs.essential.dim" + vh::str(std::min(g.dim, 4)));
  }

  if (!t.multi) {
    // Z_p mode: the "product of primes over which the feature exists" (third component, first column of output_diagram) is p
    for (auto& g : got) if (g.ch != t.p) { c.violation("pairs.zp_characteristic", sig, "interval (" + vh::str(g.dim) + ";" + vh::str(g.b) + "," + vh::str(g.d) + ") carries " + g.ch.get_str() + " in Z_" + vh::str(t.p) + " mode"); return false; }
    c.count("cmp.pairs.zp_characteristic");
    std::vector<Interval> want = expected_diagram<FV>(E, t.p, t.minlen, t.pdm);
    std::string detail, dk = multiset_diff(as_intervals(got), want, detail);
    c.count("cmp.pairs.zp");
    c.count("cmp.pairs.p" + vh::str(t.p));
    if (!dk.empty()) { c.violation("pairs.multiset", sig + "," + dk, "Z_" + vh::str(t.p) + ": " + detail); return false; }
    for (auto& w : want) if (w.dim >= 1 && w.death != kInf && w.death > w.birth) info.finite_pos_dim1 = true;
  } else {
    std::vector<int> ps = primes_in(t.pmin, t.pmax);
    mpz_class prod = 1; for (int q : ps) prod *= q;
    for (auto& g : got) {
      if (g.ch < 1 || prod % g.ch != 0) {
        c.violation("multi.product_of_range_primes", sig, "interval (" + vh::str(g.dim) + ";" + vh::str(g.b) + "," + vh::str(g.d) + ") carries " + g.ch.get_str() + ", not a product of distinct primes of the range (product " + prod.get_str() + ")");
        return false;
      }
      if (g.ch == 1) c.count("info.multi_unit_product");
      if (g.ch != prod && g.ch != 1) { info.proper_subproduct = true; c.count("pairs.multi.proper_subproduct"); }
    }
    for (int q : ps) {
      std::vector<Got> gq;
      for (auto& g : got) if (g.ch % q == 0) gq.push_back(g);
      std::vector<Interval> want = expected_diagram<FV>(E, q, t.minlen, t.pdm);
      std::string detail, dk = multiset_diff(as_intervals(gq), want, detail);
      c.count("cmp.pairs.multi_per_prime");
      if (!dk.empty()) { c.violation("multi.per_prime_diagram", sig + "," + dk, "intervals whose product " + vh::str(q) + " divides vs Z_" + vh::str(q) + " diagram (range [" + vh::str(t.pmin) + "," + vh::str(t.pmax) + "]): " + detail); return false; }
      for (auto& w : want) if (w.dim >= 1 && w.death != kInf && w.death > w.birth) info.finite_pos_dim1 = true;
    }
    c.count("cmp.pairs.multi");
  }
  return check_implied(c, cx, pcoh, got, E, sig);
}

template <class Cx>
bool run_tuple(vh::Case& c, Cx& cx, Exposure& E, const Tuple& t, const std::string& sig0, TupleInfo& info) {
  if (t.multi) return run_tuple_f<Cx, Multi_field>(c, cx, E, t, sig0, info);
  return run_tuple_f<Cx, Field_Zp>(c, cx, E, t, sig0, info);
}

// ------------------------------------------------------------------------------------------------ parameter generators
inline Tuple random_tuple(vh::Rng& r, bool multi, bool distinct_values, size_t ncells) {
  static const std::vector<int> primes = {2, 2, 2, 3, 3, 3, 5, 7, 11, 13, 251};
  static const std::vector<std::pair<int, int>> ranges = {{2, 2}, {2, 3}, {2, 3}, {2, 3}, {3, 5}, {2, 5}, {2, 7}, {5, 13}, {2, 31}, {11, 11}, {3, 3}, {4, 7}, {2, 13}};
  Tuple t;
  t.multi = multi;
  t.p = r.pick(primes);
  auto rg = r.pick(ranges); t.pmin = rg.first; t.pmax = rg.second;
  static const std::vector<double> lens = {-1, -1, 0, 0, 0, .5, 1, 10};
  t.minlen = r.pick(lens);
  if (distinct_values && r.chance(1, 3)) t.minlen = (double)r.below(ncells / 2 + 2);
  t.pdm = r.chance(1, 2);
  if (r.chance(1, 8)) {   // the coefficients are initialised twice on the same object
    t.reinit = r.chance(1, 3) ? 2 : 1;
    t.p0 = r.pick(primes);
    auto rg0 = r.pick(ranges); t.pmin0 = rg0.first; t.pmax0 = rg0.second;
  }
  return t;
}

// ------------------------------------------------------------------------------------------------ filtered abstract complexes
struct FModel {
  std::vector<Simplex> sx;     // closed under faces
  std::vector<double> val;     // monotone
  std::string desc, src;       // src: random | torsion
  bool distinct_values = false;
  tl::Space space;             // with closed-form homology when space.known
  int dim() const { int d = -1; for (auto& s : sx) d = std::max(d, (int)s.size() - 1); return d; }
};

inline tl::Space random_space(vh::Rng& r, int max_simplices) {
  tl::Space S; S.known = false;
  std::set<Simplex> sx;
  if (r.chance(1, 5)) {
    int n = 3 + (int)r.below(5), k = 1 + (int)r.below(3);  // k-skeleton of the (n-1)-simplex
    for (unsigned m = 1; m < (1u << n); ++m) if (__builtin_popcount(m) <= k + 1) { Simplex s; for (int v = 0; v < n; ++v) if (m >> v & 1) s.push_back(v); sx.insert(s); }
    S.name = "skeleton(" + vh::str(n) + "," + vh::str(k) + ")";
  } else {
    int n = 2 + (int)r.below(8), maxd = 1 + (int)r.below(4), nf = 1 + (int)r.below(2 * n + 2);
    for (int i = 0; i < nf; ++i) {
      int sz = 1 + (int)r.below(maxd + 1);
      Simplex s; for (int j = 0; j < sz; ++j) s.push_back((long)r.below(n));
      std::set<Simplex> tmp = sx; tl::add_closed(tmp, s);
      if ((int)tmp.size() > max_simplices) break;
      sx.swap(tmp);
    }
    if (sx.empty()) sx.insert({0});
    S.name = "random(n=" + vh::str(n) + ",maxd=" + vh::str(maxd) + ")";
  }
  // contiguous labels
  std::map<long, long> ren; for (auto& s : sx) if (s.size() == 1) { long k = (long)ren.size(); ren[s[0]] = k; }
  for (auto& s : sx) { Simplex t; for (long v : s) t.push_back(ren[v]); S.sx.insert(t); }
  S.fit();
  return S;
}

inline tl::Space torsion_space(vh::Rng& r, int max_simplices) {
  static const std::vector<tl::Space> A = [] { auto v = tl::atoms(); v.push_back(tl::grid_surface(4, 4, true)); v.back().name = "Klein44"; return v; }();
  // torsion atoms are drawn more often
  auto atom = [&]() -> const tl::Space& {
    for (int tries = 0; tries < 20; ++tries) {
      const tl::Space& s = A[r.below(A.size())];
      bool has_t = false; for (auto& t : s.tors) if (!t.empty()) has_t = true;
      if ((has_t || r.chance(1, 4)) && (int)s.sx.size() <= max_simplices) return s;
    }
    return A[0];
  };
  for (int tries = 0; tries < 30; ++tries) {
    tl::Space S;
    switch (r.below(9)) {
      case 0: case 1: case 2: S = atom(); break;
      case 3: S = tl::suspension(atom()); break;
      case 4: S = tl::wedge(atom(), atom()); break;
      case 5: S = tl::disjoint(atom(), atom()); break;
      case 6: S = tl::suspension(tl::wedge(atom(), atom())); break;
      case 7: S = tl::suspension(tl::suspension(tl::rp2())); break;
      default: S = tl::wedge(tl::suspension(atom()), atom()); break;
    }
    if ((int)S.sx.size() <= max_simplices) return S;
  }
  return tl::rp2();
}

// random monotone values.  stage[s] in {0,1}: simplices of stage 1 (the cone-off) come after all of stage 0.
inline void assign_values(vh::Rng& r, FModel& M, const std::vector<int>& stage) {
  const size_t n = M.sx.size();
  std::map<Simplex, size_t> pos; for (size_t i = 0; i < n; ++i) pos[M.sx[i]] = i;
  std::vector<size_t> by_dim(n); for (size_t i = 0; i < n; ++i) by_dim[i] = i;
  std::stable_sort(by_dim.begin(), by_dim.end(), [&](size_t a, size_t b) { return M.sx[a].size() < M.sx[b].size(); });
  std::vector<double> pri(n);
  for (size_t i = 0; i < n; ++i) pri[i] = r.unit() + (double)stage[i];
  for (size_t i : by_dim) {
    const Simplex& s = M.sx[i];
    if (s.size() > 1) for (size_t k = 0; k < s.size(); ++k) { Simplex f; for (size_t t = 0; t < s.size(); ++t) if (t != k) f.push_back(s[t]); pri[i] = std::max(pri[i], pri[pos[f]]); }
  }
  M.val.assign(n, 0.0);
  int mode = (int)r.below(10);
  if (mode <= 2) {            // all values distinct: a random linear extension
    std::vector<size_t> ord(n); for (size_t i = 0; i < n; ++i) ord[i] = i;
    std::vector<double> tb(n); for (auto& x : tb) x = r.unit();
    std::sort(ord.begin(), ord.end(), [&](size_t a, size_t b) { if (pri[a] != pri[b]) return pri[a] < pri[b]; if (M.sx[a].size() != M.sx[b].size()) return M.sx[a].size() < M.sx[b].size(); return tb[a] < tb[b]; });
    for (size_t k = 0; k < n; ++k) M.val[ord[k]] = (double)k;
    M.distinct_values = true; M.desc += " values=distinct";
  } else if (mode <= 6) {     // coarse grid, heavy ties
    static const int Ls[] = {2, 3, 4, 6, 10, 16};
    int L = Ls[r.below(6)];
    for (size_t i = 0; i < n; ++i) M.val[i] = 0.5 * std::floor(pri[i] * L / 2.0);
    M.desc += " values=grid" + vh::str(L);
  } else if (mode == 7) {
    for (size_t i = 0; i < n; ++i) M.val[i] = (double)stage[i];
    M.desc += " values=stage";
  } else if (mode == 8) {
    for (size_t i = 0; i < n; ++i) M.val[i] = (double)(M.sx[i].size() - 1) + 8.0 * stage[i];
    M.desc += " values=dimension";
  } else {
    M.desc += " values=constant";
  }
}

// src = "random" | "torsion"; contiguous: labels must be 0..n-1
inline FModel make_model(vh::Rng& r, const std::string& src, bool contiguous, int max_simplices) {
  FModel M; M.src = src;
  tl::Space S = (src == "torsion") ? torsion_space(r, max_simplices) : random_space(r, max_simplices);
  std::set<long> apexes;
  int cone_kind = (int)r.below(src == "torsion" ? 6 : 10);   // 0,1,2: full cone-off; 3: partial; else none
  if (cone_kind <= 2 && (int)S.sx.size() * 2 + 1 <= max_simplices) {
    apexes.insert(S.nv());
    S = tl::cone_over(S, S.sx, true);
  } else if (cone_kind == 3 && (int)S.sx.size() * 2 + 1 <= max_simplices) {
    std::set<Simplex> base;
    for (auto& s : S.sx) if (r.chance(1, 6)) base.insert(s);
    apexes.insert(S.nv());
    S = tl::cone_over(S, base, false);
  }
  M.space = S;
  M.desc = S.name;
  // relabel: random permutation (contiguous) or random injection into a sparse label set
  const int nv = S.nv();
  std::vector<long> lab(nv);
  if (contiguous || r.chance(1, 3)) { for (int i = 0; i < nv; ++i) lab[i] = i; if (r.chance(1, 2)) r.shuffle(lab); }
  else {
    std::set<long> used;
    while ((int)used.size() < nv) { long x = r.range(-40, 3000); if (x != -1) used.insert(x); }
    lab.assign(used.begin(), used.end()); r.shuffle(lab);
  }
  std::vector<int> stage;
  for (auto& s : S.sx) {
    Simplex t; int st = 0;
    for (long v : s) { t.push_back(lab[v]); if (apexes.count(v)) st = 1; }
    std::sort(t.begin(), t.end());
    M.sx.push_back(t); stage.push_back(st);
  }
  assign_values(r, M, stage);
  return M;
}

inline std::string show_model(const FModel& M) {
  std::ostringstream o; o.precision(17);
  o << "complex " << M.desc << " (" << M.sx.size() << " simplices):";
  for (size_t i = 0; i < M.sx.size(); ++i) o << " " << oracle::show(M.sx[i]) << ":" << M.val[i];
  return o.str();
}

// closed-form cross-check of library + oracle: essential bars of the whole complex = UCT Betti numbers
inline bool check_known_betti(vh::Case& c, const FModel& M, Exposure& E, i64 p) {
  if (!M.space.known) return true;
  std::vector<int> b(E.dim + 1, 0);
  for (const Bar& bar : E.bars(p)) if (bar.death < 0) b[bar.dim]++;
  std::vector<int> u = tl::betti_uct(M.space, (long)p);
  c.count("cmp.library_betti_closed_form");
  if (b != u) { c.violation("harness.library_betti", "closed_form_vs_oracle", M.space.name + " over Z_" + vh::str(p) + ": oracle " + vh::vstr(b) + " closed form " + vh::vstr(u)); return false; }
  return true;
}

inline void pick_tuples(vh::Rng& r, bool multi, bool distinct, size_t ncells, std::vector<Tuple>& ts, bool allow_neg_minlen) {
  int nt = multi ? 2 : 3;
  for (int i = 0; i < nt; ++i) {
    ts.push_back(random_tuple(r, multi, distinct, ncells));
    if (!allow_neg_minlen && ts.back().minlen < 0) ts.back().minlen = 0;
  }
}

template <class Cx>
void run_tuples(vh::Case& c, Cx& cx, Exposure& E, const FModel* M, bool distinct, bool multi, const std::string& sig0, bool allow_neg_minlen = true) {
  vh::Rng& r = c.rng;
  if (M && M->space.known) {
    if (!check_known_betti(c, *M, E, 2) || !check_known_betti(c, *M, E, 3)) return;
  }
  {
    auto d2 = expected_diagram<double>(E, 2, -1, true), d3 = expected_diagram<double>(E, 3, -1, true);
    if (d2 != d3) c.count("state.z2_z3_differ");
    std::vector<Interval> f2, f3;
    for (auto& i : d2) if (i.death != kInf && i.death > i.birth) f2.push_back(i);
    for (auto& i : d3) if (i.death != kInf && i.death > i.birth) f3.push_back(i);
    if (f2 != f3) c.count("state.z2_z3_finite_positive_differ");
  }
  std::vector<Tuple> ts; pick_tuples(r, multi, distinct, E.cells.size(), ts, allow_neg_minlen);
  bool nontriv = false, sub = false;
  for (auto& t : ts) {
    TupleInfo info;
    if (!run_tuple(c, cx, E, t, sig0, info)) return;
    nontriv |= info.finite_pos_dim1; sub |= info.proper_subproduct;
  }
  if (sub) c.count("state.multi_case_with_proper_subproduct");
  c.count("case.cells", E.cells.size());
  c.count("case.dim" + vh::str(std::min(E.dim, 5)));
  if (nontriv) { c.count("case.nontrivial"); c.nontrivial(vh::hash_str(vh::G().history)); }
  c.sample("{\"history\":\"" + vh::jesc(vh::G().history.substr(0, 600)) + "\"}");
}

}  // namespace c02
#endif

// C02 — (a) self-check of the torsion library against closed forms, (b) the largest admissible prime 46337,
//        (c) refused characteristics: no memory error / UB while refusing,
//        (d) multi-field prime ranges that are wide, start below 2, contain only large primes, or end at INT_MAX.
#include "c02_simplicial.h"
using namespace c02;

// every atom and a sweep of composites: oracle Betti numbers over several primes == universal-coefficient closed form
static void lib_selfcheck(vh::Case& c) {
  vh::Rng& r = c.rng;
  static const std::vector<tl::Space> A = tl::atoms();
  tl::Space S;
  long k = c.k;
  if (k < (long)A.size()) S = A[k];
  else S = torsion_space(r, 1400);
  if (k >= (long)A.size() && r.chance(1, 4)) S = tl::cone_over(S, S.sx, true);
  c.log("library space " + S.name + " (" + vh::str(S.sx.size()) + " simplices)");
  if (!tl::well_formed(S)) { c.violation("harness.library_wellformed", "not_closed_or_labels", S.name); return; }
  if ((S.name == "Klein" || S.name == "Torus" || S.name == "RP2") && !tl::every_edge_in_two_triangles(S)) { c.violation("harness.library_wellformed", "not_a_surface", S.name); return; }
  auto cells = tl::cells_of(S);
  bool tors = false; for (auto& t : S.tors) if (!t.empty()) tors = true;
  for (long p : {2, 3, 5, 7, 11}) {
    auto b = oracle::betti(cells, p), u = tl::betti_uct(S, p);
    c.count("cmp.library_betti_closed_form");
    if (b != u) { c.violation("harness.library_betti", "closed_form_vs_oracle", S.name + " over Z_" + vh::str(p) + ": oracle " + vh::vstr(b) + " closed form " + vh::vstr(u)); return; }
  }
  c.count("library.space_checked");
  if (tors) { c.count("library.space_with_torsion"); c.nontrivial(vh::hash_str(S.name)); }
}

static void bigprime(vh::Case& c) {
  typedef Gudhi::Simplex_tree<> St;
  vh::Rng& r = c.rng;
  FModel M = make_model(r, r.chance(1, 2) ? "torsion" : "random", false, 300);
  c.log(show_model(M));
  St st; build_tree(r, M, st);
  Exposure E; std::vector<Simplex> order;
  const std::string sig0 = "cx=st_default,src=" + M.src + ",p=46337";
  if (!expose_tree(c, st, M, E, order, sig0)) return;
  Tuple t = random_tuple(r, false, M.distinct_values, M.sx.size());
  t.p = 46337;
  TupleInfo info;
  if (!run_tuple(c, st, E, t, sig0, info)) return;
  c.count("tuple.p46337");
  if (info.finite_pos_dim1) c.nontrivial(vh::hash_str(vh::G().history));
}

static void refused(vh::Case& c) {
  typedef Gudhi::Simplex_tree<> St;
  static const std::vector<int> bad = {0, 1, -3, 4, 9, 46349, 6, 15, 49, -2147483647 - 1, 2147483647, 46341 /* composite above the limit */};
  int x = bad[c.k % bad.size()];
  St st; st.insert_simplex_and_subfaces({0, 1, 2}, 1.0);
  Gudhi::persistent_cohomology::Persistent_cohomology<St, Field_Zp> pc(st);
  c.log("init_coefficients(" + vh::str(x) + ")  (not a prime <= 46337)");
  bool thrown = false;
  try { pc.init_coefficients(x); } catch (const std::invalid_argument&) { thrown = true; }
  c.count(thrown ? "refused.threw_invalid_argument" : "refused.accepted_silently");
  c.nontrivial((uint64_t)(unsigned)x + 17);
}

// Wide / extreme multi-field ranges on small complexes (one oracle reduction per prime of the range).  The initialisation of the
// coefficient class is first run alone in a forked copy of the process under a CPU budget: "init never returns" is then ONE
// classified violation instead of a watchdog hang of the shard.
static void mf_ranges(vh::Case& c) {
  typedef Gudhi::Simplex_tree<> St;
  vh::Rng& r = c.rng;
  static const std::vector<std::pair<int, int>> wide = {
      {2, 100}, {46337, 46349}, {65521, 65537}, {0, 5}, {90, 100}, {1, 3}, {2, 47}, {2147483587, 2147483646},
      {2147483629, INT_MAX}, {INT_MAX, INT_MAX}};
  const std::pair<int, int> rg = wide[c.k % wide.size()];
  const bool huge = rg.second > 1000000;
  FModel M = make_model(r, r.chance(2, 3) ? "torsion" : "random", false, huge ? 120 : 300);
  c.log(show_model(M));
  const std::string rcls = rg.second == INT_MAX ? "range_end=INT_MAX" : huge ? "range=just_below_INT_MAX" : rg.first < 2 ? "range_start<2" :
                           rg.first >= 46337 ? "range=above_46337" : rg.second - rg.first > 40 ? "range=wide" : "range=narrow";
  const std::string sig0 = "cx=st_default,src=" + M.src + "," + rcls;
  c.log("Multi_field::init(" + vh::str(rg.first) + "," + vh::str(rg.second) + ") alone, in a forked copy with a CPU budget of 1 s");
  c.count("guard.multi_field_init");
  if (rg.second == INT_MAX) c.count("guard.multi_field_init.range_end_INT_MAX");
  Guarded gd = guarded([&] { Multi_field mf; mf.init(rg.first, rg.second); }, 1000);
  if (gd.kind == Guarded::timeout) {
    c.violation("multi.init_terminates", rcls, "Multi_field::init(" + vh::str(rg.first) + "," + vh::str(rg.second) + ") used more than 1 s of CPU (" + vh::str(primes_in(rg.first, rg.second).size()) + " primes in the range)");
    return;
  }
  if (gd.kind == Guarded::died) c.count("guard.child_died");   // the same call is made below in this process: a crash is attributed there
  St st; build_tree(r, M, st);
  Exposure E; std::vector<Simplex> order;
  if (!expose_tree(c, st, M, E, order, sig0)) return;
  bool nontriv = false;
  for (int i = 0; i < 2; ++i) {
    Tuple t = random_tuple(r, true, M.distinct_values, M.sx.size());
    t.pmin = rg.first; t.pmax = rg.second;
    TupleInfo info;
    if (!run_tuple(c, st, E, t, sig0, info)) return;
    nontriv |= info.finite_pos_dim1;
    c.count("tuple.mf_range." + rcls);
  }
  c.count("primes_in_wide_ranges", primes_in(rg.first, rg.second).size());
  if (nontriv) c.nontrivial(vh::hash_str(vh::G().history));
}

VH_CONFIG("mf_ranges", mf_ranges);
VH_CONFIG("lib_selfcheck", lib_selfcheck);
VH_CONFIG("bigprime", bigprime);
VH_CONFIG("refused", refused);
VH_MAIN()

// C02 — Persistent_cohomology over Simplex_tree<Opt_key8>
#include "c02_simplicial.h"
using namespace c02;
VH_CONFIG("st_key8_rand_zp", [](vh::Case& c) { run_st_case<Opt_key8>(c, "st_key8", "random", false, 255); });
VH_CONFIG("st_key8_tors_zp", [](vh::Case& c) { run_st_case<Opt_key8>(c, "st_key8", "torsion", false, 255); });
VH_CONFIG("st_key8_rand_mf", [](vh::Case& c) { run_st_case<Opt_key8>(c, "st_key8", "random", true, 255); });
VH_CONFIG("st_key8_tors_mf", [](vh::Case& c) { run_st_case<Opt_key8>(c, "st_key8", "torsion", true, 255); });
VH_MAIN()

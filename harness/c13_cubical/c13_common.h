// C13 — cubical complexes are valid filtered cell complexes with correct incidences.
// Shared, class-templated monitor.  The translation units instantiate it for
//   Bitmap_cubical_complex<Bitmap_cubical_complex_base<double>>                                  (c13_plain.cpp)
//   Bitmap_cubical_complex<Bitmap_cubical_complex_periodic_boundary_conditions_base<double>>     (c13_periodic.cpp)
//   the same two with T = float                                                                  (c13_float_plain.cpp, c13_float_periodic.cpp)
#ifndef VERIF_C13_COMMON_H_
#define VERIF_C13_COMMON_H_

#include <gudhi/Bitmap_cubical_complex.h>
#include <gudhi/Bitmap_cubical_complex_periodic_boundary_conditions_base.h>
#include <gudhi/Persistent_cohomology.h>

#include "common/vh.h"
#include "oracle/zp_reduce.h"
#include "cubical_model.h"

#include <cmath>
#include <memory>
#include <fstream>
#include <iostream>
#include <type_traits>
#include <unistd.h>
#include <sys/wait.h>
#include <cerrno>

namespace c13 {

using cubical_model::Grid;
using cubical_model::Coord;
using cubical_model::Inc;

template <class FT> using BaseOf = Gudhi::cubical_complex::Bitmap_cubical_complex_base<FT>;
template <class FT> using PBaseOf = Gudhi::cubical_complex::Bitmap_cubical_complex_periodic_boundary_conditions_base<FT>;
typedef Gudhi::cubical_complex::Bitmap_cubical_complex<BaseOf<double>> Plain;
typedef Gudhi::cubical_complex::Bitmap_cubical_complex<PBaseOf<double>> Periodic;
typedef Gudhi::cubical_complex::Bitmap_cubical_complex<BaseOf<float>> PlainF;
typedef Gudhi::cubical_complex::Bitmap_cubical_complex<PBaseOf<float>> PeriodicF;

const double kInf = std::numeric_limits<double>::infinity();

// Only for validating the persistence oracle in isolation (mutation experiments): -DC13_SKIP_SIGN_CHECKS switches the
// direct sign checks off so that a sign defect has to be found through Persistent_cohomology.  Never defined by spec.py.
#ifdef C13_SKIP_SIGN_CHECKS
const bool kSkipSignChecks = true;
#else
const bool kSkipSignChecks = false;
#endif

// ------------------------------------------------------------------------------------------------ case description
enum Route { kVector = 0, kFile = 1 };   // how the object under test is built
enum Compare { kReduction = 0,           // diagram against the naive reduction of the model + closed-form Betti numbers
               kConstant = 1,            // constant grid: closed-form Betti numbers, no finite interval of positive length
               kBettiOnly = 2 };         // (large random grids) closed-form Betti numbers only

struct Spec {
  bool periodic_class = false;
  bool is_float = false;
  bool vertex_input = false;
  std::vector<int> n;        // top cells per direction
  std::vector<char> per;
  std::vector<double> input; // values of the top cells / vertices, first direction fastest (exactly representable in float)
  bool do_persistence = true;
  Compare compare = kReduction;
  int third_prime = 5;       // the persistence comparison runs over Z_2, Z_3 and this prime
  Route route = kVector;
  bool file_final_newline = true;   // route == kFile: the last value is followed by a newline
  int file_format = 0;              // route == kFile: 0 "%.17g", 1 "%.6f", 2 "%e"
  bool probe_self = false;          // compute_incidence_between_cells(p, p) is probed in every case (default: one case in 16; a fork under ASan is expensive)
};

template <class FT_, bool PER>
struct MakerT {
  typedef FT_ FT;
  typedef typename std::conditional<PER, PBaseOf<FT>, BaseOf<FT>>::type BaseT;
  typedef Gudhi::cubical_complex::Bitmap_cubical_complex<BaseT> Cx;
  static constexpr bool periodic_class = PER;
  static constexpr bool is_float = std::is_same<FT, float>::value;
  static std::unique_ptr<Cx> make(const std::vector<unsigned>& dims, const std::vector<FT>& cells, const std::vector<bool>& dirs, bool top) {
    if constexpr (PER) return std::unique_ptr<Cx>(new Cx(dims, cells, dirs, top));
    else return std::unique_ptr<Cx>(new Cx(dims, cells, top));
  }
  static std::unique_ptr<Cx> make_file(const char* path) { return std::unique_ptr<Cx>(new Cx(path)); }
  // the public "empty bitmap" constructors of the base classes (sizes = numbers of top-dimensional cells)
  static std::unique_ptr<BaseT> make_sizes(const std::vector<unsigned>& sizes, const std::vector<bool>& dirs) {
    if constexpr (PER) return std::unique_ptr<BaseT>(new BaseT(sizes, dirs));
    else return std::unique_ptr<BaseT>(new BaseT(sizes));
  }
};
template <class Cx> struct Maker;
template <> struct Maker<Plain> : MakerT<double, false> {};
template <> struct Maker<Periodic> : MakerT<double, true> {};
template <> struct Maker<PlainF> : MakerT<float, false> {};
template <> struct Maker<PeriodicF> : MakerT<float, true> {};

inline std::string mask_str(const std::vector<char>& per) { std::string s; for (char b : per) s += b ? '1' : '0'; return s; }

inline std::string class_sig(const Spec& s) {
  return std::string("class=") + (s.periodic_class ? "periodic" : "plain") + (s.is_float ? ",T=float" : "");
}
inline std::string base_sig(const Spec& s) {
  return class_sig(s) + ",input=" + (s.vertex_input ? "vertices" : "top") +
         ",d=" + vh::str(s.n.size()) + ",periodic_dirs=" + vh::str(std::count(s.per.begin(), s.per.end(), (char)1)) +
         (s.route == kFile ? ",route=file" : "");
}

inline std::string dstr(double v) { if (v == kInf) return "inf"; if (v == -kInf) return "-inf"; return vh::str(v); }

// ------------------------------------------------------------------------------------------------ Perseus-style files
// The documented format: dimension, then one line per direction with the number of top-dimensional cells (multiplied by -1 in
// a periodic direction), then one value per line, first direction fastest; +infinity is written `inf`.
inline std::string perseus_text(const Spec& S) {
  std::string t = vh::str(S.n.size()) + "\n";
  for (size_t i = 0; i < S.n.size(); ++i) t += vh::str(S.per[i] ? -S.n[i] : S.n[i]) + "\n";
  for (size_t i = 0; i < S.input.size(); ++i) {
    char buf[64];
    if (S.input[i] == kInf) snprintf(buf, sizeof buf, "inf");
    else snprintf(buf, sizeof buf, S.file_format == 0 ? "%.17g" : S.file_format == 1 ? "%.6f" : "%e", S.input[i]);
    t += buf;
    if (i + 1 < S.input.size() || S.file_final_newline) t += "\n";
  }
  return t;
}

// A temporary file that cannot be left behind: it is unlinked before the library reads it (through /proc/self/fd) when that
// is possible, otherwise when this object dies.
struct TempFile {
  int fd = -1;
  std::string name, path;
  explicit TempFile(const std::string& text) {
    char tmpl[] = "/tmp/verif_c13_XXXXXX";
    fd = mkstemp(tmpl);
    if (fd < 0) throw std::runtime_error("mkstemp failed");
    name = tmpl;
    const char* p = text.data(); size_t left = text.size();
    while (left) { ssize_t w = ::write(fd, p, left); if (w <= 0) break; p += w; left -= (size_t)w; }
    path = "/proc/self/fd/" + vh::str(fd);
    std::ifstream probe(path.c_str());
    std::string all((std::istreambuf_iterator<char>(probe)), std::istreambuf_iterator<char>());
    if (probe && all == text) { ::unlink(name.c_str()); name.clear(); }
    else path = name;
  }
  ~TempFile() { if (fd >= 0) ::close(fd); if (!name.empty()) ::unlink(name.c_str()); }
};

// std::cerr of the library ("Cells given to compute_incidence_between_cells procedure do not form ...") is muted while a
// documented exception is provoked
struct MuteCerr {
  std::ios_base::iostate old;
  MuteCerr() : old(std::cerr.rdstate()) { std::cerr.setstate(std::ios::failbit); }
  ~MuteCerr() { std::cerr.clear(old); }
};

// Runs fn in a forked child and returns its exit status (fn's return value, 0..100), or -signal when the child died.
// Used where a defective library is known to take the whole process down (abort from a sanitizer / a libstdc++ assertion):
// the parent survives, keeps its counters and can name the input class in the signature.
const int kForkFailed = -2000;   // (resource shortage) the caller goes on without the protection of a child process
template <class F>
int forked(F fn) {
  fflush(nullptr);
  pid_t pid = fork();
  if (pid < 0) return kForkFailed;
  if (pid == 0) {
    vh::G().cur_case = -1;     // no history record from the child
    alarm(30);
    int rc = 100;
    try { rc = fn(); } catch (...) { rc = 99; }
    _exit(rc);
  }
  int st = 0;
  while (waitpid(pid, &st, 0) < 0 && errno == EINTR) {}
  if (WIFEXITED(st)) return WEXITSTATUS(st);
  return WIFSIGNALED(st) ? -WTERMSIG(st) : -1000;
}

// ------------------------------------------------------------------------------------------------ non-incident pairs
// "@exception std::logic_error In case when the cube B is not n-1 dimensional face of a cube A."
// returns 0: std::logic_error, 1: a value was returned, 2: another exception
template <class Cx>
int incidence_outcome(Cx& b, size_t p, size_t q, int* value) {
  MuteCerr mute;
  try { *value = b.compute_incidence_between_cells(p, q); return 1; }
  catch (const std::logic_error&) { return 0; }
  catch (...) { return 2; }
}

// ------------------------------------------------------------------------------------------------ the monitor
template <class Cx>
void check_grid(vh::Case& c, const Spec& S) {
  typedef typename Maker<Cx>::FT FT;
  const int d = (int)S.n.size();
  Grid G(S.n, S.per);
  const std::string sig0 = base_sig(S);

  // ---- log the complete input (enough to rebuild the case by hand)
  {
    std::string l = std::string(S.periodic_class ? "periodic_class" : "plain_class") + (S.is_float ? "<float>" : "") + " input=" + (S.vertex_input ? "vertices" : "top_cells") + " shape=[";
    for (int i = 0; i < d; ++i) { if (i) l += ","; l += vh::str(S.vertex_input ? G.nvert(i) : S.n[i]); }
    l += "] periodic=" + mask_str(S.per) + " values=[";
    for (size_t i = 0; i < S.input.size(); ++i) { if (i) l += ","; l += dstr(S.input[i]); }
    l += "]";
    if (S.route == kFile) l += std::string(" built from a Perseus-style file, value format ") + (S.file_format == 0 ? "%.17g" : S.file_format == 1 ? "%.6f" : "%e") +
                               (S.file_final_newline ? ", final newline" : ", NO newline after the last value");
    if (S.third_prime != 5) l += " primes=2,3," + vh::str(S.third_prime);
    c.log(l);
  }
  c.count(std::string("grid.class.") + (S.periodic_class ? "periodic" : "plain"));
  c.count(std::string("grid.input.") + (S.vertex_input ? "vertices" : "top"));
  c.count("grid.d" + vh::str(d) + ".m" + mask_str(S.per));
  if (S.is_float) c.count("grid.float");
  bool side1 = false, side0 = false; int longest = 0;
  for (int i = 0; i < d; ++i) { if (S.n[i] == 1) side1 = true; if (S.n[i] == 0) side0 = true; longest = std::max(longest, S.n[i]); }
  bool len1 = false;  // a side of length 1 in the units of the input convention
  for (int i = 0; i < d; ++i) if ((S.vertex_input ? G.nvert(i) : S.n[i]) == 1) len1 = true;
  if (len1) c.count("grid.length1_side");
  if (side1) c.count("grid.one_cell_side");
  if (side0) c.count("grid.single_vertex_side");
  if (longest > 4 && S.compare != kConstant) c.count("grid.long_side_random_values");
  if (longest >= 100 && S.compare != kConstant) c.count("grid.side_ge_100_random_values");
  size_t ninf = 0; for (double v : S.input) ninf += (v == kInf);
  if (ninf) c.count("grid.has_inf");
  if (std::count(S.input.begin(), S.input.end(), -kInf)) c.count("grid.has_neg_inf");
  if (ninf == S.input.size()) c.count("grid.all_inf");
  std::set<double> distinct(S.input.begin(), S.input.end());
  if (distinct.size() < S.input.size()) c.count("grid.has_ties");

  // ---- build the real object
  std::vector<unsigned> dims; std::vector<bool> dirs;
  for (int i = 0; i < d; ++i) { dims.push_back((unsigned)(S.vertex_input ? G.nvert(i) : S.n[i])); dirs.push_back(S.per[i] != 0); }
  std::vector<FT> input_ft(S.input.begin(), S.input.end());
  std::unique_ptr<Cx> bp;
  const std::string fsig = class_sig(S) + ",route=file," + (S.file_final_newline ? "final_newline" : "no_final_newline") + (ninf ? ",has_inf" : ",finite");
  if (S.route == kVector) {
    bp = Maker<Cx>::make(dims, input_ft, dirs, !S.vertex_input);
  } else {
    c.count("file.built");
    c.count(S.file_final_newline ? "file.final_newline" : "file.no_final_newline");
    if (ninf) c.count("file.has_inf");
    TempFile tf(perseus_text(S));
    int canary = forked([&]() { try { Maker<Cx>::make_file(tf.path.c_str()); return 0; } catch (const std::exception&) { return 3; } });
    if (canary == kForkFailed) c.count("skip.fork_failed");
    else if (canary != 0 && canary != 3) {
      c.violation("file.constructor_survives", fsig, "the process " + (canary < 0 ? "died with signal " + vh::str(-canary) : "exited with status " + vh::str(canary)) +
                  " inside the Perseus-style file constructor (run in a forked child; its sanitizer / assertion report is on stderr)");
      return;
    }
    try { bp = Maker<Cx>::make_file(tf.path.c_str()); }
    catch (const std::exception& e) { c.violation("file.constructor_accepts", fsig, std::string("the Perseus-style file constructor threw: ") + e.what()); return; }
  }
  Cx& b = *bp;

  // ---- sizes
  if (!c.expect(b.num_simplices() == G.ncells && b.size() == G.ncells, "cells.count", sig0,
                "num_simplices=" + vh::str(b.num_simplices()) + " model=" + vh::str(G.ncells))) return;
  if (!c.expect(b.dimension() == (size_t)d, "complex.dimension", sig0, "dimension()=" + vh::str(b.dimension()))) return;

  const size_t N = G.ncells;
  std::vector<Coord> coord(N);
  std::vector<int> mdim(N);
  for (size_t p = 0; p < N; ++p) { coord[p] = G.coord(p); mdim[p] = Grid::dim(coord[p]); }
  std::vector<double> mval = S.vertex_input ? G.values_from_vertices(S.input) : G.values_from_top(S.input);

  // ---- a complex read from a file equals the complex built from the same top-cell values
  if (S.route == kFile) {
    size_t bad = 0, first = 0;
    for (size_t p = N; p-- > 0;) if (!((double)b.get_cell_data(p) == mval[p])) { ++bad; first = p; }
    if (!c.expect(bad == 0, "file.equals_vector_built", fsig, vh::str(bad) + " cells differ, first: cell " + vh::str(first) + " " + G.show(coord[first]) +
                  " file-built " + dstr(bad ? (double)b.get_cell_data(first) : 0) + " expected " + dstr(mval[first]))) return;
  }

  // ---- the input order of the public iterators identifies handles with grid cells.  A vertex grid with a single vertex in some
  //      direction has no cell of dimension dimension(): the range of top-dimensional cells has to be empty.
  {
    std::vector<size_t> want = G.top_positions(), got;
    for (auto it = b.top_dimensional_cells_iterator_begin(); it != b.top_dimensional_cells_iterator_end(); ++it) {
      got.push_back(*it);
      if (got.size() > want.size() + 2) break;
    }
    if (side0) {
      // a pure query: the case goes on after a violation
      c.count("cmp.handles.top_cells_empty_range");
      if (!got.empty()) c.violation("handles.top_cells_order", class_sig(S) + ",single_vertex_side,expected_empty_range",
                                    "the grid has no cell of dimension " + vh::str(d) + " but the top-dimensional cells iterator yields " + vh::vstr(got));
      size_t k = 0; for (auto h : b.top_dimensional_cells_range()) { (void)h; if (++k > 2) break; }
      if (got.empty() && k) c.violation("handles.top_cells_order", class_sig(S) + ",single_vertex_side,expected_empty_range", "top_dimensional_cells_range() is not empty");
    } else {
      if (!c.expect(got == want, "handles.top_cells_order", sig0, "top-dimensional cells iterator yields " + vh::vstr(got) + " model " + vh::vstr(want))) return;
    }
  }
  {
    std::vector<size_t> want = G.vertex_positions(), got;
    for (auto it = b.vertices_iterator_begin(); it != b.vertices_iterator_end(); ++it) {
      got.push_back(*it);
      if (got.size() > want.size() + 2) break;
    }
    if (!c.expect(got == want, "handles.vertices_order", sig0, "vertices iterator yields " + vh::vstr(got) + " model " + vh::vstr(want))) return;
  }

  // ---- per cell: dimension, boundary, coboundary, value, incidence numbers, dd = 0
  std::vector<std::vector<size_t>> gb(N), gcb(N);
  std::vector<std::vector<size_t>> mfaces(N);   // model faces as positions (used later for the order / the oracle)
  std::vector<std::vector<int>> msign(N);
  for (size_t p = 0; p < N; ++p) {
    const std::string cs = sig0 + ",celldim=" + vh::str(mdim[p]);
    c.count("cells.checked");
    c.count("cells.dim" + vh::str(mdim[p]));
    unsigned gd = b.dimension(p);
    if (!c.expect(gd == (unsigned)mdim[p] && b.get_dimension_of_a_cell(p) == (unsigned)mdim[p], "cell.dimension", cs,
                  "cell " + vh::str(p) + " " + G.show(coord[p]) + " dimension " + vh::str(gd) + " model " + vh::str(mdim[p]))) return;

    // boundary, as a multiset, against the geometric faces
    gb[p] = b.boundary_simplex_range(p);
    std::vector<Inc> mf = G.faces(coord[p]);
    std::vector<size_t> want;
    bool wraps = false;
    for (const Inc& f : mf) {
      size_t q = G.index(f.cell); want.push_back(q); mfaces[p].push_back(q); msign[p].push_back(f.sign());
      if (S.per[f.dir] && ((f.side > 0 && f.cell[f.dir] == 0) )) wraps = true;
    }
    std::vector<size_t> a = gb[p], w = want;
    std::sort(a.begin(), a.end()); std::sort(w.begin(), w.end());
    if (wraps) c.count("cells.with_wrapped_face");
    if (!c.expect(a == w, "boundary.geometric", cs + (wraps ? ",wraps" : ""),
                  "boundary of cell " + vh::str(p) + " " + G.show(coord[p]) + " = " + vh::vstr(gb[p]) + " geometric faces " + vh::vstr(want))) return;
    if (!c.expect(b.get_boundary_of_a_cell(p) == gb[p], "boundary.two_accessors", cs, "get_boundary_of_a_cell differs from boundary_simplex_range")) return;

    // coboundary, as a set
    gcb[p] = b.get_coboundary_of_a_cell(p);
    std::vector<Inc> mc = G.cofaces(coord[p]);
    std::vector<size_t> wantc; bool cwraps = false;
    for (const Inc& f : mc) { wantc.push_back(G.index(f.cell)); if (S.per[f.dir] && coord[p][f.dir] == 0 && f.side > 0) cwraps = true; }
    a = gcb[p]; w = wantc;
    std::sort(a.begin(), a.end()); std::sort(w.begin(), w.end());
    if (cwraps) c.count("cells.with_wrapped_coface");
    if (!c.expect(a == w, "coboundary.geometric", cs + (cwraps ? ",wraps" : ""),
                  "coboundary of cell " + vh::str(p) + " " + G.show(coord[p]) + " = " + vh::vstr(gcb[p]) + " geometric cofaces " + vh::vstr(wantc))) return;

    // value
    double gv = b.filtration(p);
    if (!c.expect(gv == mval[p] && (double)b.get_cell_data(p) == mval[p], S.vertex_input ? "value.max_over_vertices" : "value.min_over_top_cells", cs,
                  "cell " + vh::str(p) + " " + G.show(coord[p]) + " value " + dstr(gv) + " model " + dstr(mval[p]))) return;
  }

  // ---- representatives: a top-dimensional cell containing the cell (top-cell input) / a vertex of the cell (vertex input) with the
  //      same value; any such cell is accepted ("an arbitrary one is returned").  The documented precondition (values as per
  //      impose_lower_star_filtration[_from_vertices]) holds for the matching input convention only.
  for (size_t p = 0; p < N; ++p) {
    const std::string cs = sig0 + ",celldim=" + vh::str(mdim[p]);
    size_t t = S.vertex_input ? b.get_vertex_of_a_cell(p) : b.get_top_dimensional_coface_of_a_cell(p);
    const char* id = S.vertex_input ? "representative.vertex_of_a_cell" : "representative.top_dimensional_coface";
    c.count(S.vertex_input ? "cmp.representative.vertex" : "cmp.representative.top_coface");
    bool ok = t < N && mdim[t] == (S.vertex_input ? 0 : d);
    bool wrapped = false;
    for (int i = 0; ok && i < d; ++i) {
      // in every direction the two coordinates are equal or neighbours (with wrap-around in a periodic direction)
      int x = coord[p][i], y = coord[t][i];
      if (x == y) continue;
      bool nb = (G.step(i, x, 1) == y) || (G.step(i, x, -1) == y);
      if (!nb) ok = false;
      else if (std::abs(x - y) != 1) wrapped = true;
    }
    if (wrapped) c.count("representative.across_the_wrap");
    if (!ok) { c.violation(id, cs, "cell " + vh::str(p) + " " + G.show(coord[p]) + ": returned " + vh::str(t) + (t < N ? " " + G.show(coord[t]) : std::string()) + ", not an incident cell of the requested dimension"); return; }
    if (!(mval[t] == mval[p])) { c.violation(id, cs + ",value", "cell " + vh::str(p) + " value " + dstr(mval[p]) + ": returned " + vh::str(t) + " of value " + dstr(mval[t])); return; }
  }

  // ---- boundary and coboundary are converse relations (from the library's answers only)
  {
    std::vector<std::pair<size_t, size_t>> viaB, viaC;
    for (size_t p = 0; p < N; ++p) { for (size_t f : gb[p]) viaB.emplace_back(p, f); for (size_t cf : gcb[p]) viaC.emplace_back(cf, p); }
    std::sort(viaB.begin(), viaB.end()); std::sort(viaC.begin(), viaC.end());
    if (!c.expect(viaB == viaC, "boundary_coboundary.converse", sig0, "incidence pairs from boundaries: " + vh::str(viaB.size()) + ", from coboundaries: " + vh::str(viaC.size()))) return;
    c.count("pairs.incident", viaB.size());
  }

  // ---- alternating signs along the enumeration compose to zero; an edge has two distinct ends
  for (size_t p = 0; p < N && !kSkipSignChecks; ++p) {
    if (mdim[p] == 1) {
      c.count("cmp.edge_ends");
      if (gb[p].size() != 2 || gb[p][0] == gb[p][1]) { c.violation("boundary.edge_ends", sig0, "edge " + vh::str(p) + " boundary " + vh::vstr(gb[p])); return; }
      auto e = b.endpoints(p);
      if (!((e.first == gb[p][0] && e.second == gb[p][1]) || (e.first == gb[p][1] && e.second == gb[p][0]))) { c.violation("boundary.edge_ends", sig0 + ",endpoints", "endpoints() differ from the boundary"); return; }
    }
    if (mdim[p] < 2) continue;
    std::map<size_t, int> acc;
    for (size_t k = 0; k < gb[p].size(); ++k) {
      size_t f = gb[p][k];
      for (size_t l = 0; l < gb[f].size(); ++l) acc[gb[f][l]] += ((k % 2) ? -1 : 1) * ((l % 2) ? -1 : 1);
    }
    c.count("cmp.dd_zero");
    for (auto& kv : acc) if (kv.second != 0) {
      c.violation("boundary.dd_zero", sig0 + ",celldim=" + vh::str(mdim[p]), "dd(" + vh::str(p) + " " + G.show(coord[p]) + ") has coefficient " + vh::str(kv.second) +
                  " on cell " + vh::str(kv.first) + " " + G.show(coord[kv.first]) + "; boundary=" + vh::vstr(gb[p]));
      return;
    }
  }

  // ---- incidence numbers: +-1, the documented formula, and alternating along the enumerated boundary
  for (size_t p = 0; p < N && !kSkipSignChecks; ++p) {
    const std::string cs = sig0 + ",celldim=" + vh::str(mdim[p]);
    bool wraps = false;
    for (size_t f : gb[p]) for (int i = 0; i < d; ++i) if (S.per[i] && coord[p][i] == 2 * S.n[i] - 1 && coord[f][i] == 0) wraps = true;
    for (size_t k = 0; k < gb[p].size(); ++k) {
      int inc = b.compute_incidence_between_cells(p, gb[p][k]);
      int wanti = 0;
      for (size_t t = 0; t < mfaces[p].size(); ++t) if (mfaces[p][t] == gb[p][k]) wanti = msign[p][t];
      c.count("cmp.incidence");
      if (inc != 1 && inc != -1) { c.violation("incidence.unit", cs, "incidence(" + vh::str(p) + "," + vh::str(gb[p][k]) + ")=" + vh::str(inc)); return; }
      // the sign convention of compute_incidence_between_cells is not part of the property: agreement with the documented formula is counted;
      // what is required of the incidence numbers is +-1, alternation along the enumerated boundary and (below) that they compose to zero
      if (inc == wanti) c.count("info.incidence.equals_documented_formula"); else c.count("info.incidence.differs_from_documented_formula");
      if (k > 0) {
        int prev = b.compute_incidence_between_cells(p, gb[p][k - 1]);
        if (prev != -inc) {
          c.violation("incidence.alternates_along_boundary", cs + (wraps ? ",wraps" : ""), "boundary of " + vh::str(p) + " = " + vh::vstr(gb[p]) +
                      ": incidences at positions " + vh::str(k - 1) + "," + vh::str(k) + " are " + vh::str(prev) + "," + vh::str(inc));
          return;
        }
      }
    }
  }

  // ---- the incidence numbers returned by the library define a boundary operator: sum_f [p:f][f:g] = 0 for every cell p and every g
  for (size_t p = 0; p < N && !kSkipSignChecks; ++p) {
    if (mdim[p] < 2) continue;
    std::map<size_t, int> acc;
    for (size_t f : gb[p]) { int a = b.compute_incidence_between_cells(p, f); for (size_t g : gb[f]) acc[g] += a * b.compute_incidence_between_cells(f, g); }
    c.count("cmp.incidence_dd_zero");
    for (auto& kv : acc) if (kv.second != 0) {
      c.violation("incidence.dd_zero", sig0 + ",celldim=" + vh::str(mdim[p]), "with the incidence numbers of compute_incidence_between_cells, dd(" + vh::str(p) + " " + G.show(coord[p]) +
                  ") has coefficient " + vh::str(kv.second) + " on cell " + vh::str(kv.first) + " " + G.show(coord[kv.first]));
      return;
    }
  }

  // ---- compute_incidence_between_cells(A, B) throws std::logic_error when B is not a codimension-1 face of A (documented).
  //      Pure queries: the case goes on after a violation (one violation per kind of pair and case).
  if (!kSkipSignChecks) {
    vh::Rng& r = c.rng;
    std::set<std::string> reported;
    auto is_face = [&](size_t p, size_t q) { return std::find(mfaces[p].begin(), mfaces[p].end(), q) != mfaces[p].end(); };
    // the kind of a non-incident pair, from the coordinates only
    auto kind_of = [&](size_t p, size_t q) -> std::string {
      if (p == q) return "same_cell_twice";
      int ndiff = 0, dir = -1;
      for (int i = 0; i < d; ++i) if (coord[p][i] != coord[q][i]) { ++ndiff; dir = i; }
      if (ndiff >= 2) return "several_coordinates_differ";
      if (is_face(q, p)) return "face_and_coface_swapped";
      if (S.per[dir] && coord[q][dir] == 0) return "same_line_to_coordinate_0_of_periodic_direction";
      return mdim[p] == mdim[q] ? "same_line_same_dimension" : "same_line_not_adjacent";
    };
    auto report = [&](size_t p, size_t q, const std::string& kind, const std::string& what) {
      if (!reported.insert(kind).second) return;
      c.violation("incidence.throws_on_non_incident", class_sig(S) + ",pair=" + kind,
                  "compute_incidence_between_cells(" + vh::str(p) + " " + G.show(coord[p]) + ", " + vh::str(q) + " " + G.show(coord[q]) + ") " + what +
                  "; the second cell is not a codimension-1 face of the first one, the documentation promises std::logic_error");
    };
    auto probe = [&](size_t p, size_t q) {
      if (is_face(p, q)) { c.count("skip.nonincident_probe_is_incident"); return; }
      if (p == q) return;   // probed in a child process below
      const std::string kind = kind_of(p, q);
      int value = 0;
      int out = incidence_outcome(b, p, q, &value);
      c.count("probe.nonincident");
      c.count("probe.nonincident." + kind);
      if (out != 0) report(p, q, kind, out == 1 ? "returned " + vh::str(value) : std::string("threw something that is not a std::logic_error"));
    };
    const int rounds = N <= 9 ? (int)N : 12;
    for (int it = 0; it < rounds; ++it) {
      size_t p = N <= 9 ? (size_t)it : (size_t)r.below(N);
      // (a) the pair in the wrong order: (face, coface)
      if (!mfaces[p].empty()) probe(mfaces[p][r.below(mfaces[p].size())], p);
      // (b) another cell of the same line: only one coordinate differs
      {
        std::vector<int> wide; for (int i = 0; i < d; ++i) if (G.ext[i] >= 3) wide.push_back(i);
        if (!wide.empty()) {
          int i = wide[r.below(wide.size())];
          Coord cq = coord[p];
          int x = cq[i], y = (int)r.below((uint64_t)G.ext[i] - 1); if (y >= x) ++y;
          if (S.per[i] && r.chance(1, 3) && x != 0) y = 0;     // the coordinate the periodic class treats specially
          cq[i] = y;
          probe(p, G.index(cq));
        }
      }
      // (c) a face of a face (two dimensions apart), (d) any other cell
      if (mdim[p] >= 2) { size_t f = mfaces[p][r.below(mfaces[p].size())]; probe(p, mfaces[f][r.below(mfaces[f].size())]); }
      probe(p, (size_t)r.below(N));
    }
    // (e) (A, A): a library that indexes its counters with -1 here takes the process down, hence the child process
    if (S.probe_self || r.chance(1, 16)) {
      size_t ps[3] = {(size_t)r.below(N), (size_t)r.below(N), (size_t)r.below(N)};
      int out = forked([&]() { int worst = 0, value = 0; for (size_t p : ps) worst = std::max(worst, incidence_outcome(b, p, p, &value)); return worst; });
      if (out == kForkFailed) c.count("skip.fork_failed");
      else { c.count("probe.nonincident", 3); c.count("probe.nonincident.same_cell_twice", 3); }
      if (out != 0 && out != kForkFailed) report(ps[0], ps[0], "same_cell_twice", out == 1 ? std::string("returned a value") : out == 2 ? std::string("threw something that is not a std::logic_error") :
                           "took the (forked) process down, " + (out < 0 ? "signal " + vh::str(-out) : "status " + vh::str(out)));
    }
  }

  // ---- the documented "build by hand" route: constructor from the sizes (an empty bitmap), values written through the public
  //      iterators, then impose_lower_star_filtration() / impose_lower_star_filtration_from_vertices()  ==  the model filtration
  if (S.route == kVector) {
    typedef typename Maker<Cx>::BaseT BaseT;
    std::vector<unsigned> sizes; for (int i = 0; i < d; ++i) sizes.push_back((unsigned)S.n[i]);
    std::unique_ptr<BaseT> hp = Maker<Cx>::make_sizes(sizes, dirs);
    BaseT& h = *hp;
    c.count(S.vertex_input ? "handbuilt.vertices" : "handbuilt.top");
    const std::string hs = class_sig(S) + ",input=" + (S.vertex_input ? "vertices" : "top") + ",route=sizes_constructor+iterators+impose";
    bool built = true;
    if (h.size() != N) { c.violation("handbuilt.cells.count", hs, "size()=" + vh::str(h.size()) + " model " + vh::str(N)); built = false; }
    if (built) {
      size_t i = 0;
      if (S.vertex_input) {
        for (auto v : h.vertices_range()) { if (i >= S.input.size() || v >= N) { i = S.input.size() + 1; break; } h.get_cell_data(v) = (FT)S.input[i++]; }
        if (i == S.input.size()) h.impose_lower_star_filtration_from_vertices();
      } else if (!side0) {
        for (auto t : h.top_dimensional_cells_range()) { if (i >= S.input.size() || t >= N) { i = S.input.size() + 1; break; } h.get_cell_data(t) = (FT)S.input[i++]; }
        if (i == S.input.size()) h.impose_lower_star_filtration();
      }
      if (i != S.input.size()) { c.violation("handbuilt.range_length", hs, "the range visits " + std::string(i > S.input.size() ? "more than " : "") + vh::str(std::min(i, S.input.size())) + " cells, the input has " + vh::str(S.input.size())); built = false; }
    }
    if (built) {
      size_t bad = 0, first = 0;
      for (size_t p = N; p-- > 0;) if (!((double)h.get_cell_data(p) == mval[p])) { ++bad; first = p; }
      c.count("cmp.handbuilt.equals_vector_built");
      if (bad) c.violation("handbuilt.equals_vector_built", hs, vh::str(bad) + " of " + vh::str(N) + " cells differ, first: cell " + vh::str(first) + " " + G.show(coord[first]) + " of dimension " +
                           vh::str(mdim[first]) + " hand-built " + dstr((double)h.get_cell_data(first)) + " expected " + dstr(mval[first]));
    }
  }

  // ---- filtration order: total, non-decreasing, faces first
  std::vector<size_t> order = b.filtration_simplex_range();
  std::vector<long> pos(N, -1);
  {
    if (!c.expect(order.size() == N, "order.total", sig0, "filtration range has " + vh::str(order.size()) + " cells of " + vh::str(N))) return;
    for (size_t i = 0; i < N; ++i) {
      if (order[i] >= N || pos[order[i]] >= 0) { c.violation("order.total", sig0, "cell " + vh::str(order[i]) + " repeated / out of range at position " + vh::str(i)); return; }
      pos[order[i]] = (long)i;
    }
    c.count("cmp.order");
    for (size_t i = 0; i + 1 < N; ++i)
      if (!(mval[order[i]] <= mval[order[i + 1]])) {
        c.violation("order.non_decreasing", sig0, "position " + vh::str(i) + ": value " + dstr(mval[order[i]]) + " before " + dstr(mval[order[i + 1]])); return;
      }
    for (size_t p = 0; p < N; ++p) for (size_t f : mfaces[p])
      if (!(pos[f] < pos[p])) {
        c.violation("order.faces_first", sig0 + (mval[f] == mval[p] ? ",tie" : ",distinct_values"), "cell " + vh::str(p) + " " + G.show(coord[p]) + " at position " + vh::str(pos[p]) +
                    " before its face " + vh::str(f) + " at position " + vh::str(pos[f])); return;
      }
    b.initialize_filtration();
    for (size_t i = 0; i < N; i += 1 + N / 16)
      if (b.simplex(i) != order[i]) { c.violation("order.simplex_of_key", sig0, "simplex(" + vh::str(i) + ") is not the i-th cell of the filtration range"); return; }
  }

  size_t positive_pairs = 0;
  if (!S.do_persistence) c.count("skip.persistence_large_grid");
  if (S.do_persistence) {
  // ---- persistence over Z_p against the naive reduction of the model (cells listed in the validated filtration order)
  const int kper = G.num_periodic();
  std::vector<oracle::Cell> ocells;
  if (S.compare == kReduction) {
    ocells.resize(N);
    for (size_t i = 0; i < N; ++i) {
      size_t p = order[i];
      ocells[i].dim = mdim[p];
      for (size_t t = 0; t < mfaces[p].size(); ++t) ocells[i].bdry.emplace_back((int)pos[mfaces[p][t]], (oracle::i64)msign[p][t]);
    }
  }
  for (int prime : {2, 3, S.third_prime}) {
    typedef Gudhi::persistent_cohomology::Field_Zp Field_Zp;
    typedef Gudhi::persistent_cohomology::Persistent_cohomology<Cx, Field_Zp> PC;
    const std::string ps = sig0 + ",p=" + vh::str(prime);
    PC pcoh(b, true);
    pcoh.init_coefficients(prime);
    pcoh.compute_persistent_cohomology();
    typedef std::pair<long, long> BD;  // (birth cell, death cell or -1)
    std::vector<BD> got_pos, got_ess;
    for (auto& pr : pcoh.get_persistent_pairs()) {
      size_t bi = std::get<0>(pr), de = std::get<1>(pr);
      if (bi >= N || (de != Cx::null_simplex() && de >= N)) { c.violation("persistence.pair_handles", ps, "pair with an invalid handle"); return; }
      if (de == Cx::null_simplex()) got_ess.emplace_back((long)bi, -1L);
      double bv = mval[bi], dv = (de == Cx::null_simplex()) ? kInf : mval[de];
      if (bv != dv) got_pos.emplace_back((long)bi, de == Cx::null_simplex() ? -1L : (long)de);
    }
    // Betti numbers of T^k x D^(d-k): all essential classes, whatever the values
    std::vector<long> gbetti(d + 2, 0), wbetti(d + 2, 0);
    for (auto& e : got_ess) gbetti[mdim[e.first]]++;
    for (int j = 0; j <= d; ++j) wbetti[j] = cubical_model::binom(kper, j);
    c.count("cmp.betti");
    if (gbetti != wbetti) { c.violation("persistence.betti_torus", ps, "essential classes per dimension " + vh::vstr(gbetti) + " expected " + vh::vstr(wbetti)); return; }
    std::vector<int> bn = pcoh.betti_numbers();
    for (int j = 0; j <= d && j < (int)bn.size(); ++j) if (bn[j] != wbetti[j]) { c.violation("persistence.betti_torus", ps + ",betti_numbers()", "betti_numbers()=" + vh::vstr(bn) + " expected " + vh::vstr(wbetti)); return; }
    if (kper > 0) c.count("betti.periodic_checked");
    if (prime > 5) c.count("cmp.persistence.prime_above_5");

    if (S.compare == kReduction) {
      oracle::Reduction red = oracle::reduce(ocells, prime);
      std::vector<BD> want_pos;
      for (auto& bar : red.bars) {
        size_t bi = order[bar.birth];
        double bv = mval[bi], dv = bar.death < 0 ? kInf : mval[order[bar.death]];
        if (bv != dv) want_pos.emplace_back((long)bi, bar.death < 0 ? -1L : (long)order[bar.death]);
      }
      // The diagram (multiset of (dimension, birth value, death value)) is compared, not the pairing of cells: among cells
      // of equal value the library may legitimately keep another representative (its union-find for H_0 applies the elder
      // rule on values, not on positions).
      std::vector<oracle::Interval> gd, wd;
      for (auto& q : got_pos) gd.push_back(oracle::Interval{mdim[q.first], mval[q.first], q.second < 0 ? kInf : mval[q.second]});
      for (auto& q : want_pos) wd.push_back(oracle::Interval{mdim[q.first], mval[q.first], q.second < 0 ? kInf : mval[q.second]});
      std::sort(gd.begin(), gd.end()); std::sort(wd.begin(), wd.end());
      c.count("cmp.persistence.p" + vh::str(prime));
      c.count("pairs.positive_length", want_pos.size());
      for (auto& iv : wd) { c.count("pairs.dim" + vh::str(iv.dim)); if (iv.death != kInf) c.count("pairs.finite"); }
      positive_pairs = std::max(positive_pairs, want_pos.size());
      if (gd != wd) {
        c.violation("persistence.diagram", ps, "Persistent_cohomology " + oracle::show(gd) + " independent reduction " + oracle::show(wd));
        return;
      }
    } else if (S.compare == kConstant) {
      c.count("cmp.persistence_constant.p" + vh::str(prime));
      if (!got_pos.empty()) {
        // on a constant (finite) grid only the essential classes have positive length
        for (auto& q : got_pos) if (q.second >= 0) { c.violation("persistence.constant_grid", ps, "finite interval of positive length on a constant grid"); return; }
      }
    } else {
      c.count("cmp.persistence_betti_only.p" + vh::str(prime));
    }
  }

  if (S.compare == kReduction && d >= 2 && distinct.size() >= 2 && positive_pairs >= 2) {
    uint64_t h = vh::hash_str(vh::G().history);
    c.nontrivial(h);
  }
  if (S.compare != kReduction && kper >= 1 && d >= 2) c.nontrivial(vh::hash_str(vh::G().history));
  }

  c.sample("{\"history\":\"" + vh::jesc(vh::G().history.substr(0, 400)) + "\",\"cells\":" + vh::str(N) + ",\"positive_pairs\":" + vh::str(positive_pairs) + "}");
}

// ------------------------------------------------------------------------------------------------ generators
// side options of the exhaustive shape enumeration: (length, periodic)
inline const std::vector<std::pair<int, char>>& side_options(bool periodic_class) {
  static const std::vector<std::pair<int, char>> plain = {{1, 0}, {2, 0}, {3, 0}, {4, 0}};
  static const std::vector<std::pair<int, char>> per = {{1, 0}, {2, 0}, {3, 0}, {4, 0}, {3, 1}, {4, 1}};
  return periodic_class ? per : plain;
}
inline size_t num_shapes(bool periodic_class, int maxd) { size_t o = side_options(periodic_class).size(), t = 0, pw = 1; for (int d = 1; d <= maxd; ++d) { pw *= o; t += pw; } return t; }

// length = number of top cells (top input) or number of vertices (vertex input)
inline void set_side(Spec& S, int length, char per) { S.n.push_back(S.vertex_input && !per ? length - 1 : length); S.per.push_back(per); }

inline void shape_from_id(Spec& S, size_t id) {
  const auto& opt = side_options(S.periodic_class);
  size_t o = opt.size(), pw = o; int d = 1;
  while (id >= pw) { id -= pw; pw *= o; ++d; }
  for (int i = 0; i < d; ++i) { set_side(S, opt[id % o].first, opt[id % o].second); id /= o; }
}

// `fine`: many more levels (long sides), `file`: only what the file format documents (finite values and +inf)
inline void fill_values(vh::Rng& r, Spec& S, bool fine = false, bool file = false) {
  Grid G(S.n, S.per);
  size_t cnt = S.vertex_input ? G.num_vert() : G.num_top();
  static const int levels[] = {1, 2, 3, 4, 4, 4, 8, 16, 64};
  static const int fine_levels[] = {4, 16, 64, 256, 1024, 4096};
  int L = fine ? fine_levels[r.below(sizeof(fine_levels) / sizeof(fine_levels[0]))] : levels[r.below(sizeof(levels) / sizeof(levels[0]))];
  unsigned inf_den = (unsigned)r.pick(std::vector<int>{0, 0, 0, 16, 6, 2});   // probability 1/inf_den of +inf per value (0 = never)
  int shift = (int)r.below(3) - 1;
  unsigned ninf_den = r.chance(1, 6) ? (unsigned)r.pick(std::vector<int>{12, 4}) : 0u;    // -inf as well in 1/6 of the cases
  if (file) ninf_den = 0;
  S.input.resize(cnt);
  for (size_t i = 0; i < cnt; ++i) {
    if (inf_den && r.chance(1, inf_den)) S.input[i] = kInf;
    else if (ninf_den && r.chance(1, ninf_den)) S.input[i] = -kInf;
    else S.input[i] = 0.25 * (double)((long)r.below((uint64_t)L) + shift * (L / 2));
  }
  if (r.chance(1, 60)) for (auto& v : S.input) v = kInf;
  // the third prime of the persistence comparison (drawn last: the values of a case do not depend on it)
  S.third_prime = r.pick(std::vector<int>{5, 5, 7, 11});
}

// random shape of dimension d with the given periodic mask; cells bounded by `cap`
inline void random_shape(vh::Rng& r, Spec& S, int d, unsigned mask, size_t cap, int maxlen = 4) {
  std::vector<int> len(d); std::vector<char> per(d);
  for (int i = 0; i < d; ++i) { per[i] = (mask >> i) & 1; len[i] = per[i] ? 3 + (int)r.below(maxlen - 2) : 1 + (int)r.below(maxlen); }
  auto ncells = [&]() { size_t t = 1; for (int i = 0; i < d; ++i) { int n = (S.vertex_input && !per[i]) ? len[i] - 1 : len[i]; t *= (size_t)(per[i] ? 2 * n : 2 * n + 1); } return t; };
  for (int guard = 0; ncells() > cap && guard < 200; ++guard) {
    int i = (int)r.below(d);
    if (len[i] > (per[i] ? 3 : 1)) --len[i];
  }
  for (int i = 0; i < d; ++i) set_side(S, len[i], per[i]);
}

template <class Cx>
Spec new_spec(bool vertex_input) {
  Spec S; S.periodic_class = Maker<Cx>::periodic_class; S.is_float = Maker<Cx>::is_float; S.vertex_input = vertex_input;
  return S;
}

template <class Cx>
void shapes_case(vh::Case& c, bool vertex_input) {
  Spec S = new_spec<Cx>(vertex_input);
  shape_from_id(S, (size_t)c.k % num_shapes(S.periodic_class, 3));
  fill_values(c.rng, S);
  check_grid<Cx>(c, S);
}

// every shape, both input conventions in turn (float unit)
template <class Cx>
void shapes_both_case(vh::Case& c) {
  size_t ns = num_shapes(Maker<Cx>::periodic_class, 3);
  shapes_case<Cx>(c, (((size_t)c.k / ns) & 1) != 0);
}

template <class Cx>
void dim4_case(vh::Case& c, bool vertex_input) {
  Spec S = new_spec<Cx>(vertex_input);
  unsigned mask = S.periodic_class ? (unsigned)(c.k % 16) : 0u;
  random_shape(c.rng, S, 4, mask, c.thorough ? 4200 : 2600);
  fill_values(c.rng, S);
  check_grid<Cx>(c, S);
}

// 5-dimensional grids, small sides (periodic sides 3, other sides 1..2 cells / 1..3 vertices), every periodic mask (k / 2 mod 32),
// both input conventions (k mod 2).  Grids above 3000 cells: closed-form Betti numbers instead of the naive reduction.
template <class Cx>
void dim5_case(vh::Case& c) {
  Spec S = new_spec<Cx>((c.k & 1) != 0);
  unsigned mask = S.periodic_class ? (unsigned)((c.k / 2) % 32) : 0u;
  for (int i = 0; i < 5; ++i) {
    bool per = (mask >> i) & 1;
    set_side(S, per ? 3 : (S.vertex_input ? 1 + (int)c.rng.below(3) : 1 + (int)c.rng.below(2)), per);
  }
  fill_values(c.rng, S);
  Grid G(S.n, S.per);
  if (G.ncells > 3000) S.compare = kBettiOnly;
  c.count(S.per[4] ? "grid.d5.fifth_direction_periodic" : "grid.d5.fifth_direction_not_periodic");
  check_grid<Cx>(c, S);
}

// long sides with random values: 1-D with 1000 cells/vertices, 2-D 40 x 25, 2-D with random sides up to 40, 3-D with sides up to 9
template <class Cx>
void long_case(vh::Case& c) {
  vh::Rng& r = c.rng;
  Spec S = new_spec<Cx>((c.k & 1) != 0);
  int kind = (int)((c.k / 2) % 4);
  int d = kind == 0 ? 1 : kind == 3 ? 3 : 2;
  unsigned mask = S.periodic_class ? (unsigned)((c.k / 8) % (1u << d)) : 0u;
  auto per = [&](int i) { return (char)((mask >> i) & 1); };
  if (kind == 0) set_side(S, 1000, per(0));
  else if (kind == 1) { bool sw = r.chance(1, 2); set_side(S, sw ? 25 : 40, per(0)); set_side(S, sw ? 40 : 25, per(1)); }
  else if (kind == 2) { set_side(S, 5 + (int)r.below(36), per(0)); set_side(S, 5 + (int)r.below(20), per(1)); }
  else { std::vector<int> l = {5 + (int)r.below(5), 3 + (int)r.below(5), 3 + (int)r.below(3)}; r.shuffle(l); for (int i = 0; i < 3; ++i) set_side(S, l[i], per(i)); }
  fill_values(r, S, /*fine=*/r.chance(2, 3));
  check_grid<Cx>(c, S);
}

// constant-valued grids, larger sides, closed-form Betti numbers only
template <class Cx>
void betti_case(vh::Case& c) {
  vh::Rng& r = c.rng;
  Spec S = new_spec<Cx>(r.chance(1, 2));
  S.compare = kConstant;
  int d = 1 + (int)(c.k % 4);
  unsigned mask = S.periodic_class ? (unsigned)((c.k / 4) % (1u << d)) : 0u;
  if (S.periodic_class && mask == 0 && r.chance(3, 4)) mask = 1u + (unsigned)r.below((1u << d) - 1);
  random_shape(r, S, d, mask, 3000, d == 1 ? 12 : d == 2 ? 9 : d == 3 ? 6 : 4);
  Grid G(S.n, S.per);
  double v = 0.5 * (double)r.range(-3, 3);
  S.input.assign(S.vertex_input ? G.num_vert() : G.num_top(), v);
  c.count("grid.constant");
  check_grid<Cx>(c, S);
}

// top-cell values written to a Perseus-style file and read back through the const char* constructor.
// inf_mode 0: finite values only, 1: as drawn, 2: at least one `inf`
template <class Cx>
void file_case(vh::Case& c, int inf_mode) {
  vh::Rng& r = c.rng;
  Spec S = new_spec<Cx>(false);
  S.route = kFile;
  int d = 1 + (int)(c.k % 4);
  unsigned mask = S.periodic_class ? (unsigned)((c.k / 4) % (1u << d)) : 0u;
  random_shape(r, S, d, mask, 1200, d == 1 ? 12 : d == 2 ? 8 : 4);
  fill_values(r, S, false, /*file=*/true);
  if (inf_mode == 0) for (auto& v : S.input) if (v == kInf) v = 0.25 * (double)r.range(-8, 8);
  if (inf_mode == 2 && !std::count(S.input.begin(), S.input.end(), kInf)) S.input[r.below(S.input.size())] = kInf;
  S.file_final_newline = r.chance(1, 2);
  S.file_format = (int)r.below(3);
  check_grid<Cx>(c, S);
}

}  // namespace c13
#endif

// C13 — cubical complexes are valid filtered cell complexes with correct incidences.
// Shared, class-templated monitor.  The two translation units instantiate it for
//   Bitmap_cubical_complex<Bitmap_cubical_complex_base<double>>                                  (c13_plain.cpp)
//   Bitmap_cubical_complex<Bitmap_cubical_complex_periodic_boundary_conditions_base<double>>     (c13_periodic.cpp)
#ifndef VERIF_C13_COMMON_H_
#define VERIF_C13_COMMON_H_

#include <gudhi/Bitmap_cubical_complex.h>
#include <gudhi/Bitmap_cubical_complex_periodic_boundary_conditions_base.h>
#include <gudhi/Persistent_cohomology.h>

#include "common/vh.h"
#include "oracle/zp_reduce.h"
#include "cubical_model.h"

#include <cmath>
#include <memory>

namespace c13 {

using cubical_model::Grid;
using cubical_model::Coord;
using cubical_model::Inc;

typedef Gudhi::cubical_complex::Bitmap_cubical_complex_base<double> Base;
typedef Gudhi::cubical_complex::Bitmap_cubical_complex<Base> Plain;
typedef Gudhi::cubical_complex::Bitmap_cubical_complex_periodic_boundary_conditions_base<double> PBase;
typedef Gudhi::cubical_complex::Bitmap_cubical_complex<PBase> Periodic;

const double kInf = std::numeric_limits<double>::infinity();

// Only for validating the persistence oracle in isolation (mutation experiments): -DC13_SKIP_SIGN_CHECKS switches the
// direct sign checks off so that a sign defect has to be found through Persistent_cohomology.  Never defined by spec.py.
#ifdef C13_SKIP_SIGN_CHECKS
const bool kSkipSignChecks = true;
#else
const bool kSkipSignChecks = false;
#endif

// ------------------------------------------------------------------------------------------------ case description
struct Spec {
  bool periodic_class = false;
  bool vertex_input = false;
  std::vector<int> n;        // top cells per direction
  std::vector<char> per;
  std::vector<double> input; // values of the top cells / vertices, first direction fastest
  bool do_persistence = true;
  bool oracle_reduction = true;   // false: only the closed-form Betti numbers are compared (constant grids)
};

template <class Cx> struct Maker;
template <> struct Maker<Plain> {
  static constexpr bool periodic_class = false;
  static std::unique_ptr<Plain> make(const std::vector<unsigned>& dims, const std::vector<double>& cells, const std::vector<bool>&, bool top) {
    return std::unique_ptr<Plain>(new Plain(dims, cells, top));
  }
};
template <> struct Maker<Periodic> {
  static constexpr bool periodic_class = true;
  static std::unique_ptr<Periodic> make(const std::vector<unsigned>& dims, const std::vector<double>& cells, const std::vector<bool>& dirs, bool top) {
    return std::unique_ptr<Periodic>(new Periodic(dims, cells, dirs, top));
  }
};

inline std::string mask_str(const std::vector<char>& per) { std::string s; for (char b : per) s += b ? '1' : '0'; return s; }

inline std::string base_sig(const Spec& s) {
  return std::string("class=") + (s.periodic_class ? "periodic" : "plain") + ",input=" + (s.vertex_input ? "vertices" : "top") +
         ",d=" + vh::str(s.n.size()) + ",periodic_dirs=" + vh::str(std::count(s.per.begin(), s.per.end(), (char)1));
}

inline std::string dstr(double v) { if (v == kInf) return "inf"; if (v == -kInf) return "-inf"; return vh::str(v); }

// ------------------------------------------------------------------------------------------------ the monitor
template <class Cx>
void check_grid(vh::Case& c, const Spec& S) {
  const int d = (int)S.n.size();
  Grid G(S.n, S.per);
  const std::string sig0 = base_sig(S);

  // ---- log the complete input (enough to rebuild the case by hand)
  {
    std::string l = std::string(S.periodic_class ? "periodic_class" : "plain_class") + " input=" + (S.vertex_input ? "vertices" : "top_cells") + " shape=[";
    for (int i = 0; i < d; ++i) { if (i) l += ","; l += vh::str(S.vertex_input ? G.nvert(i) : S.n[i]); }
    l += "] periodic=" + mask_str(S.per) + " values=[";
    for (size_t i = 0; i < S.input.size(); ++i) { if (i) l += ","; l += dstr(S.input[i]); }
    c.log(l + "]");
  }
  c.count(std::string("grid.class.") + (S.periodic_class ? "periodic" : "plain"));
  c.count(std::string("grid.input.") + (S.vertex_input ? "vertices" : "top"));
  c.count("grid.d" + vh::str(d) + ".m" + mask_str(S.per));
  bool side1 = false, side0 = false;
  for (int i = 0; i < d; ++i) { if (S.n[i] == 1) side1 = true; if (S.n[i] == 0) side0 = true; }
  bool len1 = false;  // a side of length 1 in the units of the input convention
  for (int i = 0; i < d; ++i) if ((S.vertex_input ? G.nvert(i) : S.n[i]) == 1) len1 = true;
  if (len1) c.count("grid.length1_side");
  if (side1) c.count("grid.one_cell_side");
  if (side0) c.count("grid.single_vertex_side");
  size_t ninf = 0; for (double v : S.input) ninf += (v == kInf);
  if (ninf) c.count("grid.has_inf");
  if (std::count(S.input.begin(), S.input.end(), -kInf)) c.count("grid.has_neg_inf");
  if (ninf == S.input.size()) c.count("grid.all_inf");
  std::set<double> distinct(S.input.begin(), S.input.end());
  if (distinct.size() < S.input.size()) c.count("grid.has_ties");

  // ---- build the real object
  std::vector<unsigned> dims; std::vector<bool> dirs;
  for (int i = 0; i < d; ++i) { dims.push_back((unsigned)(S.vertex_input ? G.nvert(i) : S.n[i])); dirs.push_back(S.per[i] != 0); }
  std::unique_ptr<Cx> bp = Maker<Cx>::make(dims, S.input, dirs, !S.vertex_input);
  Cx& b = *bp;

  // ---- sizes
  if (!c.expect(b.num_simplices() == G.ncells && b.size() == G.ncells, "cells.count", sig0,
                "num_simplices=" + vh::str(b.num_simplices()) + " model=" + vh::str(G.ncells))) return;
  if (!c.expect(b.dimension() == (size_t)d, "complex.dimension", sig0, "dimension()=" + vh::str(b.dimension()))) return;

  const size_t N = G.ncells;
  std::vector<Coord> coord(N);
  std::vector<int> mdim(N);
  for (size_t p = 0; p < N; ++p) { coord[p] = G.coord(p); mdim[p] = Grid::dim(coord[p]); }

  // ---- the input order of the public iterators identifies handles with grid cells
  if (!side0) {
    std::vector<size_t> want = G.top_positions(), got;
    for (auto it = b.top_dimensional_cells_iterator_begin(); it != b.top_dimensional_cells_iterator_end(); ++it) {
      got.push_back(*it);
      if (got.size() > want.size() + 2) break;
    }
    if (!c.expect(got == want, "handles.top_cells_order", sig0, "top-dimensional cells iterator yields " + vh::vstr(got) + " model " + vh::vstr(want))) return;
  }
  {
    std::vector<size_t> want = G.vertex_positions(), got;
    for (auto it = b.vertices_iterator_begin(); it != b.vertices_iterator_end(); ++it) {
      got.push_back(*it);
      if (got.size() > want.size() + 2) break;
    }
    if (!c.expect(got == want, "handles.vertices_order", sig0, "vertices iterator yields " + vh::vstr(got) + " model " + vh::vstr(want))) return;
  }

  // ---- per cell: dimension, boundary, coboundary, value, incidence numbers, dd = 0
  std::vector<double> mval = S.vertex_input ? G.values_from_vertices(S.input) : G.values_from_top(S.input);
  std::vector<std::vector<size_t>> gb(N), gcb(N);
  std::vector<std::vector<size_t>> mfaces(N);   // model faces as positions (used later for the order / the oracle)
  std::vector<std::vector<int>> msign(N);
  for (size_t p = 0; p < N; ++p) {
    const std::string cs = sig0 + ",celldim=" + vh::str(mdim[p]);
    c.count("cells.checked");
    c.count("cells.dim" + vh::str(mdim[p]));
    unsigned gd = b.dimension(p);
    if (!c.expect(gd == (unsigned)mdim[p] && b.get_dimension_of_a_cell(p) == (unsigned)mdim[p], "cell.dimension", cs,
                  "cell " + vh::str(p) + " " + G.show(coord[p]) + " dimension " + vh::str(gd) + " model " + vh::str(mdim[p]))) return;

    // boundary, as a multiset, against the geometric faces
    gb[p] = b.boundary_simplex_range(p);
    std::vector<Inc> mf = G.faces(coord[p]);
    std::vector<size_t> want;
    bool wraps = false;
    for (const Inc& f : mf) {
      size_t q = G.index(f.cell); want.push_back(q); mfaces[p].push_back(q); msign[p].push_back(f.sign());
      if (S.per[f.dir] && ((f.side > 0 && f.cell[f.dir] == 0) )) wraps = true;
    }
    std::vector<size_t> a = gb[p], w = want;
    std::sort(a.begin(), a.end()); std::sort(w.begin(), w.end());
    if (wraps) c.count("cells.with_wrapped_face");
    if (!c.expect(a == w, "boundary.geometric", cs + (wraps ? ",wraps" : ""),
                  "boundary of cell " + vh::str(p) + " " + G.show(coord[p]) + " = " + vh::vstr(gb[p]) + " geometric faces " + vh::vstr(want))) return;
    if (!c.expect(b.get_boundary_of_a_cell(p) == gb[p], "boundary.two_accessors", cs, "get_boundary_of_a_cell differs from boundary_simplex_range")) return;

    // coboundary, as a set
    gcb[p] = b.get_coboundary_of_a_cell(p);
    std::vector<Inc> mc = G.cofaces(coord[p]);
    std::vector<size_t> wantc; bool cwraps = false;
    for (const Inc& f : mc) { wantc.push_back(G.index(f.cell)); if (S.per[f.dir] && coord[p][f.dir] == 0 && f.side > 0) cwraps = true; }
    a = gcb[p]; w = wantc;
    std::sort(a.begin(), a.end()); std::sort(w.begin(), w.end());
    if (cwraps) c.count("cells.with_wrapped_coface");
    if (!c.expect(a == w, "coboundary.geometric", cs + (cwraps ? ",wraps" : ""),
                  "coboundary of cell " + vh::str(p) + " " + G.show(coord[p]) + " = " + vh::vstr(gcb[p]) + " geometric cofaces " + vh::vstr(wantc))) return;

    // value
    double gv = b.filtration(p);
    if (!c.expect(gv == mval[p] && b.get_cell_data(p) == mval[p], S.vertex_input ? "value.max_over_vertices" : "value.min_over_top_cells", cs,
                  "cell " + vh::str(p) + " " + G.show(coord[p]) + " value " + dstr(gv) + " model " + dstr(mval[p]))) return;
  }

  // ---- boundary and coboundary are converse relations (from the library's answers only)
  {
    std::vector<std::pair<size_t, size_t>> viaB, viaC;
    for (size_t p = 0; p < N; ++p) { for (size_t f : gb[p]) viaB.emplace_back(p, f); for (size_t cf : gcb[p]) viaC.emplace_back(cf, p); }
    std::sort(viaB.begin(), viaB.end()); std::sort(viaC.begin(), viaC.end());
    if (!c.expect(viaB == viaC, "boundary_coboundary.converse", sig0, "incidence pairs from boundaries: " + vh::str(viaB.size()) + ", from coboundaries: " + vh::str(viaC.size()))) return;
    c.count("pairs.incident", viaB.size());
  }

  // ---- alternating signs along the enumeration compose to zero; an edge has two distinct ends
  for (size_t p = 0; p < N && !kSkipSignChecks; ++p) {
    if (mdim[p] == 1) {
      c.count("cmp.edge_ends");
      if (gb[p].size() != 2 || gb[p][0] == gb[p][1]) { c.violation("boundary.edge_ends", sig0, "edge " + vh::str(p) + " boundary " + vh::vstr(gb[p])); return; }
      auto e = b.endpoints(p);
      if (!((e.first == gb[p][0] && e.second == gb[p][1]) || (e.first == gb[p][1] && e.second == gb[p][0]))) { c.violation("boundary.edge_ends", sig0 + ",endpoints", "endpoints() differ from the boundary"); return; }
    }
    if (mdim[p] < 2) continue;
    std::map<size_t, int> acc;
    for (size_t k = 0; k < gb[p].size(); ++k) {
      size_t f = gb[p][k];
      for (size_t l = 0; l < gb[f].size(); ++l) acc[gb[f][l]] += ((k % 2) ? -1 : 1) * ((l % 2) ? -1 : 1);
    }
    c.count("cmp.dd_zero");
    for (auto& kv : acc) if (kv.second != 0) {
      c.violation("boundary.dd_zero", sig0 + ",celldim=" + vh::str(mdim[p]), "dd(" + vh::str(p) + " " + G.show(coord[p]) + ") has coefficient " + vh::str(kv.second) +
                  " on cell " + vh::str(kv.first) + " " + G.show(coord[kv.first]) + "; boundary=" + vh::vstr(gb[p]));
      return;
    }
  }

  // ---- incidence numbers: +-1, the documented formula, and alternating along the enumerated boundary
  for (size_t p = 0; p < N && !kSkipSignChecks; ++p) {
    const std::string cs = sig0 + ",celldim=" + vh::str(mdim[p]);
    bool wraps = false;
    for (size_t f : gb[p]) for (int i = 0; i < d; ++i) if (S.per[i] && coord[p][i] == 2 * S.n[i] - 1 && coord[f][i] == 0) wraps = true;
    for (size_t k = 0; k < gb[p].size(); ++k) {
      int inc = b.compute_incidence_between_cells(p, gb[p][k]);
      int wanti = 0;
      for (size_t t = 0; t < mfaces[p].size(); ++t) if (mfaces[p][t] == gb[p][k]) wanti = msign[p][t];
      c.count("cmp.incidence");
      if (inc != 1 && inc != -1) { c.violation("incidence.unit", cs, "incidence(" + vh::str(p) + "," + vh::str(gb[p][k]) + ")=" + vh::str(inc)); return; }
      if (inc != wanti) {
        c.violation("incidence.documented_formula", cs + (wraps ? ",wraps" : ""), "compute_incidence_between_cells(" + vh::str(p) + " " + G.show(coord[p]) + "," +
                    vh::str(gb[p][k]) + " " + G.show(coord[gb[p][k]]) + ")=" + vh::str(inc) + " documented formula gives " + vh::str(wanti));
        return;
      }
      if (k > 0) {
        int prev = b.compute_incidence_between_cells(p, gb[p][k - 1]);
        if (prev != -inc) {
          c.violation("incidence.alternates_along_boundary", cs + (wraps ? ",wraps" : ""), "boundary of " + vh::str(p) + " = " + vh::vstr(gb[p]) +
                      ": incidences at positions " + vh::str(k - 1) + "," + vh::str(k) + " are " + vh::str(prev) + "," + vh::str(inc));
          return;
        }
      }
    }
  }

  // ---- filtration order: total, non-decreasing, faces first
  std::vector<size_t> order = b.filtration_simplex_range();
  std::vector<long> pos(N, -1);
  {
    if (!c.expect(order.size() == N, "order.total", sig0, "filtration range has " + vh::str(order.size()) + " cells of " + vh::str(N))) return;
    for (size_t i = 0; i < N; ++i) {
      if (order[i] >= N || pos[order[i]] >= 0) { c.violation("order.total", sig0, "cell " + vh::str(order[i]) + " repeated / out of range at position " + vh::str(i)); return; }
      pos[order[i]] = (long)i;
    }
    c.count("cmp.order");
    for (size_t i = 0; i + 1 < N; ++i)
      if (!(mval[order[i]] <= mval[order[i + 1]])) {
        c.violation("order.non_decreasing", sig0, "position " + vh::str(i) + ": value " + dstr(mval[order[i]]) + " before " + dstr(mval[order[i + 1]])); return;
      }
    for (size_t p = 0; p < N; ++p) for (size_t f : mfaces[p])
      if (!(pos[f] < pos[p])) {
        c.violation("order.faces_first", sig0 + (mval[f] == mval[p] ? ",tie" : ",distinct_values"), "cell " + vh::str(p) + " " + G.show(coord[p]) + " at position " + vh::str(pos[p]) +
                    " before its face " + vh::str(f) + " at position " + vh::str(pos[f])); return;
      }
    b.initialize_filtration();
    for (size_t i = 0; i < N; i += 1 + N / 16)
      if (b.simplex(i) != order[i]) { c.violation("order.simplex_of_key", sig0, "simplex(" + vh::str(i) + ") is not the i-th cell of the filtration range"); return; }
  }

  if (!S.do_persistence) { c.count("skip.persistence_large_grid"); return; }

  // ---- persistence over Z_p against the naive reduction of the model (cells listed in the validated filtration order)
  const int kper = G.num_periodic();
  std::vector<oracle::Cell> ocells;
  if (S.oracle_reduction) {
    ocells.resize(N);
    for (size_t i = 0; i < N; ++i) {
      size_t p = order[i];
      ocells[i].dim = mdim[p];
      for (size_t t = 0; t < mfaces[p].size(); ++t) ocells[i].bdry.emplace_back((int)pos[mfaces[p][t]], (oracle::i64)msign[p][t]);
    }
  }
  size_t positive_pairs = 0;
  for (int prime : {2, 3, 5}) {
    typedef Gudhi::persistent_cohomology::Field_Zp Field_Zp;
    typedef Gudhi::persistent_cohomology::Persistent_cohomology<Cx, Field_Zp> PC;
    const std::string ps = sig0 + ",p=" + vh::str(prime);
    PC pcoh(b, true);
    pcoh.init_coefficients(prime);
    pcoh.compute_persistent_cohomology();
    typedef std::pair<long, long> BD;  // (birth cell, death cell or -1)
    std::vector<BD> got_pos, got_ess;
    for (auto& pr : pcoh.get_persistent_pairs()) {
      size_t bi = std::get<0>(pr), de = std::get<1>(pr);
      if (bi >= N || (de != Cx::null_simplex() && de >= N)) { c.violation("persistence.pair_handles", ps, "pair with an invalid handle"); return; }
      if (de == Cx::null_simplex()) got_ess.emplace_back((long)bi, -1L);
      double bv = mval[bi], dv = (de == Cx::null_simplex()) ? kInf : mval[de];
      if (bv != dv) got_pos.emplace_back((long)bi, de == Cx::null_simplex() ? -1L : (long)de);
    }
    // Betti numbers of T^k x D^(d-k): all essential classes, whatever the values
    std::vector<long> gbetti(d + 2, 0), wbetti(d + 2, 0);
    for (auto& e : got_ess) gbetti[mdim[e.first]]++;
    for (int j = 0; j <= d; ++j) wbetti[j] = cubical_model::binom(kper, j);
    c.count("cmp.betti");
    if (gbetti != wbetti) { c.violation("persistence.betti_torus", ps, "essential classes per dimension " + vh::vstr(gbetti) + " expected " + vh::vstr(wbetti)); return; }
    std::vector<int> bn = pcoh.betti_numbers();
    for (int j = 0; j <= d && j < (int)bn.size(); ++j) if (bn[j] != wbetti[j]) { c.violation("persistence.betti_torus", ps + ",betti_numbers()", "betti_numbers()=" + vh::vstr(bn) + " expected " + vh::vstr(wbetti)); return; }
    if (kper > 0) c.count("betti.periodic_checked");

    if (S.oracle_reduction) {
      oracle::Reduction red = oracle::reduce(ocells, prime);
      std::vector<BD> want_pos;
      for (auto& bar : red.bars) {
        size_t bi = order[bar.birth];
        double bv = mval[bi], dv = bar.death < 0 ? kInf : mval[order[bar.death]];
        if (bv != dv) want_pos.emplace_back((long)bi, bar.death < 0 ? -1L : (long)order[bar.death]);
      }
      // The diagram (multiset of (dimension, birth value, death value)) is compared, not the pairing of cells: among cells
      // of equal value the library may legitimately keep another representative (its union-find for H_0 applies the elder
      // rule on values, not on positions).
      std::vector<oracle::Interval> gd, wd;
      for (auto& q : got_pos) gd.push_back(oracle::Interval{mdim[q.first], mval[q.first], q.second < 0 ? kInf : mval[q.second]});
      for (auto& q : want_pos) wd.push_back(oracle::Interval{mdim[q.first], mval[q.first], q.second < 0 ? kInf : mval[q.second]});
      std::sort(gd.begin(), gd.end()); std::sort(wd.begin(), wd.end());
      c.count("cmp.persistence.p" + vh::str(prime));
      c.count("pairs.positive_length", want_pos.size());
      for (auto& iv : wd) { c.count("pairs.dim" + vh::str(iv.dim)); if (iv.death != kInf) c.count("pairs.finite"); }
      positive_pairs = std::max(positive_pairs, want_pos.size());
      if (gd != wd) {
        c.violation("persistence.diagram", ps, "Persistent_cohomology " + oracle::show(gd) + " independent reduction " + oracle::show(wd));
        return;
      }
    } else {
      c.count("cmp.persistence_constant.p" + vh::str(prime));
      if (!got_pos.empty()) {
        // on a constant (finite) grid only the essential classes have positive length
        for (auto& q : got_pos) if (q.second >= 0) { c.violation("persistence.constant_grid", ps, "finite interval of positive length on a constant grid"); return; }
      }
    }
  }

  if (S.oracle_reduction && d >= 2 && distinct.size() >= 2 && positive_pairs >= 2) {
    uint64_t h = vh::hash_str(vh::G().history);
    c.nontrivial(h);
  }
  if (!S.oracle_reduction && kper >= 1 && d >= 2) c.nontrivial(vh::hash_str(vh::G().history));
  c.sample("{\"history\":\"" + vh::jesc(vh::G().history.substr(0, 400)) + "\",\"cells\":" + vh::str(N) + ",\"positive_pairs\":" + vh::str(positive_pairs) + "}");
}

// ------------------------------------------------------------------------------------------------ generators
// side options of the exhaustive shape enumeration: (length, periodic)
inline const std::vector<std::pair<int, char>>& side_options(bool periodic_class) {
  static const std::vector<std::pair<int, char>> plain = {{1, 0}, {2, 0}, {3, 0}, {4, 0}};
  static const std::vector<std::pair<int, char>> per = {{1, 0}, {2, 0}, {3, 0}, {4, 0}, {3, 1}, {4, 1}};
  return periodic_class ? per : plain;
}
inline size_t num_shapes(bool periodic_class, int maxd) { size_t o = side_options(periodic_class).size(), t = 0, pw = 1; for (int d = 1; d <= maxd; ++d) { pw *= o; t += pw; } return t; }

// length = number of top cells (top input) or number of vertices (vertex input)
inline void set_side(Spec& S, int length, char per) { S.n.push_back(S.vertex_input && !per ? length - 1 : length); S.per.push_back(per); }

inline void shape_from_id(Spec& S, size_t id) {
  const auto& opt = side_options(S.periodic_class);
  size_t o = opt.size(), pw = o; int d = 1;
  while (id >= pw) { id -= pw; pw *= o; ++d; }
  for (int i = 0; i < d; ++i) { set_side(S, opt[id % o].first, opt[id % o].second); id /= o; }
}

inline void fill_values(vh::Rng& r, Spec& S) {
  Grid G(S.n, S.per);
  size_t cnt = S.vertex_input ? G.num_vert() : G.num_top();
  static const int levels[] = {1, 2, 3, 4, 4, 4, 8, 16, 64};
  int L = levels[r.below(sizeof(levels) / sizeof(levels[0]))];
  unsigned inf_den = (unsigned)r.pick(std::vector<int>{0, 0, 0, 16, 6, 2});   // probability 1/inf_den of +inf per value (0 = never)
  int shift = (int)r.below(3) - 1;
  unsigned ninf_den = r.chance(1, 6) ? (unsigned)r.pick(std::vector<int>{12, 4}) : 0u;    // -inf as well in 1/6 of the cases
  S.input.resize(cnt);
  for (size_t i = 0; i < cnt; ++i) {
    if (inf_den && r.chance(1, inf_den)) S.input[i] = kInf;
    else if (ninf_den && r.chance(1, ninf_den)) S.input[i] = -kInf;
    else S.input[i] = 0.25 * (double)((long)r.below((uint64_t)L) + shift * (L / 2));
  }
  if (r.chance(1, 60)) for (auto& v : S.input) v = kInf;
}

// random shape of dimension d with the given periodic mask; cells bounded by `cap`
inline void random_shape(vh::Rng& r, Spec& S, int d, unsigned mask, size_t cap, int maxlen = 4) {
  std::vector<int> len(d); std::vector<char> per(d);
  for (int i = 0; i < d; ++i) { per[i] = (mask >> i) & 1; len[i] = per[i] ? 3 + (int)r.below(maxlen - 2) : 1 + (int)r.below(maxlen); }
  auto ncells = [&]() { size_t t = 1; for (int i = 0; i < d; ++i) { int n = (S.vertex_input && !per[i]) ? len[i] - 1 : len[i]; t *= (size_t)(per[i] ? 2 * n : 2 * n + 1); } return t; };
  for (int guard = 0; ncells() > cap && guard < 200; ++guard) {
    int i = (int)r.below(d);
    if (len[i] > (per[i] ? 3 : 1)) --len[i];
  }
  for (int i = 0; i < d; ++i) set_side(S, len[i], per[i]);
}

template <class Cx>
void shapes_case(vh::Case& c, bool vertex_input) {
  Spec S; S.periodic_class = Maker<Cx>::periodic_class; S.vertex_input = vertex_input;
  shape_from_id(S, (size_t)c.k % num_shapes(S.periodic_class, 3));
  fill_values(c.rng, S);
  check_grid<Cx>(c, S);
}

template <class Cx>
void dim4_case(vh::Case& c, bool vertex_input) {
  Spec S; S.periodic_class = Maker<Cx>::periodic_class; S.vertex_input = vertex_input;
  unsigned mask = S.periodic_class ? (unsigned)(c.k % 16) : 0u;
  random_shape(c.rng, S, 4, mask, c.thorough ? 4200 : 2600);
  fill_values(c.rng, S);
  check_grid<Cx>(c, S);
}

// constant-valued grids, larger sides, closed-form Betti numbers only
template <class Cx>
void betti_case(vh::Case& c) {
  vh::Rng& r = c.rng;
  Spec S; S.periodic_class = Maker<Cx>::periodic_class; S.vertex_input = r.chance(1, 2);
  S.oracle_reduction = false;
  int d = 1 + (int)(c.k % 4);
  unsigned mask = S.periodic_class ? (unsigned)((c.k / 4) % (1u << d)) : 0u;
  if (S.periodic_class && mask == 0 && r.chance(3, 4)) mask = 1u + (unsigned)r.below((1u << d) - 1);
  random_shape(r, S, d, mask, 3000, d == 1 ? 12 : d == 2 ? 9 : d == 3 ? 6 : 4);
  Grid G(S.n, S.per);
  double v = 0.5 * (double)r.range(-3, 3);
  S.input.assign(S.vertex_input ? G.num_vert() : G.num_top(), v);
  c.count("grid.constant");
  check_grid<Cx>(c, S);
}

}  // namespace c13
#endif

// Independent model of a (partially periodic) cubical grid complex.  No GUDHI header.
//
// A grid with n_i top-dimensional cells ("sides") in direction i is the product of d one-dimensional complexes:
//   non-periodic direction : a path with n_i edges and n_i + 1 vertices -> doubled coordinate x_i in [0, 2 n_i]
//   periodic direction     : a cycle with n_i edges and n_i vertices    -> doubled coordinate x_i in Z / (2 n_i)
// even x_i = the vertex number x_i / 2, odd x_i = the edge between vertices (x_i - 1) / 2 and (x_i + 1) / 2 (mod n_i).
// A cell is a coordinate tuple; its dimension is the number of odd coordinates; its codimension-1 faces are obtained
// by moving ONE odd coordinate by -1 or +1 (with wrap-around in periodic directions).
// The position of a cell in the bitmap is the mixed-radix number of its tuple, first direction fastest (this is the
// documented "lexicographical / Fortran order" in which the library also takes its input values).
#ifndef VERIF_C13_CUBICAL_MODEL_H_
#define VERIF_C13_CUBICAL_MODEL_H_
#include <vector>
#include <cstddef>
#include <algorithm>
#include <limits>
#include <string>

namespace cubical_model {

typedef std::vector<int> Coord;

struct Inc {          // an incidence between a cell and one of its codimension-1 (co)faces
  Coord cell;         // the face (for faces()) or the coface (for cofaces())
  int dir;            // direction in which the two differ
  int side;           // -1: the face is the lower end [b_j] of the coface in direction dir, +1: the upper end [e_j]
  int rank;           // number of odd (full) coordinates of the COFACE in directions < dir
  // product orientation: the documented formula  c * (-1)^(sum_{i<j} dim[b_i,e_i]),  c = -1 lower / +1 upper
  int sign() const { return (rank % 2 ? -1 : 1) * side; }
};

struct Grid {
  int d = 0;
  std::vector<int> n;      // number of top cells per direction (0 allowed: a single vertex in that direction)
  std::vector<char> per;   // periodic?
  std::vector<int> ext;    // number of doubled coordinates per direction
  std::size_t ncells = 1;

  Grid(const std::vector<int>& n_, const std::vector<char>& per_) : d((int)n_.size()), n(n_), per(per_) {
    for (int i = 0; i < d; ++i) { ext.push_back(per[i] ? 2 * n[i] : 2 * n[i] + 1); ncells *= (std::size_t)ext[i]; }
  }
  std::size_t index(const Coord& c) const {
    std::size_t idx = 0, mul = 1;
    for (int i = 0; i < d; ++i) { idx += (std::size_t)c[i] * mul; mul *= (std::size_t)ext[i]; }
    return idx;
  }
  Coord coord(std::size_t idx) const {
    Coord c(d);
    for (int i = 0; i < d; ++i) { c[i] = (int)(idx % (std::size_t)ext[i]); idx /= (std::size_t)ext[i]; }
    return c;
  }
  static int dim(const Coord& c) { int k = 0; for (int x : c) k += x & 1; return k; }
  // neighbour coordinate, -1 when it leaves a non-periodic direction
  int step(int i, int x, int delta) const {
    int y = x + delta;
    if (per[i]) return ((y % ext[i]) + ext[i]) % ext[i];
    return (y < 0 || y >= ext[i]) ? -1 : y;
  }
  std::vector<Inc> faces(const Coord& c) const {
    std::vector<Inc> out;
    int rank = 0;
    for (int i = 0; i < d; ++i) if (c[i] & 1) {
      for (int s = -1; s <= 1; s += 2) { Inc f{c, i, s, rank}; f.cell[i] = step(i, c[i], s); out.push_back(f); }
      ++rank;
    }
    return out;
  }
  std::vector<Inc> cofaces(const Coord& c) const {
    std::vector<Inc> out;
    for (int i = 0; i < d; ++i) if (!(c[i] & 1)) {
      int rank = 0; for (int j = 0; j < i; ++j) rank += c[j] & 1;
      for (int s = -1; s <= 1; s += 2) {
        int y = step(i, c[i], s);
        if (y < 0) continue;
        Inc f{c, i, -s, rank}; f.cell[i] = y;   // coface at x+1 has c as its LOWER end, coface at x-1 as its UPPER end
        out.push_back(f);
      }
    }
    return out;
  }
  // all cells obtained by moving every coordinate of the given parity class to its neighbours:
  //   want_odd = true : the top-dimensional cells containing c (every even coordinate moved)
  //   want_odd = false: the vertices of c (every odd coordinate moved)
  void closure_rec(Coord& cur, int i, bool want_odd, std::vector<Coord>& out) const {
    if (i == d) { out.push_back(cur); return; }
    bool is_odd = cur[i] & 1;
    if (is_odd == want_odd) { closure_rec(cur, i + 1, want_odd, out); return; }
    int x = cur[i];
    for (int s = -1; s <= 1; s += 2) {
      int y = step(i, x, s);
      if (y < 0) continue;
      cur[i] = y; closure_rec(cur, i + 1, want_odd, out);
    }
    cur[i] = x;
  }
  std::vector<Coord> top_cells_containing(const Coord& c) const { std::vector<Coord> o; Coord cur = c; closure_rec(cur, 0, true, o); return o; }
  std::vector<Coord> vertices_of(const Coord& c) const { std::vector<Coord> o; Coord cur = c; closure_rec(cur, 0, false, o); return o; }

  // number of vertices per direction, and input index (first direction fastest) of a top cell / a vertex
  int nvert(int i) const { return per[i] ? n[i] : n[i] + 1; }
  std::size_t num_top() const { std::size_t t = 1; for (int i = 0; i < d; ++i) t *= (std::size_t)n[i]; return t; }
  std::size_t num_vert() const { std::size_t t = 1; for (int i = 0; i < d; ++i) t *= (std::size_t)nvert(i); return t; }
  std::size_t top_input_index(const Coord& c) const {
    std::size_t idx = 0, mul = 1;
    for (int i = 0; i < d; ++i) { idx += (std::size_t)((c[i] - 1) / 2) * mul; mul *= (std::size_t)n[i]; }
    return idx;
  }
  std::size_t vertex_input_index(const Coord& c) const {
    std::size_t idx = 0, mul = 1;
    for (int i = 0; i < d; ++i) { idx += (std::size_t)(c[i] / 2) * mul; mul *= (std::size_t)nvert(i); }
    return idx;
  }
  // cell positions of the k-th top cell / vertex of the input
  std::vector<std::size_t> top_positions() const {
    std::vector<std::size_t> out(num_top());
    if (out.empty()) return out;
    for (std::size_t p = 0; p < ncells; ++p) { Coord c = coord(p); if (dim(c) == d) out[top_input_index(c)] = p; }
    return out;
  }
  std::vector<std::size_t> vertex_positions() const {
    std::vector<std::size_t> out(num_vert());
    for (std::size_t p = 0; p < ncells; ++p) { Coord c = coord(p); if (dim(c) == 0) out[vertex_input_index(c)] = p; }
    return out;
  }

  // the filtration of the property text
  std::vector<double> values_from_top(const std::vector<double>& top) const {
    std::vector<double> v(ncells);
    for (std::size_t p = 0; p < ncells; ++p) {
      double m = std::numeric_limits<double>::infinity();
      for (const Coord& t : top_cells_containing(coord(p))) m = std::min(m, top[top_input_index(t)]);
      v[p] = m;
    }
    return v;
  }
  std::vector<double> values_from_vertices(const std::vector<double>& vert) const {
    std::vector<double> v(ncells);
    for (std::size_t p = 0; p < ncells; ++p) {
      double m = -std::numeric_limits<double>::infinity();
      for (const Coord& t : vertices_of(coord(p))) m = std::max(m, vert[vertex_input_index(t)]);
      v[p] = m;
    }
    return v;
  }
  int num_periodic() const { int k = 0; for (int i = 0; i < d; ++i) k += per[i] ? 1 : 0; return k; }
  std::string show(const Coord& c) const { std::string o = "("; for (int i = 0; i < d; ++i) { if (i) o += ","; o += std::to_string(c[i]); } return o + ")"; }
};

inline long binom(int n, int k) { if (k < 0 || k > n) return 0; long r = 1; for (int i = 1; i <= k; ++i) r = r * (n - k + i) / i; return r; }

}  // namespace cubical_model
#endif

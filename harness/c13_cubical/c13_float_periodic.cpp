// C13, unit float, translation unit 2: Bitmap_cubical_complex<Bitmap_cubical_complex_periodic_boundary_conditions_base<float>>
#include "c13_common.h"
using c13::PeriodicF;
VH_CONFIG("float_per_shapes", [](vh::Case& c) { c13::shapes_both_case<PeriodicF>(c); });
VH_CONFIG("float_per_4d", [](vh::Case& c) { c13::dim4_case<PeriodicF>(c, ((c.k / 16) & 1) != 0); });
VH_CONFIG("float_per_file", [](vh::Case& c) { c13::file_case<PeriodicF>(c, 1); });

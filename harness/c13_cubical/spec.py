SPEC = {
    "property": "C13",
    "rule": "placeholder",
    "assumptions": [],
    "units": [
        {"name": "plain", "src": ["c13_plain.cpp"], "variant": "asan",
         "configs": {"plain_top_shapes": {"quick": 252, "thorough": 16800}, "plain_vert_shapes": {"quick": 252, "thorough": 16800},
                     "plain_top_4d": {"quick": 60, "thorough": 3000}, "plain_vert_4d": {"quick": 60, "thorough": 3000},
                     "plain_constant": {"quick": 80, "thorough": 2000}}, "chunk": 10},
        {"name": "periodic", "src": ["c13_periodic.cpp"], "variant": "asan",
         "configs": {"per_top_shapes": {"quick": 516, "thorough": 51600}, "per_vert_shapes": {"quick": 516, "thorough": 51600},
                     "per_top_4d": {"quick": 320, "thorough": 8000}, "per_vert_4d": {"quick": 320, "thorough": 8000},
                     "per_constant": {"quick": 160, "thorough": 4000}}, "chunk": 10},
    ],
    "floors": {"quick": {}, "thorough": {}},
    "manifest": {"text": "placeholder", "note": "", "technique": "runtime monitoring"},
}

_SHAPES_PLAIN = 4 + 16 + 64          # every shape with sides 1..4 in dimension 1..3
_SHAPES_PER = 6 + 36 + 216           # per direction: non-periodic side 1..4 or periodic side 3..4, dimension 1..3

SPEC = {
    "property": "C13",
    "rule": "one case = one grid complex built through the public constructors of Bitmap_cubical_complex over "
            "Bitmap_cubical_complex_base<T> (units plain, float) or Bitmap_cubical_complex_periodic_boundary_conditions_base<T> (units periodic, "
            "float; every subset of periodic directions incl. none), T = double or float, from top-cell values or from vertex values. "
            "*_shapes configs enumerate EVERY shape of dimension 1..3 with sides 1..4 (periodic sides 3..4) by case index (k mod #shapes) with "
            "random values; *_4d configs draw random 4-D shapes (mask = k mod 16, cells capped at 2600 quick / 4200 thorough); *_5d configs: 5-D, "
            "periodic sides 3, other sides 1..2 cells / 1..3 vertices, every one of the 32 periodic masks (k/2 mod 32) with both input conventions "
            "(grids above 3000 cells: closed-form Betti numbers instead of the naive reduction); *_long configs: 1-D with 1000 cells/vertices, 2-D "
            "40x25, 2-D with sides up to 40x24, 3-D with sides up to 9x7x5, random values on up to 4096 levels, every periodic mask; *_constant "
            "configs use constant values and sides up to 12/9/6/4; *_file configs write random top-cell values (finite values, and `inf` as "
            "documented; %.17g / %.6f / %e; last value followed by a newline or ending the file) to a temporary Perseus-style file and build "
            "through the const char* constructor. Values: 1..64 dyadic levels (heavy ties) with +inf with probability 0, 1/16, 1/6 or 1/2 "
            "(sometimes all +inf) and, in 1/6 of the cases, -inf with probability 1/12 or 1/4 (never in files). "
            "Compared for EVERY cell against cubical_model.h (coordinate tuples in the doubled grid): dimension; boundary as a multiset and "
            "coboundary as a set against the geometric (wrap-around) faces/cofaces; boundary/coboundary converse (library answers only); "
            "two distinct ends per edge; alternating signs along the enumeration compose to zero (dd=0); compute_incidence_between_cells is "
            "+-1, alternates along the enumerated boundary (the documented guarantee) and composes to zero (agreement with the documented sign formula is counted, not judged: the property fixes no sign convention); value = min over top "
            "cells containing the cell / max over its vertices; get_top_dimensional_coface_of_a_cell (top-cell input) / get_vertex_of_a_cell "
            "(vertex input) return an incident cell of the right dimension with the same value (any such cell); iteration order of top cells and "
            "vertices (empty range of top cells when a vertex grid has a single vertex in some direction). Per grid ~40 NON-incident pairs (face "
            "and coface swapped, other cells of the same line incl. the coordinate 0 of a periodic direction, face of a face, random cell; in one "
            "case of 16 also (A, A), in a forked child) must make compute_incidence_between_cells throw std::logic_error as documented. The "
            "documented build-by-hand route (base-class constructor from the sizes [+ directions], values written through "
            "top_dimensional_cells_range / vertices_range, impose_lower_star_filtration[_from_vertices]) must give the same value on every cell. "
            "A file-built complex must equal the model on every cell (the constructor first runs in a forked child so that a crash is reported "
            "with the input class), then goes through the whole monitor. Then filtration_simplex_range is a "
            "permutation, non-decreasing and faces-first; Persistent_cohomology (persistence_dim_max=true) over Z_2, Z_3 and one of Z_5 (1/2), "
            "Z_7, Z_11 (1/4 each): positive-length "
            "diagram equals oracle/zp_reduce.h run on the model cells (model signs) listed in the validated order, and the essential classes "
            "per dimension equal C(k, j) of T^k x D^(d-k). non-trivial = dimension >= 2, >= 2 distinct input values and >= 2 positive-length "
            "intervals (or, for *_constant and Betti-only grids, dimension >= 2 with >= 1 periodic direction); distinct by hash of the logged input.",
    "assumptions": [
        "cell handles are bitmap positions: mixed-radix number of the doubled coordinates, first direction fastest (documented order of the "
        "input values; cross-checked through the public top-cell and vertex iterators)",
        "periodic sides have length >= 3 (property quantifier); NaN values are not generated",
        "persistence is compared as a diagram of values without zero-length intervals, not as a pairing of cells (Persistent_cohomology's H0 "
        "union-find applies the elder rule on values, so among tied cells another representative may be kept)",
        "the sign of compute_incidence_between_cells on incident pairs IS compared with the formula in its documentation, while the boundary "
        "enumeration is only required to be a valid incidence function (no fixed convention); on non-incident pairs only the documented "
        "std::logic_error is required",
        "files contain only what the format documents: one value per line, finite values and `inf` (no -inf, no nan, no comments, exactly "
        "as many values as top cells); malformed files are not generated",
        "the build-by-hand route is exercised once on a fresh empty bitmap; re-imposing a filtration after changing values of an already "
        "filtered complex is NOT exercised (documented: the code does not check that the values form a filtration), nor is the cached "
        "filtration order after such a change (stale sorted_cells)",
        "NOT exercised: grids with >= 2^32 cells (index arithmetic in `unsigned`), dimension 0 (empty sizes vector), skeleton_simplex_range, "
        "put_data_to_bins, GUDHI_USE_TBB sort",
        "float values are dyadic and small, hence exactly representable: no rounding is involved in any comparison",
        "trusted: cubical_model.h, oracle/zp_reduce.h, libstdc++, fork()/waitpid, /proc/self/fd (fallback: a named file in /tmp)",
    ],
    "units": [
        {"name": "plain", "src": ["c13_plain.cpp"], "variant": "asan",
         "configs": {"plain_top_shapes": {"quick": _SHAPES_PLAIN * 6, "thorough": _SHAPES_PLAIN * 200},
                     "plain_vert_shapes": {"quick": _SHAPES_PLAIN * 6, "thorough": _SHAPES_PLAIN * 200},
                     "plain_top_4d": {"quick": 100, "thorough": 3000}, "plain_vert_4d": {"quick": 100, "thorough": 3000},
                     "plain_5d": {"quick": 24, "thorough": 1000}, "plain_long": {"quick": 16, "thorough": 800},
                     "plain_constant": {"quick": 160, "thorough": 4000},
                     "plain_file": {"quick": 96, "thorough": 4000}}, "chunk": 8},
        {"name": "periodic", "src": ["c13_periodic.cpp"], "variant": "asan",
         "configs": {"per_top_shapes": {"quick": _SHAPES_PER * 4, "thorough": _SHAPES_PER * 200},
                     "per_vert_shapes": {"quick": _SHAPES_PER * 4, "thorough": _SHAPES_PER * 200},
                     "per_top_4d": {"quick": 480, "thorough": 7000}, "per_vert_4d": {"quick": 480, "thorough": 7000},
                     "per_5d": {"quick": 64, "thorough": 3200}, "per_long": {"quick": 64, "thorough": 1600},
                     "per_constant": {"quick": 320, "thorough": 8000},
                     "per_file": {"quick": 128, "thorough": 6000}, "per_file_inf": {"quick": 64, "thorough": 3000}}, "chunk": 8},
        {"name": "float", "src": ["c13_float_plain.cpp", "c13_float_periodic.cpp"], "variant": "asan",
         "configs": {"float_plain_shapes": {"quick": _SHAPES_PLAIN * 2, "thorough": _SHAPES_PLAIN * 40},
                     "float_per_shapes": {"quick": _SHAPES_PER * 2, "thorough": _SHAPES_PER * 40},
                     "float_plain_4d": {"quick": 16, "thorough": 600}, "float_per_4d": {"quick": 32, "thorough": 1600},
                     "float_plain_file": {"quick": 48, "thorough": 1500}, "float_per_file": {"quick": 48, "thorough": 1500}}, "chunk": 8},
    ],
    "floors": {"quick": {}, "thorough": {}},
    "exhaustive": {"quick": False, "thorough": False},
    "exhaustive_note": "shapes (sides 1..4, periodic sides 3..4, every periodic mask) are enumerated completely in dimension <= 3 in both tiers; "
                       "values are sampled",
    "manifest": {
        "text": "Runtime monitor under ASan+UBSan: thousands of cubical grids (every shape with sides <= 4 in dimension <= 3 with every periodic "
                "mask, random 4-D grids, 5-D grids with every periodic mask, sides up to 1000 with random values, both base classes, T = double "
                "and float, top-cell and vertex input, tied and infinite values) are built with the real constructors (value vectors, "
                "Perseus-style files, and by hand through the iterators + impose_lower_star_filtration*); for every cell the dimension, boundary, "
                "coboundary, incidence numbers, filtration value and same-valued top coface / vertex are compared with an "
                "independent coordinate-tuple model of the (periodic) grid, dd=0 is checked on the enumerated alternating signs, non-incident "
                "pairs must raise the documented std::logic_error, the filtration "
                "range is checked to be total, monotone and faces-first, and Persistent_cohomology over Z_2, Z_3 and Z_5/Z_7/Z_11 is compared with a naive "
                "column reduction of the model complex and with the Betti numbers of T^k x D^(d-k). Held on what was observed, not a proof; "
                "shapes are exhaustive up to side 4 in dimension <= 3, values are sampled.",
        "note": "trusted: harness/c13_cubical/cubical_model.h, harness/oracle/zp_reduce.h; handles are bitmap positions (cross-checked through "
                "the public iterators); periodic sides >= 3; no NaN; diagrams compared, not cell pairings; well-formed files only; < 2^32 cells; "
                "dimension >= 1; no re-imposing after a change of values",
        "technique": "runtime monitoring: enumerated + randomized inputs, reference-model oracle on every cell and naive Z_p reduction, under "
                     "AddressSanitizer/UBSan",
    },
}

# coverage floors (about half of what a normal run measures)
_q = SPEC["floors"]["quick"]
_t = SPEC["floors"]["thorough"]
for _d in (1, 2, 3, 4, 5):
    for _m in range(1 << _d):
        _name = "grid.d%d.m%s" % (_d, "".join("1" if (_m >> _i) & 1 else "0" for _i in range(_d)))
        _q[_name] = 25 if _d < 5 else 1          # every (dimension, periodic mask)
        _t[_name] = 500 if _d < 5 else 40
_q.update({"grid.length1_side": 1200, "grid.single_vertex_side": 550, "grid.has_inf": 1100, "grid.has_neg_inf": 330, "grid.has_ties": 2700,
           "grid.input.top": 1500, "grid.input.vertices": 1400, "grid.class.plain": 850, "grid.class.periodic": 2100,
           "cells.with_wrapped_face": 270000, "cells.with_wrapped_coface": 270000, "cmp.dd_zero": 500000, "cmp.incidence": 3000000,
           "cmp.persistence.p2": 2700, "cmp.persistence.p3": 2700, "cmp.persistence.p5": 1300, "cmp.persistence.prime_above_5": 1300,
           "cmp.persistence.p7": 600, "cmp.persistence.p11": 600, "pairs.finite": 40000,
           "pairs.dim2": 7000, "pairs.dim3": 1100, "pairs.dim4": 40, "betti.periodic_checked": 4800, "_distinct_nontrivial": 2000,
           # input classes added after the audit
           "grid.float": 400, "grid.d5.fifth_direction_periodic": 16, "grid.d5.fifth_direction_not_periodic": 28, "cells.dim5": 1500,
           "grid.long_side_random_values": 110, "grid.side_ge_100_random_values": 10,
           "file.built": 190, "file.no_final_newline": 80, "file.final_newline": 80, "file.has_inf": 70,
           "handbuilt.top": 1400, "handbuilt.vertices": 1400, "cmp.handles.top_cells_empty_range": 550,
           "cmp.representative.top_coface": 800000, "cmp.representative.vertex": 400000, "representative.across_the_wrap": 130000,
           "probe.nonincident": 95000, "probe.nonincident.face_and_coface_swapped": 30000, "probe.nonincident.same_line_not_adjacent": 7500,
           "probe.nonincident.same_line_same_dimension": 14000, "probe.nonincident.same_line_to_coordinate_0_of_periodic_direction": 2900,
           "probe.nonincident.several_coordinates_differ": 40000, "probe.nonincident.same_cell_twice": 450})
_t.update({"grid.length1_side": 30000, "grid.single_vertex_side": 12000, "grid.has_inf": 25000, "cells.with_wrapped_face": 5000000,
           "cmp.dd_zero": 10000000, "cmp.persistence.p3": 70000, "pairs.finite": 500000, "pairs.dim3": 20000,
           "betti.periodic_checked": 100000, "_distinct_nontrivial": 50000,
           "grid.float": 8000, "file.built": 8000, "file.no_final_newline": 3000, "file.has_inf": 2500, "handbuilt.vertices": 30000,
           "grid.side_ge_100_random_values": 300, "probe.nonincident": 2000000, "probe.nonincident.same_cell_twice": 9000,
           "cmp.persistence.prime_above_5": 30000})

_SHAPES_PLAIN = 4 + 16 + 64          # every shape with sides 1..4 in dimension 1..3
_SHAPES_PER = 6 + 36 + 216           # per direction: non-periodic side 1..4 or periodic side 3..4, dimension 1..3

SPEC = {
    "property": "C13",
    "rule": "one case = one grid complex built through the public constructors of Bitmap_cubical_complex over "
            "Bitmap_cubical_complex_base (unit plain) or Bitmap_cubical_complex_periodic_boundary_conditions_base (unit periodic, every "
            "subset of periodic directions incl. none), from top-cell values or from vertex values. *_shapes configs enumerate EVERY shape "
            "of dimension 1..3 with sides 1..4 (periodic sides 3..4) by case index (k mod #shapes) with random values; *_4d configs draw random "
            "4-D shapes (mask = k mod 16, cells capped at 2600 quick / 4200 thorough); *_constant configs use constant values and sides up to "
            "12/9/6/4. Values: 1..64 dyadic levels (heavy ties) with +inf with probability 0, 1/16, 1/6 or 1/2 (sometimes all +inf) and, in 1/6 of the cases, -inf with probability 1/12 or 1/4. "
            "Compared for EVERY cell against cubical_model.h (coordinate tuples in the doubled grid): dimension; boundary as a multiset and "
            "coboundary as a set against the geometric (wrap-around) faces/cofaces; boundary/coboundary converse (library answers only); "
            "two distinct ends per edge; alternating signs along the enumeration compose to zero (dd=0); compute_incidence_between_cells is "
            "+-1, equals the documented formula and alternates along the enumerated boundary (the documented guarantee); value = min over top "
            "cells containing the cell / max over its vertices; iteration order of top cells and vertices. Then filtration_simplex_range is a "
            "permutation, non-decreasing and faces-first; Persistent_cohomology (persistence_dim_max=true) over p in {2,3,5}: positive-length "
            "diagram equals oracle/zp_reduce.h run on the model cells (model signs) listed in the validated order, and the essential classes "
            "per dimension equal C(k, j) of T^k x D^(d-k). non-trivial = dimension >= 2, >= 2 distinct input values and >= 2 positive-length "
            "intervals (or, for *_constant, dimension >= 2 with >= 1 periodic direction); distinct by hash of the logged input.",
    "assumptions": [
        "cell handles are bitmap positions: mixed-radix number of the doubled coordinates, first direction fastest (documented order of the "
        "input values; cross-checked through the public top-cell and vertex iterators)",
        "periodic sides have length >= 3 (property quantifier); NaN values are not generated",
        "persistence is compared as a diagram of values without zero-length intervals, not as a pairing of cells (Persistent_cohomology's H0 "
        "union-find applies the elder rule on values, so among tied cells another representative may be kept)",
        "compute_incidence_between_cells is only called on incident pairs; its sign IS compared with the formula in its documentation, "
        "while the boundary enumeration is only required to be a valid incidence function (no fixed convention)",
        "the top-cell iterator is not exercised when a vertex-input grid has a single vertex in some direction (no top cells exist)",
        "trusted: cubical_model.h, oracle/zp_reduce.h, libstdc++",
    ],
    "units": [
        {"name": "plain", "src": ["c13_plain.cpp"], "variant": "asan",
         "configs": {"plain_top_shapes": {"quick": _SHAPES_PLAIN * 6, "thorough": _SHAPES_PLAIN * 200},
                     "plain_vert_shapes": {"quick": _SHAPES_PLAIN * 6, "thorough": _SHAPES_PLAIN * 200},
                     "plain_top_4d": {"quick": 100, "thorough": 3000}, "plain_vert_4d": {"quick": 100, "thorough": 3000},
                     "plain_constant": {"quick": 160, "thorough": 4000}}, "chunk": 10},
        {"name": "periodic", "src": ["c13_periodic.cpp"], "variant": "asan",
         "configs": {"per_top_shapes": {"quick": _SHAPES_PER * 4, "thorough": _SHAPES_PER * 200},
                     "per_vert_shapes": {"quick": _SHAPES_PER * 4, "thorough": _SHAPES_PER * 200},
                     "per_top_4d": {"quick": 480, "thorough": 7000}, "per_vert_4d": {"quick": 480, "thorough": 7000},
                     "per_constant": {"quick": 320, "thorough": 8000}}, "chunk": 10},
    ],
    "floors": {"quick": {}, "thorough": {}},
    "exhaustive": {"quick": False, "thorough": False},
    "exhaustive_note": "shapes (sides 1..4, periodic sides 3..4, every periodic mask) are enumerated completely in dimension <= 3 in both tiers; "
                       "values are sampled",
    "manifest": {
        "text": "Runtime monitor under ASan+UBSan: thousands of cubical grids (every shape with sides <= 4 in dimension <= 3 with every periodic "
                "mask, random 4-D grids, both base classes, top-cell and vertex input, tied and infinite values) are built with the real "
                "constructors; for every cell the dimension, boundary, coboundary, incidence numbers and filtration value are compared with an "
                "independent coordinate-tuple model of the (periodic) grid, dd=0 is checked on the enumerated alternating signs, the filtration "
                "range is checked to be total, monotone and faces-first, and Persistent_cohomology over Z_2, Z_3, Z_5 is compared with a naive "
                "column reduction of the model complex and with the Betti numbers of T^k x D^(d-k). Held on what was observed, not a proof; "
                "shapes are exhaustive up to side 4 in dimension <= 3, values are sampled.",
        "note": "trusted: harness/c13_cubical/cubical_model.h, harness/oracle/zp_reduce.h; handles are bitmap positions (cross-checked through "
                "the public iterators); periodic sides >= 3; no NaN; diagrams compared, not cell pairings",
        "technique": "runtime monitoring: enumerated + randomized inputs, reference-model oracle on every cell and naive Z_p reduction, under "
                     "AddressSanitizer/UBSan",
    },
}

# coverage floors (about half of what a normal run measures)
_q = SPEC["floors"]["quick"]
_t = SPEC["floors"]["thorough"]
for _d in (1, 2, 3, 4):
    for _m in range(1 << _d):
        _name = "grid.d%d.m%s" % (_d, "".join("1" if (_m >> _i) & 1 else "0" for _i in range(_d)))
        _q[_name] = 25          # every (dimension, periodic mask)
        _t[_name] = 500
_q.update({"grid.length1_side": 1000, "grid.single_vertex_side": 400, "grid.has_inf": 800, "grid.has_neg_inf": 250, "grid.has_ties": 2000,
           "grid.input.top": 1100, "grid.input.vertices": 1100, "grid.class.plain": 650, "grid.class.periodic": 1600,
           "cells.with_wrapped_face": 200000, "cells.with_wrapped_coface": 200000, "cmp.dd_zero": 500000, "cmp.incidence": 3000000,
           "cmp.persistence.p2": 2000, "cmp.persistence.p3": 2000, "cmp.persistence.p5": 2000, "pairs.finite": 20000,
           "pairs.dim2": 6000, "pairs.dim3": 1000, "betti.periodic_checked": 3500, "_distinct_nontrivial": 1600})
_t.update({"grid.length1_side": 30000, "grid.single_vertex_side": 12000, "grid.has_inf": 25000, "cells.with_wrapped_face": 5000000,
           "cmp.dd_zero": 10000000, "cmp.persistence.p3": 70000, "pairs.finite": 500000, "pairs.dim3": 20000,
           "betti.periodic_checked": 100000, "_distinct_nontrivial": 50000})

// C13, translation unit 1: Bitmap_cubical_complex<Bitmap_cubical_complex_base<double>> (no periodic directions)
#include "c13_common.h"
using c13::Plain;
VH_CONFIG("plain_top_shapes", [](vh::Case& c) { c13::shapes_case<Plain>(c, false); });
VH_CONFIG("plain_vert_shapes", [](vh::Case& c) { c13::shapes_case<Plain>(c, true); });
VH_CONFIG("plain_top_4d", [](vh::Case& c) { c13::dim4_case<Plain>(c, false); });
VH_CONFIG("plain_vert_4d", [](vh::Case& c) { c13::dim4_case<Plain>(c, true); });
VH_CONFIG("plain_5d", [](vh::Case& c) { c13::dim5_case<Plain>(c); });
VH_CONFIG("plain_long", [](vh::Case& c) { c13::long_case<Plain>(c); });
VH_CONFIG("plain_constant", [](vh::Case& c) { c13::betti_case<Plain>(c); });
VH_CONFIG("plain_file", [](vh::Case& c) { c13::file_case<Plain>(c, 1); });
VH_MAIN()

// C13, unit float, translation unit 1: Bitmap_cubical_complex<Bitmap_cubical_complex_base<float>>
#include "c13_common.h"
using c13::PlainF;
VH_CONFIG("float_plain_shapes", [](vh::Case& c) { c13::shapes_both_case<PlainF>(c); });
VH_CONFIG("float_plain_4d", [](vh::Case& c) { c13::dim4_case<PlainF>(c, (c.k & 1) != 0); });
VH_CONFIG("float_plain_file", [](vh::Case& c) { c13::file_case<PlainF>(c, 1); });
VH_MAIN()

// C13, translation unit 2: Bitmap_cubical_complex<Bitmap_cubical_complex_periodic_boundary_conditions_base<double>>,
// every subset of periodic directions (including none)
#include "c13_common.h"
using c13::Periodic;
VH_CONFIG("per_top_shapes", [](vh::Case& c) { c13::shapes_case<Periodic>(c, false); });
VH_CONFIG("per_vert_shapes", [](vh::Case& c) { c13::shapes_case<Periodic>(c, true); });
VH_CONFIG("per_top_4d", [](vh::Case& c) { c13::dim4_case<Periodic>(c, false); });
VH_CONFIG("per_vert_4d", [](vh::Case& c) { c13::dim4_case<Periodic>(c, true); });
VH_CONFIG("per_5d", [](vh::Case& c) { c13::dim5_case<Periodic>(c); });
VH_CONFIG("per_long", [](vh::Case& c) { c13::long_case<Periodic>(c); });
VH_CONFIG("per_constant", [](vh::Case& c) { c13::betti_case<Periodic>(c); });
VH_CONFIG("per_file", [](vh::Case& c) { c13::file_case<Periodic>(c, 0); });        // finite values only
VH_CONFIG("per_file_inf", [](vh::Case& c) { c13::file_case<Periodic>(c, 2); });    // at least one `inf` in every file
VH_MAIN()

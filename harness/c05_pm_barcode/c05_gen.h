// C05 — generators of small "universe" cell complexes (no GUDHI header here).
//
// A universe is a finite chain complex over Z given cell by cell: dimension and boundary as integer combination of
// other universe cells, closed under faces, with d.d = 0 over Z (hence over every Z_p).  A history of the harness inserts
// universe cells one by one (a cell is admissible when all its faces are present) and removes the last ones again, so the
// filtration that is rebuilt after a removal is in general a different one.
//
// Kinds: random simplicial complexes (<= 7 vertices), the 6-vertex RP^2 (2-torsion) plus random extra simplices,
// sub-complexes of small 2-D / 3-D cubical grids (product orientation), and 2-dimensional CW complexes whose edges may be
// loops or parallel and whose 2-cells are glued along closed walks travelled m times (m in {1,2,3,5,-1,...}: torsion of
// every small order, cells with empty boundary, boundary coefficients that vanish modulo some primes only).
#ifndef VERIF_C05_GEN_H_
#define VERIF_C05_GEN_H_
#include <algorithm>
#include <map>
#include <set>
#include <string>
#include <vector>

#include "common/vh.h"

namespace c05 {

struct UCell {
  int dim = 0;
  std::vector<std::pair<int, long>> bd;  // (universe index of the face, non-zero integer coefficient)
  std::vector<int> req;                  // further cells the closure of this cell contains although their boundary
                                         // coefficient is 0 (vertex of a loop, edges a 2-cell runs along and back)
  std::string name;                      // for the history log
};

struct Universe {
  std::string kind;
  std::vector<UCell> cells;
};

// ---------------------------------------------------------------------------------------------- simplicial
typedef std::vector<int> Splx;

inline void close_under_faces(std::set<Splx>& S) {
  std::vector<Splx> todo(S.begin(), S.end());
  while (!todo.empty()) {
    Splx s = todo.back();
    todo.pop_back();
    if (s.size() <= 1) continue;
    for (size_t k = 0; k < s.size(); ++k) {
      Splx f;
      for (size_t t = 0; t < s.size(); ++t) if (t != k) f.push_back(s[t]);
      if (S.insert(f).second) todo.push_back(f);
    }
  }
}

inline Universe universe_from_simplices(const std::set<Splx>& S, const std::string& kind) {
  Universe U;
  U.kind = kind;
  std::map<Splx, int> idx;
  for (auto& s : S) { int i = (int)idx.size(); idx[s] = i; }
  U.cells.resize(S.size());
  for (auto& kv : idx) {
    const Splx& s = kv.first;
    UCell& c = U.cells[kv.second];
    c.dim = (int)s.size() - 1;
    c.name = "s";
    for (int v : s) c.name += std::to_string(v);
    if (s.size() > 1)
      for (size_t k = 0; k < s.size(); ++k) {
        Splx f;
        for (size_t t = 0; t < s.size(); ++t) if (t != k) f.push_back(s[t]);
        c.bd.emplace_back(idx.at(f), (k % 2 == 0) ? 1 : -1);
      }
  }
  return U;
}

inline Universe gen_simplicial(vh::Rng& r, size_t max_cells) {
  for (int attempt = 0;; ++attempt) {
    int nv = (int)r.range(3, 7);
    int nmax = (int)r.range(1, attempt > 6 ? 3 : 7);
    std::set<Splx> S;
    for (int i = 0; i < nmax; ++i) {
      int sz = (int)r.range(2, r.chance(1, 5) ? 5 : 4);
      if (sz > nv) sz = nv;
      std::vector<int> vs;
      for (int v = 0; v < nv; ++v) vs.push_back(v);
      r.shuffle(vs);
      Splx s(vs.begin(), vs.begin() + sz);
      std::sort(s.begin(), s.end());
      S.insert(s);
    }
    if (r.chance(1, 3)) for (int v = 0; v < nv; ++v) S.insert(Splx{v});  // isolated vertices too
    close_under_faces(S);
    if (S.size() <= max_cells && S.size() >= 4) return universe_from_simplices(S, "simplicial");
  }
}

inline Universe gen_rp2(vh::Rng& r, size_t max_cells) {
  static const int T[10][3] = {{0, 1, 2}, {0, 2, 3}, {0, 3, 4}, {0, 4, 5}, {0, 1, 5},
                               {1, 2, 4}, {2, 3, 5}, {1, 3, 4}, {2, 4, 5}, {1, 3, 5}};
  // random relabelling so that the reduction order varies
  std::vector<int> perm = {0, 1, 2, 3, 4, 5};
  r.shuffle(perm);
  std::set<Splx> S;
  for (auto& t : T) {
    Splx s = {perm[t[0]], perm[t[1]], perm[t[2]]};
    std::sort(s.begin(), s.end());
    S.insert(s);
  }
  // a few extra simplices on a 7th vertex (cones over edges / triangles): keeps the 2-torsion or kills it
  int extra = (int)r.range(0, 3);
  for (int i = 0; i < extra; ++i) {
    int sz = (int)r.range(1, 3);
    std::vector<int> vs = {0, 1, 2, 3, 4, 5};
    r.shuffle(vs);
    Splx s(vs.begin(), vs.begin() + sz);
    s.push_back(6);
    std::sort(s.begin(), s.end());
    std::set<Splx> S2 = S;
    S2.insert(s);
    close_under_faces(S2);
    if (S2.size() <= max_cells) S = S2;
  }
  close_under_faces(S);
  return universe_from_simplices(S, "rp2");
}

// ---------------------------------------------------------------------------------------------- cubical
inline Universe gen_cubical(vh::Rng& r, size_t max_cells) {
  for (;;) {
    int D = r.chance(1, 3) ? 3 : 2;
    std::vector<int> nv(D);
    for (int i = 0; i < D; ++i) nv[i] = (int)r.range(2, D == 3 ? 3 : 4);
    if (D == 3 && nv[0] == 3 && nv[1] == 3 && nv[2] == 3) nv[2] = 2;
    // doubled coordinates: c_i in [0, 2(nv_i - 1)], odd = interval
    typedef std::vector<int> Cc;
    std::vector<Cc> all;
    Cc c(D, 0);
    for (;;) {
      all.push_back(c);
      int i = 0;
      while (i < D && c[i] == 2 * (nv[i] - 1)) { c[i] = 0; ++i; }
      if (i == D) break;
      ++c[i];
    }
    auto dim_of = [&](const Cc& x) { int d = 0; for (int v : x) d += v & 1; return d; };
    // choose random cells, close under faces
    std::set<Cc> S;
    unsigned keep = (unsigned)r.range(3, 10);
    for (auto& x : all) if (dim_of(x) >= 1 && r.below(10) < keep) S.insert(x);
    if (r.chance(1, 2)) for (auto& x : all) if (dim_of(x) == 0 && r.chance(1, 2)) S.insert(x);
    std::vector<Cc> todo(S.begin(), S.end());
    while (!todo.empty()) {
      Cc x = todo.back();
      todo.pop_back();
      for (int i = 0; i < D; ++i)
        if (x[i] & 1)
          for (int s = -1; s <= 1; s += 2) {
            Cc f = x;
            f[i] += s;
            if (S.insert(f).second) todo.push_back(f);
          }
    }
    if (S.size() > max_cells || S.size() < 4) continue;
    Universe U;
    U.kind = D == 3 ? "cubical3" : "cubical2";
    std::map<Cc, int> idx;
    for (auto& x : S) { int i = (int)idx.size(); idx[x] = i; }
    U.cells.resize(S.size());
    for (auto& kv : idx) {
      UCell& cell = U.cells[kv.second];
      cell.dim = dim_of(kv.first);
      cell.name = "q";
      for (int v : kv.first) cell.name += std::to_string(v);
      int k = 0;
      for (int i = 0; i < D; ++i)
        if (kv.first[i] & 1) {
          long sgn = (k % 2 == 0) ? 1 : -1;
          Cc hi = kv.first, lo = kv.first;
          hi[i] += 1;
          lo[i] -= 1;
          cell.bd.emplace_back(idx.at(hi), sgn);
          cell.bd.emplace_back(idx.at(lo), -sgn);
          ++k;
        }
    }
    return U;
  }
}

// ---------------------------------------------------------------------------------------------- 2-dimensional CW complexes
inline Universe gen_cw2(vh::Rng& r, size_t max_cells) {
  Universe U;
  U.kind = "cw2";
  int nv = (int)r.range(1, 5);
  int ne = (int)r.range(1, 9);
  int nf = (int)r.range(0, 7);
  while ((size_t)(nv + ne + nf) > max_cells) { if (nf) --nf; else --ne; }
  for (int v = 0; v < nv; ++v) { UCell c; c.dim = 0; c.name = "v" + std::to_string(v); U.cells.push_back(c); }
  struct E { int t, h; };
  std::vector<E> edges;
  for (int e = 0; e < ne; ++e) {
    E x;
    x.t = (int)r.below(nv);
    x.h = r.chance(1, 4) ? x.t : (int)r.below(nv);  // loops are allowed
    edges.push_back(x);
    UCell c;
    c.dim = 1;
    c.name = "e" + std::to_string(e);
    if (x.t != x.h) { c.bd.emplace_back(x.h, 1); c.bd.emplace_back(x.t, -1); }
    else c.req.push_back(x.t);
    U.cells.push_back(c);
  }
  for (int f = 0; f < nf; ++f) {
    // closed walk: random walk of L steps, then a shortest way back
    std::map<int, long> chain;  // edge -> signed traversal count  (an edge travelled both ways stays with count 0)
    int v0 = edges[r.below(edges.size())].t, v = v0;
    int L = (int)r.range(1, 5);
    for (int s = 0; s < L; ++s) {
      std::vector<std::pair<int, int>> opts;  // (edge, sign)
      for (int e = 0; e < ne; ++e) {
        if (edges[e].t == v) opts.emplace_back(e, +1);
        if (edges[e].h == v && edges[e].h != edges[e].t) opts.emplace_back(e, -1);
      }
      if (opts.empty()) break;
      auto o = opts[r.below(opts.size())];
      chain[o.first] += o.second;
      v = o.second > 0 ? edges[o.first].h : edges[o.first].t;
    }
    // BFS back to v0
    if (v != v0) {
      std::vector<int> prevE(nv, -1), prevS(nv, 0), seen(nv, 0);
      std::vector<int> q = {v};
      seen[v] = 1;
      for (size_t qi = 0; qi < q.size(); ++qi) {
        int x = q[qi];
        for (int e = 0; e < ne; ++e) {
          if (edges[e].t == x && !seen[edges[e].h]) { seen[edges[e].h] = 1; prevE[edges[e].h] = e; prevS[edges[e].h] = +1; q.push_back(edges[e].h); }
          if (edges[e].h == x && !seen[edges[e].t]) { seen[edges[e].t] = 1; prevE[edges[e].t] = e; prevS[edges[e].t] = -1; q.push_back(edges[e].t); }
        }
      }
      // v0 is reachable from v (the walk came from there)
      int x = v0;
      while (x != v) {
        int e = prevE[x], s = prevS[x];
        chain[e] += s;
        x = s > 0 ? edges[e].t : edges[e].h;
      }
    }
    static const long mult[10] = {1, 1, 1, 2, 2, 3, 3, 5, -1, 6};
    long m = mult[r.below(10)];
    UCell c;
    c.dim = 2;
    c.name = "f" + std::to_string(f);
    for (auto& kv : chain) {
      if (kv.second != 0) c.bd.emplace_back(nv + kv.first, kv.second * m);
      else c.req.push_back(nv + kv.first);
    }
    if (chain.empty()) c.req.push_back(v0);  // a sphere attached at a point
    U.cells.push_back(c);
  }
  return U;
}

inline Universe gen_universe(vh::Rng& r, size_t max_cells) {
  unsigned k = (unsigned)r.below(20);
  if (k < 7) return gen_simplicial(r, max_cells);
  if (k < 9) return max_cells >= 31 ? gen_rp2(r, max_cells) : gen_simplicial(r, max_cells);
  if (k < 14) return gen_cubical(r, max_cells);
  return gen_cw2(r, max_cells);
}

// d.d = 0 over Z ?  (self-check of the generators, run on every generated universe: cheap)
inline bool universe_is_chain_complex(const Universe& U) {
  for (auto& c : U.cells) {
    std::map<int, long> dd;
    for (auto& f : c.bd) {
      if (f.first < 0 || f.first >= (int)U.cells.size() || U.cells[f.first].dim != c.dim - 1 || f.second == 0) return false;
      for (auto& g : U.cells[f.first].bd) dd[g.first] += f.second * g.second;
    }
    for (auto& kv : dd) if (kv.second != 0) return false;
  }
  return true;
}

}  // namespace c05
#endif

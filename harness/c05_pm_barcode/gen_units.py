#!/usr/bin/env python3
"""Generates c05_units.inc (the committed table of Matrix<Options> instantiations of the C05 harness).

    python3 gen_units.py > c05_units.inc

Quick tier: 27 instantiations = every column type once per flavour (boundary-only, RU, chain), the other options rotating so
that every option value appears several times.  Thorough tier adds: all 54 (flavour x column type x field) combinations
not already present, a greedy pairwise-covering array over (column type, flavour, field, indexing, row access, removable
rows, removable columns / map container, max-dimension access, swaps, vine), and a few hand-picked corner combinations.
Only combinations the library's static_asserts allow are produced:
  * HEAP columns have no row access;
  * vine updates only over Z_2; a chain matrix with vine updates offers remove_last only with a map column container;
  * has_column_and_row_swaps is only rotated for the boundary-only flavour (where the swap mixin exists without vine updates).
Harness-side extras (last argument of C05_INSTX, see c05_body.h):
  * X_NOPAIR (1): has_column_pairings off.  Two quick (one RU, one chain) and four thorough instantiations, appended after the
    generated ones; they stay persistence matrices through can_retrieve_representative_cycles (no vine updates).
  * X_RANGES (2): insert_boundary also receives std::list / std::deque / std::set boundaries.  Two instantiations per flavour in
    the quick tier, every fifth one in the thorough tier (each range type is one more instantiation of the insertion path).
C05_BIGP lines (a unit of their own, number 50) run the big-prime histories (few cases, one per shard) on five of the quick
Z_p instantiations.
Deterministic (fixed seed)."""
import itertools
import random

CTS = ["HEAP", "VECTOR", "LIST", "SET", "NAIVE_VECTOR", "SMALL_VECTOR", "UNORDERED_SET", "INTRUSIVE_LIST", "INTRUSIVE_SET"]
FLS = [0, 1, 2]
FLN = {0: "bnd", 1: "ru", 2: "chain"}
IDXN = {0: "cont", 1: "pos", 2: "id"}
RAN = {0: "ra0", 1: "raI", 2: "raS"}
# (removable columns, map column container)
COLC = [(1, 0), (1, 1), (0, 0), (0, 1)]
PER_UNIT = 5


def valid(t):
    ct, fl, z2, idx, ra, rr, (rc, mp), dim, vine, sw = t
    if ct == "HEAP" and ra != 0:
        return False
    if ra == 0 and rr:
        return False
    if vine and (not z2 or fl == 0):
        return False
    if vine and fl == 2 and rc and not mp:
        return False
    if sw and fl != 0:
        return False
    return True


X_NOPAIR, X_RANGES = 1, 2


def name(t, xf=0):
    ct, fl, z2, idx, ra, rr, (rc, mp), dim, vine, sw = t
    s = "%s_%s_%s_%s_%s" % (FLN[fl], ct, "z2" if z2 else "zp", IDXN[idx], RAN[ra])
    if rr:
        s += "_rr"
    s += "_rc" if rc else "_fix"
    s += "_map" if mp else "_vec"
    if dim:
        s += "_dim"
    if vine:
        s += "_vine"
    if sw:
        s += "_sw"
    if xf & X_NOPAIR:
        s += "_nopair"
    return s


def inst(t, xf=0, bigp=False):
    ct, fl, z2, idx, ra, rr, (rc, mp), dim, vine, sw = t
    b = lambda x: "true" if x else "false"
    args = '%s, %d, %s, %d, %d, %s, %s, %s, %s, %s, %s' % (ct, fl, b(z2), idx, ra, b(rr), b(rc), b(mp), b(dim), b(vine), b(sw))
    if bigp:
        return 'C05_BIGP("bigp_%s", %s, %d);' % (name(t, xf), args, xf)
    if xf:
        return 'C05_INSTX("%s", %s, %d);' % (name(t, xf), args, xf)
    return 'C05_INST("%s", %s);' % (name(t, xf), args)


# quick tier: positions (in the list quick() returns) of the instantiations that also get non-vector boundary ranges, and of
# those that get a big-prime configuration (Z_p instantiations; one boundary-only, two RU, two chain, five column families)
QUICK_RANGES = (1, 6, 10, 15, 19, 24)
QUICK_BIGP = (5, 9, 15, 19, 21)
BIGP_UNIT = 50
# has_column_pairings off: (tuple, tier)
NOPAIR = [
    (("SET", 1, False, 1, 1, True, (1, 0), True, False, False), "quick"),
    (("NAIVE_VECTOR", 2, False, 0, 2, False, (1, 1), False, False, False), "quick"),
    (("HEAP", 1, True, 0, 0, False, (1, 1), False, False, False), "thorough"),
    (("INTRUSIVE_LIST", 1, False, 2, 2, True, (1, 0), True, False, False), "thorough"),
    (("VECTOR", 2, True, 2, 1, True, (1, 0), True, False, False), "thorough"),
    (("UNORDERED_SET", 2, False, 1, 0, False, (1, 1), True, False, False), "thorough"),
]


def quick():
    out = []
    k = 0
    for fl in FLS:
        for i, ct in enumerate(CTS):
            z2 = (k % 2 == 0)
            idx = [0, 2, 1][k % 3] if fl == 2 else [0, 2, 0, 2, 1][k % 5]
            ra = 0 if ct == "HEAP" else [1, 0, 2][(k + fl) % 3]
            rr = bool(ra) and (k % 4 in (0, 1))
            # removable columns dominate (they are what "also after the last cells are removed again" needs)
            rc, mp = [(1, 0), (1, 1), (1, 0), (0, 0), (1, 1), (1, 0), (1, 1), (0, 1), (1, 1)][(k + fl) % 9]
            dim = (k % 3 != 1)
            sw = (fl == 0 and k % 2 == 1)
            t = (ct, fl, z2, idx, ra, rr, (rc, mp), dim, False, sw)
            assert valid(t), t
            out.append(t)
            k += 1
    return out


def thorough(have):
    rnd = random.Random(20261002)
    out = []
    seen = set(have)

    def add(t):
        if t not in seen and valid(t) and name(t) not in {name(x) for x in seen}:
            seen.add(t)
            out.append(t)
            return True
        return False

    # 1. all flavour x column x field
    got = {(t[1], t[0], t[2]) for t in have}
    for fl in FLS:
        for ct in CTS:
            for z2 in (True, False):
                if (fl, ct, z2) in got:
                    continue
                for _ in range(200):
                    t = (ct, fl, z2, rnd.choice([0, 1, 2]), rnd.choice([0, 1, 2]), rnd.random() < 0.5,
                         rnd.choice(COLC[:3] + [(1, 0), (1, 1)]), rnd.random() < 0.5, False, fl == 0 and rnd.random() < 0.5)
                    if valid(t) and add(t):
                        break
    # 2. greedy pairwise cover
    params = [CTS, FLS, [True, False], [0, 1, 2], [0, 1, 2], [False, True], COLC, [False, True], [False, True], [False, True]]
    allv = [t for t in itertools.product(*params) if valid(t)]

    def pairs(t):
        return {((i, t[i]), (j, t[j])) for i in range(len(t)) for j in range(i + 1, len(t))}

    need = set()
    for t in allv:
        need |= pairs(t)
    for t in list(seen):
        need -= pairs(t)
    while need:
        cand = rnd.sample(allv, 400)
        best = max(cand, key=lambda t: len(pairs(t) & need))
        if not (pairs(best) & need):
            # pick one that covers some remaining pair
            p = next(iter(need))
            cs = [t for t in allv if p in pairs(t)]
            best = max(rnd.sample(cs, min(200, len(cs))), key=lambda t: len(pairs(t) & need))
        need -= pairs(best)
        add(best)
    # 3. random extra valid combinations (the space has ~10^4 valid points; these are spread over it)
    extra = 0
    while extra < 36:
        if add(rnd.choice(allv)):
            extra += 1
    return out


def main():
    q = quick()
    th = thorough(q)
    for t, _ in NOPAIR:
        assert valid(t) and t[1] != 0 and not t[8], t
    qx = [(t, X_RANGES if i in QUICK_RANGES else 0) for i, t in enumerate(q)] + [(t, X_NOPAIR) for t, tier in NOPAIR if tier == "quick"]
    thx = [(t, X_RANGES if i % 5 == 2 else 0) for i, t in enumerate(th)] + [(t, X_NOPAIR) for t, tier in NOPAIR if tier == "thorough"]
    for i in QUICK_BIGP:
        assert not q[i][2], q[i]  # Z_p
    print("// GENERATED by gen_units.py - do not edit.  %d quick instantiations (units 0..%d), %d more for the thorough tier (units 100..)." %
          (len(qx), (len(qx) - 1) // PER_UNIT, len(thx)))
    print("// C05_INST(config name, column type, flavour (0 boundary-only, 1 RU, 2 chain), Z2?, indexing (0 container, 1 position,")
    print("//          2 identifier), row access (0 none, 1 intrusive, 2 set), removable rows?, removable columns?, map column container?,")
    print("//          max-dimension access?, vine updates?, column/row swaps?)")
    print("// C05_INSTX(..., extras): the same with the harness-side extras of c05_body.h (1 = has_column_pairings off, 2 = boundaries")
    print("//          also given as std::list / std::deque / std::set).  C05_BIGP(\"bigp_\" name, ..., extras): the instantiation of that")
    print("//          name run on big-prime histories (primes up to and above 2^16, few cases), unit %d." % BIGP_UNIT)
    first = True
    for base, lst in ((0, qx), (100, thx)):
        for i in range(0, len(lst), PER_UNIT):
            print("#%s C05_UNIT == %d" % ("if" if first else "elif", base + i // PER_UNIT))
            first = False
            for t, xf in lst[i:i + PER_UNIT]:
                print(inst(t, xf))
        if base == 0:
            print("#elif C05_UNIT == %d" % BIGP_UNIT)
            for i in QUICK_BIGP:
                print(inst(qx[i][0], qx[i][1] & ~X_RANGES, bigp=True))
    print("#endif")


if __name__ == "__main__":
    main()

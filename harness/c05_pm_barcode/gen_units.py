#!/usr/bin/env python3
"""Generates c05_units.inc (the committed table of Matrix<Options> instantiations of the C05 harness).

    python3 gen_units.py > c05_units.inc

Quick tier: 27 instantiations = every column type once per flavour (boundary-only, RU, chain), the other options rotating so
that every option value appears several times.  Thorough tier adds: all 54 (flavour x column type x field) combinations
not already present, a greedy pairwise-covering array over (column type, flavour, field, indexing, row access, removable
rows, removable columns / map container, max-dimension access, swaps, vine), and a few hand-picked corner combinations.
Only combinations the library's static_asserts allow are produced:
  * HEAP columns have no row access;
  * vine updates only over Z_2; a chain matrix with vine updates offers remove_last only with a map column container;
  * has_column_and_row_swaps is only rotated for the boundary-only flavour (where the swap mixin exists without vine updates).
Deterministic (fixed seed)."""
import itertools
import random

CTS = ["HEAP", "VECTOR", "LIST", "SET", "NAIVE_VECTOR", "SMALL_VECTOR", "UNORDERED_SET", "INTRUSIVE_LIST", "INTRUSIVE_SET"]
FLS = [0, 1, 2]
FLN = {0: "bnd", 1: "ru", 2: "chain"}
IDXN = {0: "cont", 1: "pos", 2: "id"}
RAN = {0: "ra0", 1: "raI", 2: "raS"}
# (removable columns, map column container)
COLC = [(1, 0), (1, 1), (0, 0), (0, 1)]
PER_UNIT = 5


def valid(t):
    ct, fl, z2, idx, ra, rr, (rc, mp), dim, vine, sw = t
    if ct == "HEAP" and ra != 0:
        return False
    if ra == 0 and rr:
        return False
    if vine and (not z2 or fl == 0):
        return False
    if vine and fl == 2 and rc and not mp:
        return False
    if sw and fl != 0:
        return False
    return True


def name(t):
    ct, fl, z2, idx, ra, rr, (rc, mp), dim, vine, sw = t
    s = "%s_%s_%s_%s_%s" % (FLN[fl], ct, "z2" if z2 else "zp", IDXN[idx], RAN[ra])
    if rr:
        s += "_rr"
    s += "_rc" if rc else "_fix"
    s += "_map" if mp else "_vec"
    if dim:
        s += "_dim"
    if vine:
        s += "_vine"
    if sw:
        s += "_sw"
    return s


def inst(t):
    ct, fl, z2, idx, ra, rr, (rc, mp), dim, vine, sw = t
    b = lambda x: "true" if x else "false"
    return 'C05_INST("%s", %s, %d, %s, %d, %d, %s, %s, %s, %s, %s, %s);' % (
        name(t), ct, fl, b(z2), idx, ra, b(rr), b(rc), b(mp), b(dim), b(vine), b(sw))


def quick():
    out = []
    k = 0
    for fl in FLS:
        for i, ct in enumerate(CTS):
            z2 = (k % 2 == 0)
            idx = [0, 2, 1][k % 3] if fl == 2 else [0, 2, 0, 2, 1][k % 5]
            ra = 0 if ct == "HEAP" else [1, 0, 2][(k + fl) % 3]
            rr = bool(ra) and (k % 4 in (0, 1))
            # removable columns dominate (they are what "also after the last cells are removed again" needs)
            rc, mp = [(1, 0), (1, 1), (1, 0), (0, 0), (1, 1), (1, 0), (1, 1), (0, 1), (1, 1)][(k + fl) % 9]
            dim = (k % 3 != 1)
            sw = (fl == 0 and k % 2 == 1)
            t = (ct, fl, z2, idx, ra, rr, (rc, mp), dim, False, sw)
            assert valid(t), t
            out.append(t)
            k += 1
    return out


def thorough(have):
    rnd = random.Random(20261002)
    out = []
    seen = set(have)

    def add(t):
        if t not in seen and valid(t) and name(t) not in {name(x) for x in seen}:
            seen.add(t)
            out.append(t)
            return True
        return False

    # 1. all flavour x column x field
    got = {(t[1], t[0], t[2]) for t in have}
    for fl in FLS:
        for ct in CTS:
            for z2 in (True, False):
                if (fl, ct, z2) in got:
                    continue
                for _ in range(200):
                    t = (ct, fl, z2, rnd.choice([0, 1, 2]), rnd.choice([0, 1, 2]), rnd.random() < 0.5,
                         rnd.choice(COLC[:3] + [(1, 0), (1, 1)]), rnd.random() < 0.5, False, fl == 0 and rnd.random() < 0.5)
                    if valid(t) and add(t):
                        break
    # 2. greedy pairwise cover
    params = [CTS, FLS, [True, False], [0, 1, 2], [0, 1, 2], [False, True], COLC, [False, True], [False, True], [False, True]]
    allv = [t for t in itertools.product(*params) if valid(t)]

    def pairs(t):
        return {((i, t[i]), (j, t[j])) for i in range(len(t)) for j in range(i + 1, len(t))}

    need = set()
    for t in allv:
        need |= pairs(t)
    for t in list(seen):
        need -= pairs(t)
    while need:
        cand = rnd.sample(allv, 400)
        best = max(cand, key=lambda t: len(pairs(t) & need))
        if not (pairs(best) & need):
            # pick one that covers some remaining pair
            p = next(iter(need))
            cs = [t for t in allv if p in pairs(t)]
            best = max(rnd.sample(cs, min(200, len(cs))), key=lambda t: len(pairs(t) & need))
        need -= pairs(best)
        add(best)
    # 3. random extra valid combinations (the space has ~10^4 valid points; these are spread over it)
    extra = 0
    while extra < 36:
        if add(rnd.choice(allv)):
            extra += 1
    return out


def main():
    q = quick()
    th = thorough(q)
    print("// GENERATED by gen_units.py - do not edit.  %d quick instantiations (units 0..%d), %d more for the thorough tier (units 100..)." %
          (len(q), (len(q) - 1) // PER_UNIT, len(th)))
    print("// C05_INST(config name, column type, flavour (0 boundary-only, 1 RU, 2 chain), Z2?, indexing (0 container, 1 position,")
    print("//          2 identifier), row access (0 none, 1 intrusive, 2 set), removable rows?, removable columns?, map column container?,")
    print("//          max-dimension access?, vine updates?, column/row swaps?)")
    first = True
    for base, lst in ((0, q), (100, th)):
        for i in range(0, len(lst), PER_UNIT):
            print("#%s C05_UNIT == %d" % ("if" if first else "elif", base + i // PER_UNIT))
            first = False
            for t in lst[i:i + PER_UNIT]:
                print(inst(t))
    print("#endif")


if __name__ == "__main__":
    main()

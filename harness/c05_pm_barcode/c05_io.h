// C05 — the narrow interface between the flavour-independent harness logic (c05_core.h / c05_core.cpp, compiled once)
// and the per-option-struct adapters (c05_body.h).  No GUDHI header here.
#ifndef VERIF_C05_IO_H_
#define VERIF_C05_IO_H_

#include <map>
#include <string>
#include <vector>

#include "common/vh.h"
#include "oracle/zp_reduce.h"

namespace c05 {

enum { F_BND = 0, F_RU = 1, F_CHAIN = 2 };
enum { I_CONT = 0, I_POS = 1, I_ID = 2 };

typedef std::map<unsigned, long> SCol;  // sparse column: row -> coefficient in [1, p-1]

// a cell of the model's current filtration
struct MC {
  int u;        // universe index
  unsigned id;  // identifier
  int dim;
  SCol bd;      // in identifiers, coefficients reduced mod p, zero ones dropped
  SCol in;      // the same entries as they are handed to the library: coefficient c + k p with k >= 0 (k = 0: in == bd)
};

// what the options of an instantiation offer
struct Traits {
  int fl, idx;
  bool z2, ra, rr, rc, has_maxdim, vine;
  bool pairings = true;  // has_column_pairings: get_current_barcode is offered
  bool ranges = false;   // the adapter also instantiates insert_boundary for std::list / std::deque / std::set boundaries
};

enum { R_VECTOR = 0, R_LIST = 1, R_DEQUE = 2, R_SET = 3 };

// what a configuration asks of the history generator
enum { MODE_NORMAL = 0, MODE_BIG_PRIMES = 1 };

// The public interface of Matrix<Options> as the checks use it.  Indices are the ones of the instantiation's indexing scheme.
struct MatrixIO {
  virtual ~MatrixIO() {}
  virtual void construct_default(unsigned p) = 0;                                  // Matrix() [+ set_characteristic]
  virtual void construct_hint(unsigned ncols, unsigned p, bool characteristic_later) = 0;
  virtual void construct_batch(const std::vector<SCol>& boundaries, unsigned p) = 0;   // coefficients as given (MC::in)
  // insert_boundary of cell.in as a range of kind range_kind (R_VECTOR when the adapter has no other);
  // returns the size of the returned vector when the overload returns one (returned = true)
  virtual size_t insert(const MC& cell, bool implicit_id, bool omit_dim, int range_kind, bool& returned) = 0;
  virtual void remove_last() = 0;
  virtual unsigned ncols() = 0;
  virtual int col_dim(unsigned idx) = 0;
  virtual int max_dim() = 0;
  virtual void barcode(std::vector<oracle::Bar>& out) = 0;
  virtual SCol column(unsigned idx) = 0;                 // get_column(idx).get_content()
  virtual SCol column_in(unsigned idx, bool inR) = 0;    // get_column(idx, inR).get_content()
  virtual unsigned pivot(unsigned idx) = 0;
  virtual unsigned column_with_pivot(unsigned row) = 0;
  virtual bool zero_column(unsigned idx) = 0;
  virtual bool zero_column_in(unsigned idx, bool inR) = 0;
  virtual bool zero_entry(unsigned idx, unsigned row) = 0;
  virtual bool zero_entry_in(unsigned idx, unsigned row, bool inR) = 0;
  virtual std::map<unsigned, long> row(unsigned row) = 0;            // get_row(row) as column index -> value
  virtual std::map<unsigned, long> row_in(unsigned row, bool inR) = 0;
  virtual bool is_paired(unsigned idx) = 0;              // chain columns
  virtual unsigned partner(unsigned idx) = 0;
};

// runs one case (history + all checks) on the matrix behind io; defined in c05_core.cpp
void run_history(vh::Case& c, const char* cfg, const Traits& t, MatrixIO& io, int mode = MODE_NORMAL);

}  // namespace c05
#endif

// C05 — every persistence-matrix flavour computes the same, correct barcode, and the matrices it exposes satisfy their
// defining identities.  The harness logic is in c05_core.h / c05_core.cpp (written and compiled once, flavour-independent); this file holds the option
// struct, the thin adapter Adapter<O> that maps the MatrixIO interface onto Matrix<O>'s public interface, and the
// instantiation macro.  Instantiated per option struct in c05_main.cpp (table in c05_units.inc, a few per binary).
#ifndef VERIF_C05_BODY_H_
#define VERIF_C05_BODY_H_

#include <gudhi/Matrix.h>
#include <gudhi/persistence_matrix_options.h>

#include <deque>
#include <list>
#include <memory>
#include <set>
#include <type_traits>

#include "c05_io.h"

namespace c05 {

using Gudhi::persistence_matrix::Column_indexation_types;
using Gudhi::persistence_matrix::Column_types;

// RA: 0 = no row access, 1 = intrusive rows, 2 = set rows
// XF: harness-side extras, bit 0 (X_NOPAIR) = has_column_pairings off (RU and chain flavours stay persistence matrices through
//     can_retrieve_representative_cycles: no barcode is stored, the identities of the exposed matrices are all that is
//     checked), bit 1 (X_RANGES) = insert_boundary is also given std::list / std::deque / std::set boundaries
enum { X_NOPAIR = 1, X_RANGES = 2 };
template <Column_types CT, int FL, bool Z2, int IDX, int RA, bool RR, bool RC, bool MAPC, bool DIM, bool VINE, bool SW, int XF = 0>
struct Opt {
  using Field_coeff_operators = Gudhi::persistence_fields::Zp_field_operators<>;
  using Index = unsigned int;
  using Dimension = int;
  static const bool is_z2 = Z2;
  static const Column_types column_type = CT;
  static const Column_indexation_types column_indexation_type =
      IDX == I_CONT ? Column_indexation_types::CONTAINER
                    : (IDX == I_POS ? Column_indexation_types::POSITION : Column_indexation_types::IDENTIFIER);
  static const bool is_of_boundary_type = (FL != F_CHAIN);
  static const bool has_column_pairings = !(XF & X_NOPAIR);
  static const bool has_vine_update = VINE;
  static const bool can_retrieve_representative_cycles = (FL == F_RU && !VINE) || (FL == F_CHAIN && (XF & X_NOPAIR) && !VINE);
  static const bool has_matrix_maximal_dimension_access = DIM;
  static const bool has_column_compression = false;
  static const bool has_column_and_row_swaps = SW;
  static const bool has_row_access = (RA != 0);
  static const bool has_intrusive_rows = (RA != 2);
  static const bool has_removable_rows = RR;
  static const bool has_removable_columns = RC;
  static const bool has_map_column_container = MAPC;
  // harness-side tags
  static const int flavour = FL;
  static const int indexing = IDX;
  static const bool other_ranges = (XF & X_RANGES) != 0;
  static_assert(!(XF & X_NOPAIR) || FL != F_BND, "a boundary-only matrix without pairings is a base matrix, not C05's subject");
};

[[noreturn]] inline void not_offered(const char* what) {
  throw std::logic_error(std::string("harness bug: ") + what + " is not offered by this instantiation");
}

template <class O>
struct Adapter : MatrixIO {
  using M = Gudhi::persistence_matrix::Matrix<O>;
  static constexpr int FL = O::flavour, IDX = O::indexing;
  static constexpr bool Z2 = O::is_z2;
  static constexpr bool HAS_RU_FACTOR = (FL == F_RU && IDX != I_ID);
  using InB = typename std::conditional<Z2, std::vector<unsigned>, std::vector<std::pair<unsigned, unsigned>>>::type;
  std::unique_ptr<M> m;

  static Traits traits() {
    Traits t;
    t.fl = FL; t.idx = IDX; t.z2 = Z2;
    t.ra = O::has_row_access;
    t.rr = O::has_row_access && O::has_removable_rows;
    t.rc = O::has_removable_columns;
    t.has_maxdim = O::has_matrix_maximal_dimension_access || FL == F_BND;
    t.vine = O::has_vine_update;
    t.pairings = O::has_column_pairings;
    t.ranges = O::other_ranges;
    return t;
  }
  static InB make_in(const SCol& bd) {
    InB in;
    for (auto& kv : bd) {
      if constexpr (Z2) in.push_back(kv.first);
      else in.emplace_back(kv.first, (unsigned)kv.second);
    }
    return in;
  }
  template <class Col>
  static SCol content(Col& col) {
    SCol out;
    auto v = col.get_content();  // up to the last non-zero entry
    for (size_t i = 0; i < v.size(); ++i)
      if (v[i] != 0) out[(unsigned)i] = (long)(unsigned)v[i];
    return out;
  }
  template <class Row>
  static std::map<unsigned, long> row_content(const Row& row) {
    std::map<unsigned, long> out;
    for (const auto& e : row) {
      long v = 1;
      if constexpr (!Z2) v = (long)e.get_element();
      if (out.count(e.get_column_index())) v = -1000 - v;  // a column index seen twice would be lost in a map: keep it visible
      out[e.get_column_index()] = v;
    }
    return out;
  }

  void construct_default(unsigned p) override {
    m.reset(new M());
    if constexpr (!Z2) m->set_characteristic(p);
  }
  void construct_hint(unsigned ncols, unsigned p, bool later) override {
    if (later && !Z2) { m.reset(new M(ncols)); m->set_characteristic(p); }
    else m.reset(new M(ncols, p));
  }
  void construct_batch(const std::vector<SCol>& bds, unsigned p) override {
    std::vector<InB> cols;
    for (auto& b : bds) cols.push_back(make_in(b));
    m.reset(new M(cols, p));
  }
  size_t insert(const MC& mc, bool implicit_id, bool omit_dim, int range_kind, bool& returned) override {
    InB in = make_in(mc.in);
    if constexpr (O::other_ranges) {
      typedef typename InB::value_type E;
      if (range_kind == R_LIST) return insert_range(std::list<E>(in.begin(), in.end()), mc, implicit_id, omit_dim, returned);
      if (range_kind == R_DEQUE) return insert_range(std::deque<E>(in.begin(), in.end()), mc, implicit_id, omit_dim, returned);
      if (range_kind == R_SET) return insert_range(std::set<E>(in.begin(), in.end()), mc, implicit_id, omit_dim, returned);
    }
    return insert_range(in, mc, implicit_id, omit_dim, returned);
  }
  template <class Range>
  size_t insert_range(const Range& in, const MC& mc, bool implicit_id, bool omit_dim, bool& returned) {
    constexpr bool returns = !std::is_void<typename M::Insertion_return>::value;
    returned = returns;
    if constexpr (returns) {
      if (implicit_id) return (omit_dim ? m->insert_boundary(in) : m->insert_boundary(in, mc.dim)).size();
      return (omit_dim ? m->insert_boundary(mc.id, in) : m->insert_boundary(mc.id, in, mc.dim)).size();
    } else {
      if (implicit_id) { if (omit_dim) m->insert_boundary(in); else m->insert_boundary(in, mc.dim); }
      else { if (omit_dim) m->insert_boundary(mc.id, in); else m->insert_boundary(mc.id, in, mc.dim); }
      return 0;
    }
  }
  void remove_last() override {
    if constexpr (O::has_removable_columns) m->remove_last();
    else not_offered("remove_last");
  }
  unsigned ncols() override { return m->get_number_of_columns(); }
  int col_dim(unsigned idx) override { return m->get_column_dimension(idx); }
  int max_dim() override {
    if constexpr (O::has_matrix_maximal_dimension_access || FL == F_BND) return m->get_max_dimension();
    else not_offered("get_max_dimension");
  }
  void barcode(std::vector<oracle::Bar>& out) override {
    if constexpr (O::has_column_pairings) {
      const auto& bc = m->get_current_barcode();
      for (const auto& b : bc) out.push_back(oracle::Bar{(int)b.dim, (int)b.birth, b.death == (unsigned)-1 ? -1 : (int)b.death});
    } else not_offered("get_current_barcode");
  }
  SCol column(unsigned idx) override { return content(m->get_column(idx)); }
  SCol column_in(unsigned idx, bool inR) override {
    if constexpr (HAS_RU_FACTOR) return content(m->get_column(idx, inR));
    else not_offered("get_column(,inR)");
  }
  unsigned pivot(unsigned idx) override { return m->get_pivot(idx); }
  unsigned column_with_pivot(unsigned row) override {
    if constexpr (FL != F_BND) return m->get_column_with_pivot(row);
    else not_offered("get_column_with_pivot");
  }
  bool zero_column(unsigned idx) override { return m->is_zero_column(idx); }
  bool zero_column_in(unsigned idx, bool inR) override {
    if constexpr (HAS_RU_FACTOR) return m->is_zero_column(idx, inR);
    else not_offered("is_zero_column(,inR)");
  }
  bool zero_entry(unsigned idx, unsigned row) override { return m->is_zero_entry(idx, row); }
  bool zero_entry_in(unsigned idx, unsigned row, bool inR) override {
    if constexpr (HAS_RU_FACTOR) return m->is_zero_entry(idx, row, inR);
    else not_offered("is_zero_entry(,,inR)");
  }
  std::map<unsigned, long> row(unsigned rw) override {
    if constexpr (O::has_row_access) return row_content(m->get_row(rw));
    else not_offered("get_row");
  }
  std::map<unsigned, long> row_in(unsigned rw, bool inR) override {
    if constexpr (O::has_row_access && HAS_RU_FACTOR) return row_content(m->get_row(rw, inR));
    else not_offered("get_row(,inR)");
  }
  bool is_paired(unsigned idx) override {
    if constexpr (FL == F_CHAIN) return m->get_column(idx).is_paired();
    else not_offered("is_paired");
  }
  unsigned partner(unsigned idx) override {
    if constexpr (FL == F_CHAIN) return m->get_column(idx).get_paired_chain_index();
    else not_offered("get_paired_chain_index");
  }
};

template <class O>
void run_case(vh::Case& c, const char* cfg, int mode = MODE_NORMAL) {
  Adapter<O> io;
  run_history(c, cfg, Adapter<O>::traits(), io, mode);
}

}  // namespace c05

// C05_INSTX: one instantiation (last argument: the X_ flags) run in the given mode under the given configuration name.
// C05_INST = no extras, normal histories.  C05_BIGP = a SECOND configuration on an instantiation that a C05_INST / C05_INSTX
// line of the same unit already makes (same option struct, no further template instantiation): histories over primes up to
// and above 2^16 with coefficients spread over Z_p (few cases: building the field's inverse table costs seconds there).
#define C05_INSTM(NAME, MODE, CT, FL, Z2, IDX, RA, RR, RC, MAPC, DIM, VINE, SW, XF)                                        \
  static void VH_CAT(c05_case_fn_, __LINE__)(vh::Case& c) {                                                                 \
    typedef c05::Opt<Gudhi::persistence_matrix::Column_types::CT, FL, Z2, IDX, RA, RR, RC, MAPC, DIM, VINE, SW, XF> Options; \
    c05::run_case<Options>(c, NAME, MODE);                                                                                  \
  }                                                                                                                         \
  VH_CONFIG(NAME, VH_CAT(c05_case_fn_, __LINE__))
#define C05_INSTX(NAME, CT, FL, Z2, IDX, RA, RR, RC, MAPC, DIM, VINE, SW, XF) \
  C05_INSTM(NAME, c05::MODE_NORMAL, CT, FL, Z2, IDX, RA, RR, RC, MAPC, DIM, VINE, SW, XF)
#define C05_INST(NAME, CT, FL, Z2, IDX, RA, RR, RC, MAPC, DIM, VINE, SW) \
  C05_INSTM(NAME, c05::MODE_NORMAL, CT, FL, Z2, IDX, RA, RR, RC, MAPC, DIM, VINE, SW, 0)
#define C05_BIGP(NAME, CT, FL, Z2, IDX, RA, RR, RC, MAPC, DIM, VINE, SW, XF) \
  C05_INSTM(NAME, c05::MODE_BIG_PRIMES, CT, FL, Z2, IDX, RA, RR, RC, MAPC, DIM, VINE, SW, XF)

#endif

// C05 harness translation unit: the instantiations of unit C05_UNIT (see c05_units.inc) of the body in c05_body.h.
#include "c05_body.h"
#include "c05_units.inc"
VH_MAIN()

// C05 harness translation unit: the instantiations of unit C05_UNIT (see c05_units.inc) of the body in c05_body.h.
#include "c05_body.h"
#include "c05_units.inc"

#include <cstdlib>
#include <cstring>
#include <string>
#include <unistd.h>

// A corrupted column counter (seen: remove_last on an empty matrix in the indexing overlays) makes the library ask for a
// vector of 2^32 entries; filling 16 GB would take the machine down long before the CPU guard of c05_core.cpp fires.  The
// harness never needs a single allocation above a few MB (identifiers stay below ~20000), so the sanitizer run-time is told
// to refuse allocations above 512 MB: the process is re-executed once with max_allocation_size_mb added to ASAN_OPTIONS
// (the orchestrator's options are kept).  Such a request then ends the case at once with an AddressSanitizer report
// attributed to the library frame that made it.
static void c05_limit_allocation_size(char** argv) {
  const char* cur = getenv("ASAN_OPTIONS");
  if (cur && strstr(cur, "max_allocation_size_mb")) return;
  std::string opt = cur ? std::string(cur) + ":" : std::string();
  opt += "max_allocation_size_mb=512";
  setenv("ASAN_OPTIONS", opt.c_str(), 1);
  execv("/proc/self/exe", argv);
  // exec failed: go on without the limit
}

extern "C" void __asan_on_error() { ::vh::dump_history_on_fatal(); }
int main(int argc, char** argv) {
  c05_limit_allocation_size(argv);
  return ::vh::run_main(argc, argv);
}

// C05 — the flavour-independent part of the harness: model of the filtration, history generation, and every check,
// written once against the small virtual interface MatrixIO (implemented per option struct by Adapter<O> in c05_body.h).
// No GUDHI header here: the checks only see numbers and sparse maps read through the public interface.
//
// Per case: a random "universe" chain complex (c05_gen.h), a prime p (2 for the Z_2 instantiations), an identifier style
// (implicit consecutive / explicit consecutive / strictly increasing with random gaps, re-using freed identifiers), a
// constructor (default, with a column-count hint, batch constructor on a simplicial prefix) and a history of insertions of
// admissible universe cells at the end of the filtration interleaved with remove_last (when the options offer it), so that
// what is re-inserted after a removal is in general a different cell.
//   * RU and chain flavours: full observation after EVERY step in half of the cases, after every k-th step (k in 2..8, and
//     at the end) in the others, so that lazily maintained column state survives from one operation to the next.
//   * boundary-only flavour (call discipline of DESIGN.md): before the first get_current_barcode() the stored columns are
//     compared with the inserted boundaries after every step; then the barcode is requested once, and remove_last x k
//     follows with a full observation after each; no insertion after the first barcode.
// Input classes drawn per case on top of that (each one named in the signature when it is active): coefficients handed over
// unreduced (c + k p, k in {0..3, 1000}: the documentation says values are stored after taking them modulo p), coefficients
// spread over Z_p by rescaling every universe cell with a random unit, histories that shrink to the EMPTY matrix, call
// remove_last once more there (a no-op) and grow again, identifiers with heavy-tailed gaps / a large first identifier /
// implicit for a prefix (or a batch constructor) and explicit with gaps afterwards, all dimensions shifted by a constant,
// boundaries given as std::list / std::deque / std::set, the barcode of a never-filled boundary-only matrix, matrices
// without stored pairing (identities only), and - in the few-case big-prime configurations - primes up to and above 2^16.
// Oracle: oracle/zp_reduce.h on the model's current filtration (positions), plus the definitions of the identities
// restated below on sparse maps.  Nothing of GUDHI's reduction is reused.
#ifndef VERIF_C05_CORE_H_
#define VERIF_C05_CORE_H_

#include <csignal>
#include <cstdlib>
#include <map>
#include <set>
#include <stdexcept>
#include <string>
#include <vector>

#include <fcntl.h>
#include <sys/wait.h>
#include <unistd.h>

#include "common/vh.h"
#include "oracle/zp_reduce.h"
#include "c05_gen.h"
#include "c05_io.h"

namespace c05 {

inline std::string show(const SCol& s) {
  std::string o = "{";
  bool first = true;
  for (auto& kv : s) { if (!first) o += ","; first = false; o += std::to_string(kv.first) + ":" + std::to_string(kv.second); }
  return o + "}";
}
inline void axpy(SCol& y, long a, const SCol& x, long p) {  // y += a x  (mod p)
  a %= p; if (a < 0) a += p;
  if (a == 0) return;
  for (auto& kv : x) {
    auto it = y.find(kv.first);
    long v = ((it == y.end() ? 0 : it->second) + a * kv.second) % p;
    if (v == 0) { if (it != y.end()) y.erase(it); }
    else if (it == y.end()) y[kv.first] = v;
    else it->second = v;
  }
}
inline long inv_mod(long a, long p) { return (long)oracle::mod_inv(a, p); }

// textbook reduction that only counts: max number of column additions needed by one column ("collision chain")
inline int max_collision_chain(const std::vector<oracle::Cell>& cells, long p) {
  std::vector<SCol> R(cells.size());
  std::map<unsigned, int> owner;
  int best = 0;
  for (size_t j = 0; j < cells.size(); ++j) {
    SCol& col = R[j];
    for (auto& f : cells[j].bdry) { SCol one; one[(unsigned)f.first] = 1; axpy(col, f.second, one, p); }
    int adds = 0;
    while (!col.empty()) {
      unsigned l = col.rbegin()->first;
      auto it = owner.find(l);
      if (it == owner.end()) break;
      const SCol& src = R[it->second];
      long coef = (p - col.rbegin()->second * inv_mod(src.rbegin()->second, p) % p) % p;
      axpy(col, coef, src, p);
      ++adds;
    }
    if (!col.empty()) owner[col.rbegin()->first] = (int)j;
    best = std::max(best, adds);
  }
  return best;
}

struct Run {
  static constexpr unsigned NULLU = (unsigned)-1;
  const Traits T;
  MatrixIO& io;
  const int FL, IDX;
  const bool Z2, RA, RR, RC, HAS_MAXDIM, HAS_RU_FACTOR;

  vh::Case& c;
  vh::Rng& r;
  const std::string cfg;
  long p = 2;
  Universe U;
  std::vector<char> present;
  std::vector<MC> cells;              // the model: current filtration
  std::map<unsigned, int> pos_of_id;  // live identifiers
  int id_style = 0;                   // 0 implicit consecutive, 1 explicit consecutive, 2 gaps, 3 heavy-tailed gaps (<= ~20000),
                                      // 4 large first identifier, 5 implicit for a prefix (or batch constructor) then explicit with gaps
  bool explicit_now = false;          // style 5: the switch to explicit identifiers has happened
  int switch_at = 0;                  // style 5: number of cells at which the switch happens
  unsigned first_id = 0;              // style 4
  const int mode;                     // MODE_NORMAL / MODE_BIG_PRIMES
  long p_forced = 0;                  // MODE_BIG_PRIMES: chosen by run_history (it sizes the CPU guard with it)
  bool unreduced = false;             // coefficients are handed over as c + k p
  bool spread = false;                // universe cell u is rescaled by the unit lam[u]: coefficients spread over Z_p
  std::vector<long> lam, lam_inv;
  int obs_every = 1, since_obs = 0;   // RU / chain: observe after every obs_every-th step
  bool allow_empty = false;           // the history may shrink to zero columns (and call remove_last there)
  bool emptied = false;               // it did
  int dim_shift = 0;                  // added to every dimension
  bool used_other_range = false;      // a boundary was given as list / deque / set
  bool reduced = false;               // boundary-only: the barcode was requested
  bool did_remove = false, reinserted = false, shape_reported = false;
  unsigned removes = 0, reinserts = 0;
  std::string last_op = "ctor";
  const char* cur_call = "";
  // coverage of the case
  int best_finite = 0, best_chain = 0, best_cells = 0, best_cells_after_emptied = 0;
  bool any_addition = false;

  Run(vh::Case& c_, const std::string& cfg_, const Traits& t, MatrixIO& io_, int mode_ = MODE_NORMAL)
      : T(t), io(io_), FL(t.fl), IDX(t.idx), Z2(t.z2), RA(t.ra), RR(t.rr), RC(t.rc), HAS_MAXDIM(t.has_maxdim),
        HAS_RU_FACTOR(t.fl == F_RU && t.idx != I_ID), c(c_), r(c_.rng), cfg(cfg_), mode(mode_) {}

  // ------------------------------------------------------------------------------------------------ helpers
  std::string sig(const std::string& extra = "") const {
    std::string s = std::string("fl=") + (FL == F_BND ? "boundary" : FL == F_RU ? "ru" : "chain") +
                    ",idx=" + (IDX == I_CONT ? "container" : IDX == I_POS ? "position" : "identifier") +
                    ",field=" + (Z2 ? "z2" : "zp") + ",ids=" + id_style_name() +
                    ",after=" + last_op + (reinserted ? ",reinserted" : "");
    // the input classes beyond the basic protocol, named only when active
    if (emptied) s += ",emptied";
    if (unreduced) s += ",coefs=unreduced";
    if (p > 65536) s += ",prime=above_65536";
    if (!T.pairings) s += ",pairings=off";
    // (sparse observation, shifted dimensions and non-vector boundary ranges are in the first line of the history / the
    //  insert lines, not in the signature: they would only multiply the signatures of one cause)
    if (!extra.empty()) s += "," + extra;
    return s;
  }
  const char* id_style_name() const {
    static const char* const nm[6] = {"consecutive", "consecutive", "gaps", "heavy_gaps", "large_first", "implicit_then_explicit"};
    return nm[id_style];
  }
  bool implicit_ids_now() const { return id_style == 0 || (id_style == 5 && !explicit_now); }
  // the index under which the public interface addresses the column of the cell at filtration position pos.
  // Chain matrix with container indexing: the MatIdx is whatever get_column_with_pivot says (it differs from the
  // position once columns were removed in a matrix with vine updates); that it maps back is checked in observe_chain.
  unsigned idx_of(int pos) const {
    if (IDX == I_ID) return cells[pos].id;
    else if (FL == F_CHAIN && IDX == I_CONT) return io.column_with_pivot(cells[pos].id);
    else return (unsigned)pos;
  }
  unsigned max_id() const { return cells.empty() ? 0 : cells.back().id; }

  SCol boundary_of(const SCol& chain) const {  // d(chain) in identifiers
    SCol out;
    for (auto& kv : chain) {
      auto it = pos_of_id.find(kv.first);
      if (it == pos_of_id.end()) continue;  // reported elsewhere (row index that is no live identifier)
      axpy(out, kv.second, cells[it->second].bd, p);
    }
    return out;
  }
  std::vector<oracle::Cell> oracle_cells() const {
    std::vector<oracle::Cell> oc(cells.size());
    for (size_t j = 0; j < cells.size(); ++j) {
      oc[j].dim = cells[j].dim;
      for (auto& kv : cells[j].bd) oc[j].bdry.emplace_back(pos_of_id.at(kv.first), kv.second);
    }
    return oc;
  }

  // ------------------------------------------------------------------------------------------------ model operations
  std::vector<int> admissible() const {
    std::vector<int> a;
    for (int u = 0; u < (int)U.cells.size(); ++u) {
      if (present[u]) continue;
      bool ok = true;
      for (auto& f : U.cells[u].bd) if (!present[f.first]) { ok = false; break; }
      for (int q : U.cells[u].req) if (!present[q]) { ok = false; break; }
      if (ok) a.push_back(u);
    }
    return a;
  }
  // the model cell that inserting universe cell u now would create
  MC make_cell(int u, const std::map<int, unsigned>& id_of_u) {
    MC mc;
    mc.u = u;
    mc.dim = U.cells[u].dim + dim_shift;
    unsigned prev = cells.empty() ? 0 : cells.back().id + 1;
    static const unsigned gaps[8] = {0, 0, 0, 1, 1, 2, 3, 7};
    auto heavy = [&]() -> unsigned {  // heavy-tailed gap: 0 one time in three, else uniform below 2^k, k uniform in 0..14
      unsigned g = r.chance(1, 3) ? 0u : (unsigned)r.below((uint64_t)1 << r.below(15));
      return prev + g > 20000u ? 0u : g;
    };
    if (id_style == 2) mc.id = prev + gaps[r.below(8)];
    else if (id_style == 3) mc.id = prev + heavy();
    else if (id_style == 4) mc.id = (cells.empty() ? first_id : prev) + (r.chance(1, 4) ? (unsigned)r.below(3) : 0u);
    else if (id_style == 5 && explicit_now) mc.id = prev + (r.chance(1, 3) ? heavy() : gaps[r.below(8)]);
    else mc.id = (unsigned)cells.size();
    for (auto& f : U.cells[u].bd) {
      long v = f.second % p; if (v < 0) v += p;
      if (v == 0) { c.count("cell.coef_vanishes_mod_p"); continue; }
      if (spread) v = v * lam[u] % p * lam_inv[f.first] % p;  // boundary in the rescaled basis lam[u] e_u: still d.d = 0
      mc.bd[id_of_u.at(f.first)] = v;
      long k = 0;
      if (unreduced) { static const long ks[6] = {0, 1, 2, 3, 1000, 1}; k = ks[r.below(6)]; }
      mc.in[id_of_u.at(f.first)] = v + k * p;  // < 2^32 for every prime used (p <= 131071)
      if (k > 0) c.count("cell.coef_unreduced");
      if (k == 1000) c.count("cell.coef_plus_1000p");
    }
    return mc;
  }
  std::map<int, unsigned> ids_by_universe() const {
    std::map<int, unsigned> mp;
    for (auto& x : cells) mp[x.u] = x.id;
    return mp;
  }
  void model_push(const MC& mc) {
    present[mc.u] = 1;
    pos_of_id[mc.id] = (int)cells.size();
    cells.push_back(mc);
  }
  void model_pop() {
    present[cells.back().u] = 0;
    pos_of_id.erase(cells.back().id);
    cells.pop_back();
  }
  std::string describe(const MC& mc) const {
    return U.cells[mc.u].name + " id=" + std::to_string(mc.id) + " dim=" + std::to_string(mc.dim) + " bd=" + show(mc.bd) +
           (mc.in != mc.bd ? " given as " + show(mc.in) : std::string());
  }

  // ------------------------------------------------------------------------------------------------ operations on both
  bool op_insert() {
    std::vector<int> a = admissible();
    if (a.empty()) { c.count("skip.insert.universe_exhausted"); return false; }
    // mild preference for higher-dimensional cells so that deaths happen early
    int u = a[r.below(a.size())];
    if (r.chance(1, 2)) { int u2 = a[r.below(a.size())]; if (U.cells[u2].dim > U.cells[u].dim) u = u2; }
    if (id_style == 5 && !explicit_now && (int)cells.size() >= switch_at) { explicit_now = true; c.count("ids.switch_to_explicit"); }
    MC mc = make_cell(u, ids_by_universe());
    const bool deducible = mc.dim == (mc.bd.empty() ? 0 : (int)mc.bd.size() - 1);
    const bool omit_dim = deducible && r.chance(1, 3);
    const bool implicit = implicit_ids_now();
    static const char* const rk_name[4] = {"vector", "list", "deque", "set"};
    const int rk = T.ranges ? (int)r.below(4) : R_VECTOR;
    if (rk != R_VECTOR) used_other_range = true;
    c.count(std::string("range.") + rk_name[rk]);
    c.log(std::string("insert ") + describe(mc) + (implicit ? " [implicit id]" : " [explicit id]") + (omit_dim ? " [dim omitted]" : "") +
          (rk != R_VECTOR ? std::string(" [as std::") + rk_name[rk] + "]" : std::string()));
    if (did_remove) { reinserted = true; ++reinserts; c.count("op.insert.after_remove_last"); }
    if (emptied) c.count("op.insert.after_emptied");
    if (mc.id >= 1000) c.count("ids.id_ge_1000");
    if (mc.dim > 0 && mc.bd.empty()) c.count("cell.empty_boundary_positive_dim");
    if (pos_of_id.empty() && mc.id != 0) c.count("ids.first_id_nonzero");
    last_op = "insert";
    c.count("op.insert");
    cur_call = "insert_boundary";
    bool returned = false;
    size_t nret = io.insert(mc, implicit, omit_dim, rk, returned);
    model_push(mc);
    if (returned) inserted_return = nret, have_return = true;
    return true;
  }
  size_t inserted_return = 0;
  bool have_return = false;

  void op_remove_last() {
    c.log("remove_last  (" + describe(cells.back()) + ")");
    last_op = "remove_last";
    c.count("op.remove_last");
    did_remove = true;
    ++removes;
    cur_call = "remove_last";
    io.remove_last();
    model_pop();
    have_return = false;
    if (cells.empty()) { emptied = true; c.count("empty.reached"); }
  }
  // remove_last on a matrix without columns: the matrices return early there ("// empty matrix"), the model does nothing
  void op_remove_last_on_empty() {
    c.log("remove_last  (the matrix is empty: expected to do nothing)");
    last_op = "remove_last_on_empty";
    c.count("op.remove_last.on_empty");
    did_remove = true;
    cur_call = "remove_last";
    io.remove_last();
    have_return = false;
  }
  // ... and the matrix must still be usable afterwards.  What a corrupted column counter does next is a crash (an index out of
  // range, an allocation of 2^32 entries), whose sanitizer signature would not say what led to it; so the next step - one
  // insertion where the call discipline allows one, then a full observation - is first tried in a forked copy of the process
  // (output and stderr to /dev/null, 15 s alarm).  A copy that dies or observes something wrong is reported here, under a
  // signature that names the situation; otherwise the history goes on in this process as if nothing had been tried.
  bool remove_last_on_empty_and_probe() {
    op_remove_last_on_empty();
    if (getenv("C05_NO_PROBE")) return true;  // for replays: let this process run into whatever the copy died of
    c.count("probe.after_remove_last_on_empty");
    // A defect of the library fails every time; a copy that is lost to the machine (killed, or stuck on a lock another
    // thread of the sanitizer run-time held at the time of the fork: the alarm ends it) does not: three identical failures
    // are required before anything is reported.
    int st_first = 0;
    for (int attempt = 0; attempt < 3; ++attempt) {
      int st = probe_once();
      if (st == -1) { c.count("probe.fork_failed"); return true; }
      if (WIFEXITED(st) && WEXITSTATUS(st) == 0) { if (attempt > 0) c.count("probe.ok_after_retry"); return true; }
      const bool lost = WIFSIGNALED(st) && (WTERMSIG(st) == SIGALRM || WTERMSIG(st) == SIGKILL);
      if (lost || (attempt > 0 && st != st_first)) { c.count("probe.inconclusive"); return true; }
      st_first = st;
    }
    const int st = st_first;
    const bool died = !WIFEXITED(st);
    const char* kind = died ? "probe=died" : WEXITSTATUS(st) == 2 ? "probe=wrong_observation" : "probe=exception";
    c.violation("empty.remove_last_is_noop", sig(kind),
                std::string("after remove_last on the empty matrix, ") + ((FL == F_BND && reduced) ? "a full observation" : "one insertion followed by an observation") +
                    " in a forked copy of the process " +
                    (died ? "died (signal " + std::to_string(WTERMSIG(st)) + ")" : WEXITSTATUS(st) == 2 ? "found a mismatch" : "threw an exception") +
                    ", three times out of three; replay the case with C05_NO_PROBE=1 in the environment to see where");
    return false;
  }
  // wait status of one forked copy that does the next step, -1 when fork is not possible
  int probe_once() {
    fflush(nullptr);
    pid_t pid = fork();
    if (pid < 0) return -1;
    if (pid == 0) {
      int dn = open("/dev/null", O_WRONLY);
      if (dn >= 0) { dup2(dn, 2); vh::G().out_fd = dn; }
      vh::G().verbose = false;
      alarm(15);
      int rc = 0;
      try {
        const bool may_insert = !(FL == F_BND && reduced);
        if (may_insert) op_insert();
        bool ok = (FL == F_BND && !reduced) ? observe_bnd_raw() : observe_full();
        rc = ok ? 0 : 2;
      } catch (...) { rc = 3; }
      _exit(rc);
    }
    int st = 0;
    while (waitpid(pid, &st, 0) < 0) {}
    return st;
  }

  // ------------------------------------------------------------------------------------------------ observation
  // Returns false when a violation was reported (the case stops).
  bool observe_common() {
    const int n = (int)cells.size();
    cur_call = "get_number_of_columns";
    unsigned nc = io.ncols();
    if (!c.expect(nc == (unsigned)n, "ncols", sig(), "get_number_of_columns=" + std::to_string(nc) + " want " + std::to_string(n)))
      return false;
    cur_call = "get_column_dimension";
    for (int j = 0; j < n; ++j) {
      int d = io.col_dim(idx_of(j));
      if (!c.expect(d == cells[j].dim, "dim.column", sig(),
                    "cell at position " + std::to_string(j) + ": get_column_dimension=" + std::to_string(d) + " want " + std::to_string(cells[j].dim)))
        return false;
    }
    if (HAS_MAXDIM) {
      if (n > 0) {
        cur_call = "get_max_dimension";
        int md = io.max_dim(), want = 0;
        for (auto& x : cells) want = std::max(want, x.dim);
        if (!c.expect(md == want, "dim.max", sig(), "get_max_dimension=" + std::to_string(md) + " want " + std::to_string(want)))
          return false;
      }
    }
    return true;
  }

  // barcode as sorted multiset of (dim, birth, death) in positions, compared with the independent reduction
  bool observe_barcode(const oracle::Reduction& red) {
    int fin = 0;
    for (auto& b : red.bars) if (b.death >= 0) ++fin;
    c.count("bars.finite", fin);
    c.count("bars.essential", red.bars.size() - fin);
    best_finite = std::max(best_finite, fin);
    best_cells = std::max(best_cells, (int)cells.size());
    if (emptied) best_cells_after_emptied = std::max(best_cells_after_emptied, (int)cells.size());
    if (!T.pairings) { c.count("obs.no_stored_barcode"); return true; }  // has_column_pairings off: identities only
    cur_call = "get_current_barcode";
    std::vector<oracle::Bar> got;
    io.barcode(got);
    std::sort(got.begin(), got.end());
    c.count("obs.barcode");
    if (cells.empty()) c.count("obs.barcode.of_empty_matrix");
    if (!c.expect(got == red.bars, "barcode.equal", sig(),
                  "got " + oracle::show(got) + " want " + oracle::show(red.bars) + " (n=" + std::to_string(cells.size()) + ", p=" + std::to_string(p) + ")"))
      return false;
    return true;
  }

  // is x = lambda * y for some lambda != 0 (or both zero) ?
  bool proportional(const SCol& x, const SCol& y) const {
    if (x.empty() || y.empty()) return x.empty() && y.empty();
    if (x.size() != y.size()) return false;
    long lam = x.begin()->second * inv_mod(y.begin()->second, p) % p;
    auto ix = x.begin(), iy = y.begin();
    for (; ix != x.end(); ++ix, ++iy)
      if (ix->first != iy->first || ix->second != lam * iy->second % p) return false;
    return true;
  }

  // "R_j lies in lambda B_j + span(B_0..B_{j-1}) with lambda != 0": decided with the oracle's own reduced columns, whose
  // prefixes span the same spaces as the prefixes of B.  Rcols are in identifiers; the oracle works in positions.
  bool check_span(const std::vector<SCol>& Rcols, const oracle::Reduction& red, const char* check) {
    const int n = (int)cells.size();
    std::map<unsigned, int> owner;  // pivot position -> oracle column, for the prefix processed so far
    auto reduce_mod_prefix = [&](SCol v) {
      while (!v.empty()) {
        auto it = owner.find(v.rbegin()->first);
        if (it == owner.end()) break;
        SCol src;
        for (auto& kv : red.R[it->second]) src[(unsigned)kv.first] = (long)kv.second;
        long coef = (p - v.rbegin()->second * inv_mod(src.rbegin()->second, p) % p) % p;
        axpy(v, coef, src, p);
      }
      return v;
    };
    auto to_pos = [&](const SCol& s, bool& ok) {
      SCol o;
      for (auto& kv : s) {
        auto it = pos_of_id.find(kv.first);
        if (it == pos_of_id.end()) { ok = false; continue; }
        o[(unsigned)it->second] = kv.second;
      }
      return o;
    };
    for (int j = 0; j < n; ++j) {
      bool ok = true;
      SCol rj = reduce_mod_prefix(to_pos(Rcols[j], ok));
      SCol bj = reduce_mod_prefix(to_pos(cells[j].bd, ok));
      c.count(std::string("cmp.") + check);
      if (!ok || !proportional(rj, bj)) {
        c.violation(check, sig(),
                    "column of the cell at position " + std::to_string(j) + " = " + show(Rcols[j]) +
                        " is not (non-zero multiple of its boundary " + show(cells[j].bd) + ") + combination of earlier boundaries");
        return false;
      }
      if (red.low[j] >= 0) owner[(unsigned)red.low[j]] = j;
    }
    return true;
  }

  // rows of a matrix given by columns (cols[j] is the column with MatIdx j): compare with get_row of every non-empty row
  template <class GetRow>
  bool check_rows(const std::vector<SCol>& cols, GetRow&& get_row, const char* which) {
    std::map<unsigned, SCol> mp;
    for (size_t j = 0; j < cols.size(); ++j) mp[(unsigned)j] = cols[j];
    return check_rows(mp, get_row, which);
  }
  template <class GetRow>
  bool check_rows(const std::map<unsigned, SCol>& cols, GetRow&& get_row, const char* which) {
    std::map<unsigned, std::map<unsigned, long>> want;
    for (auto& cj : cols)
      for (auto& kv : cj.second) want[kv.first][cj.first] = kv.second;
    for (auto& kv : want) {
      cur_call = "get_row";
      std::map<unsigned, long> got = get_row(kv.first);
      c.count("cmp.row.equal");
      if (got != kv.second) {
        c.violation("row.equal", sig(which), std::string(which) + " row " + std::to_string(kv.first) + ": got " + show(got) + " want " + show(kv.second) + " (as column:value)");
        return false;
      }
    }
    return true;
  }

  // ---------------------------------------------------------------- boundary-only, before the first barcode
  bool observe_bnd_raw() {
    if (!observe_common()) return false;
    const int n = (int)cells.size();
    std::vector<SCol> cols(n);
    for (int j = 0; j < n; ++j) {
      cur_call = "get_column";
      cols[j] = io.column(idx_of(j));
      if (!c.expect(cols[j] == cells[j].bd, "bnd.column_is_boundary", sig(),
                    "position " + std::to_string(j) + ": stored " + show(cols[j]) + " inserted " + show(cells[j].bd)))
        return false;
      cur_call = "get_pivot";
      unsigned pv = io.pivot(idx_of(j));
      unsigned want = cells[j].bd.empty() ? NULLU : cells[j].bd.rbegin()->first;
      if (!c.expect(pv == want, "pivot.is_lowest_entry", sig(), "position " + std::to_string(j) + ": get_pivot=" + std::to_string((int)pv) + " want " + std::to_string((int)want)))
        return false;
    }
    if (!check_zero_queries(cols)) return false;
    if (RA) {
      if (!check_rows(cols, [&](unsigned rr) { return io.row(rr); }, "R")) return false;
    }
    c.count("obs.bnd_raw");
    return true;
  }

  // is_zero_column of every column and is_zero_entry of a sample of cells, against the contents read with get_content
  bool check_zero_queries(const std::vector<SCol>& cols) {
    const int n = (int)cells.size();
    for (int j = 0; j < n; ++j) {
      cur_call = "is_zero_column";
      bool z = io.zero_column(idx_of(j));
      if (!c.expect(z == cols[j].empty(), "zero.column", sig(), "position " + std::to_string(j) + ": is_zero_column=" + std::to_string(z) + " content " + show(cols[j])))
        return false;
    }
    for (int t = 0; t < 6 && n > 0; ++t) {
      int j = (int)r.below(n);
      unsigned row = cells[r.below(n)].id;
      if (!cols[j].empty() && r.chance(1, 2)) { auto it = cols[j].begin(); std::advance(it, r.below(cols[j].size())); row = it->first; }
      if (!pos_of_id.count(row)) continue;
      cur_call = "is_zero_entry";
      bool z = io.zero_entry(idx_of(j), row);
      if (!c.expect(z == (cols[j].count(row) == 0), "zero.entry", sig(), "position " + std::to_string(j) + " row " + std::to_string(row) + ": is_zero_entry=" + std::to_string(z) + " content " + show(cols[j])))
        return false;
    }
    return true;
  }

  // ---------------------------------------------------------------- R of the boundary-only (after the barcode) and RU flavours
  bool observe_R(const oracle::Reduction& red) {
    const int n = (int)cells.size();
    std::vector<SCol> R(n);
    std::map<unsigned, int> seen_pivot;
    for (int j = 0; j < n; ++j) {
      cur_call = "get_column";
      R[j] = io.column(idx_of(j));
      if (HAS_RU_FACTOR) {
        cur_call = "get_column(,true)";
        SCol again = io.column_in((unsigned)j, true);
        if (!c.expect(again == R[j], "ru.get_column_inR", sig(), "get_column(j) and get_column(j,true) differ at " + std::to_string(j))) return false;
      }
      for (auto& kv : R[j])
        if (!pos_of_id.count(kv.first)) {
          c.violation("r.row_index_live", sig(), "column at position " + std::to_string(j) + " = " + show(R[j]) + " has row " + std::to_string(kv.first) + " which is no live identifier");
          return false;
        }
      cur_call = "get_pivot";
      unsigned pv = io.pivot(idx_of(j));
      unsigned low = R[j].empty() ? NULLU : R[j].rbegin()->first;
      if (!c.expect(pv == low, "pivot.is_lowest_entry", sig(), "position " + std::to_string(j) + ": get_pivot=" + std::to_string((int)pv) + " column " + show(R[j])))
        return false;
      if (!R[j].empty()) {
        c.count("cmp.r.reduced");
        if (seen_pivot.count(low)) {
          c.violation("r.reduced", sig(), "columns at positions " + std::to_string(seen_pivot[low]) + " and " + std::to_string(j) + " have the same lowest entry " + std::to_string(low));
          return false;
        }
        seen_pivot[low] = j;
        if (FL == F_RU) {
          cur_call = "get_column_with_pivot";
          unsigned back = io.column_with_pivot(low);
          if (!c.expect(back == idx_of(j), "pivot.maps_back", sig(), "get_column_with_pivot(" + std::to_string(low) + ")=" + std::to_string((int)back) + " want " + std::to_string(idx_of(j))))
            return false;
        }
      }
      if (FL == F_BND) {
        // after the barcode: a column is zero exactly when its cell is positive (creates a class)
        bool positive = red.low[j] < 0;
        if (!c.expect(R[j].empty() == positive, "bnd.zero_iff_positive", sig(), "position " + std::to_string(j) + ": column " + show(R[j]) + ", the cell is " + (positive ? "positive" : "negative")))
          return false;
      }
    }
    if (!check_span(R, red, "r.span")) return false;
    if (!check_zero_queries(R)) return false;
    if (RA) {
      if (!check_rows(R, [&](unsigned rr) { return io.row(rr); }, "R")) return false;
      if (HAS_RU_FACTOR) {
        if (!check_rows(R, [&](unsigned rr) { return io.row_in(rr, true); }, "R(inR)")) return false;
      }
    }
    if (HAS_RU_FACTOR) {
      if (!observe_factor(R)) return false;
    }
    c.count("obs.R");
    return true;
  }

  // the stored second factor M (positions x positions): one of  B = R M^T,  B = R M,  R = B M,  R = B M^T  must hold exactly,
  // with the factor it designates upper triangular with non-zero diagonal.
  bool observe_factor(const std::vector<SCol>& R) {
    const int n = (int)cells.size();
    std::vector<SCol> Mc(n);
    bool stale = false;
    std::string stale_txt;
    for (int j = 0; j < n; ++j) {
      cur_call = "get_column(,false)";
      Mc[j] = io.column_in((unsigned)j, false);
      for (auto it = Mc[j].begin(); it != Mc[j].end();) {
        if (it->first >= (unsigned)n) {
          stale = true;
          stale_txt = "U column " + std::to_string(j) + " has an entry in row " + std::to_string(it->first) + " but the matrix has " + std::to_string(n) + " columns";
          it = Mc[j].erase(it);
        } else ++it;
      }
    }
    c.count("cmp.ru.u_shape");
    if (stale && !shape_reported) {
      shape_reported = true;
      // reported once; the identity is then checked on the n x n block so that a wrong factorisation is still told apart
      c.violation("ru.u_shape", sig("row_index_ge_ncols"), stale_txt);
    }
    std::vector<SCol> Mt(n);  // transpose
    for (int j = 0; j < n; ++j) for (auto& kv : Mc[j]) Mt[kv.first][(unsigned)j] = kv.second;
    auto tri_ok = [&](const std::vector<SCol>& X) {  // X upper triangular, non-zero diagonal (X[j] = column j)
      for (int j = 0; j < n; ++j) {
        if (!X[j].count((unsigned)j)) return false;
        if (X[j].rbegin()->first > (unsigned)j) return false;
      }
      return true;
    };
    std::vector<SCol> B(n);
    for (int j = 0; j < n; ++j) B[j] = cells[j].bd;
    auto prod_eq = [&](const std::vector<SCol>& left, const std::vector<SCol>& X, const std::vector<SCol>& right) {
      // left * X == right ?   (columns of X index columns of left by position)
      for (int j = 0; j < n; ++j) {
        SCol acc;
        for (auto& kv : X[j]) axpy(acc, kv.second, left[kv.first], p);
        if (acc != right[j]) return false;
      }
      return true;
    };
    const char* conv = nullptr;
    if (tri_ok(Mt) && prod_eq(R, Mt, B)) conv = "B=R.Mt";
    else if (tri_ok(Mc) && prod_eq(R, Mc, B)) conv = "B=R.M";
    else if (tri_ok(Mc) && prod_eq(B, Mc, R)) conv = "R=B.M";
    else if (tri_ok(Mt) && prod_eq(B, Mt, R)) conv = "R=B.Mt";
    c.count("cmp.ru.factor");
    if (!conv) {
      std::string d = "no accepted convention holds; n=" + std::to_string(n) + " p=" + std::to_string(p) + "; B R U(stored) by position:";
      for (int j = 0; j < n && j < 24; ++j) d += " [" + std::to_string(j) + "] " + show(B[j]) + " " + show(R[j]) + " " + show(Mc[j]);
      c.violation("ru.factor", sig(stale ? "with_stale_entries" : ""), d);
      return false;
    }
    c.count(std::string("ru.convention.") + conv);
    {
      bool identity = true;
      for (int j = 0; j < n && identity; ++j) identity = Mc[j].size() == 1;
      if (!identity) c.count("ru.factor.U_not_identity");
    }
    if (RA) {
      std::vector<SCol> Mfull(n);
      for (int j = 0; j < n; ++j) { cur_call = "get_column(,false)"; Mfull[j] = io.column_in((unsigned)j, false); }
      if (!stale)
        if (!check_rows(Mfull, [&](unsigned rr) { return io.row_in(rr, false); }, "U")) return false;
    }
    // is_zero_entry / is_zero_column with the inR flag on a sample
    for (int t = 0; t < 4 && n > 0; ++t) {
      int j = (int)r.below(n), k = (int)r.below(n);
      cur_call = "is_zero_entry(,,false)";
      bool z = io.zero_entry_in((unsigned)j, (unsigned)k, false);
      if (!c.expect(z == (Mc[j].count((unsigned)k) == 0), "zero.entry", sig("inU"), "U column " + std::to_string(j) + " row " + std::to_string(k))) return false;
      cur_call = "is_zero_entry(,,true)";
      unsigned rid = cells[k].id;
      z = io.zero_entry_in((unsigned)j, rid, true);
      if (!c.expect(z == (R[j].count(rid) == 0), "zero.entry", sig("inR"), "R column " + std::to_string(j) + " row " + std::to_string(rid))) return false;
      cur_call = "is_zero_column(,bool)";
      if (!c.expect(io.zero_column_in((unsigned)j, true) == R[j].empty(), "zero.column", sig("inR"), "R column " + std::to_string(j))) return false;
      if (!c.expect(io.zero_column_in((unsigned)j, false) == false, "zero.column", sig("inU"), "U column " + std::to_string(j) + " reported zero")) return false;
    }
    return true;
  }

  // ---------------------------------------------------------------- chain flavour
  bool observe_chain(const oracle::Reduction& red) {
    const int n = (int)cells.size();
    // 1. every valid index: the column, its pivot, pivots distinct = the live identifiers, pivots map back
    std::map<unsigned, SCol> by_pivot;       // pivot identifier -> chain
    std::map<unsigned, unsigned> idx_by_pivot;
    std::map<unsigned, SCol> by_matidx;      // MatIdx -> chain, where the MatIdx is known (see below)
    bool matidx_known = true;
    std::vector<char> paired_flag_by_pivot_pos(n, 0);
    for (int j = 0; j < n; ++j) {
      unsigned ix = idx_of(j);
      cur_call = "get_column";
      SCol ch = io.column(ix);
      cur_call = "get_pivot";
      unsigned pv = io.pivot(ix);
      c.count("cmp.chain.column");
      if (ch.empty()) { c.violation("chain.nonzero", sig(), "column at index " + std::to_string(ix) + " is empty"); return false; }
      for (auto& kv : ch)
        if (!pos_of_id.count(kv.first)) {
          c.violation("chain.row_index_live", sig(), "column at index " + std::to_string(ix) + " = " + show(ch) + " has row " + std::to_string(kv.first) + " which is no live identifier");
          return false;
        }
      // the leading cell is the latest cell of the chain; identifiers increase along the filtration
      if (!c.expect(pv == ch.rbegin()->first, "pivot.is_lowest_entry", sig(), "index " + std::to_string(ix) + ": get_pivot=" + std::to_string((int)pv) + " column " + show(ch)))
        return false;
      if (by_pivot.count(pv)) {
        c.violation("chain.pivots_distinct", sig(), "two columns have the leading cell " + std::to_string(pv));
        return false;
      }
      by_pivot[pv] = ch;
      idx_by_pivot[pv] = ix;
      cur_call = "get_column_with_pivot";
      unsigned back = io.column_with_pivot(pv);
      if (!c.expect(back == ix, "pivot.maps_back", sig(), "get_column_with_pivot(" + std::to_string(pv) + ")=" + std::to_string((int)back) + " want " + std::to_string(ix)))
        return false;
      cur_call = "is_zero_column";
      if (!c.expect(!io.zero_column(ix), "zero.column", sig(), "chain column reported zero at index " + std::to_string(ix))) return false;
      paired_flag_by_pivot_pos[pos_of_id.at(pv)] = io.is_paired(ix) ? 1 : 0;
      // the column addressed through the cell at position j must be the chain led by that cell
      if (!c.expect(pv == cells[j].id, "chain.index_scheme", sig(), "column addressed by index " + std::to_string(ix) + " (cell at position " + std::to_string(j) +
                    ", id " + std::to_string(cells[j].id) + ") is led by " + std::to_string((int)pv)))
        return false;
      // MatIdx of the column (needed to read rows): exact with container indexing; equal to the position as long as the
      // matrix has no vine updates (documented); otherwise unknown from outside
      if (IDX == I_CONT) by_matidx[ix] = ch;
      else if (!T.vine) by_matidx[(unsigned)j] = ch;
      else matidx_known = false;
    }
    // n distinct pivots among n live identifiers: a bijection, so every cell leads exactly one chain
    // 2. the pairs of the (already verified) barcode: d(h) = lambda g, d(g) = 0; unpaired: cycles; is_paired agrees
    std::vector<char> in_finite(n, 0);
    for (auto& b : red.bars) {
      const SCol& g = by_pivot.at(cells[b.birth].id);
      SCol dg = boundary_of(g);
      c.count("cmp.chain.cycle");
      if (!dg.empty()) {
        c.violation("chain.cycle", sig(b.death < 0 ? "unpaired" : "paired_birth"),
                    "chain led by the cell at position " + std::to_string(b.birth) + " = " + show(g) + " has boundary " + show(dg));
        return false;
      }
      if (b.death >= 0) {
        in_finite[b.birth] = in_finite[b.death] = 1;
        const SCol& h = by_pivot.at(cells[b.death].id);
        SCol dh = boundary_of(h);
        c.count("cmp.chain.pair_boundary");
        if (dh.empty() || !proportional(dh, g)) {
          c.violation("chain.pair_boundary", sig(),
                      "bar (" + std::to_string(b.birth) + "," + std::to_string(b.death) + "): d(h) = " + show(dh) + " is no non-zero multiple of g = " + show(g) + "; h = " + show(h));
          return false;
        }
      }
    }
    for (int j = 0; j < n; ++j)
      if (!c.expect((bool)paired_flag_by_pivot_pos[j] == (bool)in_finite[j], "chain.is_paired", sig(),
                    "chain led by the cell at position " + std::to_string(j) + ": is_paired()=" + std::to_string((int)paired_flag_by_pivot_pos[j]) + " but the cell is " + (in_finite[j] ? "" : "not ") + "in a finite bar"))
        return false;
    if (IDX == I_CONT) {
      // partner index is a MatIdx, usable as such with container indexing
      for (auto& b : red.bars)
        if (b.death >= 0) {
          cur_call = "get_paired_chain_index";
          unsigned ig = idx_by_pivot.at(cells[b.birth].id), ih = idx_by_pivot.at(cells[b.death].id);
          unsigned pg = io.partner(ig), ph = io.partner(ih);
          if (!c.expect(pg == ih && ph == ig, "chain.partner", sig(), "bar (" + std::to_string(b.birth) + "," + std::to_string(b.death) + "): partners " + std::to_string((int)pg) + "," + std::to_string((int)ph) + " want " + std::to_string(ih) + "," + std::to_string(ig)))
            return false;
        }
      // documented return value of insert_boundary: the unpaired chains used to reduce the boundary (none iff the new cell is positive)
      if (have_return && n > 0) {
        bool positive = red.low[n - 1] < 0;
        if (!c.expect((inserted_return == 0) == positive, "chain.insert_return", sig(), "insert_boundary returned " + std::to_string(inserted_return) + " chains, the new cell is " + (positive ? "positive" : "negative")))
          return false;
        have_return = false;
      }
    }
    // 3. sample of is_zero_entry
    for (int t = 0; t < 6 && n > 0; ++t) {
      int j = (int)r.below(n);
      unsigned pv = cells[j].id, row = cells[r.below(n)].id;
      const SCol& ch = by_pivot.at(pv);
      if (r.chance(1, 2)) { auto it = ch.begin(); std::advance(it, r.below(ch.size())); row = it->first; }
      cur_call = "is_zero_entry";
      bool z = io.zero_entry(idx_by_pivot.at(pv), row);
      if (!c.expect(z == (ch.count(row) == 0), "zero.entry", sig(), "chain led by " + std::to_string(pv) + " row " + std::to_string(row) + ": is_zero_entry=" + std::to_string(z) + " content " + show(ch)))
        return false;
    }
    if (RA) {
      if (matidx_known)
        if (!check_rows(by_matidx, [&](unsigned rr) { return io.row(rr); }, "chain")) return false;
    }
    c.count("obs.chain");
    return true;
  }

  // full observation of the current state (RU, chain: any time; boundary-only: after the first barcode)
  bool observe_full() {
    std::vector<oracle::Cell> oc = oracle_cells();
    oracle::Reduction red = oracle::reduce(oc, p, false);
    if (!observe_common()) return false;
    if (!observe_barcode(red)) return false;
    if (FL == F_CHAIN) { if (!observe_chain(red)) return false; }
    else { if (!observe_R(red)) return false; }
    int chain = max_collision_chain(oc, p);
    best_chain = std::max(best_chain, chain);
    if (chain > 0) any_addition = true;
    return true;
  }

  // ------------------------------------------------------------------------------------------------ the case
  void construct(int planned) {
    unsigned k = (unsigned)r.below(10);
    static const int hints[5] = {0, 1, -2, -1, -3};  // -1: planned, -2: planned/2, -3: planned + 10
    int h = hints[r.below(5)];
    unsigned hint = h >= 0 ? (unsigned)h : (h == -1 ? (unsigned)planned : h == -2 ? (unsigned)planned / 2 : (unsigned)planned + 10);
    cur_call = "constructor";
    // (with shifted dimensions no cell qualifies for the batch constructor: it is then only asked for now and then, and
    //  constructs a matrix from zero columns)
    if ((id_style == 0 || id_style == 5) && k < 3 && (dim_shift == 0 || r.chance(1, 4))) {
      // batch constructor on a prefix of cells whose dimension is what the constructor deduces from the boundary size
      int L = (int)r.range(1, std::max(1, planned));
      std::vector<SCol> cols;
      std::string lg;
      for (int i = 0; i < L; ++i) {
        std::vector<int> a = admissible();
        std::vector<int> ok;
        std::map<int, unsigned> ids = ids_by_universe();
        for (int u : a) {
          size_t nz = 0;
          for (auto& f : U.cells[u].bd) if (f.second % p != 0) ++nz;
          if (U.cells[u].dim + dim_shift == (nz == 0 ? 0 : (int)nz - 1)) ok.push_back(u);
        }
        if (ok.empty()) break;
        MC mc = make_cell(ok[r.below(ok.size())], ids);
        cols.push_back(mc.in);
        lg += "\n    " + describe(mc);
        model_push(mc);
      }
      c.log("construct Matrix(columns[" + std::to_string(cols.size()) + "], p=" + std::to_string(p) + ")" + lg);
      c.count("ctor.batch");
      c.count("ctor.batch.columns", cols.size());
      if (cols.empty()) c.count("ctor.batch.zero_columns");
      last_op = "batch_ctor";
      io.construct_batch(cols, (unsigned)p);
      if (id_style == 5) {
        // the batch is the implicit prefix: explicit identifiers with gaps from here on
        explicit_now = true;
        c.count("ids.batch_then_explicit");
      }
    } else if (k < 5) {
      c.log("construct Matrix() then set_characteristic(" + std::to_string(p) + ")");
      c.count("ctor.default");
      io.construct_default((unsigned)p);
    } else if (k < 7 && !Z2) {
      c.log("construct Matrix(" + std::to_string(hint) + ") then set_characteristic(" + std::to_string(p) + ")");
      c.count("ctor.hint_then_characteristic");
      io.construct_hint(hint, (unsigned)p, true);
    } else {
      c.log("construct Matrix(" + std::to_string(hint) + ", " + std::to_string(p) + ")");
      c.count("ctor.hint");
      io.construct_hint(hint, (unsigned)p, false);
    }
  }

  void finish() {
    // coverage classes of the case (per configuration: the floors in spec.py are per instantiation)
    if (best_finite >= 3) c.count(cfg + ".finite_bars_ge3");
    if (best_chain >= 3) c.count(cfg + ".collision_chain_ge3");
    if (reinserts > 0) c.count(cfg + ".remove_then_reinsert");
    if (removes > 0) c.count(cfg + ".with_remove_last");
    c.count(cfg + ".cases");
    c.count("kind." + U.kind);
    c.count("p." + std::to_string(p));
    c.count(std::string("ids.") + (id_style == 0 ? "implicit" : id_style == 1 ? "explicit_consecutive" : id_style_name()));
    if (unreduced) c.count("coefs.unreduced_case");
    if (spread) c.count("coefs.spread_case");
    if (p > 65536) c.count("prime.above_65536.case");
    if (mode == MODE_BIG_PRIMES) c.count("prime.big_config.case");
    if (obs_every > 1) c.count("obs.sparse_case");
    if (emptied) c.count("empty.case");
    if (emptied && best_cells_after_emptied >= 4) c.count("empty.regrown_case");
    if (dim_shift != 0) c.count("dims.shifted_case");
    if (!T.pairings) c.count("pairings.off.case");
    if (used_other_range) c.count("range.other_case");
    if (best_finite >= 3 && best_cells >= 8 && any_addition) c.nontrivial(vh::hash_str(vh::G().history));
    c.sample("{\"config\":\"" + cfg + "\",\"universe\":\"" + U.kind + "\",\"p\":" + std::to_string(p) + ",\"max_cells\":" + std::to_string(best_cells) +
             ",\"max_finite_bars\":" + std::to_string(best_finite) + ",\"history\":\"" + vh::jesc(vh::G().history.substr(0, 900)) + "\"}");
  }

  // RU / chain: one step of the history is done; observe now or (sparse observation) only every obs_every-th step
  bool step_done() {
    if (++since_obs >= obs_every) { since_obs = 0; return observe_full(); }
    c.count("obs.skipped_step");
    return true;
  }

  void run() {
    static const long primes[7] = {3, 3, 5, 7, 11, 2, 13};
    if (mode == MODE_BIG_PRIMES) p = p_forced;
    else p = Z2 ? 2 : primes[r.below(7)];
    const size_t max_cells = c.thorough && r.chance(1, 4) ? 60 : 40;
    U = gen_universe(r, max_cells);
    present.assign(U.cells.size(), 0);
    if (!universe_is_chain_complex(U)) { c.violation("harness.generator", "dd_nonzero", "generated universe is no chain complex: " + U.kind); return; }
    {
      static const int styles[8] = {0, 0, 1, 2, 2, 3, 4, 5};
      id_style = styles[r.below(8)];
    }
    // Chain matrix with vine updates: remove_last does not give the column index back, so the identifier an id-less
    // insert_boundary assigns after a removal is the number of insertions ever made, not the position.  The documentation is
    // ambiguous there ("n-th insertion" vs "relative position in the filtration"), so implicit identifiers are not combined with
    // removals for those instantiations (vine swaps are C06's subject).
    if (FL == F_CHAIN && T.vine && RC && (id_style == 0 || id_style == 5)) { id_style = id_style == 0 ? 1 : 2; c.count("ids.implicit_avoided_for_chain_with_vine"); }
    const int planned = (int)std::min<size_t>(U.cells.size(), (size_t)r.range(6, 40));
    switch_at = (int)r.range(1, std::max(1, planned / 2));
    first_id = (unsigned)(r.chance(1, 2) ? r.range(100, 2000) : r.range(2000, 20000));
    // the further input classes of the case
    unreduced = !Z2 && r.chance(1, 2);
    // (big primes: half of the cases keep the +-1 coefficients of the universe - the inverse of p - 1 and the product
    //  (p - 1)(p - 1) are what a 32-bit evaluation gets wrong first above 2^16 - the other half spreads them over Z_p)
    spread = !Z2 && p > 2 && r.chance(1, mode == MODE_BIG_PRIMES ? 2 : 4);
    if (spread) {
      lam.resize(U.cells.size());
      lam_inv.resize(U.cells.size());
      for (size_t u = 0; u < U.cells.size(); ++u) {
        lam[u] = r.chance(1, 4) ? (r.chance(1, 2) ? 1 : p - 1) : (long)r.range(1, p - 1);
        lam_inv[u] = inv_mod(lam[u], p);
      }
    }
    if (FL != F_BND && r.chance(1, 2)) obs_every = (int)r.range(2, 8);
    allow_empty = RC && r.chance(1, 3);
    if (r.chance(1, 6)) { static const int sh[6] = {1, 1, 2, 3, 7, 100}; dim_shift = sh[r.below(6)]; }
    c.log("universe " + U.kind + " cells=" + std::to_string(U.cells.size()) + " p=" + std::to_string(p) + " planned=" + std::to_string(planned) +
          " ids=" + (id_style == 0 ? "implicit" : id_style == 1 ? "explicit" : id_style_name()) +
          (unreduced ? " coefficients=unreduced" : "") + (spread ? " cells_rescaled" : "") +
          (obs_every > 1 ? " observe_every=" + std::to_string(obs_every) : std::string()) + (allow_empty ? " may_empty" : "") +
          (dim_shift ? " dim_shift=" + std::to_string(dim_shift) : std::string()));
    const size_t floor_n = allow_empty ? 0 : 1;  // remove_last is asked while more than this many cells are left
    try {
      construct(planned);
      if (FL == F_BND) {
        // phase 1: build, with removals / re-insertions, the stored columns being the raw boundaries
        if (!observe_bnd_raw()) return;
        // now and then nothing is ever inserted: the barcode of a never-filled matrix
        const bool never_filled = r.chance(1, 30);
        int steps = 0;
        while (!never_filled && (int)cells.size() < planned && steps < 3 * planned + 10) {
          ++steps;
          if (RC && r.chance(1, 7) && (!cells.empty() || allow_empty)) {
            if (cells.empty()) { if (!remove_last_on_empty_and_probe() || !observe_bnd_raw()) return; continue; }
            int k = allow_empty && r.chance(1, 3) ? (int)cells.size() : (int)r.range(1, 3);
            for (int i = 0; i < k && !cells.empty(); ++i) { op_remove_last(); if (!observe_bnd_raw()) return; }
            if (cells.empty() && allow_empty && r.chance(1, 2)) { if (!remove_last_on_empty_and_probe() || !observe_bnd_raw()) return; }
            continue;
          }
          if (!op_insert()) break;
          if (!observe_bnd_raw()) return;
        }
        // phase 2: the barcode, then remove_last x k
        c.log("get_current_barcode (first call: reduces the matrix)");
        if (cells.empty()) c.count(emptied ? "bnd.first_barcode_of_emptied" : "bnd.first_barcode_of_never_filled");
        last_op = "first_barcode";
        reduced = true;
        if (!observe_full()) return;
        if (RC && !cells.empty()) {
          const long n = (long)cells.size();
          int k = r.chance(1, 5) ? (int)(n - (long)floor_n) : (int)r.range(0, std::min<long>(8, n - 1));
          for (int i = 0; i < k && cells.size() > floor_n; ++i) {
            op_remove_last();
            c.count("op.remove_last.after_barcode");
            if (!observe_full()) return;
          }
        }
        if (RC && allow_empty && cells.empty() && r.chance(1, 2)) { if (!remove_last_on_empty_and_probe() || !observe_full()) return; }
      } else {
        if (!observe_full()) return;
        if (allow_empty && cells.empty() && r.chance(1, 6)) { if (!remove_last_on_empty_and_probe() || !observe_full()) return; }
        int steps = 0;
        const int max_steps = 2 * planned + 12;
        bool shrinking = false;
        int shrink_left = 0;
        while (steps < max_steps) {
          ++steps;
          if (RC && shrinking) {
            if (shrink_left == 0) { shrinking = false; continue; }
            if (cells.size() <= floor_n) {
              // (allow_empty) the matrix is empty and the burst is not over: one remove_last on the empty matrix
              if (cells.empty()) { if (!remove_last_on_empty_and_probe() || !step_done()) return; }
              shrinking = false;
              continue;
            }
            --shrink_left;
            op_remove_last();
            if (!step_done()) return;
            continue;
          }
          if (RC && cells.size() > floor_n && r.chance(1, 8)) {
            shrinking = true;
            // (allow_empty) one burst in three goes down to the empty matrix, half of those try one more remove_last there
            if (allow_empty && r.chance(1, 3)) shrink_left = (int)cells.size() + (r.chance(1, 2) ? 1 : 0);
            else shrink_left = (int)r.range(1, r.chance(1, 4) ? 8 : 3);
            continue;
          }
          if ((int)cells.size() >= planned) {
            if (RC && r.chance(2, 3) && cells.size() > floor_n) { shrinking = true; shrink_left = (int)r.range(1, 6); continue; }
            break;
          }
          if (!op_insert()) {
            if (RC && cells.size() > floor_n && steps < max_steps - 4) { shrinking = true; shrink_left = (int)r.range(1, 4); continue; }
            break;
          }
          if (!step_done()) return;
        }
        if (since_obs > 0) { c.count("obs.final_after_unobserved"); if (!observe_full()) return; }
      }
    } catch (const std::exception& e) {
      std::string what = e.what();
      // keep the signature stable: drop numbers
      for (auto& ch : what) if (ch >= '0' && ch <= '9') ch = '#';
      c.violation("api.exception", sig(std::string("call=") + cur_call + ",what=" + what.substr(0, 60)), std::string("exception from ") + cur_call + ": " + e.what());
      return;
    }
    finish();
  }
};

}  // namespace c05
#endif

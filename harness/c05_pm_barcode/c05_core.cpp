// C05 harness: the flavour-independent logic, compiled once per binary (identical for all units, so ccache shares it).
#include "c05_core.h"

namespace c05 {
void run_history(vh::Case& c, const char* cfg, const Traits& t, MatrixIO& io) {
  Run run(c, cfg, t, io);
  run.run();
}
}  // namespace c05

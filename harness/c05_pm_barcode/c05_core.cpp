// C05 harness: the flavour-independent logic, compiled once per binary (identical for all units, so ccache shares it).
#include "c05_core.h"

#include <csignal>
#include <cstdio>
#include <sys/time.h>
#include <unistd.h>

namespace c05 {

// CPU-time watchdog: a reduction that never terminates (seen with seeded coefficient mutations) would otherwise block a shard
// until the orchestrator's wall-clock watchdog.  ITIMER_PROF counts CPU time of the process, so machine load cannot fire it;
// a normal case needs ~10-50 ms.  The message imitates a terminate() line so that the orchestrator derives a stable,
// descriptive signature; the history of the case is flushed like for any fatal signal.
static const int WD_SECONDS = 20;
static const char* g_wd_what = "";
static const char* const* g_wd_call = nullptr;

static void wd_handler(int) {
  char buf[400];
  int n = snprintf(buf, sizeof buf,
                   "\nterminate called after throwing an instance of 'c05::cpu_watchdog[%s,call=%s]'\n"
                   "  the case used more than %d s of CPU time: non-terminating operation\n",
                   g_wd_what, g_wd_call && *g_wd_call ? *g_wd_call : "?", WD_SECONDS);
  if (n > 0) { ssize_t w = ::write(2, buf, (size_t)n); (void)w; }
  vh::dump_history_on_fatal();
  _exit(86);
}
static void wd_arm(int seconds) {
  struct itimerval it;
  it.it_interval.tv_sec = 0; it.it_interval.tv_usec = 0;
  it.it_value.tv_sec = seconds; it.it_value.tv_usec = 0;
  setitimer(ITIMER_PROF, &it, nullptr);
}

void run_history(vh::Case& c, const char* cfg, const Traits& t, MatrixIO& io) {
  Run run(c, cfg, t, io);
  static char what[64];
  snprintf(what, sizeof what, "fl=%s,field=%s", t.fl == F_BND ? "boundary" : t.fl == F_RU ? "ru" : "chain", t.z2 ? "z2" : "zp");
  g_wd_what = what;
  g_wd_call = &run.cur_call;
  signal(SIGPROF, wd_handler);
  wd_arm(WD_SECONDS);
  run.run();
  wd_arm(0);
  g_wd_call = nullptr;
}

}  // namespace c05

// C05 harness: the flavour-independent logic, compiled once per binary (identical for all units, so ccache shares it).
#include "c05_core.h"

#include <csignal>
#include <cstdio>
#include <sys/time.h>
#include <unistd.h>

namespace c05 {

// CPU-time watchdog: a reduction that never terminates (seen with seeded coefficient mutations) would otherwise block a shard
// until the orchestrator's wall-clock watchdog.  ITIMER_PROF counts CPU time of the process, so machine load cannot fire it;
// a normal case needs ~10-50 ms.  The message imitates a terminate() line so that the orchestrator derives a stable,
// descriptive signature; the history of the case is flushed like for any fatal signal.
// Big-prime configurations: Zp_field_operators::set_characteristic builds its table of inverses by trial multiplication,
// O(p^2): ~5-9 s of CPU for p around 2^16, ~30 s for 131071, so the guard is sized by the prime.
static const int WD_SECONDS = 20;
static const char* g_wd_what = "";
static int g_wd_seconds = WD_SECONDS;
static const char* const* g_wd_call = nullptr;

static void wd_handler(int) {
  char buf[400];
  int n = snprintf(buf, sizeof buf,
                   "\nterminate called after throwing an instance of 'c05::cpu_watchdog[%s,call=%s]'\n"
                   "  the case used more than %d s of CPU time: non-terminating operation\n",
                   g_wd_what, g_wd_call && *g_wd_call ? *g_wd_call : "?", g_wd_seconds);
  if (n > 0) { ssize_t w = ::write(2, buf, (size_t)n); (void)w; }
  vh::dump_history_on_fatal();
  _exit(86);
}
static void wd_arm(int seconds) {
  struct itimerval it;
  it.it_interval.tv_sec = 0; it.it_interval.tv_usec = 0;
  it.it_value.tv_sec = seconds; it.it_value.tv_usec = 0;
  setitimer(ITIMER_PROF, &it, nullptr);
}

void run_history(vh::Case& c, const char* cfg, const Traits& t, MatrixIO& io, int mode) {
  Run run(c, cfg, t, io, mode);
  g_wd_seconds = WD_SECONDS;
  if (mode == MODE_BIG_PRIMES) {
    // every prime of the list in turn (case index), so that a run of >= 7 (quick) / 8 (thorough) cases has them all
    static const long big[8] = {251, 32749, 46349, 65521, 65537, 65539, 70001, 131071};
    run.p_forced = big[c.k % (c.thorough ? 8 : 7)];
    g_wd_seconds = run.p_forced < 1000 ? WD_SECONDS : run.p_forced < 100000 ? 40 : 150;
  }
  static char what[96];
  snprintf(what, sizeof what, "fl=%s,field=%s%s", t.fl == F_BND ? "boundary" : t.fl == F_RU ? "ru" : "chain", t.z2 ? "z2" : "zp",
           run.p_forced > 65536 ? ",prime=above_65536" : "");
  g_wd_what = what;
  g_wd_call = &run.cur_call;
  signal(SIGPROF, wd_handler);
  wd_arm(g_wd_seconds);
  run.run();
  wd_arm(0);
  g_wd_call = nullptr;
}

}  // namespace c05

// C07 — validation of the zigzag oracle itself (no GUDHI code in this binary):
//   oracle_doc      the documented example of zigzag_persistence.h and the 29-step sequence of the repo's unit test, with the
//                   intervals written in the documentation / test; the self-consistency of the universes' tables (dd = 0)
//   oracle_insonly  insertion-only sequences (with identity steps): zigzag_ranks == textbook column reduction (zp_reduce.h)
//   oracle_random   general sequences: internal consistency (multiplicities >= 0, intervals add up to the Betti numbers at every
//                   index, limit->colimit rank == rank of the composed relation), one event per non-identity arrow
#include "common/vh.h"
#include "oracle/zp_reduce.h"
#include "c07_zigzag/zigzag_ranks.h"
#include "c07_zigzag/c07_universe.h"

namespace {
using namespace c07;

// a sequence given GUDHI-style: boundary by arrow numbers; remove = {arrow number}
struct RawStep { bool remove; std::vector<int> b; int dim; };

void check_raw(vh::Case& c, const std::string& name, const std::vector<RawStep>& steps, std::vector<zzo::Interval> want) {
  Universe U; U.kind = "raw";
  std::vector<Op> ops;
  std::map<int, int> cell_of_arrow;
  for (size_t i = 0; i < steps.size(); ++i) {
    if (steps[i].remove) { ops.push_back(Op{1, cell_of_arrow.at(steps[i].b[0])}); continue; }
    Chain b = 0; for (int a : steps[i].b) b |= bit(cell_of_arrow.at(a));
    cell_of_arrow[(int)i] = U.add(steps[i].dim, b, b, "c" + vh::str(i));
    ops.push_back(Op{0, cell_of_arrow[(int)i]});
  }
  c.log(name + ": " + show_ops(U, ops));
  if (!c.expect(U.valid(), "oracle.selftest", "raw_universe_invalid", name)) return;
  zzo::Result res = zzo::zigzag_intervals(U.cells, ops);
  if (!c.expect(res.ok, "oracle.selftest", "inconsistent", name + ": " + res.why)) return;
  std::sort(want.begin(), want.end());
  c.expect(res.intervals == want, "oracle.selftest", "documented_example", name + ": oracle " + zzo::show(res.intervals) + " documented " + zzo::show(want));
  c.count("selftest.documented");
}

void doc_case(vh::Case& c) {
  if (c.k % 3 == 0) {
    for (size_t u = 0; u < universes().size(); ++u)
      c.expect(universes()[u].valid(), "oracle.selftest", "universe_invalid", "universe " + vh::str(u));
    c.count("selftest.universes", universes().size());
    return;
  }
  if (c.k % 3 == 1) {
    // class documentation of Zigzag_persistence
    std::vector<RawStep> s = {{false, {}, 0}, {false, {}, 0}, {false, {0, 1}, 1}, {false, {}, 0}, {false, {0, 3}, 1}, {false, {1, 3}, 1},
                              {true, {4}, 0}, {true, {2}, 0}};
    check_raw(c, "class_doc", s, {{0, 1, 2}, {0, 3, 4}, {1, 5, 6}, {0, 0, -1}, {0, 7, -1}});
    return;
  }
  // test/test_zigzag_persistence.cpp
  std::vector<std::vector<int>> bd = {{}, {}, {}, {0, 1}, {0, 2}, {}, {1, 2}, {}, {5, 7}, {}, {3, 4, 6}, {7, 9}, {5, 9}, {8, 11, 12}, {10}, {13},
                                      {1, 7}, {3, 4, 6}, {2, 7}, {8, 11, 12}, {0, 7}, {4, 18, 20}, {6, 16, 18}, {3, 16, 20}, {19}, {8}, {12},
                                      {17, 21, 22, 23}, {27}};
  std::set<int> removals = {14, 15, 24, 25, 26, 28};
  std::vector<RawStep> s;
  for (size_t i = 0; i < bd.size(); ++i) s.push_back(RawStep{removals.count((int)i) > 0, bd[i], bd[i].empty() ? 0 : (int)bd[i].size() - 1});
  check_raw(c, "unit_test_sequence", s,
            {{0, 1, 3}, {0, 2, 4}, {0, 7, 8}, {1, 6, 10}, {0, 9, 11}, {1, 12, 13}, {0, 5, 16}, {1, 14, 17}, {1, 15, 19}, {1, 20, 21}, {1, 18, 22},
             {1, 24, 25}, {2, 23, 27}, {0, 0, -1}, {0, 26, -1}, {2, 28, -1}});
}

void insonly_case(vh::Case& c) {
  vh::Rng& r = c.rng;
  int ui = pick_universe(r);
  const Universe& U = universes()[ui];
  GenParams gp; gp.insertion_only = true; gp.nmin = 4; gp.nmax = 34;
  std::vector<Op> ops = gen_history(r, U, gp);
  c.log("u=" + vh::str(ui) + " " + show_ops(U, ops));
  zzo::Result res = zzo::zigzag_intervals(U.cells, ops);
  if (!c.expect(res.ok, "oracle.selftest", "inconsistent", res.why)) return;
  std::vector<oracle::Cell> cells; std::vector<int> op_of_pos; std::map<int, int> pos_of_cell;
  for (size_t i = 0; i < ops.size(); ++i) if (ops[i].kind == 0) {
    oracle::Cell cl; cl.dim = U.cells[ops[i].cell].dim;
    for (size_t f = 0; f < U.cells.size(); ++f) if (U.cells[ops[i].cell].bdry >> f & 1) cl.bdry.emplace_back(pos_of_cell.at((int)f), 1);
    pos_of_cell[ops[i].cell] = (int)cells.size(); cells.push_back(cl); op_of_pos.push_back((int)i);
  }
  std::vector<zzo::Interval> want;
  for (auto& b : oracle::reduce(cells, 2).bars) want.push_back(zzo::Interval{b.dim, op_of_pos[b.birth], b.death < 0 ? -1 : op_of_pos[b.death]});
  std::sort(want.begin(), want.end());
  c.expect(res.intervals == want, "oracle.selftest", "insertion_only_vs_zp_reduce", "oracle " + zzo::show(res.intervals) + " zp_reduce " + zzo::show(want));
  c.count("selftest.insonly");
  if (want.size() >= 4) c.nontrivial(vh::hash_str(vh::G().history));
}

void random_case(vh::Case& c) {
  vh::Rng& r = c.rng;
  int ui = pick_universe(r);
  const Universe& U = universes()[ui];
  GenParams gp; gp.nmin = 5; gp.nmax = 40;
  std::vector<Op> ops = gen_history(r, U, gp);
  c.log("u=" + vh::str(ui) + " " + show_ops(U, ops));
  zzo::Result res = zzo::zigzag_intervals(U.cells, ops);
  if (!c.expect(res.ok, "oracle.selftest", "inconsistent", res.why)) return;
  for (size_t i = 0; i < ops.size(); ++i) {
    int ev = 0;
    for (auto& I : res.intervals) ev += (I.birth == (int)i && i > 0) + (I.death == (int)i);
    if (i == 0) { ev = 0; for (auto& I : res.intervals) ev += (I.birth == 0); }
    int wantev = ops[i].kind == 2 ? 0 : 1;
    if (!c.expect(ev == wantev, "oracle.selftest", "events_per_arrow", "step " + vh::str(i) + " has " + vh::str(ev) + " events")) return;
  }
  c.count("selftest.random");
  int rem = 0; for (auto& o : ops) rem += o.kind == 1;
  if (rem >= 2 && res.intervals.size() >= 4) c.nontrivial(vh::hash_str(vh::G().history));
}

}  // namespace

VH_CONFIG("oracle_doc", doc_case);
VH_CONFIG("oracle_insonly", insonly_case);
VH_CONFIG("oracle_random", random_case);
VH_MAIN()

// Independent oracle for C07: interval decomposition of the zigzag homology module of a sequence of complexes,
// computed from ranks only (DESIGN.md Appendix A).  No GUDHI header, no diamond / transposition / vineyard step.
//
//   K_i            complex after operation i (i = 0..n-1); K_{i-1} -> K_i is an inclusion in one of the two directions
//   H_i            H_d(K_i; Z_2) = Z_d(K_i) / B_d(K_i), built literally: kernel of the boundary map modulo the span of
//                  the boundaries of the (d+1)-cells, a basis of classes being chosen greedily among kernel vectors
//   g_i            the map induced by the inclusion between H_i and H_{i+1} (direction of the inclusion)
//   W              (+)_i H_i
//   Rel[b,e]       span{ e_s(v) + e_t(g v) : arrows g : H_s -> H_t inside [b,e], v basis vector }   (colimit = W[b,e]/Rel)
//   Lim[b,e]       tuples (x_b..x_e) compatible with every arrow inside [b,e]; only its projection P[b,e] on (x_b, x_e)
//                  is carried along (enough to extend the window and to map into the colimit, where e_b(x_b) ~ e_s(x_s))
//   r[b,e]         rank( Rel + { e_b(x_b) : x in Lim } ) - rank(Rel)        = number of intervals containing [b,e]
//   mult[b,e]      r[b,e] - r[b-1,e] - r[b,e+1] + r[b-1,e+1]               (r = 0 outside 0..n-1)
//   interval       (d, b, e+1), open when e = n-1
//
// Chains are bit masks over a universe of <= 64 cells; vectors of W are oracle::BitVec.
#ifndef VERIF_C07_ZIGZAG_RANKS_H_
#define VERIF_C07_ZIGZAG_RANKS_H_
#include <vector>
#include <cstdint>
#include <algorithm>
#include <tuple>
#include <string>
#include <sstream>
#include "oracle/z2_linalg.h"

namespace zzo {

typedef uint64_t Chain;  // set of universe cells

struct UCell {
  int dim = 0;
  Chain bdry = 0;   // Z_2 boundary (cells of dimension dim-1 with coefficient 1)
  Chain faces = 0;  // cells that have to be present for this cell to be present (superset of bdry; geometric closure)
};

struct Op {
  int kind;  // 0 insert, 1 remove, 2 identity
  int cell;  // universe index (unused for identity)
};

struct Interval {
  int dim, birth, death;  // alive in K_birth .. K_{death-1};  death = -1 : still open after the last operation
  bool operator<(const Interval& o) const { return std::tie(dim, birth, death) < std::tie(o.dim, o.birth, o.death); }
  bool operator==(const Interval& o) const { return dim == o.dim && birth == o.birth && death == o.death; }
};

inline int top_bit(uint64_t x) { return 63 - __builtin_clzll(x); }

// H_d(K) = Z_d(K) / B_d(K)
struct Homology {
  std::vector<Chain> ech;        // echelon basis (distinct top bits) of B_d + chosen class representatives
  std::vector<uint32_t> coord;   // coordinates, in the chosen homology basis, of the class of ech[k]
  int at[64];                    // top bit -> position in ech, or -1
  std::vector<Chain> reps;       // cycles whose classes form the basis of H_d
  bool ok = true;

  int rank() const { return (int)reps.size(); }

  // reduces z against ech; acc collects the coordinates of what was subtracted
  Chain reduce(Chain z, uint32_t& acc) const {
    while (z) {
      int t = top_bit(z);
      if (at[t] < 0) break;
      z ^= ech[at[t]];
      acc ^= coord[at[t]];
    }
    return z;
  }
  void push(Chain v, uint32_t c) { at[top_bit(v)] = (int)ech.size(); ech.push_back(v); coord.push_back(c); }

  // class of a cycle z of K in the basis; false if z is not a cycle of K modulo nothing (never for valid input)
  bool coords(Chain z, uint32_t& out) const {
    uint32_t acc = 0;
    Chain rest = reduce(z, acc);
    out = acc;
    return rest == 0;
  }

  Homology(const std::vector<UCell>& U, Chain K, int d) {
    std::fill(at, at + 64, -1);
    // B_d: boundaries of the (d+1)-cells of K
    for (size_t c = 0; c < U.size(); ++c)
      if ((K >> c & 1) && U[c].dim == d + 1) {
        uint32_t acc = 0;
        Chain v = reduce(U[c].bdry, acc);
        if (v) push(v, 0);
      }
    // Z_d: kernel of the boundary map on the d-cells of K, by elimination on (image, source) pairs
    std::vector<Chain> img, src;
    std::vector<Chain> kernel;
    for (size_t c = 0; c < U.size(); ++c)
      if ((K >> c & 1) && U[c].dim == d) {
        Chain im = U[c].bdry, s = Chain(1) << c;
        if (im & ~K) ok = false;  // not a complex
        bool again = true;
        while (im && again) {
          again = false;
          int t = top_bit(im);
          for (size_t k = 0; k < img.size(); ++k)
            if (top_bit(img[k]) == t) { im ^= img[k]; s ^= src[k]; again = true; break; }
        }
        if (im) { img.push_back(im); src.push_back(s); }
        else kernel.push_back(s);
      }
    // basis of Z/B: kernel vectors that are independent modulo what is already there
    for (Chain z : kernel) {
      uint32_t acc = 0;
      Chain rest = reduce(z, acc);
      if (rest) {
        if (reps.size() >= 32) { ok = false; break; }
        uint32_t me = uint32_t(1) << reps.size();
        reps.push_back(z);
        push(rest, acc ^ me);   // [z] = me  and  z = rest + (things of class acc)
      }
    }
  }
};

// echelon span over oracle::BitVec with direct lookup by top bit
struct TopSpan {
  std::vector<oracle::BitVec> by_top;
  std::vector<char> has;
  size_t rk = 0;
  explicit TopSpan(size_t nbits) : by_top(nbits), has(nbits, 0) {}
  // returns true when v (reduced in place) is independent of the span
  bool reduce(oracle::BitVec& v) const {
    for (;;) {
      long t = v.top();
      if (t < 0) return false;
      if (!has[(size_t)t]) return true;
      v ^= by_top[(size_t)t];
    }
  }
  bool add(oracle::BitVec v) {
    if (!reduce(v)) return false;
    size_t t = (size_t)v.top();
    by_top[t] = v; has[t] = 1; ++rk;
    return true;
  }
};

// keeps an independent subset (as vectors of Z_2^64) of the given vectors
inline std::vector<uint64_t> independent_subset(const std::vector<uint64_t>& vs) {
  std::vector<uint64_t> ech, out;
  for (uint64_t v : vs) {
    uint64_t r = v;
    bool again = true;
    while (r && again) {
      again = false;
      for (uint64_t e : ech) if (top_bit(e) == top_bit(r)) { r ^= e; again = true; break; }
    }
    if (r) { ech.push_back(r); out.push_back(v); }
  }
  return out;
}

struct Result {
  std::vector<Interval> intervals;   // sorted
  std::vector<Chain> complexes;      // K_i
  std::vector<std::vector<int>> betti;  // betti[i][d]
  bool ok = true;                    // false: the sequence was not a sequence of complexes / internal inconsistency
  std::string why;
};

inline Result zigzag_intervals(const std::vector<UCell>& U, const std::vector<Op>& ops, bool crosscheck = true) {
  Result res;
  const int n = (int)ops.size();
  int maxdim = 0;
  for (auto& c : U) maxdim = std::max(maxdim, c.dim);
  // the complexes
  Chain K = 0;
  for (int i = 0; i < n; ++i) {
    const Op& o = ops[i];
    if (o.kind == 0) {
      if ((K >> o.cell & 1) || (U[o.cell].faces & ~K)) { res.ok = false; res.why = "inadmissible insertion"; return res; }
      K |= Chain(1) << o.cell;
    } else if (o.kind == 1) {
      if (!(K >> o.cell & 1)) { res.ok = false; res.why = "removal of an absent cell"; return res; }
      for (size_t c = 0; c < U.size(); ++c)
        if ((K >> c & 1) && (U[c].faces >> o.cell & 1)) { res.ok = false; res.why = "removal of a non-maximal cell"; return res; }
      K &= ~(Chain(1) << o.cell);
    }
    res.complexes.push_back(K);
  }
  res.betti.assign(n, std::vector<int>(maxdim + 1, 0));

  for (int d = 0; d <= maxdim; ++d) {
    std::vector<Homology> H;
    H.reserve(n);
    for (int i = 0; i < n; ++i) {
      if (i > 0 && res.complexes[i] == res.complexes[i - 1]) H.push_back(H.back());
      else H.emplace_back(U, res.complexes[i], d);
      if (!H.back().ok) { res.ok = false; res.why = "not a complex"; return res; }
      res.betti[i][d] = H.back().rank();
    }
    std::vector<size_t> off(n + 1, 0);
    for (int i = 0; i < n; ++i) off[i + 1] = off[i] + (size_t)H[i].rank();
    const size_t T = off[n];
    if (T == 0) continue;
    // arrows: between i and i+1;  fwd[i] = true : H_i -> H_{i+1};  g[i][j] = image of the j-th basis class of the source
    std::vector<char> fwd(n, 1);
    std::vector<std::vector<uint32_t>> g(n);
    for (int i = 0; i + 1 < n; ++i) {
      fwd[i] = (ops[i + 1].kind != 1);
      const Homology& S = fwd[i] ? H[i] : H[i + 1];
      const Homology& D = fwd[i] ? H[i + 1] : H[i];
      for (Chain z : S.reps) {
        uint32_t x;
        if (!D.coords(z, x)) { res.ok = false; res.why = "inclusion does not map cycles to cycles"; return res; }
        g[i].push_back(x);
      }
    }
    auto apply = [&](int i, uint32_t x) { uint32_t y = 0; for (size_t j = 0; j < g[i].size(); ++j) if (x >> j & 1) y ^= g[i][j]; return y; };
    auto embed = [&](int i, uint32_t x, oracle::BitVec& v) { for (int j = 0; j < H[i].rank(); ++j) if (x >> j & 1) v.flip(off[i] + (size_t)j); };

    // r[b][e], with a border of zeros: index shift by one
    std::vector<std::vector<int>> r(n + 2, std::vector<int>(n + 2, 0));
    for (int b = 0; b < n; ++b) {
      if (H[b].rank() == 0) continue;
      TopSpan rel(T);
      std::vector<uint64_t> P;  // (x_b << 32) | x_e
      for (int j = 0; j < H[b].rank(); ++j) P.push_back((uint64_t(1) << (32 + j)) | (uint64_t(1) << j));
      for (int e = b; e < n; ++e) {
        if (e > b) {
          const int a = e - 1;  // arrow between e-1 and e
          const int s = fwd[a] ? e - 1 : e, t = fwd[a] ? e : e - 1;
          for (int j = 0; j < H[s].rank(); ++j) {
            oracle::BitVec v(T);
            embed(s, uint32_t(1) << j, v);
            embed(t, g[a][(size_t)j], v);
            rel.add(v);
          }
          std::vector<uint64_t> Q;
          if (fwd[a]) {
            for (uint64_t p : P) Q.push_back((p & 0xffffffff00000000ULL) | apply(a, (uint32_t)p));
          } else {
            // pairs (x_b, y) with (x_b, g y) in P : kernel of  (c, y) -> sum_k c_k x_e^(k) + g(y)
            std::vector<uint32_t> key;      // echelon on the key
            std::vector<uint64_t> payload;  // (x_b << 32) | y
            auto feed = [&](uint32_t k, uint64_t pay) {
              bool again = true;
              while (k && again) {
                again = false;
                for (size_t q = 0; q < key.size(); ++q)
                  if (top_bit(key[q]) == top_bit(k)) { k ^= key[q]; pay ^= payload[q]; again = true; break; }
              }
              if (k) { key.push_back(k); payload.push_back(pay); }
              else Q.push_back(pay);
            };
            for (uint64_t p : P) feed((uint32_t)p, p & 0xffffffff00000000ULL);
            for (int j = 0; j < H[e].rank(); ++j) feed(g[a][(size_t)j], uint64_t(1) << j);
          }
          P = independent_subset(Q);
        }
        // rank of the image of Lim[b,e] in Colim[b,e]
        TopSpan img(T);  // vectors that are independent modulo Rel: (rel, img) together form one echelon system
        for (uint64_t p : P) {
          oracle::BitVec v(T);
          embed(b, (uint32_t)(p >> 32), v);
          for (;;) {
            long t = v.top();
            if (t < 0) break;
            if (rel.has[(size_t)t]) v ^= rel.by_top[(size_t)t];
            else if (img.has[(size_t)t]) v ^= img.by_top[(size_t)t];
            else { img.by_top[(size_t)t] = v; img.has[(size_t)t] = 1; ++img.rk; break; }
          }
        }
        r[b + 1][e + 1] = (int)img.rk;
        if (crosscheck) {
          // same number from the linear relation P[b,e] alone: rank(x_b parts) + rank(x_e parts) - dim P
          std::vector<uint64_t> xb, xe;
          for (uint64_t p : P) { xb.push_back(p >> 32); xe.push_back(p & 0xffffffffULL); }
          int r2 = (int)independent_subset(xb).size() + (int)independent_subset(xe).size() - (int)P.size();
          if (r2 != (int)img.rk) { res.ok = false; res.why = "limit->colimit rank differs from the rank of the composed relation"; return res; }
        }
        if (img.rk == 0) break;  // r is non-increasing in e
      }
    }
    for (int b = 0; b < n; ++b)
      for (int e = b; e < n; ++e) {
        int m = r[b + 1][e + 1] - r[b][e + 1] - r[b + 1][e + 2] + r[b][e + 2];
        if (m < 0) { res.ok = false; res.why = "negative multiplicity"; return res; }
        for (int k = 0; k < m; ++k) res.intervals.push_back(Interval{d, b, e == n - 1 ? -1 : e + 1});
      }
    // consistency of the decomposition with the pointwise dimensions
    for (int i = 0; i < n; ++i) {
      int cnt = 0;
      for (auto& I : res.intervals) if (I.dim == d && I.birth <= i && (I.death < 0 || i < I.death)) ++cnt;
      if (cnt != H[i].rank()) { res.ok = false; res.why = "intervals do not add up to the Betti numbers"; return res; }
    }
  }
  std::sort(res.intervals.begin(), res.intervals.end());
  return res;
}

inline std::string show(const std::vector<Interval>& v) {
  std::ostringstream o;
  for (auto& i : v) { o << "(" << i.dim << ";" << i.birth << ","; if (i.death < 0) o << "inf"; else o << i.death; o << ")"; }
  return o.str();
}

}  // namespace zzo
#endif

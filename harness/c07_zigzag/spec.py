_CT = ["NAIVE_VECTOR", "LIST", "SET", "VECTOR", "SMALL_VECTOR", "UNORDERED_SET", "INTRUSIVE_LIST", "INTRUSIVE_SET"]  # all types with row access
_KEY64 = {"SET", "SMALL_VECTOR", "INTRUSIVE_LIST", "UNORDERED_SET"}      # these units use 64-bit cell keys and long internal keys

# number of valid sequences over the full triangle (insert a cell whose faces are present / remove a maximal cell / identity)
_EXH_PREFIXES = {"quick": 70, "thorough": 310}            # valid prefixes of length 3 / 4  = cases
_EXH_SEQUENCES = {"quick": 29878, "thorough": 640222}     # valid sequences of length 7 / 9, every one is run

_units = [{"name": "oracle", "src": ["c07_selftest.cpp"], "variant": "asan",
           "configs": {"oracle_doc": {"quick": 3, "thorough": 3}, "oracle_insonly": {"quick": 800, "thorough": 20000},
                       "oracle_random": {"quick": 800, "thorough": 20000}}, "chunk": 100}]
for _ct in _CT:
    _cfg = {"mix_" + _ct: {"quick": 1500, "thorough": 50000}, "long_" + _ct: {"quick": 150, "thorough": 5000},
            "churn_" + _ct: {"quick": 800, "thorough": 25000},
            "insonly_" + _ct: {"quick": 200, "thorough": 5000},
            "edgeval_" + _ct: {"quick": 150, "thorough": 4000},
            "wide_" + _ct: {"quick": 8, "thorough": 250},
            "vlong_" + _ct: {"quick": 3, "thorough": 80}}
    if _ct == "NAIVE_VECTOR":
        _cfg["exh3_" + _ct] = {"quick": _EXH_PREFIXES["quick"], "thorough": _EXH_PREFIXES["thorough"]}
    else:
        _cfg["exh3_" + _ct] = {"quick": 0, "thorough": _EXH_PREFIXES["thorough"]}
    _units.append({"name": "ct_" + _ct.lower(), "src": ["c07_main.cpp"], "variant": "asan",
                   "defs": ["C07_CT=" + _ct] + (["C07_KEY64"] if _ct in _KEY64 else []), "configs": _cfg, "chunk": 5})
# other option types (config names carry the tag): Filtration_value = int (first value 0 in 1/3 of the sequences), and
# Filtration_value = float with Dimension = short, Internal_key = long long, Cell_key = std::string
for _name, _ct, _tag, _defs in (("fv_int", "VECTOR", "_int", ["C07_FV=int"]),
                                ("fv_float_types", "INTRUSIVE_SET", "_float_types", ["C07_FV=float", "C07_TYPES"])):
    _sfx = _ct + _tag
    _units.append({"name": _name, "src": ["c07_main.cpp"], "variant": "asan", "defs": ["C07_CT=" + _ct, "C07_TAG=" + _tag] + _defs,
                   "configs": {"mix_" + _sfx: {"quick": 400, "thorough": 12000}, "churn_" + _sfx: {"quick": 150, "thorough": 5000},
                               "insonly_" + _sfx: {"quick": 50, "thorough": 1500}, "edgeval_" + _sfx: {"quick": 150, "thorough": 4000},
                               "long_" + _sfx: {"quick": 30, "thorough": 1000}}, "chunk": 5})
# gcc ASan+UBSan build of the default column type (thorough only)
_units.append({"name": "g_naive_vector", "src": ["c07_main.cpp"], "variant": "gasan", "defs": ["C07_CT=NAIVE_VECTOR"], "tiers": ["thorough"],
               "configs": {"mix_NAIVE_VECTOR": {"thorough": 30000}}, "chunk": 50})

# coverage floors: about half of what a normal quick run measures (seed 1: see evidence/C07.json); thorough = 12 x quick
# (thorough runs 25-33 x the quick case counts), the exhaustive sub-space exactly
_FLOORS_Q = {"arrow.fwd_birth": 100000, "arrow.fwd_death": 75000, "arrow.bwd_death": 45000, "arrow.bwd_birth": 40000,
             "op.identity": 19000, "op.reinsert": 50000, "op.remove.dim1": 45000, "op.remove.dim2": 12000, "op.remove.dim3": 1800,
             "seq.removals_ge3": 8500, "seq.decreasing_values": 2200,
             "interval.dim1": 35000, "interval.dim2": 5500, "interval.dim3": 400, "interval.long_finite": 28000, "interval.open": 25000,
             "universe.cubical": 3000, "universe.polygonal": 1200, "universe.cw": 550, "universe.simplicial": 6000,
             "fs.skipped_insertion": 19000, "fs.skipped_removal": 10000, "fs.dimmax.none": 11000, "fs.dimmax.1": 3300, "fs.dimmax.3": 2200,
             "fs.short_dropped": 450000, "fs.zero_length_dropped": 1200000, "fz.zero_length_dropped": 45000, "fz.positive_length": 80000,
             "cmp.zp.streamed": 400000, "cmp.zp.open": 400000, "cmp.fz.streamed": 300000, "cmp.fs.index_diagram": 600000,
             "cmp.fs.diagram": 600000, "cmp.fs.value_from_index": 7000000, "cmp.insertion_only.zp_reduce": 800,
             "selftest.documented": 2, "selftest.insonly": 400, "selftest.random": 400,
             # value sequences of the filtered classes (edgeval configs, int / float units), canary runs of the storage class
             "seq.values.first_value=+inf": 200, "seq.values.first_value=+inf,constant": 120, "seq.values.first_value=0,integral_values": 140,
             "seq.values.first_value=0,integral_values,constant": 15, "seq.values.values=to+inf": 120, "seq.values.values=from-inf": 60,
             "seq.values.values=all-inf": 55, "seq.values.values=to-inf": 60, "seq.values.values=to_0": 15, "fs.canary": 1000,
             # boundary containers of the filtered classes, remove_cell of an unknown key as identity (storage class, no ignored dimension)
             "bd.list": 140000, "bd.set": 140000, "bd.init_list": 140000, "bd.vector": 140000, "fs.remove_unknown_key.all_dims": 10000,
             # wide: cases with >= 16 / >= 24 one-dimensional classes alive at once; vlong: >= 300 operations, >= 3 growth periods
             "seq.b1_ge16": 30, "seq.b1_ge24": 15, "seq.ops_ge300": 20, "seq.swings_ge3": 12,
             "_distinct_nontrivial": 8000}
_FLOORS_T = {k: 12 * v for k, v in _FLOORS_Q.items() if not k.startswith("selftest.")}
_FLOORS_T.update({"selftest.documented": 2, "selftest.insonly": 10000, "selftest.random": 10000})
_FLOORS_Q["exh.sequences"] = _EXH_SEQUENCES["quick"]
_FLOORS_T["exh.sequences"] = _EXH_SEQUENCES["thorough"] * len(_CT)

SPEC = {
    "property": "C07",
    "rule": "one case = one model-generated zigzag history (mix: 5-28 operations, long: 29-60, churn: 20-48 operations that first insert most "
            "vertices of a graph-like universe and then insert / remove edges and 2-cells around a plateau so that many classes of one "
            "dimension are alive at once, insonly: 4-34 insertions and identities, edgeval: 5-28 operations with special value sequences, "
            "wide: 70-130 operations over a graph with 10 vertices, 40 edges and 9 triangles - all vertices, 24-38 edges, then edges and "
            "triangles in and out - so that up to 31 one-dimensional classes are alive at once, vlong: 300-1000 operations in growth / "
            "shrinking periods of 20-80 operations during which the complex fills up and empties several times) "
            "over a universe of <= 41 cells (wide: 59): all simplices of dimension <= 1..3 on 3-7 vertices, 2x2 / 3x1 square grids, the solid cube, "
            "polygonal 'pillows' (k-gons glued on a k-cycle with 3-cells between them) and a small non-regular CW complex (loops with empty "
            "Z_2 boundary, a bigon, 2-cells whose attaching map cancels mod 2). Operations: insert a cell whose faces are present, remove a "
            "cell nothing contains, identity; phases of growth / plateau / shrinking, remove-then-reinsert bias, bias towards removing a "
            "cell that lies on a cycle and towards old cells. The same history drives Zigzag_persistence (boundaries as arrow numbers), "
            "Filtered_zigzag_persistence (arbitrary non-consecutive / sparse / fresh-per-insertion / 64-bit keys, shuffled boundaries "
            "passed in turn as std::vector / std::list / std::set / braced initializer list, "
            "monotone dyadic values with plateaus, 1/5 decreasing) and Filtered_zigzag_persistence_with_storage twice "
            "(ignoreCyclesAboveDim = -1 and a random 0..4; half of the identity steps are delivered as remove_cell of a key no cell has, "
            "which is documented to only advance the operation count), one binary per internal column type with row access (8). "
            "Value sequences (edgeval configs): +infinity for the first operations and then decreasing finite values, +infinity throughout, "
            "increasing and ending at +infinity, and the mirror images with -infinity; equal infinite values make a zero-length bar. "
            "Two further binaries instantiate other option types: Filtration_value = int (even integers, odd thresholds; 1/3 of the "
            "sequences start at the value 0, edgeval: start at / stay at / arrive at 0) and Filtration_value = float together with "
            "Dimension = short, Internal_key = long long, Cell_key = std::string. "
            "When the first value supplied to the storage class is +infinity (floating types) or 0 (integral types) the operations and "
            "queries are first replayed in a forked child process: if the child dies (sanitizer report / signal) the case is one violation "
            "fs.value_from_index 'lookup_dies,...,first_value=...', otherwise the normal comparison follows in-process. "
            "After EVERY operation (storage class in histories of >= 200 operations: after every 7th and the last): "
            "the intervals streamed during that operation, the open intervals (get_current_infinite_intervals), the index diagram, "
            "get_filtration_value_from_index of every index in it, and get_persistence_diagram (random shortestInterval / includeInfiniteBars, "
            "and the default call) are compared as multisets with the interval decomposition computed by zigzag_ranks.h for the whole "
            "sequence restricted to the prefix (limit->colimit ranks of every window [b,e] of the homology zigzag over Z_2 and "
            "inclusion-exclusion; H = Z/B built literally). insonly cases are additionally compared with a textbook column reduction. "
            "exh3: EVERY valid sequence of length 7 (quick) / 9 (thorough) over the full triangle incl. identity steps is run through "
            "Zigzag_persistence with the same per-step comparison. "
            "non-trivial = distinct history with >= 2 removals (insonly: none needed), >= 4 intervals and an interval of dimension >= 1",
    "assumptions": [
        "interval convention (class documentation): K_i = complex after operation i; (dim, b, d) = alive in K_b..K_{d-1}; operations are numbered from 0",
        "boundaries passed to Zigzag_persistence are sorted by arrow number (documented precondition); cells are only inserted when their faces "
        "are present and removed when nothing contains them; keys of present cells are distinct; values are monotone and dyadic "
        "(or +-infinity, or even integers for the integral Filtration_value); NaN values are not supplied",
        "the zigzag objects are not copied or moved once operations have been fed (their internal callbacks capture `this`); not exercised",
        "remove_cell of a key that is not in the complex is only used on Filtered_zigzag_persistence_with_storage, where it is documented as "
        "an identity step (the streaming class documents the key as a precondition)",
        "with decreasing values the filtered classes may deliver (birth, death) in either orientation; with non-decreasing values birth <= death is required",
        "shortestInterval is never equal to a bar length (documentation says 'shorter than' is dropped, the code drops 'not longer than': "
        "lengths are multiples of 1/4 and thresholds odd multiples of 1/8, resp. even and odd integers); "
        "for the default 0 zero-length bars must be dropped as the property states",
        "ignoreCyclesAboveDim = m: intervals of dimension >= m are not reported (documentation of the constructor)",
        "an open bar of the storage class has death = Persistence_interval::inf (+infinity, -1 for an integral Filtration_value: never a supplied "
        "value, those are even); a finite bar whose death VALUE is +infinity is written the same way and compared as such",
        "at most 32 classes of one dimension are alive at once (representation limit of zigzag_ranks.h; the wide universe reaches 31); "
        "option types other than the instantiated ones (unsigned Filtration_value, long double, ...) are not exercised",
        "trusted: zigzag_ranks.h (validated in the same run on the documented example, the repo's 29-step test sequence, against zp_reduce.h "
        "on insertion-only sequences, and by an internal second formula for every window), zp_reduce.h, z2_linalg.h, libstdc++",
    ],
    "units": _units,
    "timeout": {"quick": 600, "thorough": 5400},     # per-shard watchdog (a normal quick shard takes < 60 s)
    "floors": {"quick": dict(_FLOORS_Q), "thorough": dict(_FLOORS_T)},
    "exhaustive": {"quick": False, "thorough": False},
    "exhaustive_note": "the sub-space 'all valid insert/remove/identity sequences of length <= 7 (quick, default column type) / <= 9 (thorough, every "
                       "column type) over the 7 cells of the full triangle' is enumerated completely (every prefix of every sequence is checked); "
                       "everything else is sampled",
    "manifest": {
        "text": "Runtime monitor under ASan+UBSan: tens of thousands of model-generated zigzag histories (simplicial, cubical, polygonal and "
                "non-regular CW cells; removals, re-insertions, identity steps, plateaus) drive Zigzag_persistence, Filtered_zigzag_persistence and "
                "Filtered_zigzag_persistence_with_storage for each of the 8 internal column types (plus int and float Filtration_value, short / "
                "long long / std::string option types, value sequences containing +-infinity or starting at 0, boundaries given as vector / list / "
                "set / braced list, histories of up to 1000 operations, up to 31 simultaneous 1-classes); after every single operation the streamed "
                "intervals, the open intervals, the index diagram, the index->value translation and the value diagram (thresholds, ignored "
                "dimensions, infinite bars) are compared as multisets with an independent rank-based interval decomposition of the zigzag "
                "homology module (limit->colimit ranks of every window, inclusion-exclusion; no diamond or transposition step), insertion-only "
                "histories also with a textbook column reduction. Every valid sequence of length <= 7 over the full triangle is enumerated. "
                "Held on what was observed, not a proof.",
        "note": "trusted: harness/c07_zigzag/zigzag_ranks.h (self-validated each run), oracle/zp_reduce.h; Z_2 only (the class supports nothing else); "
                "documented preconditions respected (sorted boundaries, monotone values, faces-first insertion, maximal-cell removal)",
        "technique": "runtime monitoring: randomized + enumerated operation histories, independent rank-based oracle after every step, under "
                     "AddressSanitizer/UBSan",
    },
}

// C07 — one binary per internal column type (-DC07_CT=LIST ...); optional -DC07_KEY64: 64-bit cell keys, long internal keys.
#include "c07_zigzag/c07_exec.h"

#ifndef C07_CT
#define C07_CT NAIVE_VECTOR
#endif
#define C07_STR2(x) #x
#define C07_STR(x) C07_STR2(x)

namespace {
struct Opt : Gudhi::zigzag_persistence::Default_filtered_zigzag_options {
  static const Gudhi::persistence_matrix::Column_types column_type = Gudhi::persistence_matrix::Column_types::C07_CT;
#ifdef C07_KEY64
  using Cell_key = long long;
  using Internal_key = long;
#endif
};
#ifdef C07_KEY64
const bool kKey64 = true;
#else
const bool kKey64 = false;
#endif
typedef c07::Exec<Opt> E;

void mix(vh::Case& c) { c07::GenParams gp; gp.nmin = 5; gp.nmax = 28; E::random_case(c, gp, kKey64); }
void longer(vh::Case& c) { c07::GenParams gp; gp.nmin = 29; gp.nmax = 60; E::random_case(c, gp, kKey64); }
void insonly(vh::Case& c) { c07::GenParams gp; gp.nmin = 4; gp.nmax = 34; gp.insertion_only = true; E::random_case(c, gp, kKey64); }
void churn(vh::Case& c) { c07::GenParams gp; gp.nmin = 20; gp.nmax = 48; gp.churn = true; E::random_case(c, gp, kKey64); }
void exh(vh::Case& c) { E::exhaustive_case(c); }
}  // namespace

// a defective build can make the chain matrix grow without bound: die with a sanitizer report (attributed to the running case)
// instead of exhausting the machine
extern "C" const char* __asan_default_options() { return "hard_rss_limit_mb=3072"; }

VH_CONFIG("mix_" C07_STR(C07_CT), mix);
VH_CONFIG("long_" C07_STR(C07_CT), longer);
VH_CONFIG("insonly_" C07_STR(C07_CT), insonly);
VH_CONFIG("churn_" C07_STR(C07_CT), churn);
VH_CONFIG("exh3_" C07_STR(C07_CT), exh);
VH_MAIN()

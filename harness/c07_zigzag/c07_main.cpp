// C07 — one binary per internal column type (-DC07_CT=LIST ...); optional -DC07_KEY64: 64-bit cell keys, long internal keys;
// -DC07_FV=int|float: Filtration_value; -DC07_TAG=_xyz: suffix of the config names; -DC07_TYPES: Dimension = short, Internal_key = long long, Cell_key = std::string.
#include <string>
#include "c07_zigzag/c07_exec.h"

#ifndef C07_CT
#define C07_CT NAIVE_VECTOR
#endif
#ifndef C07_TAG
#define C07_TAG
#endif
#define C07_STR2(x) #x
#define C07_STR(x) C07_STR2(x)

namespace {
struct Opt : Gudhi::zigzag_persistence::Default_filtered_zigzag_options {
  static const Gudhi::persistence_matrix::Column_types column_type = Gudhi::persistence_matrix::Column_types::C07_CT;
#ifdef C07_KEY64
  using Cell_key = long long;
  using Internal_key = long;
#endif
#ifdef C07_FV
  using Filtration_value = C07_FV;
#endif
#ifdef C07_TYPES
  using Dimension = short;
  using Internal_key = long long;
  using Cell_key = std::string;
#endif
};
#ifdef C07_KEY64
const bool kKey64 = true;
#else
const bool kKey64 = false;
#endif
typedef c07::Exec<Opt> E;

void mix(vh::Case& c) { c07::GenParams gp; gp.nmin = 5; gp.nmax = 28; E::random_case(c, gp, kKey64); }
void longer(vh::Case& c) { c07::GenParams gp; gp.nmin = 29; gp.nmax = 60; E::random_case(c, gp, kKey64); }
void insonly(vh::Case& c) { c07::GenParams gp; gp.nmin = 4; gp.nmax = 34; gp.insertion_only = true; E::random_case(c, gp, kKey64); }
void churn(vh::Case& c) { c07::GenParams gp; gp.nmin = 20; gp.nmax = 48; gp.churn = true; E::random_case(c, gp, kKey64); }
// value sequences with +-infinity (integral Filtration_value: 0) at the start, throughout, or at the end
void edgeval(vh::Case& c) { c07::GenParams gp; gp.nmin = 5; gp.nmax = 28; gp.edge_values = true; E::random_case(c, gp, kKey64); }
// up to 31 one-dimensional classes alive at once (10 vertices, 40 edges, 9 triangles)
void wide(vh::Case& c) { c07::GenParams gp; gp.nmin = 70; gp.nmax = 130; gp.churn = true; gp.wide = true; E::random_case(c, gp, kKey64); }
// 300-1000 operations in growth / shrinking periods
void vlong(vh::Case& c) { c07::GenParams gp; gp.nmin = 300; gp.nmax = 1000; gp.periodic = true; E::random_case(c, gp, kKey64); }
void exh(vh::Case& c) { E::exhaustive_case(c); }
}  // namespace

// a defective build can make the chain matrix grow without bound: die with a sanitizer report (attributed to the running case)
// instead of exhausting the machine
extern "C" const char* __asan_default_options() { return "hard_rss_limit_mb=3072"; }

VH_CONFIG("mix_" C07_STR(C07_CT) C07_STR(C07_TAG), mix);
VH_CONFIG("long_" C07_STR(C07_CT) C07_STR(C07_TAG), longer);
VH_CONFIG("insonly_" C07_STR(C07_CT) C07_STR(C07_TAG), insonly);
VH_CONFIG("churn_" C07_STR(C07_CT) C07_STR(C07_TAG), churn);
VH_CONFIG("edgeval_" C07_STR(C07_CT) C07_STR(C07_TAG), edgeval);
VH_CONFIG("wide_" C07_STR(C07_CT) C07_STR(C07_TAG), wide);
VH_CONFIG("vlong_" C07_STR(C07_CT) C07_STR(C07_TAG), vlong);
VH_CONFIG("exh3_" C07_STR(C07_CT) C07_STR(C07_TAG), exh);
VH_MAIN()

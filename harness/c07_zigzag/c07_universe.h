// C07 — cell universes and model-driven zigzag histories (no GUDHI header here).
#ifndef VERIF_C07_UNIVERSE_H_
#define VERIF_C07_UNIVERSE_H_
#include "common/vh.h"
#include "c07_zigzag/zigzag_ranks.h"

namespace c07 {

using zzo::Chain;
using zzo::Op;
using zzo::UCell;

struct Universe {
  std::string kind;
  std::vector<UCell> cells;
  std::vector<std::string> names;
  int add(int dim, Chain bdry, Chain faces, const std::string& name) {
    UCell c; c.dim = dim; c.bdry = bdry; c.faces = faces | bdry;
    cells.push_back(c); names.push_back(name);
    return (int)cells.size() - 1;
  }
  int maxdim() const { int d = 0; for (auto& c : cells) d = std::max(d, c.dim); return d; }
  // dd = 0 and faces of the right dimension (self-check of the tables below)
  bool valid() const {
    if (cells.size() > 64) return false;
    for (auto& c : cells) {
      Chain dd = 0;
      for (size_t f = 0; f < cells.size(); ++f) {
        if (c.faces >> f & 1) { if (cells[f].dim != c.dim - 1) return false; }
        if (c.bdry >> f & 1) dd ^= cells[f].bdry;
      }
      if (dd) return false;
      if (c.dim == 0 && c.faces) return false;
    }
    return true;
  }
};

inline Chain bit(int i) { return Chain(1) << i; }

// all simplices of dimension <= maxdim on m vertices
inline Universe simplicial(int m, int maxdim) {
  Universe U; U.kind = "simplicial";
  std::map<unsigned, int> id;
  for (int d = 0; d <= maxdim; ++d)
    for (unsigned s = 1; s < (1u << m); ++s)
      if (__builtin_popcount(s) == d + 1) {
        Chain b = 0;
        if (d > 0) for (int v = 0; v < m; ++v) if (s >> v & 1) b |= bit(id.at(s & ~(1u << v)));
        std::string nm = "[";
        for (int v = 0; v < m; ++v) if (s >> v & 1) nm += char('0' + v);
        id[s] = U.add(d, b, b, nm + "]");
      }
  return U;
}

// a x b squares
inline Universe grid(int a, int b) {
  Universe U; U.kind = "cubical";
  std::vector<std::vector<int>> V(a + 1, std::vector<int>(b + 1)), Eh(a, std::vector<int>(b + 1)), Ev(a + 1, std::vector<int>(b));
  for (int i = 0; i <= a; ++i) for (int j = 0; j <= b; ++j) V[i][j] = U.add(0, 0, 0, "v" + vh::str(i) + vh::str(j));
  for (int i = 0; i < a; ++i) for (int j = 0; j <= b; ++j) { Chain c = bit(V[i][j]) | bit(V[i + 1][j]); Eh[i][j] = U.add(1, c, c, "h" + vh::str(i) + vh::str(j)); }
  for (int i = 0; i <= a; ++i) for (int j = 0; j < b; ++j) { Chain c = bit(V[i][j]) | bit(V[i][j + 1]); Ev[i][j] = U.add(1, c, c, "u" + vh::str(i) + vh::str(j)); }
  for (int i = 0; i < a; ++i) for (int j = 0; j < b; ++j) {
    Chain c = bit(Eh[i][j]) | bit(Eh[i][j + 1]) | bit(Ev[i][j]) | bit(Ev[i + 1][j]);
    U.add(2, c, c, "q" + vh::str(i) + vh::str(j));
  }
  return U;
}

// the solid cube
inline Universe cube() {
  Universe U; U.kind = "cubical";
  // cells = vectors in {0,1,*}^3
  std::map<std::vector<int>, int> id;
  for (int d = 0; d <= 3; ++d)
    for (int code = 0; code < 27; ++code) {
      std::vector<int> t{code % 3, code / 3 % 3, code / 9};
      int stars = 0; for (int x : t) stars += (x == 2);
      if (stars != d) continue;
      Chain b = 0;
      for (int k = 0; k < 3; ++k) if (t[k] == 2) for (int v = 0; v < 2; ++v) { auto f = t; f[k] = v; b |= bit(id.at(f)); }
      std::string nm = "c"; for (int x : t) nm += (x == 2 ? '*' : char('0' + x));
      id[t] = U.add(d, b, b, nm);
    }
  return U;
}

// k-cycle, three k-gons glued on it, three 3-cells between pairs of k-gons
inline Universe pillow(int k) {
  Universe U; U.kind = "polygonal";
  std::vector<int> v, e, f;
  for (int i = 0; i < k; ++i) v.push_back(U.add(0, 0, 0, "p" + vh::str(i)));
  Chain cyc = 0;
  for (int i = 0; i < k; ++i) { Chain c = bit(v[i]) ^ bit(v[(i + 1) % k]); int id = U.add(1, c, c, "e" + vh::str(i)); e.push_back(id); cyc |= bit(id); }
  // one chord so that polygons of two sizes coexist (when k >= 4)
  int chord = -1; Chain half = 0;
  if (k >= 4) {
    Chain c = bit(v[0]) | bit(v[2]);
    chord = U.add(1, c, c, "ch");
    half = bit(e[0]) | bit(e[1]) | bit(chord);
  }
  for (int i = 0; i < 3; ++i) f.push_back(U.add(2, cyc, cyc, "D" + vh::str(i)));
  int t1 = -1, t2 = -1;
  if (k >= 4) { t1 = U.add(2, half, half, "T1"); t2 = U.add(2, cyc ^ half, cyc ^ half, "T2"); }
  for (int i = 0; i < 3; ++i) for (int j = i + 1; j < 3; ++j) { Chain c = bit(f[i]) | bit(f[j]); U.add(3, c, c, "B" + vh::str(i) + vh::str(j)); }
  if (k >= 4) { Chain c = bit(f[0]) | bit(t1) | bit(t2); U.add(3, c, c, "BT"); }
  return U;
}

// a small non-regular CW complex: loops (empty Z_2 boundary), a bigon, a 2-cell attached twice along a loop, a 3-cell
inline Universe cw_small() {
  Universe U; U.kind = "cw";
  int v0 = U.add(0, 0, 0, "v0"), v1 = U.add(0, 0, 0, "v1");
  int a = U.add(1, 0, bit(v0), "a"), l = U.add(1, 0, bit(v1), "l");
  int b = U.add(1, bit(v0) | bit(v1), 0, "b"), cc = U.add(1, bit(v0) | bit(v1), 0, "c");
  int F1 = U.add(2, bit(b) | bit(cc), 0, "F1");
  U.add(2, 0, bit(a), "F2");                              // attached along a.a  (RP^2-like)
  int F3 = U.add(2, bit(b) | bit(cc), bit(a), "F3");     // attached along a.a.b.c^-1
  U.add(2, bit(a) | bit(l), bit(b), "F4");                // attached along a.b.l.b^-1 : b cancels, still a face
  U.add(3, bit(F1) | bit(F3), 0, "G");
  return U;
}

// a graph on 10 vertices (all pairs except the perfect matching i -- 9-i: 40 edges) and 9 triangles on it = 59 cells.
// b_1 reaches 40 - 10 + 1 = 31 (every edge present, no triangle): many classes of ONE dimension alive at once, which is still
// inside what zigzag_ranks.h can represent (<= 32 classes per dimension)
inline Universe wide_graph() {
  Universe U; U.kind = "simplicial";
  const int m = 10;
  std::vector<int> v; std::map<std::pair<int, int>, int> e;
  for (int i = 0; i < m; ++i) v.push_back(U.add(0, 0, 0, "[" + vh::str(i) + "]"));
  for (int i = 0; i < m; ++i) for (int j = i + 1; j < m; ++j) {
    if (i + j == m - 1) continue;
    Chain c = bit(v[i]) | bit(v[j]);
    e[{i, j}] = U.add(1, c, c, "[" + vh::str(i) + vh::str(j) + "]");
  }
  const int tri[9][3] = {{0, 1, 2}, {2, 3, 4}, {4, 6, 8}, {5, 6, 7}, {7, 8, 9}, {0, 5, 8}, {1, 3, 9}, {2, 6, 9}, {1, 4, 7}};
  for (auto& t : tri) {
    Chain c = bit(e.at({t[0], t[1]})) | bit(e.at({t[0], t[2]})) | bit(e.at({t[1], t[2]}));
    U.add(2, c, c, "[" + vh::str(t[0]) + vh::str(t[1]) + vh::str(t[2]) + "]");
  }
  return U;
}
const int kWideUniverse = 14;

inline const std::vector<Universe>& universes() {
  static const std::vector<Universe> us = [] {
    std::vector<Universe> v;
    v.push_back(simplicial(3, 2));   // 0
    v.push_back(simplicial(4, 3));   // 1
    v.push_back(simplicial(5, 3));   // 2
    v.push_back(simplicial(5, 2));   // 3
    v.push_back(simplicial(6, 2));   // 4
    v.push_back(simplicial(5, 1));   // 5  graphs
    v.push_back(grid(2, 2));         // 6
    v.push_back(grid(3, 1));         // 7
    v.push_back(cube());             // 8
    v.push_back(pillow(3));          // 9
    v.push_back(pillow(5));          // 10
    v.push_back(cw_small());         // 11
    v.push_back(simplicial(7, 1));   // 12  graphs on 7 vertices (churn configs)
    v.push_back(simplicial(6, 2));   // 13 = 4, listed again so that the churn universes are contiguous
    v.push_back(wide_graph());       // 14  (wide configs only)
    return v;
  }();
  return us;
}

inline int pick_universe(vh::Rng& r) {
  // weights: simplicial 60 %, cubical 20 %, polygonal 12 %, cw 8 %
  unsigned x = (unsigned)r.below(100);
  if (x < 10) return 0;
  if (x < 30) return 1;
  if (x < 42) return 2;
  if (x < 50) return 3;
  if (x < 55) return 4;
  if (x < 60) return 5;
  if (x < 70) return 6;
  if (x < 75) return 7;
  if (x < 80) return 8;
  if (x < 85) return 9;
  if (x < 92) return 10;
  return 11;
}

struct Model {
  const Universe* U;
  Chain K = 0;
  explicit Model(const Universe& u) : U(&u) {}
  bool can_insert(int c) const { return !(K >> c & 1) && !(U->cells[c].faces & ~K); }
  bool can_remove(int c) const {
    if (!(K >> c & 1)) return false;
    for (size_t d = 0; d < U->cells.size(); ++d) if ((K >> d & 1) && (U->cells[d].faces >> c & 1)) return false;
    return true;
  }
  std::vector<int> insertable() const { std::vector<int> v; for (size_t c = 0; c < U->cells.size(); ++c) if (can_insert((int)c)) v.push_back((int)c); return v; }
  std::vector<int> removable() const { std::vector<int> v; for (size_t c = 0; c < U->cells.size(); ++c) if (can_remove((int)c)) v.push_back((int)c); return v; }
};

struct GenParams {
  int nmin = 5, nmax = 28;
  bool insertion_only = false;
  bool churn = false;   // many vertices first, then edges / 2-cells inserted and removed around a plateau (many classes alive at once)
  bool wide = false;    // (with churn, universe 14) every vertex, then 24-38 edges, then edges / triangles in and out: b_1 up to 31
  bool periodic = false;  // growth / shrinking periods of 20-80 operations (80 % / 25 % insertions) instead of the short phases
  bool edge_values = false;  // filtered classes: value sequences that contain +-infinity (see dress())
};

inline int pick_churn_universe(vh::Rng& r) {
  static const int ids[] = {12, 12, 13, 13, 6, 6, 7, 8, 8, 10, 3, 2};
  return ids[r.below(sizeof(ids) / sizeof(ids[0]))];
}

// model-driven history: phases of growth / plateau / shrink, identity steps, remove-then-reinsert bias, bias towards removing
// cells that carry a cycle (the removal that kills a class) and towards old cells
inline std::vector<Op> gen_history(vh::Rng& r, const Universe& U, const GenParams& gp) {
  std::vector<Op> ops;
  Model M(U);
  int n = (int)r.range(gp.nmin, gp.nmax);
  if (r.chance(1, 2)) n = std::max(n, (int)r.range(gp.nmin, gp.nmax));   // skewed towards long sequences
  const unsigned idp = gp.insertion_only ? (unsigned)r.pick(std::vector<int>{0, 10, 30}) : (unsigned)r.pick(std::vector<int>{0, 0, 0, 6, 20});
  int phase_left = 0; unsigned p_ins = 90;
  std::vector<int> recently_removed;
  std::vector<int> ins_time(U.cells.size(), -1);
  const unsigned high = (unsigned)r.pick(std::vector<int>{0, 40, 70, 90});   // % of insertions that take a cell of the highest admissible dimension
  int i0 = 0;
  if (gp.churn) {
    // most vertices, in random order, then a few edges
    std::vector<int> vs; for (size_t c = 0; c < U.cells.size(); ++c) if (U.cells[c].dim == 0) vs.push_back((int)c);
    r.shuffle(vs);
    size_t keep = std::max<size_t>(3, vs.size() - r.below(vs.size() / 3 + 1));
    if (gp.wide) keep = vs.size();
    for (size_t k = 0; k < keep && k < vs.size() && (int)ops.size() < n; ++k) { M.K |= bit(vs[k]); ins_time[vs[k]] = (int)ops.size(); ops.push_back(Op{0, vs[k]}); }
    if (gp.wide) {
      const int target = (int)r.range(24, 38);
      for (int k = 0; k < target && (int)ops.size() < n; ++k) {
        std::vector<int> B; for (int x : M.insertable()) if (U.cells[x].dim == 1) B.push_back(x);
        if (B.empty()) break;
        int c = r.pick(B);
        M.K |= bit(c); ins_time[c] = (int)ops.size(); ops.push_back(Op{0, c});
      }
    }
    i0 = (int)ops.size();
  }
  const int period = gp.periodic ? (int)r.range(20, 80) : 1;
  for (int i = i0; i < n; ++i) {
    if (gp.periodic) { p_ins = ((i / period) % 2 == 0) ? 80u : 25u; phase_left = 1; }
    if (phase_left == 0 && gp.churn) {
      p_ins = (i == i0) ? 85u : (unsigned)r.pick(std::vector<int>{70, 55, 50, 45, 35});
      phase_left = (i == i0) ? (int)r.range(2, 8) : (int)r.range(3, 12);
    }
    if (phase_left == 0) {
      p_ins = (i == 0) ? 92u : (unsigned)r.pick(std::vector<int>{92, 75, 50, 50, 35, 12});
      phase_left = (int)r.range(2, 10);
      if (i == 0) phase_left = (int)r.range(3, 14);
    }
    --phase_left;
    if (r.below(100) < idp) { ops.push_back(Op{2, 0}); continue; }
    std::vector<int> A = M.insertable(), R = gp.insertion_only ? std::vector<int>() : M.removable();
    bool ins = r.below(100) < p_ins;
    if (A.empty()) ins = false;
    if (R.empty()) ins = true;
    if (A.empty() && R.empty()) { ops.push_back(Op{2, 0}); continue; }
    if (ins) {
      int c = -1;
      if (!recently_removed.empty() && r.chance(1, 2)) {
        int cand = recently_removed[r.below(recently_removed.size())];
        if (M.can_insert(cand)) c = cand;
      }
      if (c < 0 && r.below(100) < high) {
        int best = -1; for (int x : A) best = std::max(best, U.cells[x].dim);
        std::vector<int> B; for (int x : A) if (U.cells[x].dim == best) B.push_back(x);
        c = r.pick(B);
      }
      if (c < 0) c = r.pick(A);
      M.K |= bit(c); ins_time[c] = i;
      ops.push_back(Op{0, c});
    } else {
      int c = -1;
      unsigned mode = (unsigned)r.below(4);
      if (mode <= 1) {
        // mode 0: a cell whose removal kills a class of its own dimension (it lies on a cycle);
        // mode 1: a cell of dimension >= 1 whose removal creates a class (its boundary stops being a boundary)
        std::vector<int> B;
        for (int x : R) {
          int d = U.cells[x].dim;
          bool kills = zzo::Homology(U.cells, M.K & ~bit(x), d).rank() < zzo::Homology(U.cells, M.K, d).rank();
          if (mode == 0 ? kills : (!kills && d >= 1)) B.push_back(x);
        }
        if (!B.empty()) c = r.pick(B);
      } else if (mode == 2) {
        // the oldest of two candidates
        int x = r.pick(R), y = r.pick(R);
        c = ins_time[x] <= ins_time[y] ? x : y;
      }
      if (c < 0) {
        std::vector<int> B; for (int x : R) if (U.cells[x].dim >= 1) B.push_back(x);
        c = (!B.empty() && r.chance(2, 3)) ? r.pick(B) : r.pick(R);
      }
      M.K &= ~bit(c);
      recently_removed.push_back(c);
      if (recently_removed.size() > 4) recently_removed.erase(recently_removed.begin());
      ops.push_back(Op{1, c});
    }
  }
  return ops;
}

inline std::string show_ops(const Universe& U, const std::vector<Op>& ops) {
  std::string s;
  for (size_t i = 0; i < ops.size(); ++i) {
    if (i) s += ' ';
    s += ops[i].kind == 0 ? "+" + U.names[ops[i].cell] : ops[i].kind == 1 ? "-" + U.names[ops[i].cell] : "id";
  }
  return s;
}

// classes of arrows as the oracle sees them
inline const char* arrow_class(const std::vector<Op>& ops, const std::vector<zzo::Interval>& iv, int i) {
  if (ops[i].kind == 2) return "identity";
  bool birth = false, death = false;
  for (auto& I : iv) { if (I.birth == i) birth = true; if (I.death == i) death = true; }
  if (ops[i].kind == 0) return birth ? "fwd_birth" : death ? "fwd_death" : "fwd_none";
  return birth ? "bwd_birth" : death ? "bwd_death" : "bwd_none";
}

}  // namespace c07
#endif

// C07 — drives the three zigzag front-ends of GUDHI with one model-generated history and compares, after EVERY step, what they
// report with the interval decomposition computed by zigzag_ranks.h (ranks only; shares nothing with the diamond algorithm).
#ifndef VERIF_C07_EXEC_H_
#define VERIF_C07_EXEC_H_
#include <gudhi/zigzag_persistence.h>
#include <gudhi/filtered_zigzag_persistence.h>
#include <list>
#include <set>
#include <limits>
#include <type_traits>
#include <cerrno>
#include <csignal>
#include <poll.h>
#include <sys/wait.h>
#include <unistd.h>
#include "common/vh.h"
#include "oracle/zp_reduce.h"
#include "c07_zigzag/zigzag_ranks.h"
#include "c07_zigzag/c07_universe.h"

namespace c07 {

struct Bar {
  int dim; double b, d;  // d = +inf : open
  bool operator<(const Bar& o) const { return std::tie(dim, b, d) < std::tie(o.dim, o.b, o.d); }
  bool operator==(const Bar& o) const { return dim == o.dim && b == o.b && d == o.d; }
};
typedef std::vector<Bar> Bars;
const double kInf = std::numeric_limits<double>::infinity();

inline std::string show(const Bars& v) {
  std::ostringstream o; o.precision(17);
  for (auto& x : v) o << "(" << x.dim << ";" << x.b << "," << x.d << ")";
  return v.empty() ? std::string("{}") : o.str();
}

// how two sorted multisets differ (stable words for the signature)
inline const char* diff_class(const Bars& got, const Bars& want) {
  if (got.size() < want.size()) return "missing";
  if (got.size() > want.size()) return "extra";
  Bars g = got, w = want;
  for (auto& x : g) x.dim = 0;
  for (auto& x : w) x.dim = 0;
  std::sort(g.begin(), g.end()); std::sort(w.begin(), w.end());
  if (g == w) return "wrong_dimension";
  return "wrong_interval";
}

struct Scenario {
  int ui = 0;
  const Universe* U = nullptr;
  std::vector<Op> ops;
  std::vector<zzo::Interval> iv;     // the oracle's answer for the whole sequence
  std::vector<double> f;             // filtration value supplied with operation i
  bool decreasing = false;
  std::vector<long long> key_at;     // cell key used by operation i (insertion: new key; removal: key of the cell; identity: a key
                                     // that no cell of the sequence ever has)
  unsigned prealloc = 0;
  double scale = 1;                  // 8 when Filtration_value is integral (values even integers, thresholds odd integers)
  std::string vclass;                // "" : ordinary finite values whose first one is not special; otherwise the class of the value
                                     // sequence (part of the signatures of the filtered classes)
  bool canary = false;               // the first supplied value is +inf (floating types) / 0 (integral types): see Exec::canary_fs
  int stride = 1;                    // the storage class is queried after every stride-th operation (and after the last one)
  int n() const { return (int)ops.size(); }
  const char* opname(int i) const { return ops[i].kind == 0 ? "insert" : ops[i].kind == 1 ? "remove" : "identity"; }
  std::string sig(int i) const { return std::string("op=") + opname(i) + ",arrow=" + arrow_class(ops, iv, i); }
  int celldim(int i) const { return U->cells[ops[i].cell].dim; }
};

// keys and values for the filtered front-ends
//   ordinary values: monotone dyadic (multiples of 1/4, times 8 when Filtration_value is integral), plateaus, 1/5 decreasing;
//   integral Filtration_value: 1/3 of the sequences are translated so that the first supplied value is 0;
//   gp.edge_values (floating types): the sequence starts at / stays at / ends at +infinity or -infinity (still monotone);
//   gp.edge_values (integral types): the sequence starts at / stays at / ends at 0
template <class FV>
inline void dress(vh::Rng& r, Scenario& S, bool key64, const GenParams& gp) {
  const int n = S.n();
  const bool integral = std::is_integral<FV>::value;
  S.decreasing = r.chance(1, 5);
  const double steps[] = {0, 0, 0, 0.25, 0.25, 0.5, 1, 2.75};
  double v = (double)r.range(-8, 12) / 4;
  S.f.assign(n, 0);
  const unsigned plateau = (unsigned)r.below(3);  // 0: values change often, 2: long plateaus
  for (int i = 0; i < n; ++i) {
    double st = steps[r.below(8)];
    if (plateau && r.below(3) < plateau) st = 0;
    v += S.decreasing ? -st : st;
    S.f[i] = v;
  }
  int i0 = 0;   // the first operation that supplies a value
  while (i0 < n && S.ops[i0].kind == 2) ++i0;
  if (i0 == n) i0 = 0;
  if (integral) {
    S.scale = 8;
    for (auto& x : S.f) x *= 8;
    const unsigned m = gp.edge_values ? (unsigned)r.pick(std::vector<int>{1, 1, 2, 3}) : (r.chance(1, 3) ? 1u : 0u);
    if (m == 1) { double t = S.f[i0]; for (auto& x : S.f) x -= t; }                  // starts at 0
    if (m == 2) { for (auto& x : S.f) x = 0; S.decreasing = false; }                // stays at 0
    if (m == 3) { double t = S.f[n - 1]; for (auto& x : S.f) x -= t; }              // arrives at 0
    if (S.f[i0] == 0) { S.vclass = std::string("first_value=0,integral_values") + (m == 2 ? ",constant" : ""); S.canary = true; }
    else if (m == 3) S.vclass = "values=to_0";
  } else if (gp.edge_values) {
    const double inf = std::numeric_limits<double>::infinity();
    const unsigned m = (unsigned)r.pick(std::vector<int>{0, 0, 0, 1, 1, 2, 2, 3, 4, 5});
    const int head = std::min(n, i0 + 1 + (int)r.below((uint64_t)std::max(1, n / 2)));   // operations 0..head-1 (covers i0)
    const int tail = 1 + (int)r.below((uint64_t)std::max(1, n / 3));                       // the last `tail` operations
    switch (m) {
      case 0: if (!S.decreasing) { for (auto& x : S.f) x = -x; S.decreasing = true; }
              for (int i = 0; i < head; ++i) S.f[i] = inf;
              S.vclass = "first_value=+inf"; break;
      case 1: for (auto& x : S.f) x = inf; S.decreasing = false; S.vclass = "first_value=+inf,constant"; break;
      case 2: if (S.decreasing) { for (auto& x : S.f) x = -x; S.decreasing = false; }
              for (int i = std::max(0, n - tail); i < n; ++i) S.f[i] = inf;
              S.vclass = S.f[i0] == inf ? "first_value=+inf,constant" : "values=to+inf"; break;
      case 3: if (S.decreasing) { for (auto& x : S.f) x = -x; S.decreasing = false; }
              for (int i = 0; i < head; ++i) S.f[i] = -inf;
              S.vclass = "values=from-inf"; break;
      case 4: for (auto& x : S.f) x = -inf; S.decreasing = false; S.vclass = "values=all-inf"; break;
      default: if (!S.decreasing) { for (auto& x : S.f) x = -x; S.decreasing = true; }
              for (int i = std::max(0, n - tail); i < n; ++i) S.f[i] = -inf;
              S.vclass = "values=to-inf"; break;
    }
    S.canary = (S.f[i0] == inf);
  }
  // keys: 0 small permuted (one per universe cell), 1 sparse (one per universe cell), 2 fresh key at every insertion
  const unsigned mode = (unsigned)r.below(3);
  std::vector<long long> cell_key(S.U->cells.size());
  std::set<long long> used;
  auto fresh = [&]() {
    for (;;) {
      long long k = mode == 0 ? (long long)r.below(2 * S.U->cells.size() + 3 * (size_t)n)
                    : key64 ? (long long)(r.next() >> 2) - (1LL << 61)
                            : (long long)r.range(-2000000000L, 2000000000L);
      if (used.insert(k).second) return k;
    }
  };
  for (auto& k : cell_key) k = fresh();
  S.key_at.assign(n, 0);
  std::vector<long long> cur(S.U->cells.size(), 0);
  for (int i = 0; i < n; ++i) {
    if (S.ops[i].kind == 0) { cur[S.ops[i].cell] = (mode == 2) ? fresh() : cell_key[S.ops[i].cell]; S.key_at[i] = cur[S.ops[i].cell]; }
    else if (S.ops[i].kind == 1) S.key_at[i] = cur[S.ops[i].cell];
  }
  for (int i = 0; i < n; ++i) if (S.ops[i].kind == 2) S.key_at[i] = fresh();   // drawn last: never the key of a cell
  S.prealloc = (unsigned)r.pick(std::vector<int>{0, 0, 1, 7, 28, 100});
}

inline void log_scenario(vh::Case& c, const Scenario& S) {
  c.log("universe=" + vh::str(S.ui) + " (" + S.U->kind + ") prealloc=" + vh::str(S.prealloc) + " value_class=" + (S.vclass.empty() ? "ordinary" : S.vclass) +
        " ops: " + show_ops(*S.U, S.ops));
  std::string s = "values:"; for (double x : S.f) s += " " + vh::str(x);
  c.log(s);
  s = "keys:"; for (size_t i = 0; i < S.key_at.size(); ++i) s += " " + (S.ops[i].kind == 2 ? "(" + vh::str(S.key_at[i]) + ")" : vh::str(S.key_at[i]));
  c.log(s);
  c.log("oracle: " + zzo::show(S.iv));
}

// ------------------------------------------------------------------ expectations at prefix i (operations 0..i executed)
inline Bars want_died_at(const Scenario& S, int i) {
  Bars w; for (auto& I : S.iv) if (I.death == i) w.push_back(Bar{I.dim, (double)I.birth, (double)I.death});
  std::sort(w.begin(), w.end()); return w;
}
inline Bars want_finite_upto(const Scenario& S, int i, int dimmax) {
  Bars w; for (auto& I : S.iv) if (I.death >= 0 && I.death <= i && (dimmax < 0 || I.dim < dimmax)) w.push_back(Bar{I.dim, (double)I.birth, (double)I.death});
  std::sort(w.begin(), w.end()); return w;
}
inline Bars want_open_at(const Scenario& S, int i, int dimmax) {
  Bars w; for (auto& I : S.iv) if (I.birth <= i && (I.death < 0 || I.death > i) && (dimmax < 0 || I.dim < dimmax)) w.push_back(Bar{I.dim, (double)I.birth, kInf});
  std::sort(w.begin(), w.end()); return w;
}
// translation to values.  exact orientation when the values are non-decreasing; (min,max) when they are decreasing
inline Bar to_values(const Scenario& S, const Bar& x) {
  double b = S.f[(int)x.b], d = x.d == kInf ? kInf : S.f[(int)x.d];
  if (S.decreasing && d != kInf && b > d) std::swap(b, d);
  return Bar{x.dim, b, d};
}
inline void normalise(const Scenario& S, Bars& v) {
  if (S.decreasing) for (auto& x : v) if (x.d != kInf && x.b > x.d) std::swap(x.b, x.d);
  std::sort(v.begin(), v.end());
}

inline bool compare(vh::Case& c, const std::string& check, const std::string& sig, const Bars& got, const Bars& want, const std::string& ctx) {
  c.count("cmp." + check);
  if (got == want) return true;
  c.violation(check, sig + "," + diff_class(got, want), ctx + ": got " + show(got) + " want " + show(want));
  return false;
}

template <class Opt>
struct Exec {
  typedef Gudhi::zigzag_persistence::Zigzag_persistence<Opt> ZP;
  typedef Gudhi::zigzag_persistence::Filtered_zigzag_persistence<Opt> FZ;
  typedef Gudhi::zigzag_persistence::Filtered_zigzag_persistence_with_storage<Opt> FS;
  typedef typename Opt::Internal_key Index;
  typedef typename Opt::Cell_key Key;
  typedef typename Opt::Dimension Dim;
  typedef typename Opt::Filtration_value FV;

  static Key mk(long long k) {
    if constexpr (std::is_same<Key, std::string>::value) return "cell#" + std::to_string(k);
    else return (Key)k;
  }
  // the death of an open bar as the storage class writes it (Persistence_interval::inf: +infinity, or -1 for integral types)
  static double death_value(FV x) {
    if (!std::numeric_limits<FV>::has_infinity && x == FS::Filtration_value_interval::inf) return kInf;
    return (double)x;
  }
  // the boundary as a std::vector / std::list / std::set / braced list ("Range type needing begin and end"; no order is documented)
  template <class Z>
  static Index insert_as(Z& z, unsigned how, vh::Case& c, const Key& k, const std::vector<Key>& bd, Dim d, FV f) {
    switch (how & 3) {
      case 1: { c.count("bd.list"); std::list<Key> l(bd.begin(), bd.end()); return z.insert_cell(k, l, d, f); }
      case 2: { c.count("bd.set"); std::set<Key> q(bd.begin(), bd.end()); return z.insert_cell(k, q, d, f); }
      case 3:
        if (bd.size() <= 6) c.count("bd.init_list");
        switch (bd.size()) {
          case 0: return z.insert_cell(k, {}, d, f);
          case 1: return z.insert_cell(k, {bd[0]}, d, f);
          case 2: return z.insert_cell(k, {bd[0], bd[1]}, d, f);
          case 3: return z.insert_cell(k, {bd[0], bd[1], bd[2]}, d, f);
          case 4: return z.insert_cell(k, {bd[0], bd[1], bd[2], bd[3]}, d, f);
          case 5: return z.insert_cell(k, {bd[0], bd[1], bd[2], bd[3], bd[4]}, d, f);
          case 6: return z.insert_cell(k, {bd[0], bd[1], bd[2], bd[3], bd[4], bd[5]}, d, f);
          default: break;
        }
        [[fallthrough]];
      default: c.count("bd.vector"); return z.insert_cell(k, bd, d, f);
    }
  }

  // ---------------------------------------------------------------- Zigzag_persistence
  static bool run_zp(vh::Case& c, const Scenario& S, bool light = false) {
    Bars now;
    ZP zp([&](Dim d, Index b, Index de) { now.push_back(Bar{(int)d, (double)b, (double)de}); }, S.prealloc);
    std::vector<Index> arrow_of(S.U->cells.size(), -1);
    if (!light) c.log("run Zigzag_persistence");
    for (int i = 0; i < S.n(); ++i) {
      const Op& o = S.ops[i];
      now.clear();
      Index ret;
      if (o.kind == 0) {
        std::vector<Index> bd;
        for (size_t f = 0; f < S.U->cells.size(); ++f) if (S.U->cells[o.cell].bdry >> f & 1) bd.push_back(arrow_of[f]);
        std::sort(bd.begin(), bd.end());   // documented: ordered by increasing arrow numbers
        if (i % 3 == 1) { std::list<Index> l(bd.begin(), bd.end()); ret = zp.insert_cell(l, (Dim)S.U->cells[o.cell].dim); }
        else ret = zp.insert_cell(bd, (Dim)S.U->cells[o.cell].dim);
        arrow_of[o.cell] = (Index)i;
      } else if (o.kind == 1) {
        ret = zp.remove_cell(arrow_of[o.cell]);
        arrow_of[o.cell] = -1;
      } else {
        ret = zp.apply_identity();
      }
      const std::string at = "step " + vh::str(i) + " (" + S.opname(i) + ")";
      if (ret != (Index)i) { c.violation("zp.operation_number", S.sig(i), at + " returned " + vh::str(ret)); return false; }
      std::sort(now.begin(), now.end());
      if (!compare(c, "zp.streamed", S.sig(i), now, want_died_at(S, i), at)) return false;
      Bars open;
      zp.get_current_infinite_intervals([&](Dim d, Index b) { open.push_back(Bar{(int)d, (double)b, kInf}); });
      std::sort(open.begin(), open.end());
      if (!compare(c, "zp.open", S.sig(i), open, want_open_at(S, i, -1), at)) return false;
    }
    return true;
  }

  // ---------------------------------------------------------------- Filtered_zigzag_persistence (streaming, values)
  static bool run_fz(vh::Case& c, const Scenario& S, vh::Rng& r) {
    Bars now;
    FZ fz([&](Dim d, FV b, FV de) { now.push_back(Bar{(int)d, (double)b, (double)de}); }, S.prealloc);
    c.log("run Filtered_zigzag_persistence");
    std::vector<Key> key_of(S.U->cells.size(), Key());
    const std::string vsig = S.vclass.empty() ? std::string() : "," + S.vclass;
    for (int i = 0; i < S.n(); ++i) {
      const Op& o = S.ops[i];
      now.clear();
      Index ret;
      if (o.kind == 0) {
        std::vector<Key> bd;
        for (size_t f = 0; f < S.U->cells.size(); ++f) if (S.U->cells[o.cell].bdry >> f & 1) bd.push_back(key_of[f]);
        r.shuffle(bd);                      // no order is documented for the filtered classes
        key_of[o.cell] = mk(S.key_at[i]);
        ret = insert_as(fz, (unsigned)(i + S.n()), c, mk(S.key_at[i]), bd, (Dim)S.U->cells[o.cell].dim, (FV)S.f[i]);
      } else if (o.kind == 1) {
        ret = fz.remove_cell(mk(S.key_at[i]), (FV)S.f[i]);
      } else {
        ret = fz.apply_identity();
      }
      const std::string at = "step " + vh::str(i) + " (" + S.opname(i) + ")";
      if (ret != (Index)i) { c.violation("fz.operation_number", S.sig(i), at + " returned " + vh::str(ret)); return false; }
      Bars want;
      for (auto& x : want_died_at(S, i)) {
        if (S.f[(int)x.b] == S.f[(int)x.d]) { c.count("fz.zero_length_dropped"); continue; }
        want.push_back(to_values(S, x));
        c.count("fz.positive_length");
      }
      normalise(S, now); std::sort(want.begin(), want.end());
      if (!compare(c, "fz.streamed", S.sig(i) + (S.decreasing ? ",decreasing" : "") + vsig, now, want, at)) return false;
      Bars open, wopen;
      fz.get_current_infinite_intervals([&](Dim d, FV b) { open.push_back(Bar{(int)d, (double)b, kInf}); });
      for (auto& x : want_open_at(S, i, -1)) wopen.push_back(to_values(S, x));
      std::sort(open.begin(), open.end()); std::sort(wopen.begin(), wopen.end());
      if (!compare(c, "fz.open", S.sig(i) + vsig, open, wopen, at)) return false;
    }
    return true;
  }

  // ---------------------------------------------------------------- canary for the storage class
  // Value sequences whose first value is +infinity (floating types) or 0 (integral types) are first fed to a CHILD process that
  // performs the same operations and the same kinds of queries (value of every index of the index diagram, default value
  // diagram) without comparing anything.  When the child is killed (sanitizer report, signal) the case is reported as one
  // violation whose signature names the value class, instead of a process crash that only names the faulting frame; when the
  // child survives, run_fs repeats everything in this process and compares.  Returns "" or how the child died.
  static std::string canary_fs(const Scenario& S, int dimmax) {
    int pfd[2];
    if (::pipe(pfd) != 0) return "";
    fflush(stdout); fflush(stderr);
    pid_t pid = ::fork();
    if (pid < 0) { ::close(pfd[0]); ::close(pfd[1]); return ""; }
    if (pid == 0) {
      vh::G().cur_case = -1;   // the fatal-error hook of vh.h must not write a history record for the child
      ::close(pfd[0]); ::dup2(pfd[1], 2);
      {
        FS fs(S.prealloc, dimmax);
        std::vector<Key> key_of(S.U->cells.size(), Key());
        double sink = 0;
        for (int i = 0; i < S.n(); ++i) {
          const Op& o = S.ops[i];
          if (o.kind == 0) {
            std::vector<Key> bd;
            for (size_t f = 0; f < S.U->cells.size(); ++f) if (S.U->cells[o.cell].bdry >> f & 1) bd.push_back(key_of[f]);
            key_of[o.cell] = mk(S.key_at[i]);
            fs.insert_cell(mk(S.key_at[i]), bd, (Dim)S.U->cells[o.cell].dim, (FV)S.f[i]);
          } else if (o.kind == 1) fs.remove_cell(mk(S.key_at[i]), (FV)S.f[i]);
          else fs.apply_identity();
          for (auto& b : fs.get_index_persistence_diagram())
            sink += (double)fs.get_filtration_value_from_index(b.birth) + (double)fs.get_filtration_value_from_index(b.death);
          for (auto& b : fs.get_persistence_diagram()) sink += (double)b.birth;
        }
        if (sink == 12345.678) ::_exit(3);   // (keeps the queries alive)
      }
      ::_exit(0);
    }
    ::close(pfd[1]);
    std::string err; char buf[4096];
    bool timed_out = false;
    for (;;) {
      struct pollfd pf; pf.fd = pfd[0]; pf.events = POLLIN; pf.revents = 0;
      int pr = ::poll(&pf, 1, 30000);
      if (pr == 0) { timed_out = true; ::kill(pid, SIGKILL); break; }
      if (pr < 0) { if (errno == EINTR) continue; break; }
      ssize_t k = ::read(pfd[0], buf, sizeof buf);
      if (k <= 0) break;
      if (err.size() < 16384) err.append(buf, (size_t)k);
    }
    ::close(pfd[0]);
    int st = 0;
    while (::waitpid(pid, &st, 0) < 0 && errno == EINTR) {}
    if (timed_out) return "";                                  // inconclusive: run_fs decides in this process
    if (WIFEXITED(st) && WEXITSTATUS(st) == 0) return "";
    std::string what = WIFSIGNALED(st) ? "killed by signal " + vh::str(WTERMSIG(st)) : "exit status " + vh::str(WEXITSTATUS(st));
    for (const char* key : {"ERROR: AddressSanitizer: ", "runtime error: ", "Assertion "}) {
      size_t at = err.find(key);
      if (at == std::string::npos) continue;
      size_t e = err.find('\n', at);
      what += "; " + err.substr(at, std::min<size_t>(e == std::string::npos ? 200 : e - at, 200));
      size_t fr = err.find("filtered_zigzag_persistence.h", at);
      if (fr != std::string::npos) {
        size_t b = err.rfind('\n', fr), e2 = err.find('\n', fr);
        what += "; " + err.substr(b == std::string::npos ? 0 : b + 1, std::min<size_t>((e2 == std::string::npos ? err.size() : e2) - (b == std::string::npos ? 0 : b + 1), 300));
      }
      break;
    }
    return what;
  }

  // ---------------------------------------------------------------- Filtered_zigzag_persistence_with_storage
  static bool run_fs(vh::Case& c, const Scenario& S, vh::Rng& r, int dimmax) {
    FS fs(S.prealloc, dimmax);
    c.log("run Filtered_zigzag_persistence_with_storage ignoreCyclesAboveDim=" + vh::str(dimmax));
    c.count(dimmax < 0 ? "fs.dimmax.none" : "fs.dimmax." + vh::str(dimmax));
    std::vector<Key> key_of(S.U->cells.size(), Key());
    const std::string dsig = (dimmax < 0 ? ",all_dims" : ",ignored_dims") + (S.vclass.empty() ? std::string() : "," + S.vclass);
    if (S.canary) {
      c.count("fs.canary");
      const std::string why = canary_fs(S, dimmax);
      if (!why.empty()) {
        c.violation("fs.value_from_index", "lookup_dies" + dsig, "in a child process that feeds the same operations and asks for the value of every index of the index "
                    "diagram and for get_persistence_diagram() after each of them: " + why);
        return false;
      }
    }
    for (int i = 0; i < S.n(); ++i) {
      const Op& o = S.ops[i];
      Index ret;
      if (o.kind == 0) {
        std::vector<Key> bd;
        for (size_t f = 0; f < S.U->cells.size(); ++f) if (S.U->cells[o.cell].bdry >> f & 1) bd.push_back(key_of[f]);
        r.shuffle(bd);
        key_of[o.cell] = mk(S.key_at[i]);
        if (dimmax >= 0 && S.U->cells[o.cell].dim > dimmax) c.count("fs.skipped_insertion");
        ret = insert_as(fs, (unsigned)(i + S.n() + 1), c, mk(S.key_at[i]), bd, (Dim)S.U->cells[o.cell].dim, (FV)S.f[i]);
      } else if (o.kind == 1) {
        if (dimmax >= 0 && S.U->cells[o.cell].dim > dimmax) c.count("fs.skipped_removal");
        ret = fs.remove_cell(mk(S.key_at[i]), (FV)S.f[i]);
      } else if ((i + S.n()) % 2) {
        // documented: removing a cell that is not in the complex "just increases the operation count by one"
        c.count(dimmax < 0 ? "fs.remove_unknown_key.all_dims" : "fs.remove_unknown_key.ignored_dims");
        ret = fs.remove_cell(mk(S.key_at[i]), (FV)S.f[i]);
      } else {
        ret = fs.apply_identity();
      }
      const std::string at = "step " + vh::str(i) + " (" + S.opname(i) + ")";
      const std::string sg = S.sig(i) + dsig;
      if (ret != (Index)i) { c.violation("fs.operation_number", sg, at + " returned " + vh::str(ret)); return false; }
      if (i % S.stride != 0 && i != S.n() - 1) continue;
      // index diagram
      Bars idx;
      for (auto& b : fs.get_index_persistence_diagram()) idx.push_back(Bar{(int)b.dim, (double)b.birth, (double)b.death});
      std::sort(idx.begin(), idx.end());
      Bars widx = want_finite_upto(S, i, dimmax);
      if (!compare(c, "fs.index_diagram", sg, idx, widx, at)) return false;
      // value of every index that appears in the index diagram (documented use of get_filtration_value_from_index)
      for (auto& b : idx) {
        for (double ix : {b.b, b.d}) {
          double got = (double)fs.get_filtration_value_from_index((Index)ix);
          c.count("cmp.fs.value_from_index");
          if (got != S.f[(int)ix]) {
            c.violation("fs.value_from_index", std::string("op_at_index=") + S.opname((int)ix) + dsig,
                        at + ": index " + vh::str(ix) + " -> " + vh::str(got) + " supplied " + vh::str(S.f[(int)ix]));
            return false;
          }
        }
      }
      // value diagram: random threshold (never equal to a length: lengths are multiples of 1/4, thresholds odd multiples of 1/8)
      const double thr[] = {0, 0, 0.125, 0.375, 0.625, 1.125, 2.875};
      double sh = thr[r.below(7)] * S.scale;
      bool inf = !r.chance(1, 4);
      bool dflt = (i == S.n() - 1) || r.chance(1, 6);
      if (dflt) { sh = 0; inf = true; }
      auto diag = dflt ? fs.get_persistence_diagram() : fs.get_persistence_diagram((FV)sh, inf);
      Bars got, want;
      for (auto& b : diag) got.push_back(Bar{(int)b.dim, (double)b.birth, death_value(b.death)});
      for (auto& x : widx) {
        Bar y = to_values(S, x);
        if (S.f[(int)x.d] == S.f[(int)x.b]) { c.count("fs.zero_length_dropped"); continue; }   // (also both +inf / both -inf)
        double len = std::fabs(S.f[(int)x.d] - S.f[(int)x.b]);
        if (!(len > sh)) { c.count("fs.short_dropped"); continue; }
        want.push_back(y);
        c.count("fs.bar_kept");
      }
      if (inf) for (auto& x : want_open_at(S, i, dimmax)) want.push_back(to_values(S, x));
      if (!S.decreasing) {
        // orientation: birth <= death as delivered
        for (auto& x : got) if (x.b > x.d) { c.violation("fs.diagram", sg + ",birth_after_death", at + ": " + show(got)); return false; }
      }
      normalise(S, got); std::sort(want.begin(), want.end());
      if (!compare(c, "fs.diagram", sg + (sh > 0 ? ",threshold" : "") + (inf ? "" : ",finite_only") + (S.decreasing ? ",decreasing" : ""), got, want, at)) return false;
    }
    return true;
  }

  // ---------------------------------------------------------------- one random case
  static void random_case(vh::Case& c, const GenParams& gp, bool key64) {
    vh::Rng& r = c.rng;
    Scenario S;
    S.ui = gp.wide ? kWideUniverse : gp.churn ? pick_churn_universe(r) : pick_universe(r);
    S.U = &universes()[S.ui];
    S.ops = gen_history(r, *S.U, gp);
    zzo::Result res = zzo::zigzag_intervals(S.U->cells, S.ops, S.ops.size() < 200);
    dress<FV>(r, S, key64, gp);
    if (S.n() >= 200) S.stride = 7;
    S.iv = res.intervals;
    log_scenario(c, S);
    if (!res.ok) { c.violation("oracle.inconsistent", "zigzag_ranks", res.why); return; }
    int nrem = 0, nreins = 0, nid = 0; std::set<int> removed;
    for (int i = 0; i < S.n(); ++i) {
      const Op& o = S.ops[i];
      c.count(std::string("op.") + S.opname(i));
      c.count(std::string("arrow.") + arrow_class(S.ops, S.iv, i));
      if (o.kind == 1) { ++nrem; removed.insert(o.cell); c.count("op.remove.dim" + vh::str(S.celldim(i))); }
      if (o.kind == 0 && removed.count(o.cell)) { ++nreins; c.count("op.reinsert"); }
      if (o.kind == 2) ++nid;
    }
    c.count("universe." + S.U->kind);
    if (nrem >= 3) c.count("seq.removals_ge3");
    if (S.decreasing) c.count("seq.decreasing_values");
    if (!S.vclass.empty()) c.count("seq.values." + S.vclass);
    if (S.n() >= 300) c.count("seq.ops_ge300");
    {
      int b1 = 0; size_t cells = 0;
      for (auto& b : res.betti) if (b.size() > 1) b1 = std::max(b1, b[1]);
      for (Chain K : res.complexes) cells = std::max<size_t>(cells, (size_t)__builtin_popcountll(K));
      if (b1 >= 16) c.count("seq.b1_ge16");
      if (b1 >= 24) c.count("seq.b1_ge24");
      if (gp.periodic) {   // growth and shrinking periods really happened: the complex was large and small again several times
        int swings = 0; bool up = false;
        for (Chain K : res.complexes) {
          size_t k = (size_t)__builtin_popcountll(K);
          if (!up && 3 * k >= 2 * cells) { up = true; ++swings; }
          if (up && 3 * k <= cells) up = false;
        }
        if (swings >= 3) c.count("seq.swings_ge3");
      }
    }
    int maxd = 0;
    for (auto& I : S.iv) { c.count("interval.dim" + vh::str(I.dim)); c.count(I.death < 0 ? "interval.open" : "interval.finite"); maxd = std::max(maxd, I.dim);
      if (I.death >= 0 && I.death - I.birth >= 5) c.count("interval.long_finite"); }

    if (gp.insertion_only) {
      // ordinary persistence of the insertion order, by textbook column reduction
      std::vector<oracle::Cell> cells; std::vector<int> op_of_pos; std::map<int, int> pos_of_cell;
      for (int i = 0; i < S.n(); ++i) if (S.ops[i].kind == 0) {
        oracle::Cell cl; cl.dim = S.celldim(i);
        for (size_t f = 0; f < S.U->cells.size(); ++f) if (S.U->cells[S.ops[i].cell].bdry >> f & 1) cl.bdry.emplace_back(pos_of_cell.at((int)f), 1);
        pos_of_cell[S.ops[i].cell] = (int)cells.size(); cells.push_back(cl); op_of_pos.push_back(i);
      }
      std::vector<zzo::Interval> ord;
      for (auto& b : oracle::reduce(cells, 2).bars) ord.push_back(zzo::Interval{b.dim, op_of_pos[b.birth], b.death < 0 ? -1 : op_of_pos[b.death]});
      std::sort(ord.begin(), ord.end());
      if (ord != S.iv) { c.violation("oracle.inconsistent", "insertion_only_vs_zp_reduce", "zigzag_ranks " + zzo::show(S.iv) + " zp_reduce " + zzo::show(ord)); return; }
      c.count("cmp.insertion_only.zp_reduce");
    }

    bool ok = run_zp(c, S);
    ok = run_fz(c, S, r) && ok;
    ok = run_fs(c, S, r, -1) && ok;
    int dm = (int)r.pick(std::vector<int>{0, 1, 1, 1, 2, 2, 2, 3, 3, 4});
    ok = run_fs(c, S, r, dm) && ok;
    if (!ok) return;
    c.count("steps", (uint64_t)S.n());
    bool nontriv = gp.insertion_only ? (S.iv.size() >= 4 && maxd >= 1) : (nrem >= 2 && S.iv.size() >= 4 && maxd >= 1);
    if (nontriv) c.nontrivial(vh::hash_str(show_ops(*S.U, S.ops) + "|" + vh::str(S.ui)));
    c.sample("{\"universe\":\"" + S.U->kind + "\",\"ops\":\"" + vh::jesc(show_ops(*S.U, S.ops)) + "\",\"intervals\":\"" + zzo::show(S.iv) + "\"}");
    (void)nreins; (void)nid;
  }

  // ---------------------------------------------------------------- exhaustive: every valid sequence over the triangle
  // case k = the k-th valid prefix of length P (in DFS order); the case enumerates every completion to length L
  static void exhaustive_case(vh::Case& c) {
    const int P = c.thorough ? 4 : 3, L = c.thorough ? 9 : 7;
    const Universe& U = universes()[0];
    // moves from a complex, in a fixed order: insertions, removals, identity
    auto moves = [&](Chain K) {
      std::vector<Op> m; Model M(U); M.K = K;
      for (int x : M.insertable()) m.push_back(Op{0, x});
      for (int x : M.removable()) m.push_back(Op{1, x});
      m.push_back(Op{2, 0});
      return m;
    };
    auto apply = [](Chain K, const Op& o) { return o.kind == 0 ? (K | bit(o.cell)) : o.kind == 1 ? (K & ~bit(o.cell)) : K; };
    // find the k-th prefix
    std::vector<Op> ops; long seen = -1; bool found = false;
    std::function<void(Chain, int)> find = [&](Chain K, int depth) {
      if (found) return;
      if (depth == P) { if (++seen == c.k) found = true; return; }
      for (auto& o : moves(K)) { ops.push_back(o); find(apply(K, o), depth + 1); if (found) return; ops.pop_back(); }
    };
    find(0, 0);
    if (!found) { c.count("exh.index_out_of_range"); return; }
    c.log("exhaustive prefix: " + show_ops(U, ops));
    Chain K0 = 0; for (auto& o : ops) K0 = apply(K0, o);
    uint64_t leaves = 0; bool stop = false;
    std::function<void(Chain, int)> rec = [&](Chain K, int depth) {
      if (stop) return;
      if (depth == L) {
        Scenario S; S.ui = 0; S.U = &U; S.ops = ops;
        zzo::Result res = zzo::zigzag_intervals(U.cells, S.ops, false);
        S.iv = res.intervals;
        vh::G().history.clear();
        c.log("exhaustive sequence: " + show_ops(U, S.ops));
        c.log("oracle: " + zzo::show(S.iv));
        if (!res.ok) { c.violation("oracle.inconsistent", "zigzag_ranks", res.why); stop = true; return; }
        if (!run_zp(c, S, true)) { stop = true; return; }
        ++leaves;
        return;
      }
      for (auto& o : moves(K)) { ops.push_back(o); rec(apply(K, o), depth + 1); ops.pop_back(); if (stop) return; }
    };
    rec(K0, P);
    c.count("exh.sequences", leaves);
    c.count("exh.prefixes");
    if (leaves > 0) c.nontrivial(vh::hash_str("exh" + vh::str(c.k)));
  }
};

}  // namespace c07
#endif

// C07 — drives the three zigzag front-ends of GUDHI with one model-generated history and compares, after EVERY step, what they
// report with the interval decomposition computed by zigzag_ranks.h (ranks only; shares nothing with the diamond algorithm).
#ifndef VERIF_C07_EXEC_H_
#define VERIF_C07_EXEC_H_
#include <gudhi/zigzag_persistence.h>
#include <gudhi/filtered_zigzag_persistence.h>
#include <list>
#include <limits>
#include "common/vh.h"
#include "oracle/zp_reduce.h"
#include "c07_zigzag/zigzag_ranks.h"
#include "c07_zigzag/c07_universe.h"

namespace c07 {

struct Bar {
  int dim; double b, d;  // d = +inf : open
  bool operator<(const Bar& o) const { return std::tie(dim, b, d) < std::tie(o.dim, o.b, o.d); }
  bool operator==(const Bar& o) const { return dim == o.dim && b == o.b && d == o.d; }
};
typedef std::vector<Bar> Bars;
const double kInf = std::numeric_limits<double>::infinity();

inline std::string show(const Bars& v) {
  std::ostringstream o; o.precision(17);
  for (auto& x : v) o << "(" << x.dim << ";" << x.b << "," << x.d << ")";
  return v.empty() ? std::string("{}") : o.str();
}

// how two sorted multisets differ (stable words for the signature)
inline const char* diff_class(const Bars& got, const Bars& want) {
  if (got.size() < want.size()) return "missing";
  if (got.size() > want.size()) return "extra";
  Bars g = got, w = want;
  for (auto& x : g) x.dim = 0;
  for (auto& x : w) x.dim = 0;
  std::sort(g.begin(), g.end()); std::sort(w.begin(), w.end());
  if (g == w) return "wrong_dimension";
  return "wrong_interval";
}

struct Scenario {
  int ui = 0;
  const Universe* U = nullptr;
  std::vector<Op> ops;
  std::vector<zzo::Interval> iv;     // the oracle's answer for the whole sequence
  std::vector<double> f;             // filtration value supplied with operation i
  bool decreasing = false;
  std::vector<long long> key_at;     // cell key used by operation i (insertion: new key; removal: key of the cell)
  unsigned prealloc = 0;
  int n() const { return (int)ops.size(); }
  const char* opname(int i) const { return ops[i].kind == 0 ? "insert" : ops[i].kind == 1 ? "remove" : "identity"; }
  std::string sig(int i) const { return std::string("op=") + opname(i) + ",arrow=" + arrow_class(ops, iv, i); }
  int celldim(int i) const { return U->cells[ops[i].cell].dim; }
};

// keys and values for the filtered front-ends
inline void dress(vh::Rng& r, Scenario& S, bool key64) {
  const int n = S.n();
  S.decreasing = r.chance(1, 5);
  const double steps[] = {0, 0, 0, 0.25, 0.25, 0.5, 1, 2.75};
  double v = (double)r.range(-8, 12) / 4;
  S.f.assign(n, 0);
  const unsigned plateau = (unsigned)r.below(3);  // 0: values change often, 2: long plateaus
  for (int i = 0; i < n; ++i) {
    double st = steps[r.below(8)];
    if (plateau && r.below(3) < plateau) st = 0;
    v += S.decreasing ? -st : st;
    S.f[i] = v;
  }
  // keys: 0 small permuted (one per universe cell), 1 sparse (one per universe cell), 2 fresh key at every insertion
  const unsigned mode = (unsigned)r.below(3);
  std::vector<long long> cell_key(S.U->cells.size());
  std::set<long long> used;
  auto fresh = [&]() {
    for (;;) {
      long long k = mode == 0 ? (long long)r.below(2 * S.U->cells.size() + 3 * (size_t)n)
                    : key64 ? (long long)(r.next() >> 2) - (1LL << 61)
                            : (long long)r.range(-2000000000L, 2000000000L);
      if (used.insert(k).second) return k;
    }
  };
  for (auto& k : cell_key) k = fresh();
  S.key_at.assign(n, 0);
  std::vector<long long> cur(S.U->cells.size(), 0);
  for (int i = 0; i < n; ++i) {
    if (S.ops[i].kind == 0) { cur[S.ops[i].cell] = (mode == 2) ? fresh() : cell_key[S.ops[i].cell]; S.key_at[i] = cur[S.ops[i].cell]; }
    else if (S.ops[i].kind == 1) S.key_at[i] = cur[S.ops[i].cell];
  }
  S.prealloc = (unsigned)r.pick(std::vector<int>{0, 0, 1, 7, 28, 100});
}

inline void log_scenario(vh::Case& c, const Scenario& S) {
  c.log("universe=" + vh::str(S.ui) + " (" + S.U->kind + ") prealloc=" + vh::str(S.prealloc) + " ops: " + show_ops(*S.U, S.ops));
  std::string s = "values:"; for (double x : S.f) s += " " + vh::str(x);
  c.log(s);
  s = "keys:"; for (size_t i = 0; i < S.key_at.size(); ++i) s += " " + (S.ops[i].kind == 2 ? std::string("-") : vh::str(S.key_at[i]));
  c.log(s);
  c.log("oracle: " + zzo::show(S.iv));
}

// ------------------------------------------------------------------ expectations at prefix i (operations 0..i executed)
inline Bars want_died_at(const Scenario& S, int i) {
  Bars w; for (auto& I : S.iv) if (I.death == i) w.push_back(Bar{I.dim, (double)I.birth, (double)I.death});
  std::sort(w.begin(), w.end()); return w;
}
inline Bars want_finite_upto(const Scenario& S, int i, int dimmax) {
  Bars w; for (auto& I : S.iv) if (I.death >= 0 && I.death <= i && (dimmax < 0 || I.dim < dimmax)) w.push_back(Bar{I.dim, (double)I.birth, (double)I.death});
  std::sort(w.begin(), w.end()); return w;
}
inline Bars want_open_at(const Scenario& S, int i, int dimmax) {
  Bars w; for (auto& I : S.iv) if (I.birth <= i && (I.death < 0 || I.death > i) && (dimmax < 0 || I.dim < dimmax)) w.push_back(Bar{I.dim, (double)I.birth, kInf});
  std::sort(w.begin(), w.end()); return w;
}
// translation to values.  exact orientation when the values are non-decreasing; (min,max) when they are decreasing
inline Bar to_values(const Scenario& S, const Bar& x) {
  double b = S.f[(int)x.b], d = x.d == kInf ? kInf : S.f[(int)x.d];
  if (S.decreasing && d != kInf && b > d) std::swap(b, d);
  return Bar{x.dim, b, d};
}
inline void normalise(const Scenario& S, Bars& v) {
  if (S.decreasing) for (auto& x : v) if (x.d != kInf && x.b > x.d) std::swap(x.b, x.d);
  std::sort(v.begin(), v.end());
}

inline bool compare(vh::Case& c, const std::string& check, const std::string& sig, const Bars& got, const Bars& want, const std::string& ctx) {
  c.count("cmp." + check);
  if (got == want) return true;
  c.violation(check, sig + "," + diff_class(got, want), ctx + ": got " + show(got) + " want " + show(want));
  return false;
}

template <class Opt>
struct Exec {
  typedef Gudhi::zigzag_persistence::Zigzag_persistence<Opt> ZP;
  typedef Gudhi::zigzag_persistence::Filtered_zigzag_persistence<Opt> FZ;
  typedef Gudhi::zigzag_persistence::Filtered_zigzag_persistence_with_storage<Opt> FS;
  typedef typename Opt::Internal_key Index;
  typedef typename Opt::Cell_key Key;
  typedef typename Opt::Dimension Dim;

  // ---------------------------------------------------------------- Zigzag_persistence
  static bool run_zp(vh::Case& c, const Scenario& S, bool light = false) {
    Bars now;
    ZP zp([&](Dim d, Index b, Index de) { now.push_back(Bar{(int)d, (double)b, (double)de}); }, S.prealloc);
    std::vector<Index> arrow_of(S.U->cells.size(), -1);
    if (!light) c.log("run Zigzag_persistence");
    for (int i = 0; i < S.n(); ++i) {
      const Op& o = S.ops[i];
      now.clear();
      Index ret;
      if (o.kind == 0) {
        std::vector<Index> bd;
        for (size_t f = 0; f < S.U->cells.size(); ++f) if (S.U->cells[o.cell].bdry >> f & 1) bd.push_back(arrow_of[f]);
        std::sort(bd.begin(), bd.end());   // documented: ordered by increasing arrow numbers
        if (i % 3 == 1) { std::list<Index> l(bd.begin(), bd.end()); ret = zp.insert_cell(l, (Dim)S.U->cells[o.cell].dim); }
        else ret = zp.insert_cell(bd, (Dim)S.U->cells[o.cell].dim);
        arrow_of[o.cell] = (Index)i;
      } else if (o.kind == 1) {
        ret = zp.remove_cell(arrow_of[o.cell]);
        arrow_of[o.cell] = -1;
      } else {
        ret = zp.apply_identity();
      }
      const std::string at = "step " + vh::str(i) + " (" + S.opname(i) + ")";
      if (ret != (Index)i) { c.violation("zp.operation_number", S.sig(i), at + " returned " + vh::str(ret)); return false; }
      std::sort(now.begin(), now.end());
      if (!compare(c, "zp.streamed", S.sig(i), now, want_died_at(S, i), at)) return false;
      Bars open;
      zp.get_current_infinite_intervals([&](Dim d, Index b) { open.push_back(Bar{(int)d, (double)b, kInf}); });
      std::sort(open.begin(), open.end());
      if (!compare(c, "zp.open", S.sig(i), open, want_open_at(S, i, -1), at)) return false;
    }
    return true;
  }

  // ---------------------------------------------------------------- Filtered_zigzag_persistence (streaming, values)
  static bool run_fz(vh::Case& c, const Scenario& S, vh::Rng& r) {
    Bars now;
    FZ fz([&](Dim d, double b, double de) { now.push_back(Bar{(int)d, b, de}); }, S.prealloc);
    c.log("run Filtered_zigzag_persistence");
    std::vector<Key> key_of(S.U->cells.size(), 0);
    for (int i = 0; i < S.n(); ++i) {
      const Op& o = S.ops[i];
      now.clear();
      Index ret;
      if (o.kind == 0) {
        std::vector<Key> bd;
        for (size_t f = 0; f < S.U->cells.size(); ++f) if (S.U->cells[o.cell].bdry >> f & 1) bd.push_back(key_of[f]);
        r.shuffle(bd);                      // no order is documented for the filtered classes
        key_of[o.cell] = (Key)S.key_at[i];
        ret = fz.insert_cell((Key)S.key_at[i], bd, (Dim)S.U->cells[o.cell].dim, S.f[i]);
      } else if (o.kind == 1) {
        ret = fz.remove_cell((Key)S.key_at[i], S.f[i]);
      } else {
        ret = fz.apply_identity();
      }
      const std::string at = "step " + vh::str(i) + " (" + S.opname(i) + ")";
      if (ret != (Index)i) { c.violation("fz.operation_number", S.sig(i), at + " returned " + vh::str(ret)); return false; }
      Bars want;
      for (auto& x : want_died_at(S, i)) {
        if (S.f[(int)x.b] == S.f[(int)x.d]) { c.count("fz.zero_length_dropped"); continue; }
        want.push_back(to_values(S, x));
        c.count("fz.positive_length");
      }
      normalise(S, now); std::sort(want.begin(), want.end());
      if (!compare(c, "fz.streamed", S.sig(i) + (S.decreasing ? ",decreasing" : ""), now, want, at)) return false;
      Bars open, wopen;
      fz.get_current_infinite_intervals([&](Dim d, double b) { open.push_back(Bar{(int)d, b, kInf}); });
      for (auto& x : want_open_at(S, i, -1)) wopen.push_back(to_values(S, x));
      std::sort(open.begin(), open.end()); std::sort(wopen.begin(), wopen.end());
      if (!compare(c, "fz.open", S.sig(i), open, wopen, at)) return false;
    }
    return true;
  }

  // ---------------------------------------------------------------- Filtered_zigzag_persistence_with_storage
  static bool run_fs(vh::Case& c, const Scenario& S, vh::Rng& r, int dimmax) {
    FS fs(S.prealloc, dimmax);
    c.log("run Filtered_zigzag_persistence_with_storage ignoreCyclesAboveDim=" + vh::str(dimmax));
    c.count(dimmax < 0 ? "fs.dimmax.none" : "fs.dimmax." + vh::str(dimmax));
    std::vector<Key> key_of(S.U->cells.size(), 0);
    const std::string dsig = dimmax < 0 ? ",all_dims" : ",ignored_dims";
    for (int i = 0; i < S.n(); ++i) {
      const Op& o = S.ops[i];
      Index ret;
      if (o.kind == 0) {
        std::vector<Key> bd;
        for (size_t f = 0; f < S.U->cells.size(); ++f) if (S.U->cells[o.cell].bdry >> f & 1) bd.push_back(key_of[f]);
        r.shuffle(bd);
        key_of[o.cell] = (Key)S.key_at[i];
        if (dimmax >= 0 && S.U->cells[o.cell].dim > dimmax) c.count("fs.skipped_insertion");
        ret = fs.insert_cell((Key)S.key_at[i], bd, (Dim)S.U->cells[o.cell].dim, S.f[i]);
      } else if (o.kind == 1) {
        if (dimmax >= 0 && S.U->cells[o.cell].dim > dimmax) c.count("fs.skipped_removal");
        ret = fs.remove_cell((Key)S.key_at[i], S.f[i]);
      } else {
        ret = fs.apply_identity();
      }
      const std::string at = "step " + vh::str(i) + " (" + S.opname(i) + ")";
      const std::string sg = S.sig(i) + dsig;
      if (ret != (Index)i) { c.violation("fs.operation_number", sg, at + " returned " + vh::str(ret)); return false; }
      // index diagram
      Bars idx;
      for (auto& b : fs.get_index_persistence_diagram()) idx.push_back(Bar{(int)b.dim, (double)b.birth, (double)b.death});
      std::sort(idx.begin(), idx.end());
      Bars widx = want_finite_upto(S, i, dimmax);
      if (!compare(c, "fs.index_diagram", sg, idx, widx, at)) return false;
      // value of every index that appears in the index diagram (documented use of get_filtration_value_from_index)
      for (auto& b : idx) {
        for (double ix : {b.b, b.d}) {
          double got = fs.get_filtration_value_from_index((Index)ix);
          c.count("cmp.fs.value_from_index");
          if (got != S.f[(int)ix]) {
            c.violation("fs.value_from_index", std::string("op_at_index=") + S.opname((int)ix) + dsig,
                        at + ": index " + vh::str(ix) + " -> " + vh::str(got) + " supplied " + vh::str(S.f[(int)ix]));
            return false;
          }
        }
      }
      // value diagram: random threshold (never equal to a length: lengths are multiples of 1/4, thresholds odd multiples of 1/8)
      const double thr[] = {0, 0, 0.125, 0.375, 0.625, 1.125, 2.875};
      double sh = thr[r.below(7)];
      bool inf = !r.chance(1, 4);
      bool dflt = (i == S.n() - 1) || r.chance(1, 6);
      if (dflt) { sh = 0; inf = true; }
      auto diag = dflt ? fs.get_persistence_diagram() : fs.get_persistence_diagram(sh, inf);
      Bars got, want;
      for (auto& b : diag) got.push_back(Bar{(int)b.dim, (double)b.birth, (double)b.death});
      for (auto& x : widx) {
        Bar y = to_values(S, x);
        double len = std::fabs(S.f[(int)x.d] - S.f[(int)x.b]);
        if (len == 0) { c.count("fs.zero_length_dropped"); continue; }
        if (!(len > sh)) { c.count("fs.short_dropped"); continue; }
        want.push_back(y);
        c.count("fs.bar_kept");
      }
      if (inf) for (auto& x : want_open_at(S, i, dimmax)) want.push_back(to_values(S, x));
      if (!S.decreasing) {
        // orientation: birth <= death as delivered
        for (auto& x : got) if (x.b > x.d) { c.violation("fs.diagram", sg + ",birth_after_death", at + ": " + show(got)); return false; }
      }
      normalise(S, got); std::sort(want.begin(), want.end());
      if (!compare(c, "fs.diagram", sg + (sh > 0 ? ",threshold" : "") + (inf ? "" : ",finite_only") + (S.decreasing ? ",decreasing" : ""), got, want, at)) return false;
    }
    return true;
  }

  // ---------------------------------------------------------------- one random case
  static void random_case(vh::Case& c, const GenParams& gp, bool key64) {
    vh::Rng& r = c.rng;
    Scenario S;
    S.ui = gp.churn ? pick_churn_universe(r) : pick_universe(r);
    S.U = &universes()[S.ui];
    S.ops = gen_history(r, *S.U, gp);
    zzo::Result res = zzo::zigzag_intervals(S.U->cells, S.ops);
    dress(r, S, key64);
    S.iv = res.intervals;
    log_scenario(c, S);
    if (!res.ok) { c.violation("oracle.inconsistent", "zigzag_ranks", res.why); return; }
    int nrem = 0, nreins = 0, nid = 0; std::set<int> removed;
    for (int i = 0; i < S.n(); ++i) {
      const Op& o = S.ops[i];
      c.count(std::string("op.") + S.opname(i));
      c.count(std::string("arrow.") + arrow_class(S.ops, S.iv, i));
      if (o.kind == 1) { ++nrem; removed.insert(o.cell); c.count("op.remove.dim" + vh::str(S.celldim(i))); }
      if (o.kind == 0 && removed.count(o.cell)) { ++nreins; c.count("op.reinsert"); }
      if (o.kind == 2) ++nid;
    }
    c.count("universe." + S.U->kind);
    if (nrem >= 3) c.count("seq.removals_ge3");
    if (S.decreasing) c.count("seq.decreasing_values");
    int maxd = 0;
    for (auto& I : S.iv) { c.count("interval.dim" + vh::str(I.dim)); c.count(I.death < 0 ? "interval.open" : "interval.finite"); maxd = std::max(maxd, I.dim);
      if (I.death >= 0 && I.death - I.birth >= 5) c.count("interval.long_finite"); }

    if (gp.insertion_only) {
      // ordinary persistence of the insertion order, by textbook column reduction
      std::vector<oracle::Cell> cells; std::vector<int> op_of_pos; std::map<int, int> pos_of_cell;
      for (int i = 0; i < S.n(); ++i) if (S.ops[i].kind == 0) {
        oracle::Cell cl; cl.dim = S.celldim(i);
        for (size_t f = 0; f < S.U->cells.size(); ++f) if (S.U->cells[S.ops[i].cell].bdry >> f & 1) cl.bdry.emplace_back(pos_of_cell.at((int)f), 1);
        pos_of_cell[S.ops[i].cell] = (int)cells.size(); cells.push_back(cl); op_of_pos.push_back(i);
      }
      std::vector<zzo::Interval> ord;
      for (auto& b : oracle::reduce(cells, 2).bars) ord.push_back(zzo::Interval{b.dim, op_of_pos[b.birth], b.death < 0 ? -1 : op_of_pos[b.death]});
      std::sort(ord.begin(), ord.end());
      if (ord != S.iv) { c.violation("oracle.inconsistent", "insertion_only_vs_zp_reduce", "zigzag_ranks " + zzo::show(S.iv) + " zp_reduce " + zzo::show(ord)); return; }
      c.count("cmp.insertion_only.zp_reduce");
    }

    bool ok = run_zp(c, S);
    ok = run_fz(c, S, r) && ok;
    ok = run_fs(c, S, r, -1) && ok;
    int dm = (int)r.pick(std::vector<int>{0, 1, 1, 1, 2, 2, 2, 3, 3, 4});
    ok = run_fs(c, S, r, dm) && ok;
    if (!ok) return;
    c.count("steps", (uint64_t)S.n());
    bool nontriv = gp.insertion_only ? (S.iv.size() >= 4 && maxd >= 1) : (nrem >= 2 && S.iv.size() >= 4 && maxd >= 1);
    if (nontriv) c.nontrivial(vh::hash_str(show_ops(*S.U, S.ops) + "|" + vh::str(S.ui)));
    c.sample("{\"universe\":\"" + S.U->kind + "\",\"ops\":\"" + vh::jesc(show_ops(*S.U, S.ops)) + "\",\"intervals\":\"" + zzo::show(S.iv) + "\"}");
    (void)nreins; (void)nid;
  }

  // ---------------------------------------------------------------- exhaustive: every valid sequence over the triangle
  // case k = the k-th valid prefix of length P (in DFS order); the case enumerates every completion to length L
  static void exhaustive_case(vh::Case& c) {
    const int P = c.thorough ? 4 : 3, L = c.thorough ? 9 : 7;
    const Universe& U = universes()[0];
    // moves from a complex, in a fixed order: insertions, removals, identity
    auto moves = [&](Chain K) {
      std::vector<Op> m; Model M(U); M.K = K;
      for (int x : M.insertable()) m.push_back(Op{0, x});
      for (int x : M.removable()) m.push_back(Op{1, x});
      m.push_back(Op{2, 0});
      return m;
    };
    auto apply = [](Chain K, const Op& o) { return o.kind == 0 ? (K | bit(o.cell)) : o.kind == 1 ? (K & ~bit(o.cell)) : K; };
    // find the k-th prefix
    std::vector<Op> ops; long seen = -1; bool found = false;
    std::function<void(Chain, int)> find = [&](Chain K, int depth) {
      if (found) return;
      if (depth == P) { if (++seen == c.k) found = true; return; }
      for (auto& o : moves(K)) { ops.push_back(o); find(apply(K, o), depth + 1); if (found) return; ops.pop_back(); }
    };
    find(0, 0);
    if (!found) { c.count("exh.index_out_of_range"); return; }
    c.log("exhaustive prefix: " + show_ops(U, ops));
    Chain K0 = 0; for (auto& o : ops) K0 = apply(K0, o);
    uint64_t leaves = 0; bool stop = false;
    std::function<void(Chain, int)> rec = [&](Chain K, int depth) {
      if (stop) return;
      if (depth == L) {
        Scenario S; S.ui = 0; S.U = &U; S.ops = ops;
        zzo::Result res = zzo::zigzag_intervals(U.cells, S.ops, false);
        S.iv = res.intervals;
        vh::G().history.clear();
        c.log("exhaustive sequence: " + show_ops(U, S.ops));
        c.log("oracle: " + zzo::show(S.iv));
        if (!res.ok) { c.violation("oracle.inconsistent", "zigzag_ranks", res.why); stop = true; return; }
        if (!run_zp(c, S, true)) { stop = true; return; }
        ++leaves;
        return;
      }
      for (auto& o : moves(K)) { ops.push_back(o); rec(apply(K, o), depth + 1); ops.pop_back(); if (stop) return; }
    };
    rec(K0, P);
    c.count("exh.sequences", leaves);
    c.count("exh.prefixes");
    if (leaves > 0) c.nontrivial(vh::hash_str("exh" + vh::str(c.k)));
  }
};

}  // namespace c07
#endif

// C14 — shared monitor code: drives the two specialised routines and compares what they emit with cubical_model.h.
#ifndef VERIF_C14_COMMON_H_
#define VERIF_C14_COMMON_H_
#include <gudhi/Persistence_on_a_line.h>
#include <gudhi/Persistence_on_rectangle.h>
#include "common/vh.h"
#include "cubical_model.h"
#include <list>
#include <functional>

namespace c14 {

const double kInf = std::numeric_limits<double>::infinity();

// ---------------------------------------------------------------------------------------------- per-case context
struct Ctx {
  vh::Case& c;
  std::string header;                 // first line(s) of the history of the current case
  std::set<std::string> reported;     // (check|sig) already reported in this case: one record per situation per case
  bool any_violation = false;
  explicit Ctx(vh::Case& c_) : c(c_) {}
  // the history of a block case is "header + the input being processed": it is what a sanitizer report / crash dumps
  void current_input(const std::string& s) {
    std::string& h = vh::G().history;
    h.assign(header); h += s; h += '\n';
  }
  // detail: callable returning the text; only rendered for the first occurrence of (check, sig) in the case
  template <class Detail>
  void violation(const std::string& check, const std::string& sig, Detail&& detail) {
    any_violation = true;
    c.count("violations.observed");
    if (!reported.insert(check + "|" + sig).second) { c.count("violations.same_signature_not_rereported"); return; }
    c.violation(check, sig, detail());
  }
};

inline std::string show_vals(const std::vector<double>& v) { return vh::vstr(v); }

// description of the input of the current comparison, only rendered when a violation is reported
struct Input_txt {
  int r, cN; const std::vector<double>* vals;
  std::string str() const { return (r ? vh::str(r) + "x" + vh::str(cN) + " cells(C order)=" : std::string("line=")) + vh::vstr(*vals); }
};
inline std::string operator+(const std::string& a, const Input_txt& b) { return a + b.str(); }
inline std::string operator+(const char* a, const Input_txt& b) { return std::string(a) + b.str(); }

// ---------------------------------------------------------------------------------------------- diagram comparison
struct Expected {
  std::vector<Interval> offdiag;  // birth < death (the death may be +inf and the birth -inf when the input has such values)
  std::vector<Interval> diag;     // birth == death
  double minimum = 0;
  int n_essential = 0;
  bool has_inf = false;           // the input contains +inf or -inf
  bool diag_known = true;         // false when the oracle used does not produce the zero-length pairs
};
inline Expected expected_from(Model_diagram&& D, const std::vector<double>& vals) {
  Expected e;
  e.offdiag = std::move(D.offdiag); e.diag = std::move(D.diag);
  e.n_essential = (int)D.essential.size();
  if (!D.essential.empty()) e.minimum = D.essential.back();
  for (double x : vals) if (x == kInf || x == -kInf) e.has_inf = true;
  return e;
}
inline Expected expected_of(int n_rows, int n_cols, const std::vector<double>& vals) {
  return expected_from(lower_star_pairs(n_rows, n_cols, vals), vals);
}
inline bool same_expected(const Expected& a, const Expected& b, bool with_diag) {
  return a.offdiag == b.offdiag && a.n_essential == b.n_essential && a.minimum == b.minimum && (!with_diag || a.diag == b.diag);
}

// multiset a - b (both sorted)
inline std::vector<Interval> ms_minus(const std::vector<Interval>& a, const std::vector<Interval>& b) {
  std::vector<Interval> o;
  std::set_difference(a.begin(), a.end(), b.begin(), b.end(), std::back_inserter(o));
  return o;
}

// emitted: every finite pair the routine produced, as (dim, birth value, death value).  Returns true when all checks pass.
inline bool compare_with_model(Ctx& X, const std::string& who, const std::string& sig, const Input_txt& input_txt,
                               std::vector<Interval> emitted, const Expected& E, bool have_ret, double ret) {
  vh::Case& c = X.c;
  bool ok = true;
  std::vector<Interval> off, dg;
  bool reversed = false, nonfinite = false;
  for (auto& i : emitted) {
    if (!(i.birth <= i.death)) reversed = true;
    // (an input without infinite values cannot have a pair with an infinite end; with them, (b, +inf) is an ordinary pair)
    if (!E.has_inf && (i.death == kInf || i.birth == kInf || i.birth == -kInf)) nonfinite = true;
    if (i.birth == i.death) dg.push_back(i); else off.push_back(i);
  }
  std::sort(off.begin(), off.end()); std::sort(dg.begin(), dg.end());
  c.count("cmp." + who + ".orientation");
  if (reversed || nonfinite) {
    X.violation(who + ".pair_orientation", sig + (reversed ? ",death_before_birth" : ",non_finite_pair"), [&] { return "input " + input_txt + " emitted " + oracle::show(off) + " expected " + oracle::show(E.offdiag); });
    ok = false;
  }
  c.count("cmp." + who + ".offdiag_multiset");
  if (off != E.offdiag) {
    auto missing = ms_minus(E.offdiag, off), extra = ms_minus(off, E.offdiag);
    int dim = !missing.empty() ? missing[0].dim : extra[0].dim;
    std::string s = sig + ",dim" + vh::str(dim) + (missing.empty() ? ",extra_interval" : extra.empty() ? ",missing_interval" : ",wrong_interval");
    X.violation(who + ".offdiag_multiset", s, [&] { return "input " + input_txt + " emitted(non-zero-length) " + oracle::show(off) + " expected " + oracle::show(E.offdiag) +
                " missing " + oracle::show(missing) + " extra " + oracle::show(extra); });
    ok = false;
  }
  c.count("cmp." + who + ".diag_subset");
  c.count("emitted.zero_length_pairs", dg.size());
  if (!dg.empty() && who.compare(0, 4, "line") == 0) {
    // the 1-D routine documents that values which would only form pairs of length 0 do not appear in its output, and
    // the property asks for exactly the non-zero-length intervals: a zero-length pair from the line routine is a violation
    // (the rectangle routine does emit diagonal points, which its only caller filters: those are only checked for being real)
    X.violation(who + ".zero_length_emitted", sig, [&] { return "input " + input_txt + " emitted zero-length pairs " + oracle::show(dg); });
    ok = false;
  } else if (!dg.empty() && E.diag_known) {
    auto bad = ms_minus(dg, E.diag);
    if (!bad.empty()) {
      X.violation(who + ".diag_subset", sig + ",dim" + vh::str(bad[0].dim), [&] { return "input " + input_txt + " emitted zero-length pairs " + oracle::show(dg) + " but the filtration only has " + oracle::show(E.diag); });
      ok = false;
    }
  }
  if (have_ret) {
    c.count("cmp." + who + ".global_minimum");
    if (!(ret == E.minimum)) {
      X.violation(who + ".global_minimum", sig, [&] { return "input " + input_txt + " returned minimum " + vh::str(ret) + " expected " + vh::str(E.minimum); });
      ok = false;
    }
  }
  return ok;
}

// ---------------------------------------------------------------------------------------------- rectangle
inline const char* shape_class(int r, int cN) {
  if (r == 2 && cN == 2) return "thin_2x2";
  if (r == 2) return "thin_2rows";
  if (cN == 2) return "thin_2cols";
  return "thick";
}

// Input-side classification used in signatures (computed from the values only).  When a side has exactly two cells, two
// (or four) corner cells of the rectangle touch the same interior grid vertex.  The predicate is true when, at such a
// vertex, the smallest of the four surrounding cells (ties: smallest index) is a corner cell whose value is strictly
// smaller than the value of the LAST (largest index) corner cell touching that vertex.
inline bool shared_corner_min_not_last(int r, int cN, const std::vector<double>& v) {
  if (r != 2 && cN != 2) return false;
  auto at = [&](int y, int x) { return y * cN + x; };
  int corners[4] = {at(0, 0), at(0, cN - 1), at(r - 1, 0), at(r - 1, cN - 1)};
  int cvert[4][2] = {{0, 0}, {0, cN - 2}, {r - 2, 0}, {r - 2, cN - 2}};  // interior vertex (y, x) = between cells y,y+1 and x,x+1
  for (int a = 0; a < 4; ++a) {
    int last = -1; bool shared = false;
    for (int b = 0; b < 4; ++b) if (cvert[b][0] == cvert[a][0] && cvert[b][1] == cvert[a][1]) { if (b != a) shared = true; last = std::max(last, corners[b]); }
    if (!shared) continue;
    int y = cvert[a][0], x = cvert[a][1];
    int around[4] = {at(y, x), at(y, x + 1), at(y + 1, x), at(y + 1, x + 1)};
    int best = around[0];
    for (int k = 1; k < 4; ++k) if (v[around[k]] < v[best] || (v[around[k]] == v[best] && around[k] < best)) best = around[k];
    bool best_is_corner = false;
    for (int b = 0; b < 4; ++b) if (corners[b] == best && cvert[b][0] == y && cvert[b][1] == x) best_is_corner = true;
    if (best_is_corner && v[best] < v[last]) return true;
  }
  return false;
}

template <class FV, class Index>
bool check_rectangle(Ctx& X, int r, int cN, const std::vector<double>& vals, const Expected& E, const Input_txt& input_txt) {
  vh::Case& c = X.c;
  const size_t n = (size_t)r * cN;
  std::vector<FV> in(n);
  for (size_t i = 0; i < n; ++i) in[i] = (FV)vals[i];
  const std::string sigbase = std::string("shape=") + shape_class(r, cN) + ",shared_corner_min_not_last=" +
                              (shared_corner_min_not_last(r, cN, vals) ? "1" : "0");
  bool ok = true;
#ifdef GUDHI_DEBUG
  c.count("build.debug_checks_live.rect");
#endif
  try {
  // ---- value mode
  {
    std::vector<Interval> em;
    FV ret = Gudhi::cubical_complex::persistence_on_rectangle_from_top_cells<false>(
        in.data(), (Index)r, (Index)cN,
        [&](FV b, FV d) { em.push_back(Interval{0, (double)b, (double)d}); },
        [&](FV b, FV d) { em.push_back(Interval{1, (double)b, (double)d}); });
    c.count("call.rect.values");
    ok &= compare_with_model(X, "rect.values", sigbase, input_txt, em, E, true, (double)ret);
  }
  // ---- index mode
  {
    std::vector<std::pair<Index, Index>> p0, p1;
    Index ret = Gudhi::cubical_complex::persistence_on_rectangle_from_top_cells<true>(
        in.data(), (Index)r, (Index)cN,
        [&](Index b, Index d) { p0.emplace_back(b, d); },
        [&](Index b, Index d) { p1.emplace_back(b, d); });
    c.count("call.rect.indices");
    auto in_range = [&](Index i) { return !(i < (Index)0) && (size_t)i < n; };
    bool range_ok = in_range(ret);
    for (auto& p : p0) range_ok = range_ok && in_range(p.first) && in_range(p.second);
    for (auto& p : p1) range_ok = range_ok && in_range(p.first) && in_range(p.second);
    c.count("cmp.rect.indices.range");
    if (!range_ok) {
      X.violation("rect.indices.range", sigbase, [&] { return "input " + input_txt + " emitted an index outside [0," + vh::str(n) + ")"; });
      return false;
    }
    std::vector<Interval> em;
    for (auto& p : p0) em.push_back(Interval{0, vals[(size_t)p.first], vals[(size_t)p.second]});
    for (auto& p : p1) em.push_back(Interval{1, vals[(size_t)p.first], vals[(size_t)p.second]});
    ok &= compare_with_model(X, "rect.indices", sigbase, input_txt, em, E, true, vals[(size_t)ret]);
    // Two distinct classes of non-zero length cannot be born in the same cell (a closed square is connected), nor can one
    // square kill two 1-cycles: birth indices of the non-zero-length 0-dimensional pairs (and the returned one) are
    // pairwise distinct, and so are the death indices of the non-zero-length 1-dimensional pairs.
    std::vector<size_t> b0{(size_t)ret}, d1;
    for (auto& p : p0) if (vals[(size_t)p.first] != vals[(size_t)p.second]) b0.push_back((size_t)p.first);
    for (auto& p : p1) if (vals[(size_t)p.first] != vals[(size_t)p.second]) d1.push_back((size_t)p.second);
    std::sort(b0.begin(), b0.end()); std::sort(d1.begin(), d1.end());
    c.count("cmp.rect.indices.unique");
    if (std::adjacent_find(b0.begin(), b0.end()) != b0.end() || std::adjacent_find(d1.begin(), d1.end()) != d1.end()) {
      X.violation("rect.indices.unique", sigbase, [&] { return "input " + input_txt + " the same cell index is the birth of two 0-classes or the death of two 1-classes"; });
      ok = false;
    }
  }
  } catch (const std::logic_error& e) {
    // only possible in a build without NDEBUG: one of the routine's own GUDHI_CHECK lines ("Bug in Gudhi ...") fired on an
    // input of the documented domain (n_rows, n_cols >= 2 always holds here)
    const std::string what = e.what();
    X.violation("rect.debug_check_failed", sigbase, [&] { return "input " + input_txt + " std::logic_error: " + what; });
    return false;
  }
  return ok;
}

// evidence: which comparison pattern each cell of the rectangle presents to the routine's local pairing
// (bit k set = neighbour k is larger than the cell in the (value, index) order).
inline void count_neighbour_patterns(vh::Case& c, int r, int cN, const std::vector<double>& v) {
  auto larger = [&](int a, int b) { return v[a] > v[b] || (v[a] == v[b] && a > b); };
  static const int dy8[8] = {-1, -1, -1, 0, 0, 1, 1, 1}, dx8[8] = {-1, 0, 1, -1, 1, -1, 0, 1};
  char buf[32];
  for (int y = 0; y < r; ++y)
    for (int x = 0; x < cN; ++x) {
      bool by = (y == 0 || y == r - 1), bx = (x == 0 || x == cN - 1);
      if (by && bx) continue;  // corners
      int i = y * cN + x; unsigned pat = 0; int k = 0;
      for (int t = 0; t < 8; ++t) {
        int yy = y + dy8[t], xx = x + dx8[t];
        if (yy < 0 || yy >= r || xx < 0 || xx >= cN) continue;
        if (larger(yy * cN + xx, i)) pat |= 1u << k;
        ++k;
      }
      if (!by && !bx) { snprintf(buf, sizeof buf, "nbr8.%02x", pat); c.count(buf); }
      else {
        const char* side = by ? (y == 0 ? "row0" : "rowN") : (x == 0 ? "col0" : "colN");
        snprintf(buf, sizeof buf, "nbr5.%s.%02x", side, pat); c.count(buf);
      }
    }
}

// ---------------------------------------------------------------------------------------------- line
// Runs the line routine on `in` (any range, read ONCE: single-pass ranges are allowed), with comparator lt.
//   ranks      : for each input element, a double that is monotone for lt (equal for equivalent elements): the oracle is computed
//                on ranks and the emitted elements are mapped back with rank(x);
//   is_inf(x)  : x is what the routine passes as death of the final call, std::numeric_limits<T>::infinity();
//   inf_is_a_value : that "infinity" is also an ordinary value of T (integral T: it is T(0)): then it is only required in the
//                final call, and every other call is mapped through rank alone.
//   E          : the expected diagram of ranks (ignored when ranks is empty).
template <class Range, class Compare, class Rank, class IsInf>
bool check_line_ranks(Ctx& X, const Range& in, const std::vector<double>& ranks, const Expected& E, Compare lt, Rank rank, IsInf is_inf,
                      bool inf_is_a_value, const std::string& cmpname, const Input_txt& input_txt) {
  vh::Case& c = X.c;
  typedef std::decay_t<decltype(*std::begin(in))> T;
  std::vector<std::pair<T, T>> calls;
  const std::string sig = "line,cmp=" + cmpname;
#ifdef GUDHI_DEBUG
  c.count("build.debug_checks_live.line");
#endif
  try {
    Gudhi::persistent_cohomology::compute_persistence_of_function_on_line(in, [&](T b, T d) { calls.emplace_back(b, d); }, lt);
  } catch (const std::logic_error& e) {
    const std::string what = e.what();
    X.violation("line.debug_check_failed", sig, [&] { return "input " + input_txt + " std::logic_error: " + what; });
    return false;
  }
  c.count("call.line." + cmpname);
  if (ranks.empty()) {
    c.count("cmp.line.empty_input");
    if (!calls.empty()) { X.violation("line.empty_input", sig, [&] { return "output functor called on an empty input"; }); return false; }
    return true;
  }
  // convention: the last call is (minimum, infinity); no other call has an infinite death (unless the input has +inf samples)
  c.count("cmp.line.last_call_is_minimum");
  if (calls.empty() || !is_inf(calls.back().second)) {
    X.violation("line.last_call_is_minimum", sig + ",no_final_infinite_call", [&] { return "input " + input_txt + ": last call is not (min, inf)"; });
    return false;
  }
  double ret = rank(calls.back().first);
  calls.pop_back();
  std::vector<Interval> em;
  for (auto& p : calls) em.push_back(Interval{0, rank(p.first), (!inf_is_a_value && is_inf(p.second)) ? kInf : rank(p.second)});
  return compare_with_model(X, "line", sig, input_txt, em, E, true, ret);
}

// lines of more than kLineModelMax samples are judged with the elder-rule oracle alone (the cell model is quadratic on nested inputs)
const size_t kLineModelMax = 200;
inline Expected expected_of_line(Ctx& X, const std::vector<double>& ranks, const Input_txt& input_txt) {
  if (ranks.empty()) return Expected();
  Expected fast = expected_from(line_elder_rule(ranks), ranks);
  if (ranks.size() > kLineModelMax) return fast;
  Expected E = expected_of(0, (int)ranks.size(), ranks);
  X.c.count("cmp.model.line_elder_rule_vs_cell_model");
  if (!same_expected(E, fast, false))
    X.violation("harness.model_line_elder_rule", "line", [&] { return "input " + input_txt + " elder rule " + oracle::show(fast.offdiag) + " cell model " + oracle::show(E.offdiag); });
  return E;
}

// multi-pass ranges: the ranks are read off the range itself
template <class Range, class Compare, class Rank, class IsInf>
bool check_line(Ctx& X, const Range& in, Compare lt, Rank rank, IsInf is_inf, const std::string& cmpname, const Input_txt& input_txt,
                bool inf_is_a_value = false) {
  std::vector<double> ranks;
  for (auto const& x : in) ranks.push_back(rank(x));
  Expected E = expected_of_line(X, ranks, input_txt);
  return check_line_ranks(X, in, ranks, E, lt, rank, is_inf, inf_is_a_value, cmpname, input_txt);
}

// ---------------------------------------------------------------------------------------------- weak orders
// All weak orders of n cells = all surjections cells -> {0..k-1}, k = 1..n.  A block is (k, values of the first p cells).
struct Weak_orders {
  int n, p;
  Weak_orders(int n_, int p_) : n(n_), p(std::min(p_, n_)) {}
  static long ipow(long b, int e) { long r = 1; while (e-- > 0) r *= b; return r; }
  long num_blocks() const { long t = 0; for (int k = 1; k <= n; ++k) t += ipow(k, p); return t; }
  // calls f(values) for every weak order of block b; returns how many
  template <class F> long for_each_in_block(long b, F&& f) const {
    int k = 1;
    while (b >= ipow(k, p)) { b -= ipow(k, p); ++k; }
    std::vector<int> v(n, 0);
    unsigned used = 0;
    for (int i = 0; i < p; ++i) { v[i] = (int)(b % k); b /= k; used |= 1u << v[i]; }
    long cnt = 0;
    rec(p, k, used, v, f, cnt);
    return cnt;
  }
  template <class F> void rec(int i, int k, unsigned used, std::vector<int>& v, F& f, long& cnt) const {
    int missing = k - __builtin_popcount(used);
    if (missing > n - i) return;
    if (i == n) { f(v, k); ++cnt; return; }
    for (int a = 0; a < k; ++a) { v[i] = a; rec(i + 1, k, used | (1u << a), v, f, cnt); }
  }
};

// All maps cells -> {0..L-1} (every weak order with at most L levels, most of them several times).  A block fixes the levels of
// the first p cells; f(levels, number of distinct levels used).
struct Level_maps {
  int n, L, p;
  Level_maps(int n_, int L_, int p_) : n(n_), L(L_), p(std::min(p_, n_)) {}
  long num_blocks() const { return Weak_orders::ipow(L, p); }
  long maps_per_block() const { return Weak_orders::ipow(L, n - p); }
  template <class F> long for_each_in_block(long b, F&& f) const {
    std::vector<int> v(n, 0);
    for (int i = 0; i < p; ++i) { v[i] = (int)(b % L); b /= L; }
    long cnt = 0;
    while (true) {
      unsigned used = 0; for (int x : v) used |= 1u << x;
      f(v, __builtin_popcount(used)); ++cnt;
      int i = p; while (i < n && ++v[i] == L) { v[i] = 0; ++i; }
      if (i == n) break;
    }
    return cnt;
  }
};

}  // namespace c14
#endif

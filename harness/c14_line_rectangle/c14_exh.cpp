// C14 — exhaustive part: every weak order of the cells of short lines and small rectangles.
// A case is one block of weak orders: (number k of distinct levels, levels of the first p cells); the union of the blocks
// of a config is the set of ALL weak orders of that shape (spec.py gives each config exactly num_blocks() cases).
// Second family (configs *_lv): every map cells -> {0..L-1} ("level map", i.e. every weak order with at most L levels) of
// shapes with SEVERAL interior cells (3x4, 4x3, 4x4) and of lines of 9..12 cells; a block fixes the levels of the first p cells.
// In a quarter of the blocks the top level is +inf and / or the bottom level is -inf (the routines only compare values).
#include "c14_common.h"

namespace {
using namespace c14;

struct VI { double v; int i; };   // (value, position) element for the custom-comparator variant of the line routine
struct VI_less { bool operator()(const VI& a, const VI& b) const { return a.v < b.v || (a.v == b.v && a.i < b.i); } };

int prefix_len(int n) { return n <= 5 ? 1 : n <= 7 ? 2 : 3; }

// blocks are visited in a scrambled order so that contiguous shards of case numbers have similar cost
long scramble(long k, long total) { return (long)(((__int128)k * 1000003 + 12345) % total); }

// rank -> value; nlev = number of levels of the enumeration the rank comes from (ranks are 0..nlev-1)
struct Transform {
  double off, scale; bool top_inf, bottom_inf;
  double operator()(int rank, int nlev) const {
    if (top_inf && rank == nlev - 1) return kInf;
    if (bottom_inf && rank == 0) return -kInf;
    return (rank + off) * scale;
  }
  std::string str() const { return "(rank+" + vh::str(off) + ")*" + vh::str(scale) + (top_inf ? ",top=+inf" : "") + (bottom_inf ? ",bottom=-inf" : ""); }
};
Transform pick_transform(vh::Case& c, int n) {
  vh::Rng& r = c.rng;
  static const double scales[] = {1, 0.5, 4, 0.125};
  Transform t{(double)r.range(-n, 1), scales[r.below(4)], false, false};
  if (r.chance(1, 4)) { int m = (int)r.below(3); t.top_inf = (m != 1); t.bottom_inf = (m != 0); c.count("blocks.with_infinite_levels"); }
  return t;
}

// nlev_fixed: 0 for weak orders (the ranks of an input are 0..k-1), L for level maps
template <class Enumerator>
void exh_line_impl(vh::Case& c, int n, const Enumerator& W, int nlev_fixed, const char* family) {
  Ctx X(c);
  const long total = W.num_blocks(), blk = scramble(c.k, total);
  if (c.k >= total) { c.count("skip.block_out_of_range"); return; }
  Transform tr = pick_transform(c, n);
  X.header = std::string("line n=") + vh::str(n) + " " + family + " block=" + vh::str(blk) + " of " + vh::str(total) + " value=" + tr.str() + "\n";
  c.log(X.header.substr(0, X.header.size() - 1));
  long with_interval = 0, sampled = 0;
  const std::string wo = nlev_fixed ? "level_maps" : "weak_orders";
  long cnt = W.for_each_in_block(blk, [&](const std::vector<int>& lv, int k) {
    std::vector<double> vals(n);
    for (int i = 0; i < n; ++i) vals[i] = tr(lv[i], nlev_fixed ? nlev_fixed : k);
    std::string lvs(n, '0'); for (int i = 0; i < n; ++i) lvs[i] = (char)('0' + lv[i]);
    X.current_input("ranks=" + lvs);
    Input_txt txt{0, n, &vals};
    bool ok = true;
    // std::less on a vector<double>
    ok &= check_line(X, vals, std::less<>(), [](double x) { return x; }, [](double x) { return x == kInf; }, "less", txt);
    // std::greater on the negated sequence (a list: forward/bidirectional range, not contiguous)
    { std::list<double> neg; for (double x : vals) neg.push_back(-x);
      ok &= check_line(X, neg, std::greater<>(), [](double x) { return -x; }, [](double x) { return x == kInf; }, "greater_negated", txt); }
    // comparator on (value, position): a total order; the emitted elements are then exactly determined
    { std::vector<VI> el; for (int i = 0; i < n; ++i) el.push_back(VI{vals[i], i + 1});
      std::vector<int> ord(n); for (int i = 0; i < n; ++i) ord[i] = i;
      std::sort(ord.begin(), ord.end(), [&](int a, int b) { return VI_less()(el[a], el[b]); });
      std::vector<double> rk(n + 1, -1); for (int i = 0; i < n; ++i) rk[ord[i] + 1] = i;
      ok &= check_line(X, el, VI_less(), [&](const VI& x) { return (x.i >= 1 && x.i <= n) ? rk[x.i] : -2.0; },
                       [](const VI& x) { return x.i == 0; }, "value_index_pair", txt); }
    c.count(wo + ".line");
    if (nlev_fixed) c.count(wo + ".line" + vh::str(n));
    if (k < n) c.count(wo + ".with_ties");
    Expected E = expected_of(0, n, vals);
    if (!E.offdiag.empty()) { ++with_interval; c.count(wo + ".with_finite_interval");
      if (sampled < 32) { ++sampled; c.nontrivial(vh::hash_str(lvs, vh::hash_str("line"))); } }
    (void)ok;
  });
  c.count("blocks.line");
  c.count(std::string("blocks.line") + vh::str(n) + (nlev_fixed ? "_lv" : ""));
  if (with_interval) c.nontrivial(vh::hash_mix(vh::hash_str(nlev_fixed ? "lineblock_lv" : "lineblock"), (uint64_t)(n * 1000003L + blk)));
  vh::G().history = X.header;
  c.sample("{\"block\":\"" + vh::jesc(X.header) + "\",\"weak_orders\":" + vh::str(cnt) + ",\"with_finite_interval\":" + vh::str(with_interval) + "}");
}

void exh_line(vh::Case& c, int n) { exh_line_impl(c, n, Weak_orders(n, prefix_len(n)), 0, "weak orders"); }
// lines of 9..12 cells, 3 levels; 3^(n-6) blocks of 3^6 inputs.  Must match _LV in spec.py.
void exh_line_lv(vh::Case& c, int n) { exh_line_impl(c, n, Level_maps(n, 3, n - 6), 3, "level maps"); }

template <class Index, class Enumerator>
long rect_block(Ctx& X, const Enumerator& W, int nlev_fixed, long blk, int r, int cN, const Transform& tr, long& with_interval, long& with_h1) {
  vh::Case& c = X.c;
  const int n = r * cN;
  long sampled = 0;
  const std::string wo = nlev_fixed ? "level_maps" : "weak_orders";
  const std::string shape = vh::str(r) + "x" + vh::str(cN);
  return W.for_each_in_block(blk, [&](const std::vector<int>& lv, int k) {
    std::vector<double> vals(n);
    for (int i = 0; i < n; ++i) vals[i] = tr(lv[i], nlev_fixed ? nlev_fixed : k);
    std::string lvs(n, '0'); for (int i = 0; i < n; ++i) lvs[i] = (char)('0' + lv[i]);
    X.current_input("ranks(C order)=" + lvs);
    Input_txt txt{r, cN, &vals};
    Expected E = expected_of(r, cN, vals);
    const bool ok = check_rectangle<double, Index>(X, r, cN, vals, E, txt);
    c.count(wo + ".rect");
    if (nlev_fixed) c.count(wo + ".rect" + shape);
    if (k < n) c.count(wo + ".with_ties");
    if (!ok) c.count(wo + ".rect.violating");
    if (r == 2 || cN == 2) { c.count("weak_orders.rect.side_of_2");
      if (shared_corner_min_not_last(r, cN, vals)) { c.count("weak_orders.rect.shared_corner_min_not_last");
        if (!ok) c.count("weak_orders.rect.violating_with_shared_corner_min_not_last"); } }
    if (!nlev_fixed) count_neighbour_patterns(c, r, cN, vals);
    bool h1 = false; for (auto& i : E.offdiag) if (i.dim == 1) h1 = true;
    if (h1) { ++with_h1; c.count(wo + ".with_dim1_interval"); }
    if (!E.offdiag.empty()) { ++with_interval; c.count(wo + ".with_finite_interval");
      if (sampled < 32) { ++sampled; c.nontrivial(vh::hash_str(lvs, vh::hash_mix(vh::hash_str("rect"), r * 16 + cN))); } }
  });
}

template <class Enumerator>
void exh_rect_impl(vh::Case& c, int r, int cN, const Enumerator& W, int nlev_fixed, const char* family) {
  Ctx X(c);
  const int n = r * cN;
  const long total = W.num_blocks(), blk = scramble(c.k, total);
  if (c.k >= total) { c.count("skip.block_out_of_range"); return; }
  Transform tr = pick_transform(c, n);
  const int it = (int)(blk % 3);
  static const char* itn[3] = {"unsigned", "size_t", "int"};
  X.header = "rect " + vh::str(r) + "x" + vh::str(cN) + " " + family + " block=" + vh::str(blk) + " of " + vh::str(total) + " Index=" + itn[it] +
             " value=" + tr.str() + "\n";
  c.log(X.header.substr(0, X.header.size() - 1));
  long with_interval = 0, with_h1 = 0, cnt = 0;
  if (it == 0) cnt = rect_block<unsigned>(X, W, nlev_fixed, blk, r, cN, tr, with_interval, with_h1);
  else if (it == 1) cnt = rect_block<std::size_t>(X, W, nlev_fixed, blk, r, cN, tr, with_interval, with_h1);
  else cnt = rect_block<int>(X, W, nlev_fixed, blk, r, cN, tr, with_interval, with_h1);
  c.count("blocks.rect");
  c.count("blocks.rect" + vh::str(r) + "x" + vh::str(cN) + (nlev_fixed ? "_lv" : ""));
  if (with_interval) c.nontrivial(vh::hash_mix(vh::hash_str(nlev_fixed ? "rectblock_lv" : "rectblock"), (uint64_t)((r * 16 + cN) * 1000003L + blk)));
  vh::G().history = X.header;
  c.sample("{\"block\":\"" + vh::jesc(X.header) + "\",\"weak_orders\":" + vh::str(cnt) + ",\"with_finite_interval\":" + vh::str(with_interval) +
           ",\"with_dim1_interval\":" + vh::str(with_h1) + "}");
}

void exh_rect(vh::Case& c, int r, int cN) { exh_rect_impl(c, r, cN, Weak_orders(r * cN, prefix_len(r * cN)), 0, "weak orders"); }
// 3x4, 4x3: 3 levels, 3^4 blocks of 3^8 inputs.  4x4: 2 levels in the quick tier (2^4 blocks of 2^12), 3 levels in the
// thorough tier (3^7 blocks of 3^9).  Must match _LV in spec.py.
void exh_rect_lv(vh::Case& c, int r, int cN) {
  const int n = r * cN;
  const int L = (n == 16 && !c.thorough) ? 2 : 3;
  const int p = (n == 16) ? (c.thorough ? 7 : 4) : 4;
  exh_rect_impl(c, r, cN, Level_maps(n, L, p), L, "level maps");
}

}  // namespace

VH_CONFIG("line1", [](vh::Case& c) { exh_line(c, 1); });
VH_CONFIG("line2", [](vh::Case& c) { exh_line(c, 2); });
VH_CONFIG("line3", [](vh::Case& c) { exh_line(c, 3); });
VH_CONFIG("line4", [](vh::Case& c) { exh_line(c, 4); });
VH_CONFIG("line5", [](vh::Case& c) { exh_line(c, 5); });
VH_CONFIG("line6", [](vh::Case& c) { exh_line(c, 6); });
VH_CONFIG("line7", [](vh::Case& c) { exh_line(c, 7); });
VH_CONFIG("line8", [](vh::Case& c) { exh_line(c, 8); });
VH_CONFIG("rect2x2", [](vh::Case& c) { exh_rect(c, 2, 2); });
VH_CONFIG("rect2x3", [](vh::Case& c) { exh_rect(c, 2, 3); });
VH_CONFIG("rect3x2", [](vh::Case& c) { exh_rect(c, 3, 2); });
VH_CONFIG("rect2x4", [](vh::Case& c) { exh_rect(c, 2, 4); });
VH_CONFIG("rect4x2", [](vh::Case& c) { exh_rect(c, 4, 2); });
VH_CONFIG("rect3x3", [](vh::Case& c) { exh_rect(c, 3, 3); });
VH_CONFIG("line9_lv", [](vh::Case& c) { exh_line_lv(c, 9); });
VH_CONFIG("line10_lv", [](vh::Case& c) { exh_line_lv(c, 10); });
VH_CONFIG("line11_lv", [](vh::Case& c) { exh_line_lv(c, 11); });
VH_CONFIG("line12_lv", [](vh::Case& c) { exh_line_lv(c, 12); });
VH_CONFIG("rect3x4_lv", [](vh::Case& c) { exh_rect_lv(c, 3, 4); });
VH_CONFIG("rect4x3_lv", [](vh::Case& c) { exh_rect_lv(c, 4, 3); });
VH_CONFIG("rect4x4_lv", [](vh::Case& c) { exh_rect_lv(c, 4, 4); });
VH_MAIN()

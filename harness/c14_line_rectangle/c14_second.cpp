// C14 — "route A = route B" part: the generic route (Bitmap_cubical_complex from top cells + Persistent_cohomology over Z_2)
// is run next to the specialised routines on the same random inputs; both are also compared with the independent model.
// A disagreement between the generic route and the model would question the oracle (or C13), and is reported under its own
// check id (second.*), never merged with the rect.* / line.* checks.
#include "c14_common.h"
#include <gudhi/Bitmap_cubical_complex.h>
#include <gudhi/Persistent_cohomology.h>

namespace {
using namespace c14;

// off-diagonal finite intervals + essential births of the generic route; sizes in Bitmap order (first size = fastest index)
std::vector<Interval> generic_route(const std::vector<unsigned>& sizes, const std::vector<double>& vals, std::vector<double>& essential) {
  typedef Gudhi::cubical_complex::Bitmap_cubical_complex_base<double> Base;
  typedef Gudhi::cubical_complex::Bitmap_cubical_complex<Base> Cubical;
  typedef Gudhi::persistent_cohomology::Field_Zp Field_Zp;
  Cubical cx(sizes, vals, true);
  Gudhi::persistent_cohomology::Persistent_cohomology<Cubical, Field_Zp> pc(cx);
  pc.init_coefficients(2);
  pc.compute_persistent_cohomology(0);
  std::vector<Interval> out;
  for (auto& p : pc.get_persistent_pairs()) {
    double b = cx.filtration(std::get<0>(p)), d = cx.filtration(std::get<1>(p));
    int dim = cx.dimension(std::get<0>(p));
    if (d == kInf) essential.push_back(b);
    else if (b != d) out.push_back(Interval{dim, b, d});
  }
  std::sort(out.begin(), out.end());
  return out;
}

void second_case(vh::Case& c) {
  vh::Rng& r = c.rng;
  Ctx X(c);
  const bool line = r.chance(1, 4);
  int rows = line ? 0 : (int)r.range(2, 9), cols = line ? (int)r.range(1, 40) : (int)r.range(2, 9);
  if (!line && r.chance(1, 4)) (r.below(2) ? rows : cols) = 2;
  const size_t n = (size_t)std::max(rows, 1) * cols;
  long levels = 2 + (long)r.below(r.chance(1, 2) ? 4 : 2 * n);
  std::vector<double> vals(n);
  for (auto& x : vals) x = (double)r.range(-levels / 2, levels / 2) * 0.5;
  c.log(std::string(line ? "line" : "rect") + " " + vh::str(rows) + "x" + vh::str(cols) + " cells(C order)=" + vh::vstr(vals));
  Input_txt txt{rows, cols, &vals};
  Expected E = expected_of(rows, cols, vals);
  std::vector<double> ess;
  std::vector<unsigned> sizes; sizes.push_back((unsigned)cols); if (!line) sizes.push_back((unsigned)rows);
  std::vector<Interval> gen = generic_route(sizes, vals, ess);
  c.count("cmp.second.generic_route_vs_model");
  if (gen != E.offdiag || ess.size() != 1 || ess[0] != E.minimum) {
    X.violation("second.generic_route_vs_model", line ? "line" : std::string("shape=") + shape_class(rows, cols), [&] { return "input " + txt + " Bitmap_cubical_complex+Persistent_cohomology " + oracle::show(gen) + " model " + oracle::show(E.offdiag); });
  }
  // the specialised routine against the model (and hence against the generic route)
  if (line) {
    check_line(X, vals, std::less<>(), [](double x) { return x; }, [](double x) { return x == kInf; }, "less", txt);
    c.count("inputs.second.line");
  } else {
    check_rectangle<double, unsigned>(X, rows, cols, vals, E, txt);
    c.count("inputs.second.rect");
  }
  if (!E.offdiag.empty()) c.nontrivial(vh::hash_str(vh::vstr(vals), vh::hash_mix(vh::hash_str("second"), (uint64_t)(rows * 64 + cols))));
  c.sample("{\"history\":\"" + vh::jesc(vh::G().history.substr(0, 600)) + "\"}");
}
// closed-form checks of the model itself (a failure here is a harness failure, not a finding about GUDHI)
void model_selftest(vh::Case& c) {
  Ctx X(c);
  struct T { int r, cN; std::vector<double> v; std::vector<Interval> want; double mn; };
  const std::vector<T> tests = {
      {0, 5, {3, 1, 2, 0, 5}, {{0, 1, 2}}, 0},                                  // two basins merging over the sample of value 2
      {0, 4, {1, 1, 1, 1}, {}, 1},                                              // plateau
      {0, 6, {0, 4, 1, 3, 2, 5}, {{0, 1, 4}, {0, 2, 3}}, 0},
      {3, 3, {0, 0, 0, 0, 7, 0, 0, 0, 0}, {{1, 0, 7}}, 0},                      // a ring around a high cell: one 1-cycle
      {3, 3, {0, 5, 1, 5, 5, 5, 5, 5, 5}, {{0, 1, 5}}, 0},                      // two minima joined at 5
      {2, 2, {6, 0, 7, 4}, {}, 0},                                              // every sublevel set of a 2x2 rectangle is star-shaped
      {2, 3, {0, 9, 9, 5, 9, 1}, {{0, 1, 9}}, 0},
      {3, 4, {0, 0, 0, 0, 0, 3, 0, 0, 0, 0, 0, 0}, {{1, 0, 3}}, 0},
      {3, 5, {0, 0, 0, 0, 0, 0, 2, 0, 4, 0, 0, 0, 0, 0, 0}, {{1, 0, 2}, {1, 0, 4}}, 0},  // two holes
      {3, 3, {1, 0, 1, 0, 1, 0, 1, 0, 1}, {{1, 0, 1}}, 0},                      // diagonal contacts are connected (shared vertex): a ring
      {3, 3, {0, 5, 5, 5, 0, 5, 5, 5, 5}, {}, 0},                               // two diagonal minima are one component from the start
  };
  for (auto& t : tests) {
    Expected E = expected_of(t.r, t.cN, t.v);
    std::vector<Interval> w = t.want; std::sort(w.begin(), w.end());
    c.count("cmp.model_selftest");
    Input_txt txt{t.r, t.cN, &t.v};
    if (E.offdiag != w || E.minimum != t.mn || E.n_essential != 1)
      X.violation("harness.model_selftest", "closed_form", [&] { return "model on " + txt + " gives " + oracle::show(E.offdiag) + " min " + vh::str(E.minimum) + " expected " + oracle::show(w); });
    // number of cells = sum over all pairs (each finite pair uses two cells, the essential class one)
    size_t ncells = t.r ? (size_t)(2 * t.r + 1) * (2 * t.cN + 1) : (size_t)(2 * t.cN + 1);
    if (2 * (E.offdiag.size() + E.diag.size()) + 1 != ncells)
      X.violation("harness.model_selftest", "cell_count", [&] { return "model on " + txt + ": pairs do not account for all cells"; });
  }
  c.nontrivial(vh::hash_str("model_selftest")); c.nontrivial(vh::hash_str("model_selftest2"));
}
}  // namespace

VH_CONFIG("model_selftest", model_selftest);
VH_CONFIG("second_opinion", second_case);
VH_MAIN()

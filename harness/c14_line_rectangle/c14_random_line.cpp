// C14 — randomised part, lines (second translation unit of the units random / random_dbg; see c14_random.cpp)
#include "c14_random.h"
#include <boost/range/counting_range.hpp>
#include <boost/range/adaptor/transformed.hpp>

namespace {
using namespace c14r;

// T: element type; mk(const std::vector<T>&) returns the range handed to the routine (called once per run of the routine, so that
// single-pass ranges work); cmp: 0 std::less<>, 1 std::greater<> on the negated values, 2 default comparator argument.
// Integral T: numeric_limits<T>::infinity() is T(0), an ordinary value; it is then only required as death of the final call.
template <class T, class MakeRange>
bool line_generic(Ctx& X, const std::vector<double>& vals, const char* cname, int cmp, MakeRange mk) {
  Input_txt txt{0, (int)vals.size(), &vals};
  X.c.count(std::string("range.") + cname);
  const bool iv = std::numeric_limits<T>::is_integer;
  if (iv) X.c.count("inputs.line.integral_value_type");
  auto is_inf = [](T x) { return x == std::numeric_limits<T>::infinity(); };
  std::vector<T> data;
  for (double x : vals) data.push_back(cmp == 1 ? (T)-x : (T)x);
  std::vector<double> ranks;
  for (T x : data) ranks.push_back(cmp == 1 ? -(double)x : (double)x);
  Expected E = expected_of_line(X, ranks, txt);
  if (cmp == 0) {
    auto rg = mk(data);
    return check_line_ranks(X, rg, ranks, E, std::less<>(), [](T x) { return (double)x; }, is_inf, iv, "less", txt);
  } else if (cmp == 1) {  // superlevel sets of -f with std::greater
    auto rg = mk(data);
    return check_line_ranks(X, rg, ranks, E, std::greater<>(), [](T x) { return -(double)x; }, is_inf, iv, "greater_negated", txt);
  } else {                // default comparator argument (no lt passed); an equivalent explicit comparator must give the same calls
    std::vector<std::pair<T, T>> calls, calls2;
    try {
      { auto rg = mk(data); Gudhi::persistent_cohomology::compute_persistence_of_function_on_line(rg, [&](T b, T d) { calls.emplace_back(b, d); }); }
      { auto rg = mk(data); Gudhi::persistent_cohomology::compute_persistence_of_function_on_line(rg, [&](T b, T d) { calls2.emplace_back(b, d); }, std::less<T>()); }
    } catch (const std::logic_error& e) {
      const std::string what = e.what();
      X.violation("line.debug_check_failed", "line,cmp=default", [&] { return "input " + txt + " std::logic_error: " + what; });
      return false;
    }
    X.c.count("cmp.line.default_comparator_same_calls");
    if (calls != calls2) { X.violation("line.default_comparator_same_calls", "line,cmp=default", [&] { return "input " + txt + ": default comparator and std::less<T> give different calls"; }); return false; }
    auto rg = mk(data);
    return check_line_ranks(X, rg, ranks, E, std::less<T>(), [](T x) { return (double)x; }, is_inf, iv, "less_T", txt);
  }
}
template <class Container> struct Make_container {
  template <class T> Container operator()(const std::vector<T>& d) const { return Container(d.begin(), d.end()); }
};
// what the Python binding passes: a by-value transformed counting range (its iterators return prvalues)
struct Make_transformed {
  template <class T> auto operator()(const std::vector<T>& d) const {
    const T* p = d.data();
    return boost::adaptors::transform(boost::counting_range<std::ptrdiff_t>(0, (std::ptrdiff_t)d.size()), [p](std::ptrdiff_t i) { return p[i]; });
  }
};
struct Make_istream {
  template <class T> Istream_range<T> operator()(const std::vector<T>& d) const {
    std::ostringstream os; os.precision(17);
    for (T x : d) os << x << ' ';
    return Istream_range<T>{std::make_shared<std::istringstream>(os.str())};
  }
};

enum Lvariant { L_vector_double, L_vector_double2, L_vector_float, L_list_double, L_deque_float, L_value_index, L_value_index2,
                L_vector_int, L_vector_long, L_transformed, L_istream, L_weak_order_cmp, L_count };

void run_line_variant(vh::Case& c, Ctx& X, const std::vector<double>& vals, int variant, int cmp) {
  const size_t n = vals.size();
  switch (variant) {
    case L_vector_double: case L_vector_double2: line_generic<double>(X, vals, "vector_double", cmp, Make_container<std::vector<double>>()); break;
    case L_vector_float: line_generic<float>(X, vals, "vector_float", cmp, Make_container<std::vector<float>>()); break;
    case L_list_double: line_generic<double>(X, vals, "list_double", cmp, Make_container<std::list<double>>()); break;
    case L_deque_float: line_generic<float>(X, vals, "deque_float", cmp, Make_container<std::deque<float>>()); break;
    case L_vector_int: line_generic<int>(X, vals, "vector_int", cmp, Make_container<std::vector<int>>()); break;
    case L_vector_long: line_generic<long>(X, vals, "vector_long", cmp, Make_container<std::vector<long>>()); break;
    case L_transformed: line_generic<double>(X, vals, "transformed_counting_range", cmp, Make_transformed()); break;
    case L_istream: line_generic<double>(X, vals, "istream_iterator_range", cmp, Make_istream()); break;
    case L_weak_order_cmp: {  // elements (value, tag) compared on the value only; which of two equivalent elements is emitted is free
      const int nn = (int)n;
      std::deque<VT> el; for (int i = 0; i < nn; ++i) el.push_back(VT{vals[i], i + 1});
      Input_txt txt{0, nn, &vals};
      c.count("range.deque_value_tag");
      bool foreign = false;
      auto rank = [&](const VT& x) { if (!(x.tag >= 1 && x.tag <= nn && vals[x.tag - 1] == x.v && std::signbit(vals[x.tag - 1]) == std::signbit(x.v))) foreign = true; return x.v; };
      Expected E = expected_of_line(X, vals, txt);
      // (the death of the final call is numeric_limits<VT>::infinity() = VT(): tag 0; it goes through is_inf, not through rank)
      bool ok = check_line_ranks(X, el, vals, E, VT_less(), [&](const VT& x) { return x.tag == 0 ? x.v : rank(x); }, [](const VT& x) { return x.tag == 0; }, false, "value_only_weak_order", txt);
      c.count("cmp.line.emitted_element_of_input");
      if (ok && foreign) X.violation("line.emitted_element_of_input", "line,cmp=value_only_weak_order", [&] { return "input " + txt + ": an emitted (value, tag) element is not an element of the input"; });
      break;
    }
    default: {  // (value, position) elements with a lexicographic comparator: a total order
      int nn = (int)n;
      std::vector<VI> el; for (int i = 0; i < nn; ++i) el.push_back(VI{vals[i], i + 1});
      std::vector<int> ord(nn); for (int i = 0; i < nn; ++i) ord[i] = i;
      std::sort(ord.begin(), ord.end(), [&](int a, int b) { return VI_less()(el[a], el[b]); });
      std::vector<double> rk(nn + 1, -1); for (int i = 0; i < nn; ++i) rk[ord[i] + 1] = i;
      Input_txt txt{0, nn, &vals};
      c.count("range.vector_value_index");
      check_line(X, el, VI_less(), [&](const VI& x) { return (x.i >= 1 && x.i <= nn) ? rk[x.i] : -2.0; }, [](const VI& x) { return x.i == 0; }, "value_index_pair", txt);
    }
  }
}

void line_stats(vh::Case& c, const std::vector<double>& vals) {
  const size_t n = vals.size();
  c.count("inputs.line");
  if (n == 0) c.count("inputs.line.empty");
  if (n >= 100) c.count("inputs.line.len_ge_100");
  if (n > 200) c.count("inputs.line.len_gt_200");
  if (n >= 1000) c.count("inputs.line.len_ge_1000");
  size_t plateaus = 0; for (size_t i = 1; i < n; ++i) if (vals[i] == vals[i - 1]) ++plateaus;
  if (plateaus) c.count("inputs.line.with_plateau");
  if (n >= 2) {
    Expected E = expected_from(line_elder_rule(vals), vals);
    c.count("expected.finite_dim0_intervals", E.offdiag.size());
    size_t ninf = 0; for (auto& i : E.offdiag) if (i.death == kInf || i.birth == -kInf) ++ninf;
    c.count("expected.paired_intervals_with_infinite_end", ninf);
    if (!E.offdiag.empty()) c.nontrivial(vh::hash_str(vh::vstr(vals), vh::hash_str("line")));
  }
  c.sample("{\"history\":\"" + vh::jesc(vh::G().history.substr(0, 600)) + "\"}");
}

void line_case(vh::Case& c) {
  vh::Rng& r = c.rng;
  Ctx X(c);
  size_t n;
  switch (r.below(8)) { case 0: n = (size_t)r.range(0, 3); break; case 1: case 2: n = (size_t)r.range(4, 12); break; case 3: n = (size_t)r.range(100, 200); break; default: n = (size_t)r.range(8, 100); }
  long levels = pick_levels(r, std::max<size_t>(n, 2));
  const int variant = (int)r.below(L_count), cmp = (int)r.below(3);
  const bool integral = (variant == L_vector_int || variant == L_vector_long);
  std::string how;
  std::vector<double> vals = random_values(r, n, levels, integral, how);
  // (libstdc++'s operator>> does not parse "inf": no infinite samples through the istream range)
  how += decorate_values(c, vals, !integral && variant != L_istream);
  c.log("line n=" + vh::str(n) + " levels<=" + vh::str(levels) + " gen=" + how + " variant=" + vh::str(variant) + " cmp=" + vh::str(cmp) + " vals=" + vh::vstr(vals));
  run_line_variant(c, X, vals, variant, cmp);
  line_stats(c, vals);
}

// long lines, 201..3000 samples: the nested sequence 0 9 1 8 2 7 ... (the routine's stack grows to the length of the input) and
// its variants (negated, coarsened into plateaus, constant highs, constant lows, reversed), or a slow random walk
void line_long_case(vh::Case& c) {
  vh::Rng& r = c.rng;
  Ctx X(c);
  const int n = (int)(r.chance(1, 3) ? r.range(1000, 3000) : r.range(201, 1000));
  static const int variants[] = {L_vector_double, L_vector_float, L_list_double, L_vector_long, L_transformed, L_istream, L_weak_order_cmp, L_value_index};
  const int variant = variants[r.below(8)], cmp = (int)r.below(3), gen = (int)r.below(6);
  const bool integral = (variant == L_vector_long);
  std::vector<double> vals(n);
  for (int i = 0; i < n; ++i) {
    const int half = i / 2;
    double x = (i & 1) ? 2.0 * n - half : (double)half;
    if (gen == 1) x = -x;
    if (gen == 2) x = std::floor(x / 3);
    if (gen == 3 && (i & 1)) x = 2.0 * n;
    if (gen == 4 && !(i & 1)) x = 0;
    vals[i] = x;
  }
  if (gen == 5) { long cur = 0; for (auto& x : vals) { cur += r.range(-1, 1); x = (double)cur; } }
  const bool reversed = r.below(2);
  if (reversed) std::reverse(vals.begin(), vals.end());
  if (!integral && r.below(2)) for (auto& x : vals) x *= 0.5;
  static const char* gn[] = {"nested", "nested_negated", "nested_coarse", "nested_const_high", "nested_const_low", "walk"};
  std::string how = std::string(gn[gen]) + (reversed ? ",reversed" : "");
  how += decorate_values(c, vals, !integral && variant != L_istream);
  c.count(std::string("inputs.line.long.") + gn[gen]);
  c.log("line n=" + vh::str(n) + " gen=" + how + " variant=" + vh::str(variant) + " cmp=" + vh::str(cmp) + " vals=" + vh::vstr(vals));
  run_line_variant(c, X, vals, variant, cmp);
  line_stats(c, vals);
}

}  // namespace

VH_CONFIG("line_random", line_case);
VH_CONFIG("line_long", line_long_case);

def _blocks(n):
    """number of blocks of c14::Weak_orders(n, prefix_len(n)) -- must match c14_exh.cpp"""
    p = 1 if n <= 5 else 2 if n <= 7 else 3
    p = min(p, n)
    return sum(k ** p for k in range(1, n + 1))


_LINES = {"line%d" % n: _blocks(n) for n in range(1, 9)}
_RECTS = {"rect2x2": _blocks(4), "rect2x3": _blocks(6), "rect3x2": _blocks(6), "rect2x4": _blocks(8), "rect4x2": _blocks(8),
          "rect3x3": _blocks(9)}


def _exh_configs(quick_frac, thorough_frac, line8=True):
    """quick_frac / thorough_frac: dict config -> fraction of the blocks (default 1.0 = the complete enumeration)"""
    cfg = {}
    for name, nb in list(_LINES.items()) + list(_RECTS.items()):
        q = max(1, int(nb * quick_frac.get(name, 1.0))) if quick_frac.get(name, 1.0) > 0 else 0
        t = max(1, int(nb * thorough_frac.get(name, 1.0))) if thorough_frac.get(name, 1.0) > 0 else 0
        cfg[name] = {"quick": q, "thorough": t}
    return cfg


# Fubini numbers (number of weak orders of n cells): 1, 3, 13, 75, 541, 4683, 47293, 545835, 7087261
_F = {1: 1, 2: 3, 3: 13, 4: 75, 5: 541, 6: 4683, 7: 47293, 8: 545835, 9: 7087261}

SPEC = {
    "property": "C14",
    "rule": "exhaustive part: a case is one block of weak orders of the cells of a shape (k distinct levels, levels of the first p cells "
            "fixed); the blocks of a config partition ALL weak orders of that shape (lines of 1..8 cells, rectangles 2x2, 2x3, 3x2, 2x4, "
            "4x2, 3x3); ranks are mapped to dyadic values by a per-case increasing affine map. random part: rectangles 2..12 x 2..12 (a side "
            "of exactly 2 over-weighted), 2xn / nx2 up to n=40, batches of heavily tied 3x3..5x4 rectangles, batches of random 3x3 weak "
            "orders, 13..48-sided rectangles, lines of 0..200 samples; values on dyadic grids generated iid / as tied permutations / as "
            "random walks / two-level; Filtration_value in {double, float, int}, Index in {unsigned, size_t, int, long}; the line routine "
            "on vector/list/deque ranges with std::less, std::greater (negated input) and a lexicographic comparator on (value, position). "
            "For every input both output modes (values, indices) are run and the emitted pairs are compared with the lower-star diagram "
            "of the doubled-grid cell model reduced over Z_2: equal multisets of non-zero-length (dim, birth, death); emitted zero-length "
            "pairs must be diagonal points the filtration has; birth <= death; returned minimum (value, or value at the returned index) "
            "= global minimum; indices in range; no cell index is the birth of two non-zero 0-classes or the death of two non-zero "
            "1-classes; line: last call is (minimum, infinity), nothing on an empty input. non-trivial = the model diagram of the input (of "
            "at least one input of the block / batch) has a finite non-zero-length interval; distinct by hash of the input values "
            "(blocks: by shape and block number, plus up to 32 inputs per block)",
    "assumptions": ["n_rows, n_cols >= 2 for the rectangle routine (its documented domain); finite values only (no inf / NaN)",
                    "zero-length pairs emitted by the rectangle routine are accepted when they are diagonal points of the true diagram "
                    "(the function's documentation does not promise their absence; its callers filter them); they are counted",
                    "int-valued lines are not run (std::numeric_limits<int>::infinity() is 0, the documented final call is then ambiguous)",
                    "trusted: harness/c14_line_rectangle/cubical_model.h + harness/oracle/zp_reduce.h (cross-checked against "
                    "Bitmap_cubical_complex + Persistent_cohomology in config second_opinion)"],
    "units": [
        # bulk of the enumeration: UBSan, -O2
        {"name": "exh", "src": ["c14_exh.cpp"], "variant": "ubsan", "chunk": 4,
         "configs": _exh_configs({"line8": 0, "rect3x3": 0.2}, {})},
        # the same enumeration under ASan+UBSan on a sample of the blocks (all blocks of the small shapes)
        {"name": "exh_asan", "src": ["c14_exh.cpp"], "variant": "asan", "chunk": 4,
         "configs": _exh_configs({"line7": 0.5, "line8": 0, "rect2x4": 0.05, "rect4x2": 0.05, "rect3x3": 0.01},
                                 {"line8": 0.1, "rect2x4": 0.2, "rect4x2": 0.2, "rect3x3": 0.03})},
        {"name": "exh_gcc", "src": ["c14_exh.cpp"], "variant": "gnative", "chunk": 4, "tiers": ["thorough"],
         "configs": _exh_configs({}, {"line8": 0.1, "rect2x4": 0.2, "rect4x2": 0.2, "rect3x3": 0.05})},
        {"name": "random", "src": ["c14_random.cpp"], "variant": "asan", "chunk": 20,
         "configs": {"rect_random": {"quick": 3000, "thorough": 300000}, "rect_thin": {"quick": 1500, "thorough": 100000},
                     "rect_small_ties": {"quick": 300, "thorough": 30000}, "rect3x3_sample": {"quick": 300, "thorough": 3000},
                     "rect_big": {"quick": 24, "thorough": 3000}, "line_random": {"quick": 5000, "thorough": 600000}}},
        # same sources with the TBB code path of sort_edges (the shipped configuration defines GUDHI_USE_TBB)
        {"name": "random_tbb", "src": ["c14_random.cpp"], "variant": "asan", "defs": ["GUDHI_USE_TBB"], "libs": ["-ltbb"], "chunk": 20,
         "configs": {"rect_random": {"quick": 600, "thorough": 60000}, "rect_big": {"quick": 24, "thorough": 3000}}},
        {"name": "second", "src": ["c14_second.cpp"], "variant": "asan", "chunk": 20,
         "configs": {"model_selftest": {"quick": 1, "thorough": 1}, "second_opinion": {"quick": 1500, "thorough": 150000}}},
    ],
    "floors": {},
    "exhaustive": {"quick": False, "thorough": True},
    "exhaustive_note": "thorough: unit 'exh' runs every block, i.e. every weak order of the cells, of lines of 1..8 cells and of the 2x2, 2x3, "
                       "3x2, 2x4, 4x2 and 3x3 rectangles (counters weak_orders.* must equal the Fubini numbers, enforced as floors). quick: "
                       "the same for lines <= 7 and all rectangles except 3x3, of which 20 % of the blocks are run. Exhaustive for "
                       "those shapes only; everything else is sampled.",
    "manifest": {
        "text": "Runtime monitor: the line routine and the rectangle routine are run (value mode and index mode, several value / index / "
                "range types, three comparators for the line, with and without TBB) on every weak order of the cells of lines of up to 8 "
                "cells and of the 2x2, 2x3, 3x2, 2x4, 4x2 and 3x3 rectangles, and on random lines up to 200 samples and rectangles up to "
                "48x48 with many ties; each output is compared with an independent cell-by-cell model of the lower-star cubical "
                "filtration reduced by textbook column reduction over Z_2 (equal multisets of non-zero intervals, correct global "
                "minimum, admissible zero-length pairs, valid and non-repeated indices), under UBSan for the bulk and ASan+UBSan on "
                "samples. Exhaustive for the listed small shapes (every leaf of the 8-neighbour decision tree is a floor), "
                "held-on-what-was-observed beyond.",
        "note": "trusted: doubled-grid model + zp_reduce oracle (cross-checked at run time against Bitmap_cubical_complex + "
                "Persistent_cohomology); finite values only; zero-length pairs tolerated when they are true diagonal points",
        "technique": "runtime monitoring: exhaustive enumeration of small inputs + randomized inputs against a reference-model oracle, "
                     "under UndefinedBehaviorSanitizer / AddressSanitizer",
    },
}

# ---- coverage floors
def _planned(tier):
    """blocks.<config> counters: every planned block of every exhaustive unit must have been executed (exact totals)"""
    out = {}
    for u in SPEC["units"]:
        if tier not in u.get("tiers", ["quick", "thorough"]) or u["src"] != ["c14_exh.cpp"]:
            continue
        for name, n in u["configs"].items():
            if n.get(tier, 0) > 0:
                out["blocks." + name] = out.get("blocks." + name, 0) + n[tier]
    return out


_q = _planned("quick")
_t = _planned("thorough")
# the complete enumerations visit at least the Fubini number of weak orders (the sampled units add to it)
_q["weak_orders.line"] = sum(_F[n] for n in range(1, 8))
_q["weak_orders.rect"] = _F[4] + 2 * _F[6] + 2 * _F[8] + _F[9] // 10
_t["weak_orders.line"] = sum(_F[n] for n in range(1, 9))
_t["weak_orders.rect"] = _F[4] + 2 * _F[6] + 2 * _F[8] + _F[9]
# every comparison pattern of an interior cell with its 8 neighbours and of a border cell with its 5 neighbours was presented
# (quick run measures >= 1282 per nbr8 pattern and >= 24818 per nbr5 pattern)
for _p in range(256):
    _q["nbr8.%02x" % _p] = 600
    _t["nbr8.%02x" % _p] = 6000
for _side in ("row0", "rowN", "col0", "colN"):
    for _p in range(32):
        _q["nbr5.%s.%02x" % (_side, _p)] = 12000
        _t["nbr5.%s.%02x" % (_side, _p)] = 60000
# the complete enumerations of the shapes with a side of exactly 2
_q["weak_orders.rect.side_of_2"] = _F[4] + 2 * _F[6] + 2 * _F[8]
_t["weak_orders.rect.side_of_2"] = _F[4] + 2 * _F[6] + 2 * _F[8]
# roughly half of what a normal quick run (seed 1) measures
_q.update({
    "call.rect.values": 1300000, "call.rect.indices": 1300000, "call.line.less": 40000, "call.line.greater_negated": 40000,
    "call.line.value_index_pair": 40000, "call.line.less_T": 500, "cmp.line.default_comparator_same_calls": 500,
    "inputs.rect": 38000, "inputs.rect.side_of_2": 1400, "inputs.rect.with_dim1_interval": 4700,
    "inputs.line": 2500, "inputs.line.with_plateau": 1900, "inputs.line.len_ge_100": 300, "inputs.line.empty": 60,
    "weak_orders.with_ties": 1200000, "weak_orders.with_finite_interval": 800000, "weak_orders.with_dim1_interval": 120000,
    "expected.finite_dim0_intervals": 55000, "expected.finite_dim1_intervals": 9000, "emitted.zero_length_pairs": 250000,
    "cmp.second.generic_route_vs_model": 750, "cmp.model_selftest": 11, "inputs.second.rect": 500, "inputs.second.line": 180,
    "types.double_unsigned": 7000, "types.double_size_t": 7000, "types.float_int": 7000, "types.int_unsigned": 7000, "types.double_long": 7000,
    "range.vector_double": 700, "range.vector_float": 300, "range.list_double": 300, "range.deque_float": 300, "range.vector_value_index": 700,
    "cases.rect.big": 24, "cases.rect.thin": 750, "cases.rect.small_ties": 150, "cases.rect.r3x3": 150,
    "_distinct_nontrivial": 50000,
})
_t.update({
    "call.rect.values": 8000000, "call.rect.indices": 8000000, "call.line.less": 500000, "call.line.greater_negated": 500000,
    "call.line.value_index_pair": 500000, "inputs.rect": 500000, "inputs.rect.side_of_2": 50000, "inputs.line": 150000,
    "inputs.line.with_plateau": 100000, "inputs.line.len_ge_100": 15000, "inputs.line.empty": 3000,
    "weak_orders.with_dim1_interval": 500000, "expected.finite_dim1_intervals": 300000, "emitted.zero_length_pairs": 2000000,
    "cmp.second.generic_route_vs_model": 30000, "cmp.model_selftest": 11, "cases.rect.big": 1200,
    "_distinct_nontrivial": 300000,
})
SPEC["floors"] = {"quick": _q, "thorough": _t}

def _blocks(n):
    """number of blocks of c14::Weak_orders(n, prefix_len(n)) -- must match c14_exh.cpp"""
    p = 1 if n <= 5 else 2 if n <= 7 else 3
    p = min(p, n)
    return sum(k ** p for k in range(1, n + 1))


_LINES = {"line%d" % n: _blocks(n) for n in range(1, 9)}
_RECTS = {"rect2x2": _blocks(4), "rect2x3": _blocks(6), "rect3x2": _blocks(6), "rect2x4": _blocks(8), "rect4x2": _blocks(8),
          "rect3x3": _blocks(9)}


# level-map configs (every map cells -> {0..L-1}): name -> ((blocks, inputs per block) quick, (blocks, inputs per block) thorough);
# must match exh_rect_lv / exh_line_lv in c14_exh.cpp
_LV = {"line9_lv": ((3 ** 3, 3 ** 6), (3 ** 3, 3 ** 6)), "line10_lv": ((3 ** 4, 3 ** 6), (3 ** 4, 3 ** 6)),
       "line11_lv": ((3 ** 5, 3 ** 6), (3 ** 5, 3 ** 6)), "line12_lv": ((3 ** 6, 3 ** 6), (3 ** 6, 3 ** 6)),
       "rect3x4_lv": ((3 ** 4, 3 ** 8), (3 ** 4, 3 ** 8)), "rect4x3_lv": ((3 ** 4, 3 ** 8), (3 ** 4, 3 ** 8)),
       "rect4x4_lv": ((2 ** 4, 2 ** 12), (3 ** 7, 3 ** 9))}


def _exh_configs(quick_frac, thorough_frac, lv_default=1.0):
    """quick_frac / thorough_frac: dict config -> fraction of the blocks (default 1.0 = the complete enumeration;
    lv_default for the level-map configs)"""
    cfg = {}
    for name, nb in list(_LINES.items()) + list(_RECTS.items()):
        q = max(1, int(nb * quick_frac.get(name, 1.0))) if quick_frac.get(name, 1.0) > 0 else 0
        t = max(1, int(nb * thorough_frac.get(name, 1.0))) if thorough_frac.get(name, 1.0) > 0 else 0
        cfg[name] = {"quick": q, "thorough": t}
    for name, ((qb, _), (tb, _)) in _LV.items():
        qf, tf = quick_frac.get(name, lv_default), thorough_frac.get(name, lv_default)
        cfg[name] = {"quick": max(1, int(qb * qf)) if qf > 0 else 0, "thorough": max(1, int(tb * tf)) if tf > 0 else 0}
    return cfg


# Fubini numbers (number of weak orders of n cells): 1, 3, 13, 75, 541, 4683, 47293, 545835, 7087261
_F = {1: 1, 2: 3, 3: 13, 4: 75, 5: 541, 6: 4683, 7: 47293, 8: 545835, 9: 7087261}

SPEC = {
    "property": "C14",
    "rule": "exhaustive part: a case is one block of weak orders of the cells of a shape (k distinct levels, levels of the first p cells "
            "fixed); the blocks of a config partition ALL weak orders of that shape (lines of 1..8 cells, rectangles 2x2, 2x3, 3x2, 2x4, "
            "4x2, 3x3); configs *_lv: a case is one block of level maps cells -> {0..L-1} (levels of the first p cells fixed), the blocks "
            "partition ALL level maps, i.e. every weak order with at most L levels, of the 3x4 and 4x3 rectangles (L=3), of the 4x4 "
            "rectangle (L=2 quick, L=3 thorough) and of lines of 9..12 cells (L=3); ranks are mapped to dyadic values by a per-case "
            "increasing affine map, and in a quarter of the blocks the top level is +inf and / or the bottom level -inf. random part: "
            "rectangles 2..12 x 2..12 (a side of exactly 2 over-weighted), 2xn / nx2 up to n=40, batches of heavily tied 3x3..5x4 "
            "rectangles, batches of random 3x3 weak orders, 13..48-sided rectangles, rectangles with a side in 100..300, rectangles "
            "with as many cells as an 8-bit Index can represent (<= 255 unsigned char, <= 127 signed char), lines of 0..200 samples, "
            "nested (0 9 1 8 2 7 ...) and random-walk lines of 201..3000 samples; values on dyadic grids generated iid / as tied "
            "permutations / as random walks / two-level; with probability 1/4 the top level is +inf and / or the bottom level -inf "
            "(floating value types), with probability 1/4 the zeros get random signs (+0.0 / -0.0 ties); Filtration_value in {double, "
            "float, int, unsigned, long long, a struct offering operator< only}, Index in {unsigned, size_t, int, long, unsigned long "
            "long, unsigned short (up to 65535 cells), unsigned char, signed char}; the line routine on vector/list/deque ranges, on a by-value "
            "boost transformed counting range (prvalue iterators, what the Python binding passes) and on a single-pass istream_iterator "
            "range, element types double, float, int, long, with std::less, std::greater (negated input), the default comparator, a "
            "lexicographic comparator on (value, position) and a comparator on the value of (value, tag) elements (a strict weak order "
            "that is not total). Unit random_dbg is the randomised part built WITHOUT -DNDEBUG: a std::logic_error thrown by one of the "
            "routines' own GUDHI_CHECK lines is a violation (*.debug_check_failed), a failed assert() a crash. "
            "For every input both output modes (values, indices) are run and the emitted pairs are compared with the lower-star diagram "
            "of the doubled-grid cell model reduced over Z_2: equal multisets of non-zero-length (dim, birth, death), a pair (b, +inf) "
            "coming from a +inf cell being an ordinary pair; emitted zero-length pairs must be diagonal points the filtration has; "
            "birth <= death; returned minimum (value, or value at the returned index) = global minimum; indices in range; no cell index "
            "is the birth of two non-zero 0-classes or the death of two non-zero 1-classes; line: last call is (minimum, "
            "numeric_limits<T>::infinity()) (for integral T that is T(0): required in the last call only, all other calls judged as "
            "values), nothing on an empty input, (value, tag) elements emitted are elements of the input. Rectangles with a side > 48 are "
            "judged with the same cell model reduced with sorted-vector columns (compared with the map-based reduction on every 13..48 "
            "rectangle), lines longer than 200 with an elder-rule union-find oracle (compared with the cell model on every line <= 200). "
            "non-trivial = the model diagram of the input (of at least one input of the block / batch) has a non-zero-length paired "
            "interval; distinct by hash of the input values (blocks: by shape and block number, plus up to 32 inputs per block)",
    "assumptions": ["n_rows, n_cols >= 2 for the rectangle routine (its documented domain); no NaN (values may be +inf / -inf)",
                    "zero-length pairs emitted by the rectangle routine are accepted when they are diagonal points of the true diagram "
                    "(the function's documentation does not promise their absence; its callers filter them); they are counted",
                    "Index types are only instantiated on inputs whose number of cells they can represent (documented requirement)",
                    "integral and single-pass (istream) inputs carry no infinite values (no representation / not parsed by operator>>)",
                    "trusted: harness/c14_line_rectangle/cubical_model.h + harness/oracle/zp_reduce.h (cross-checked against "
                    "Bitmap_cubical_complex + Persistent_cohomology in config second_opinion); its sorted-vector and elder-rule "
                    "restatements are cross-checked against it at run time (check ids harness.model_*)"],
    "units": [
        # bulk of the enumeration: UBSan, -O2
        {"name": "exh", "src": ["c14_exh.cpp"], "variant": "ubsan", "chunk": 4,
         "configs": _exh_configs({"line8": 0, "rect3x3": 0.2}, {})},
        # the same enumeration under ASan+UBSan on a sample of the blocks (all blocks of the small shapes)
        {"name": "exh_asan", "src": ["c14_exh.cpp"], "variant": "asan", "chunk": 4,
         "configs": _exh_configs({"line7": 0.5, "line8": 0, "rect2x4": 0.05, "rect4x2": 0.05, "rect3x3": 0.01},
                                 {"line8": 0.1, "rect2x4": 0.2, "rect4x2": 0.2, "rect3x3": 0.03, "rect4x4_lv": 0.002}, lv_default=0.03)},
        {"name": "exh_gcc", "src": ["c14_exh.cpp"], "variant": "gnative", "chunk": 4, "tiers": ["thorough"],
         "configs": _exh_configs({}, {"line8": 0.1, "rect2x4": 0.2, "rect4x2": 0.2, "rect3x3": 0.05, "rect4x4_lv": 0.002}, lv_default=0.03)},
        {"name": "random", "src": ["c14_random.cpp", "c14_random_line.cpp"], "variant": "asan", "chunk": 20,
         "configs": {"rect_random": {"quick": 3000, "thorough": 300000}, "rect_thin": {"quick": 1500, "thorough": 100000},
                     "rect_small_ties": {"quick": 300, "thorough": 30000}, "rect3x3_sample": {"quick": 300, "thorough": 3000},
                     "rect_big": {"quick": 24, "thorough": 3000}, "line_random": {"quick": 6000, "thorough": 600000},
                     "rect_narrow_index": {"quick": 600, "thorough": 60000}, "rect_huge": {"quick": 24, "thorough": 600},
                     "line_long": {"quick": 600, "thorough": 60000}}},
        # same sources WITHOUT -DNDEBUG: GUDHI_CHECK (std::logic_error "Bug in Gudhi ...") and assert() inside the two routines are live
        {"name": "random_dbg", "src": ["c14_random.cpp", "c14_random_line.cpp"], "variant": "asan", "cflags": ["-UNDEBUG"], "chunk": 20,
         "configs": {"rect_random": {"quick": 600, "thorough": 60000}, "rect_thin": {"quick": 300, "thorough": 30000},
                     "rect_small_ties": {"quick": 40, "thorough": 4000}, "rect_narrow_index": {"quick": 100, "thorough": 10000},
                     "rect_big": {"quick": 8, "thorough": 400}, "line_random": {"quick": 1500, "thorough": 150000},
                     "line_long": {"quick": 60, "thorough": 6000}}},
        # same sources with the TBB code path of sort_edges (the shipped configuration defines GUDHI_USE_TBB)
        {"name": "random_tbb", "src": ["c14_random.cpp"], "variant": "asan", "defs": ["GUDHI_USE_TBB"], "libs": ["-ltbb"], "chunk": 20,
         "configs": {"rect_random": {"quick": 600, "thorough": 60000}, "rect_big": {"quick": 24, "thorough": 3000},
                     "rect_huge": {"quick": 12, "thorough": 300}}},
        {"name": "second", "src": ["c14_second.cpp"], "variant": "asan", "chunk": 20,
         "configs": {"model_selftest": {"quick": 1, "thorough": 1}, "second_opinion": {"quick": 1500, "thorough": 150000}}},
    ],
    "floors": {},
    "exhaustive": {"quick": False, "thorough": True},
    "exhaustive_note": "thorough: unit 'exh' runs every block, i.e. every weak order of the cells, of lines of 1..8 cells and of the 2x2, 2x3, "
                       "3x2, 2x4, 4x2 and 3x3 rectangles (counters weak_orders.* must equal the Fubini numbers, enforced as floors), and every "
                       "level map with 3 levels of the 3x4, 4x3 and 4x4 rectangles and of lines of 9..12 cells (counters level_maps.*, exact "
                       "floors). quick: the same for lines <= 7 and all rectangles except 3x3, of which 20 % of the blocks are run, and "
                       "4x4, which is enumerated with 2 levels. Exhaustive for those shapes (and numbers of levels) only; everything else "
                       "is sampled.",
    "manifest": {
        "text": "Runtime monitor: the line routine and the rectangle routine are run (value mode and index mode, several value / index / "
                "range types, five comparators for the line, with and without TBB, with and without NDEBUG) on every weak order of the cells "
                "of lines of up to 8 cells and of the 2x2, 2x3, 3x2, 2x4, 4x2 and 3x3 rectangles, on every 3-level map of the 3x4, 4x3, "
                "4x4 rectangles and of lines of 9..12 cells, and on random lines up to 3000 samples and rectangles up to 300x300 with "
                "many ties, infinite values and signed zeros; each output is compared with an independent cell-by-cell model of the lower-star cubical "
                "filtration reduced by textbook column reduction over Z_2 (equal multisets of non-zero intervals, correct global "
                "minimum, admissible zero-length pairs, valid and non-repeated indices), under UBSan for the bulk and ASan+UBSan on "
                "samples. Exhaustive for the listed small shapes (every leaf of the 8-neighbour decision tree is a floor), "
                "held-on-what-was-observed beyond.",
        "note": "trusted: doubled-grid model + zp_reduce oracle (cross-checked at run time against Bitmap_cubical_complex + "
                "Persistent_cohomology); no NaN; zero-length pairs tolerated when they are true diagonal points",
        "technique": "runtime monitoring: exhaustive enumeration of small inputs + randomized inputs against a reference-model oracle, "
                     "under UndefinedBehaviorSanitizer / AddressSanitizer",
    },
}

# ---- coverage floors
def _planned(tier):
    """blocks.<config> counters: every planned block of every exhaustive unit must have been executed (exact totals)"""
    out = {}
    for u in SPEC["units"]:
        if tier not in u.get("tiers", ["quick", "thorough"]) or u["src"] != ["c14_exh.cpp"]:
            continue
        for name, n in u["configs"].items():
            if n.get(tier, 0) > 0:
                out["blocks." + name] = out.get("blocks." + name, 0) + n[tier]
    return out


_q = _planned("quick")
_t = _planned("thorough")
# the complete enumerations visit at least the Fubini number of weak orders (the sampled units add to it)
_q["weak_orders.line"] = sum(_F[n] for n in range(1, 8))
_q["weak_orders.rect"] = _F[4] + 2 * _F[6] + 2 * _F[8] + _F[9] // 10
_t["weak_orders.line"] = sum(_F[n] for n in range(1, 9))
_t["weak_orders.rect"] = _F[4] + 2 * _F[6] + 2 * _F[8] + _F[9]
# the complete level-map enumerations (unit exh; the sampled units add to it)
for _name, ((_qb, _qn), (_tb, _tn)) in _LV.items():
    _shape = _name[:-3]                      # "rect3x4" / "line9"
    _key = "level_maps." + (_shape if _shape.startswith("rect") else "line" + _shape[4:])
    _q[_key] = _qb * _qn
    _t[_key] = _tb * _tn
# every comparison pattern of an interior cell with its 8 neighbours and of a border cell with its 5 neighbours was presented
# (quick run measures >= 1282 per nbr8 pattern and >= 24818 per nbr5 pattern)
for _p in range(256):
    _q["nbr8.%02x" % _p] = 600
    _t["nbr8.%02x" % _p] = 6000
for _side in ("row0", "rowN", "col0", "colN"):
    for _p in range(32):
        _q["nbr5.%s.%02x" % (_side, _p)] = 12000
        _t["nbr5.%s.%02x" % (_side, _p)] = 60000
# the complete enumerations of the shapes with a side of exactly 2
_q["weak_orders.rect.side_of_2"] = _F[4] + 2 * _F[6] + 2 * _F[8]
_t["weak_orders.rect.side_of_2"] = _F[4] + 2 * _F[6] + 2 * _F[8]
# roughly half of what a normal quick run (seed 1) measures
_q.update({
    "call.rect.values": 1300000, "call.rect.indices": 1300000, "call.line.less": 40000, "call.line.greater_negated": 40000,
    "call.line.value_index_pair": 40000, "call.line.less_T": 500, "cmp.line.default_comparator_same_calls": 500,
    "inputs.rect": 38000, "inputs.rect.side_of_2": 1400, "inputs.rect.with_dim1_interval": 4700,
    "inputs.line": 2500, "inputs.line.with_plateau": 1900, "inputs.line.len_ge_100": 300, "inputs.line.empty": 60,
    "weak_orders.with_ties": 1200000, "weak_orders.with_finite_interval": 800000, "weak_orders.with_dim1_interval": 120000,
    "expected.finite_dim0_intervals": 55000, "expected.finite_dim1_intervals": 9000, "emitted.zero_length_pairs": 250000,
    "cmp.second.generic_route_vs_model": 750, "cmp.model_selftest": 11, "inputs.second.rect": 500, "inputs.second.line": 180,
    "types.double_unsigned": 3500, "types.double_size_t": 3500, "types.float_int": 3500, "types.int_unsigned": 3500, "types.double_long": 3500,
    "range.vector_double": 600, "range.vector_float": 300, "range.list_double": 300, "range.deque_float": 300, "range.vector_value_index": 600,
    "cases.rect.big": 24, "cases.rect.thin": 750, "cases.rect.small_ties": 150, "cases.rect.r3x3": 150,
    "_distinct_nontrivial": 50000,
})
# input classes added after the audit (about half of what seeds 1..3 measure)
_NEW_Q = {
    # Index / Filtration_value types
    "types.double_unsigned_short": 3500, "types.double_unsigned_char": 3500, "types.double_signed_char": 3500,
    "types.unsigned_ulonglong": 3500, "types.longlong_unsigned": 3500, "types.only_less_unsigned": 3500,
    "cases.rect.narrow_index": 350, "inputs.rect.narrow_index_at_capacity": 190,
    # sides 100..300 (vector-column model), model cross-checks
    "cases.rect.huge": 30, "model.vector_columns_only": 30, "cmp.model.vector_columns_vs_map_columns": 50,
    "cmp.model.line_elder_rule_vs_cell_model": 1300000,
    # build without NDEBUG
    "build.debug_checks_live.rect": 1300, "build.debug_checks_live.line": 750,
    # infinite values, signed zeros
    "inputs.with_pos_inf": 5300, "inputs.with_neg_inf": 5000, "inputs.with_mixed_signed_zeros": 2900,
    "blocks.with_infinite_levels": 600, "expected.paired_intervals_with_infinite_end": 12000,
    # line: value types, range kinds, comparators, lengths
    "inputs.line.integral_value_type": 650, "range.vector_int": 300, "range.vector_long": 350,
    "range.transformed_counting_range": 340, "range.istream_iterator_range": 350, "range.deque_value_tag": 350,
    "call.line.value_only_weak_order": 350, "cmp.line.emitted_element_of_input": 350,
    "inputs.line.len_gt_200": 600, "inputs.line.len_ge_1000": 100,
    "inputs.line.long.nested": 45, "inputs.line.long.nested_negated": 45, "inputs.line.long.nested_coarse": 45,
    "inputs.line.long.nested_const_high": 45, "inputs.line.long.nested_const_low": 45, "inputs.line.long.walk": 45,
    # level maps
    "level_maps.with_ties": 980000, "level_maps.with_finite_interval": 760000, "level_maps.with_dim1_interval": 85000,
}
_q.update(_NEW_Q)
# thorough: the randomised configs run 50..100 times the quick counts; 10 times the quick floors, except the counters tied to case counts
_t.update({k: 10 * v for k, v in _NEW_Q.items() if not k.startswith("level_maps.")})
_t.update({"cases.rect.huge": 450, "model.vector_columns_only": 450, "cmp.model.vector_columns_vs_map_columns": 3000,
           "cmp.model.line_elder_rule_vs_cell_model": 2500000, "blocks.with_infinite_levels": 1500,
           "level_maps.with_ties": 20000000, "level_maps.with_finite_interval": 15000000, "level_maps.with_dim1_interval": 2000000})
_t.update({
    "call.rect.values": 8000000, "call.rect.indices": 8000000, "call.line.less": 500000, "call.line.greater_negated": 500000,
    "call.line.value_index_pair": 500000, "inputs.rect": 500000, "inputs.rect.side_of_2": 50000, "inputs.line": 150000,
    "inputs.line.with_plateau": 100000, "inputs.line.len_ge_100": 15000, "inputs.line.empty": 3000,
    "weak_orders.with_dim1_interval": 500000, "expected.finite_dim1_intervals": 300000, "emitted.zero_length_pairs": 2000000,
    "cmp.second.generic_route_vs_model": 30000, "cmp.model_selftest": 11, "cases.rect.big": 1200,
    "_distinct_nontrivial": 300000,
})
SPEC["floors"] = {"quick": _q, "thorough": _t}

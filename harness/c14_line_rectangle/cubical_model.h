// Independent oracle for C14 (no GUDHI header): the lower-star filtration of top-cell values on a 1-D line of n cells
// or a 2-D rectangle of n_rows x n_cols cells, written down cell by cell on the "doubled grid", and reduced with the
// textbook column algorithm of oracle/zp_reduce.h over Z_2.
//
//   * a cell of the complex is a point (Y, X) of the doubled grid, 0 <= Y <= 2*n_rows, 0 <= X <= 2*n_cols
//     (only X for a line); its dimension is the number of odd coordinates; the top cells are the all-odd points;
//   * the faces of a cell are obtained by moving one odd coordinate by +-1;
//   * the value of a cell is the minimum of the values of the top cells that contain it;
//   * cells enter in the order (value, dimension, position), which is a filtration (a face never has a larger value
//     nor a larger dimension than a coface).
//
// The full diagram (zero-length pairs included, as values) does not depend on how ties are broken: the off-diagonal
// part is an invariant of the persistence module, and the number of pairs (v, v) of dimension d follows by induction
// on d from the number of d-cells of value v.
//
// Values are only compared (==, <), never added: +inf and -inf are ordinary values of the model (a cell of value +inf
// enters last).  This is why the result is returned as Model_diagram, where the essential classes are told apart from
// the finite pairs by the reduction (unpaired cell), not by "death == +inf".  NaN is excluded.
//
// Two further, cheaper restatements are provided for the inputs on which the map-based reduction is too slow; each
// case that can afford it runs both and compares them (harness.model_* check ids):
//   * lower_star_pairs_vec: the same filtration reduced with the same left-to-right algorithm over Z_2, columns held as
//     sorted vectors instead of std::map (rectangles with sides > 48);
//   * line_elder_rule: 0-dimensional persistence of a line by the elder rule with a union-find over the samples taken in
//     increasing order (lines longer than 200 samples).
#ifndef VERIF_C14_CUBICAL_MODEL_H_
#define VERIF_C14_CUBICAL_MODEL_H_
#include "oracle/zp_reduce.h"
#include <numeric>

namespace c14 {

typedef oracle::Interval Interval;

struct Model_cell { double value; int dim; int id; };

// the pairs of the model, by kind
struct Model_diagram {
  std::vector<Interval> offdiag;    // paired cells, birth value < death value (the death value may be +inf, the birth -inf)
  std::vector<Interval> diag;       // paired cells of equal value
  std::vector<double> essential;    // value of each unpaired cell (there must be exactly one, of dimension 0)
  void sort() { std::sort(offdiag.begin(), offdiag.end()); std::sort(diag.begin(), diag.end()); }
};

// top: n_rows * n_cols values in C order (index = col + n_cols * row).  n_rows == 0 means "a line of n_cols cells"
// (a genuinely 1-dimensional complex: vertices and edges only).
// Output: the cells in filtration order (dimension + boundary as positions) and the value of the cell at each position.
inline void lower_star_filtration(int n_rows, int n_cols, const std::vector<double>& top, std::vector<oracle::Cell>& fc,
                                  std::vector<double>& value_at_pos) {
  const bool line = (n_rows == 0);
  const int H = line ? 1 : 2 * n_rows + 1, W = 2 * n_cols + 1;
  std::vector<Model_cell> cells;
  cells.reserve((size_t)H * W);
  for (int Y = 0; Y < H; ++Y)
    for (int X = 0; X < W; ++X) {
      const int YY = line ? 1 : Y;  // a line behaves as a single row of top cells without the cells above / below it
      double v = std::numeric_limits<double>::infinity();
      bool any = false;
      const int ylo = line ? 0 : (YY % 2 ? (YY - 1) / 2 : YY / 2 - 1), yhi = line ? 0 : (YY % 2 ? (YY - 1) / 2 : YY / 2);
      const int xlo = X % 2 ? (X - 1) / 2 : X / 2 - 1, xhi = X % 2 ? (X - 1) / 2 : X / 2;
      for (int y = ylo; y <= yhi; ++y)
        for (int x = xlo; x <= xhi; ++x) {
          if (y < 0 || x < 0 || x >= n_cols || (!line && y >= n_rows)) continue;
          double t = top[(size_t)x + (size_t)n_cols * y];
          if (!any || t < v) v = t;
          any = true;
        }
      cells.push_back(Model_cell{v, (line ? 0 : Y % 2) + X % 2, Y * W + X});
    }
  std::vector<int> order(cells.size());
  for (size_t i = 0; i < order.size(); ++i) order[i] = (int)i;
  std::sort(order.begin(), order.end(), [&](int a, int b) {
    if (cells[a].value != cells[b].value) return cells[a].value < cells[b].value;
    if (cells[a].dim != cells[b].dim) return cells[a].dim < cells[b].dim;
    return cells[a].id < cells[b].id;
  });
  std::vector<int> pos(cells.size());
  for (size_t i = 0; i < order.size(); ++i) pos[order[i]] = (int)i;
  fc.assign(cells.size(), oracle::Cell());
  value_at_pos.assign(cells.size(), 0);
  for (size_t i = 0; i < order.size(); ++i) {
    const int id = order[i], Y = id / W, X = id % W;
    fc[i].dim = cells[id].dim;
    value_at_pos[i] = cells[id].value;
    if (!line && Y % 2) { fc[i].bdry.emplace_back(pos[(Y - 1) * W + X], 1); fc[i].bdry.emplace_back(pos[(Y + 1) * W + X], 1); }
    if (X % 2) { fc[i].bdry.emplace_back(pos[Y * W + X - 1], 1); fc[i].bdry.emplace_back(pos[Y * W + X + 1], 1); }
  }
}

inline Model_diagram model_diagram_of_bars(const std::vector<oracle::Bar>& bars, const std::vector<double>& value_at_pos) {
  Model_diagram D;
  for (auto& b : bars) {
    if (b.death < 0) { D.essential.push_back(value_at_pos[b.birth]); continue; }
    Interval i{b.dim, value_at_pos[b.birth], value_at_pos[b.death]};
    (i.birth == i.death ? D.diag : D.offdiag).push_back(i);
  }
  D.sort();
  return D;
}

// the reference: oracle::reduce (std::map columns)
inline Model_diagram lower_star_pairs(int n_rows, int n_cols, const std::vector<double>& top) {
  std::vector<oracle::Cell> fc; std::vector<double> value_at_pos;
  lower_star_filtration(n_rows, n_cols, top, fc, value_at_pos);
  return model_diagram_of_bars(oracle::reduce(fc, 2).bars, value_at_pos);
}

// same filtration, same algorithm (add the column owning the lowest row until the lowest row is free), sorted-vector columns
inline Model_diagram lower_star_pairs_vec(int n_rows, int n_cols, const std::vector<double>& top) {
  std::vector<oracle::Cell> fc; std::vector<double> value_at_pos;
  lower_star_filtration(n_rows, n_cols, top, fc, value_at_pos);
  const int N = (int)fc.size();
  std::vector<std::vector<int>> col(N);
  std::vector<int> owner(N, -1);
  std::vector<char> paired(N, 0);
  std::vector<oracle::Bar> bars;
  std::vector<int> b, t;
  for (int j = 0; j < N; ++j) {
    b.clear();
    for (auto& f : fc[j].bdry) b.push_back(f.first);
    std::sort(b.begin(), b.end());
    while (!b.empty() && owner[b.back()] >= 0) {
      const std::vector<int>& o = col[owner[b.back()]];
      t.clear();
      std::set_symmetric_difference(b.begin(), b.end(), o.begin(), o.end(), std::back_inserter(t));
      b.swap(t);
    }
    if (!b.empty()) { const int l = b.back(); owner[l] = j; paired[l] = paired[j] = 1; col[j] = b; bars.push_back(oracle::Bar{fc[l].dim, l, j}); }
  }
  for (int j = 0; j < N; ++j) if (!paired[j]) bars.push_back(oracle::Bar{fc[j].dim, j, -1});
  return model_diagram_of_bars(bars, value_at_pos);
}

// 0-dimensional sublevel-set persistence of samples on a line, by the elder rule: samples enter by increasing value; a sample
// entering between two existing components merges them, and the component whose minimum is the larger one dies there.
inline Model_diagram line_elder_rule(const std::vector<double>& v) {
  const int n = (int)v.size();
  Model_diagram D;
  if (n == 0) return D;
  std::vector<int> ord(n), parent(n, -1);  // parent == -1: the sample has not entered yet
  std::iota(ord.begin(), ord.end(), 0);
  std::stable_sort(ord.begin(), ord.end(), [&](int a, int b) { return v[a] < v[b]; });
  std::vector<double> cmin(n);             // minimum of the component, stored at its root
  auto find = [&](int x) { while (parent[x] != x) x = parent[x] = parent[parent[x]]; return x; };
  for (int i : ord) {
    parent[i] = i; cmin[i] = v[i];
    for (int nb : {i - 1, i + 1}) {
      if (nb < 0 || nb >= n || parent[nb] < 0) continue;
      int a = find(i), b = find(nb);
      if (a == b) continue;
      if (cmin[a] < cmin[b]) std::swap(a, b);   // a = the younger component (larger or equal minimum): it dies at v[i]
      if (cmin[a] != v[i]) D.offdiag.push_back(Interval{0, cmin[a], v[i]});
      parent[a] = b;
    }
  }
  D.essential.push_back(cmin[find(0)]);
  D.sort();
  return D;
}

// kept for the closed-form self-tests: every pair as an interval, death = +inf for the essential class (finite inputs only)
inline std::vector<Interval> lower_star_diagram(int n_rows, int n_cols, const std::vector<double>& top) {
  Model_diagram D = lower_star_pairs(n_rows, n_cols, top);
  std::vector<Interval> out = D.offdiag;
  out.insert(out.end(), D.diag.begin(), D.diag.end());
  for (double e : D.essential) out.push_back(Interval{0, e, std::numeric_limits<double>::infinity()});
  std::sort(out.begin(), out.end());
  return out;
}

}  // namespace c14
#endif

// Independent oracle for C14 (no GUDHI header): the lower-star filtration of top-cell values on a 1-D line of n cells
// or a 2-D rectangle of n_rows x n_cols cells, written down cell by cell on the "doubled grid", and reduced with the
// textbook column algorithm of oracle/zp_reduce.h over Z_2.
//
//   * a cell of the complex is a point (Y, X) of the doubled grid, 0 <= Y <= 2*n_rows, 0 <= X <= 2*n_cols
//     (only X for a line); its dimension is the number of odd coordinates; the top cells are the all-odd points;
//   * the faces of a cell are obtained by moving one odd coordinate by +-1;
//   * the value of a cell is the minimum of the values of the top cells that contain it;
//   * cells enter in the order (value, dimension, position), which is a filtration (a face never has a larger value
//     nor a larger dimension than a coface).
//
// The full diagram (zero-length pairs included, as values) does not depend on how ties are broken: the off-diagonal
// part is an invariant of the persistence module, and the number of pairs (v, v) of dimension d follows by induction
// on d from the number of d-cells of value v.
#ifndef VERIF_C14_CUBICAL_MODEL_H_
#define VERIF_C14_CUBICAL_MODEL_H_
#include "oracle/zp_reduce.h"

namespace c14 {

typedef oracle::Interval Interval;

struct Model_cell { double value; int dim; int id; };

// top: n_rows * n_cols values in C order (index = col + n_cols * row).  n_rows == 0 means "a line of n_cols cells"
// (a genuinely 1-dimensional complex: vertices and edges only).
inline std::vector<Interval> lower_star_diagram(int n_rows, int n_cols, const std::vector<double>& top) {
  const bool line = (n_rows == 0);
  const int H = line ? 1 : 2 * n_rows + 1, W = 2 * n_cols + 1;
  std::vector<Model_cell> cells;
  cells.reserve((size_t)H * W);
  for (int Y = 0; Y < H; ++Y)
    for (int X = 0; X < W; ++X) {
      const int YY = line ? 1 : Y;  // a line behaves as a single row of top cells without the cells above / below it
      double v = std::numeric_limits<double>::infinity();
      bool any = false;
      const int ylo = line ? 0 : (YY % 2 ? (YY - 1) / 2 : YY / 2 - 1), yhi = line ? 0 : (YY % 2 ? (YY - 1) / 2 : YY / 2);
      const int xlo = X % 2 ? (X - 1) / 2 : X / 2 - 1, xhi = X % 2 ? (X - 1) / 2 : X / 2;
      for (int y = ylo; y <= yhi; ++y)
        for (int x = xlo; x <= xhi; ++x) {
          if (y < 0 || x < 0 || x >= n_cols || (!line && y >= n_rows)) continue;
          double t = top[(size_t)x + (size_t)n_cols * y];
          if (!any || t < v) v = t;
          any = true;
        }
      cells.push_back(Model_cell{v, (line ? 0 : Y % 2) + X % 2, Y * W + X});
    }
  std::vector<int> order(cells.size());
  for (size_t i = 0; i < order.size(); ++i) order[i] = (int)i;
  std::sort(order.begin(), order.end(), [&](int a, int b) {
    if (cells[a].value != cells[b].value) return cells[a].value < cells[b].value;
    if (cells[a].dim != cells[b].dim) return cells[a].dim < cells[b].dim;
    return cells[a].id < cells[b].id;
  });
  std::vector<int> pos(cells.size());
  for (size_t i = 0; i < order.size(); ++i) pos[order[i]] = (int)i;
  std::vector<oracle::Cell> fc(cells.size());
  std::vector<double> value_at_pos(cells.size());
  for (size_t i = 0; i < order.size(); ++i) {
    const int id = order[i], Y = id / W, X = id % W;
    fc[i].dim = cells[id].dim;
    value_at_pos[i] = cells[id].value;
    if (!line && Y % 2) { fc[i].bdry.emplace_back(pos[(Y - 1) * W + X], 1); fc[i].bdry.emplace_back(pos[(Y + 1) * W + X], 1); }
    if (X % 2) { fc[i].bdry.emplace_back(pos[Y * W + X - 1], 1); fc[i].bdry.emplace_back(pos[Y * W + X + 1], 1); }
  }
  return oracle::diagram(oracle::reduce(fc, 2).bars, value_at_pos, /*drop_zero_length=*/false);
}

}  // namespace c14
#endif

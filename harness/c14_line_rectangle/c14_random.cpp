// C14 — randomised part: rectangles up to 12x12 (and a few larger, up to 300x300), thin rectangles, heavily tied small
// rectangles, random weak orders of 3x3, rectangles at the capacity of an 8-bit Index, and lines of 0..200 samples (and nested
// lines of 201..3000) with plateaus, several value / index / range types and comparators; +-inf levels and mixed signed zeros.
// The same source is also built WITHOUT -DNDEBUG (unit random_dbg): the routines' own GUDHI_CHECK / assert lines are then live.
#include "c14_random.h"

namespace {
using namespace c14r;

enum Tcombo { T_double_unsigned, T_double_size_t, T_float_int, T_int_unsigned, T_double_long, T_double_ushort,
              T_double_uchar, T_double_schar, T_unsigned_ull, T_llong_unsigned, T_onlyless_unsigned, T_count };
inline bool tcombo_integral(int t) { return t == T_int_unsigned || t == T_unsigned_ull || t == T_llong_unsigned; }

// model: 0 = map-based cell model, 1 = map-based and vector-based (compared), 2 = vector-based only (sides > 48)
bool one_rectangle(Ctx& X, int r, int cN, const std::vector<double>& vals, int tcombo, int model, bool& nontrivial) {
  vh::Case& c = X.c;
  Input_txt txt{r, cN, &vals};
  Expected E;
  if (model == 2) { E = expected_from(lower_star_pairs_vec(r, cN, vals), vals); c.count("model.vector_columns_only"); }
  else E = expected_of(r, cN, vals);
  if (model == 1) {
    Expected E2 = expected_from(lower_star_pairs_vec(r, cN, vals), vals);
    c.count("cmp.model.vector_columns_vs_map_columns");
    if (!same_expected(E, E2, true))
      X.violation("harness.model_vector_columns", "rect", [&] { return "input " + txt + " vector columns " + oracle::show(E2.offdiag) + " map columns " + oracle::show(E.offdiag); });
  }
  const size_t n = (size_t)r * cN;
  bool ok;
  // Index types narrower than int (documented requirement: large enough to represent the size of the input)
  if (tcombo == T_double_ushort && n > 65535) tcombo = T_double_unsigned;
  if (tcombo == T_double_ushort && n > 32767) c.count("inputs.rect.unsigned_short_above_32767_cells");
  if (tcombo == T_double_uchar && n > 255) tcombo = T_double_unsigned;
  if (tcombo == T_double_schar && n > 127) tcombo = T_double_size_t;
  switch (tcombo) {
    case T_double_unsigned: ok = check_rectangle<double, unsigned>(X, r, cN, vals, E, txt); c.count("types.double_unsigned"); break;
    case T_double_size_t: ok = check_rectangle<double, std::size_t>(X, r, cN, vals, E, txt); c.count("types.double_size_t"); break;
    case T_float_int: ok = check_rectangle<float, int>(X, r, cN, vals, E, txt); c.count("types.float_int"); break;
    case T_int_unsigned: ok = check_rectangle<int, unsigned>(X, r, cN, vals, E, txt); c.count("types.int_unsigned"); break;
    case T_double_ushort: ok = check_rectangle<double, unsigned short>(X, r, cN, vals, E, txt); c.count("types.double_unsigned_short"); break;
    case T_double_uchar: ok = check_rectangle<double, unsigned char>(X, r, cN, vals, E, txt); c.count("types.double_unsigned_char"); break;
    case T_double_schar: ok = check_rectangle<double, signed char>(X, r, cN, vals, E, txt); c.count("types.double_signed_char"); break;
    case T_unsigned_ull: ok = check_rectangle<unsigned, unsigned long long>(X, r, cN, vals, E, txt); c.count("types.unsigned_ulonglong"); break;
    case T_llong_unsigned: ok = check_rectangle<long long, unsigned>(X, r, cN, vals, E, txt); c.count("types.longlong_unsigned"); break;
    case T_onlyless_unsigned: ok = check_rectangle<Only_less, unsigned>(X, r, cN, vals, E, txt); c.count("types.only_less_unsigned"); break;
    default: ok = check_rectangle<double, long>(X, r, cN, vals, E, txt); c.count("types.double_long"); break;
  }
  c.count("inputs.rect");
  if (r == 2 || cN == 2) { c.count("inputs.rect.side_of_2"); if (shared_corner_min_not_last(r, cN, vals)) c.count("inputs.rect.shared_corner_min_not_last"); }
  if (r <= 12 && cN <= 12) count_neighbour_patterns(c, r, cN, vals);
  int n0 = 0, n1 = 0, ninf = 0; for (auto& i : E.offdiag) { (i.dim ? n1 : n0)++; if (i.death == kInf || i.birth == -kInf) ++ninf; }
  c.count("expected.finite_dim0_intervals", n0); c.count("expected.finite_dim1_intervals", n1);
  c.count("expected.paired_intervals_with_infinite_end", ninf);
  nontrivial = n0 + n1 > 0;
  if (n1) c.count("inputs.rect.with_dim1_interval");
  return ok;
}

void rect_case(vh::Case& c, int kind) {
  vh::Rng& r = c.rng;
  Ctx X(c);
  int rows, cols, reps = 1, forced_t = -1, model = 0;
  if (kind == 0) {            // general, sides 2..12, sides of exactly 2 over-weighted
    rows = (int)r.range(2, 12); cols = (int)r.range(2, 12);
    if (r.chance(1, 4)) (r.below(2) ? rows : cols) = 2;
  } else if (kind == 1) {     // thin: 2 x n, n x 2
    int n = (int)r.range(2, 40);
    if (r.below(2)) { rows = 2; cols = n; } else { rows = n; cols = 2; }
  } else if (kind == 2) {     // small with many ties: adjacent interior cells interact
    static const int sh[][2] = {{3, 4}, {4, 3}, {4, 4}, {3, 5}, {5, 3}, {4, 5}, {5, 4}, {3, 3}};
    int s = (int)r.below(8); rows = sh[s][0]; cols = sh[s][1]; reps = 40;
  } else if (kind == 3) {     // random weak orders of the 3x3 rectangle
    rows = cols = 3; reps = 200;
  } else if (kind == 4) {     // big
    rows = (int)r.range(13, 48); cols = (int)r.range(13, 48); model = 1;
  } else if (kind == 5) {     // as many cells as an 8-bit Index can represent (255 / 127), or a little fewer
    const bool sgn = r.below(2);
    const int cap = sgn ? 127 : 255;
    forced_t = sgn ? T_double_schar : T_double_uchar;
    int a = r.chance(1, 3) ? 2 : (int)r.range(2, r.chance(1, 2) ? 16 : cap / 2);
    int b = cap / a;
    if (r.chance(1, 3) && b > 2) b = (int)r.range(std::max(2, b - 3), b);
    if (r.below(2)) { rows = a; cols = b; } else { rows = b; cols = a; }
    if (rows * cols + std::min(rows, cols) > cap) c.count("inputs.rect.narrow_index_at_capacity");
  } else {                    // huge: a side in 100..300 (judged with the vector-column model only)
    rows = (int)r.range(100, 300); cols = r.chance(1, 2) ? (int)r.range(100, 300) : (int)r.range(2, 60);
    if (r.below(2)) std::swap(rows, cols);
    model = 2;
    if ((size_t)rows * cols <= 65535 && r.chance(1, 4)) forced_t = T_double_ushort;  // a 16-bit Index on up to 65535 cells
  }
  const size_t n = (size_t)rows * cols;
  bool nontriv_any = false; uint64_t h = vh::hash_str("rect");
  for (int rep = 0; rep < reps; ++rep) {
    int tcombo = forced_t >= 0 ? forced_t : (int)r.below(T_count);
    long levels = (kind == 2) ? r.range(2, 5) : (kind == 3) ? r.range(1, 9) : pick_levels(r, n);
    std::string how;
    std::vector<double> vals = random_values(r, n, levels, tcombo_integral(tcombo), how);
    if (tcombo == T_unsigned_ull) { double mn = *std::min_element(vals.begin(), vals.end()); for (auto& x : vals) x -= mn; }  // unsigned values: >= 0
    how += decorate_values(c, vals, !tcombo_integral(tcombo));
    if (reps == 1) c.log("rect " + vh::str(rows) + "x" + vh::str(cols) + " levels<=" + vh::str(levels) + " gen=" + how + " types=" + vh::str(tcombo) + " cells(C order)=" + vh::vstr(vals));
    else { X.header = "rect " + vh::str(rows) + "x" + vh::str(cols) + " batch of " + vh::str(reps) + "\n"; X.current_input("types=" + vh::str(tcombo) + " gen=" + how + " cells(C order)=" + vh::vstr(vals)); }
    bool nt = false;
    one_rectangle(X, rows, cols, vals, tcombo, model, nt);
    if (nt) { nontriv_any = true; h = vh::hash_str(vh::vstr(vals), h); }
  }
  static const char* kn[] = {"general", "thin", "small_ties", "r3x3", "big", "narrow_index", "huge"};
  c.count(std::string("cases.rect.") + kn[kind]);
  if (nontriv_any) c.nontrivial(vh::hash_mix(h, (uint64_t)(rows * 64 + cols)));
  c.sample("{\"history\":\"" + vh::jesc(vh::G().history.substr(0, 600)) + "\"}");
}

}  // namespace

VH_CONFIG("rect_random", [](vh::Case& c) { rect_case(c, 0); });
VH_CONFIG("rect_thin", [](vh::Case& c) { rect_case(c, 1); });
VH_CONFIG("rect_small_ties", [](vh::Case& c) { rect_case(c, 2); });
VH_CONFIG("rect3x3_sample", [](vh::Case& c) { rect_case(c, 3); });
VH_CONFIG("rect_big", [](vh::Case& c) { rect_case(c, 4); });
VH_CONFIG("rect_narrow_index", [](vh::Case& c) { rect_case(c, 5); });
VH_CONFIG("rect_huge", [](vh::Case& c) { rect_case(c, 6); });
VH_MAIN()

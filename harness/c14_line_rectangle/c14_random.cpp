// C14 — randomised part: rectangles up to 12x12 (and a few larger), thin rectangles, heavily tied small rectangles,
// random weak orders of 3x3, and lines of 0..200 samples with plateaus, several value / index / range types and comparators.
#include "c14_common.h"
#include <deque>

namespace {
using namespace c14;

struct VI { double v; int i; };
struct VI_less { bool operator()(const VI& a, const VI& b) const { return a.v < b.v || (a.v == b.v && a.i < b.i); } };

// values on a dyadic grid, `levels` distinct levels at most; integer-valued when integral is set
std::vector<double> random_values(vh::Rng& r, size_t n, long levels, bool integral, std::string& how) {
  static const double scales[] = {1, 0.5, 0.25, 8};
  double scale = integral ? 1 : scales[r.below(4)];
  long off = r.range(-levels, 2);
  std::vector<double> v(n);
  int style = (int)r.below(4);
  if (style == 0) {           // independent levels
    for (auto& x : v) x = (double)(r.range(0, levels - 1) + off) * scale;
    how = "iid";
  } else if (style == 1) {    // a permutation with some ties merged
    std::vector<long> p(n); for (size_t i = 0; i < n; ++i) p[i] = (long)i; r.shuffle(p);
    long div = 1 + (long)(n / (size_t)std::max(1L, levels));
    for (size_t i = 0; i < n; ++i) v[i] = (double)(p[i] / div + off) * scale;
    how = "perm/" + vh::str(div);
  } else if (style == 2) {    // smooth-ish: random walk in C order, plateaus likely
    long cur = 0;
    for (auto& x : v) { cur += r.range(-1, 1); x = (double)(cur + off) * scale; }
    how = "walk";
  } else {                    // two-level background with a few outliers (checkerboard-like traps)
    for (auto& x : v) x = (double)((r.below(2) ? 0 : levels) + (r.chance(1, 6) ? r.range(-2, 2) : 0) + off) * scale;
    how = "two_level";
  }
  return v;
}

long pick_levels(vh::Rng& r, size_t n) {
  switch (r.below(6)) { case 0: return 2; case 1: return 3; case 2: return 4; case 3: return std::max<long>(2, n / 3); case 4: return std::max<long>(2, n); default: return std::max<long>(2, 3 * n); }
}

bool one_rectangle(Ctx& X, int r, int cN, const std::vector<double>& vals, int tcombo, bool& nontrivial) {
  vh::Case& c = X.c;
  Expected E = expected_of(r, cN, vals);
  Input_txt txt{r, cN, &vals};
  bool ok;
  switch (tcombo) {
    case 0: ok = check_rectangle<double, unsigned>(X, r, cN, vals, E, txt); c.count("types.double_unsigned"); break;
    case 1: ok = check_rectangle<double, std::size_t>(X, r, cN, vals, E, txt); c.count("types.double_size_t"); break;
    case 2: ok = check_rectangle<float, int>(X, r, cN, vals, E, txt); c.count("types.float_int"); break;
    case 3: ok = check_rectangle<int, unsigned>(X, r, cN, vals, E, txt); c.count("types.int_unsigned"); break;
    case 5:  // an Index type narrower than int (documented requirement: large enough for the size of the input); vertex grid <= 65535
      if ((size_t)(r + 1) * (size_t)(cN + 1) < 30000) { ok = check_rectangle<double, unsigned short>(X, r, cN, vals, E, txt); c.count("types.double_unsigned_short"); }
      else { ok = check_rectangle<double, unsigned>(X, r, cN, vals, E, txt); c.count("types.double_unsigned"); }
      break;
    default: ok = check_rectangle<double, long>(X, r, cN, vals, E, txt); c.count("types.double_long"); break;
  }
  c.count("inputs.rect");
  if (r == 2 || cN == 2) { c.count("inputs.rect.side_of_2"); if (shared_corner_min_not_last(r, cN, vals)) c.count("inputs.rect.shared_corner_min_not_last"); }
  if (r <= 12 && cN <= 12) count_neighbour_patterns(c, r, cN, vals);
  int n0 = 0, n1 = 0; for (auto& i : E.offdiag) (i.dim ? n1 : n0)++;
  c.count("expected.finite_dim0_intervals", n0); c.count("expected.finite_dim1_intervals", n1);
  nontrivial = n0 + n1 > 0;
  if (n1) c.count("inputs.rect.with_dim1_interval");
  return ok;
}

void rect_case(vh::Case& c, int kind) {
  vh::Rng& r = c.rng;
  Ctx X(c);
  int rows, cols, reps = 1;
  if (kind == 0) {            // general, sides 2..12, sides of exactly 2 over-weighted
    rows = (int)r.range(2, 12); cols = (int)r.range(2, 12);
    if (r.chance(1, 4)) (r.below(2) ? rows : cols) = 2;
  } else if (kind == 1) {     // thin: 2 x n, n x 2
    int n = (int)r.range(2, 40);
    if (r.below(2)) { rows = 2; cols = n; } else { rows = n; cols = 2; }
  } else if (kind == 2) {     // small with many ties: adjacent interior cells interact
    static const int sh[][2] = {{3, 4}, {4, 3}, {4, 4}, {3, 5}, {5, 3}, {4, 5}, {5, 4}, {3, 3}};
    int s = (int)r.below(8); rows = sh[s][0]; cols = sh[s][1]; reps = 40;
  } else if (kind == 3) {     // random weak orders of the 3x3 rectangle
    rows = cols = 3; reps = 200;
  } else {                    // big
    rows = (int)r.range(13, 48); cols = (int)r.range(13, 48);
  }
  const size_t n = (size_t)rows * cols;
  bool nontriv_any = false; uint64_t h = vh::hash_str("rect");
  for (int rep = 0; rep < reps; ++rep) {
    int tcombo = (int)r.below(6);
    long levels = (kind == 2) ? r.range(2, 5) : (kind == 3) ? r.range(1, 9) : pick_levels(r, n);
    std::string how;
    std::vector<double> vals = random_values(r, n, levels, tcombo == 3, how);
    if (reps == 1) c.log("rect " + vh::str(rows) + "x" + vh::str(cols) + " levels<=" + vh::str(levels) + " gen=" + how + " types=" + vh::str(tcombo) + " cells(C order)=" + vh::vstr(vals));
    else { X.header = "rect " + vh::str(rows) + "x" + vh::str(cols) + " batch of " + vh::str(reps) + "\n"; X.current_input("types=" + vh::str(tcombo) + " cells(C order)=" + vh::vstr(vals)); }
    bool nt = false;
    one_rectangle(X, rows, cols, vals, tcombo, nt);
    if (nt) { nontriv_any = true; h = vh::hash_str(vh::vstr(vals), h); }
  }
  static const char* kn[] = {"general", "thin", "small_ties", "r3x3", "big"};
  c.count(std::string("cases.rect.") + kn[kind]);
  if (nontriv_any) c.nontrivial(vh::hash_mix(h, (uint64_t)(rows * 64 + cols)));
  c.sample("{\"history\":\"" + vh::jesc(vh::G().history.substr(0, 600)) + "\"}");
}

template <class Container, class T>
bool line_plain(Ctx& X, const std::vector<double>& vals, const char* cname, int cmp) {
  Input_txt txt{0, (int)vals.size(), &vals};
  X.c.count(std::string("range.") + cname);
  if (cmp == 0) {
    Container in; for (double x : vals) in.push_back((T)x);
    return check_line(X, in, std::less<>(), [](T x) { return (double)x; }, [](T x) { return x == std::numeric_limits<T>::infinity(); }, "less", txt);
  } else if (cmp == 1) {  // superlevel sets of -f with std::greater
    Container in; for (double x : vals) in.push_back((T)-x);
    return check_line(X, in, std::greater<>(), [](T x) { return -(double)x; }, [](T x) { return x == std::numeric_limits<T>::infinity(); }, "greater_negated", txt);
  } else {                // default comparator argument (no lt passed): exercised through a local wrapper
    Container in; for (double x : vals) in.push_back((T)x);
    std::vector<std::pair<T, T>> calls;
    Gudhi::persistent_cohomology::compute_persistence_of_function_on_line(in, [&](T b, T d) { calls.emplace_back(b, d); });
    // same checks as check_line, through it, with an equivalent explicit comparator, must give the same calls
    std::vector<std::pair<T, T>> calls2;
    Gudhi::persistent_cohomology::compute_persistence_of_function_on_line(in, [&](T b, T d) { calls2.emplace_back(b, d); }, std::less<T>());
    X.c.count("cmp.line.default_comparator_same_calls");
    if (calls != calls2) { X.violation("line.default_comparator_same_calls", "line,cmp=default", [&] { return "input " + txt + ": default comparator and std::less<T> give different calls"; }); return false; }
    return check_line(X, in, std::less<T>(), [](T x) { return (double)x; }, [](T x) { return x == std::numeric_limits<T>::infinity(); }, "less_T", txt);
  }
}

void line_case(vh::Case& c) {
  vh::Rng& r = c.rng;
  Ctx X(c);
  size_t n;
  switch (r.below(8)) { case 0: n = (size_t)r.range(0, 3); break; case 1: case 2: n = (size_t)r.range(4, 12); break; case 3: n = (size_t)r.range(100, 200); break; default: n = (size_t)r.range(8, 100); }
  long levels = pick_levels(r, std::max<size_t>(n, 2));
  std::string how;
  std::vector<double> vals = random_values(r, n, levels, false, how);
  int variant = (int)r.below(7), cmp = (int)r.below(3);
  c.log("line n=" + vh::str(n) + " levels<=" + vh::str(levels) + " gen=" + how + " variant=" + vh::str(variant) + " cmp=" + vh::str(cmp) + " vals=" + vh::vstr(vals));
  switch (variant) {
    case 0: case 1: line_plain<std::vector<double>, double>(X, vals, "vector_double", cmp); break;
    case 2: line_plain<std::vector<float>, float>(X, vals, "vector_float", cmp); break;
    case 3: line_plain<std::list<double>, double>(X, vals, "list_double", cmp); break;
    case 4: line_plain<std::deque<float>, float>(X, vals, "deque_float", cmp); break;
    default: {  // (value, position) elements with a lexicographic comparator: a total order
      int nn = (int)n;
      std::vector<VI> el; for (int i = 0; i < nn; ++i) el.push_back(VI{vals[i], i + 1});
      std::vector<int> ord(nn); for (int i = 0; i < nn; ++i) ord[i] = i;
      std::sort(ord.begin(), ord.end(), [&](int a, int b) { return VI_less()(el[a], el[b]); });
      std::vector<double> rk(nn + 1, -1); for (int i = 0; i < nn; ++i) rk[ord[i] + 1] = i;
      Input_txt txt{0, nn, &vals};
      c.count("range.vector_value_index");
      check_line(X, el, VI_less(), [&](const VI& x) { return (x.i >= 1 && x.i <= nn) ? rk[x.i] : -2.0; }, [](const VI& x) { return x.i == 0; }, "value_index_pair", txt);
    }
  }
  c.count("inputs.line");
  if (n == 0) c.count("inputs.line.empty");
  if (n >= 100) c.count("inputs.line.len_ge_100");
  size_t plateaus = 0; for (size_t i = 1; i < n; ++i) if (vals[i] == vals[i - 1]) ++plateaus;
  if (plateaus) c.count("inputs.line.with_plateau");
  if (n >= 2) {
    Expected E = expected_of(0, (int)n, vals);
    c.count("expected.finite_dim0_intervals", E.offdiag.size());
    if (!E.offdiag.empty()) c.nontrivial(vh::hash_str(vh::vstr(vals), vh::hash_str("line")));
  }
  c.sample("{\"history\":\"" + vh::jesc(vh::G().history.substr(0, 600)) + "\"}");
}

}  // namespace

VH_CONFIG("rect_random", [](vh::Case& c) { rect_case(c, 0); });
VH_CONFIG("rect_thin", [](vh::Case& c) { rect_case(c, 1); });
VH_CONFIG("rect_small_ties", [](vh::Case& c) { rect_case(c, 2); });
VH_CONFIG("rect3x3_sample", [](vh::Case& c) { rect_case(c, 3); });
VH_CONFIG("rect_big", [](vh::Case& c) { rect_case(c, 4); });
VH_CONFIG("line_random", line_case);
VH_MAIN()

// C14 — generators and element types shared by the two translation units of the randomised part
#ifndef VERIF_C14_RANDOM_H_
#define VERIF_C14_RANDOM_H_
#include "c14_common.h"
#include <deque>
#include <cmath>
#include <sstream>
#include <iterator>
#include <memory>

namespace c14r {
using namespace c14;


struct VI { double v; int i; };
struct VI_less { bool operator()(const VI& a, const VI& b) const { return a.v < b.v || (a.v == b.v && a.i < b.i); } };
// compared on v only: a strict weak order that is NOT total (equivalent elements are distinguishable by their tag)
struct VT { double v; int tag; };
struct VT_less { bool operator()(const VT& a, const VT& b) const { return a.v < b.v; } };
// a Filtration_value offering operator< only (documented requirement of the rectangle routine: "Must be comparable with operator<")
struct Only_less {
  double x;
  Only_less() = default;
  explicit Only_less(double d) : x(d) {}
  explicit operator double() const { return x; }
  friend bool operator<(Only_less const& a, Only_less const& b) { return a.x < b.x; }
};
// single-pass range over whitespace-separated numbers (begin() may be called once)
template <class T> struct Istream_range {
  std::shared_ptr<std::istringstream> is;
  std::istream_iterator<T> begin() const { return std::istream_iterator<T>(*is); }
  std::istream_iterator<T> end() const { return std::istream_iterator<T>(); }
};

// values on a dyadic grid, `levels` distinct levels at most; integer-valued when integral is set
inline std::vector<double> random_values(vh::Rng& r, size_t n, long levels, bool integral, std::string& how) {
  static const double scales[] = {1, 0.5, 0.25, 8};
  double scale = integral ? 1 : scales[r.below(4)];
  long off = r.range(-levels, 2);
  std::vector<double> v(n);
  int style = (int)r.below(4);
  if (style == 0) {           // independent levels
    for (auto& x : v) x = (double)(r.range(0, levels - 1) + off) * scale;
    how = "iid";
  } else if (style == 1) {    // a permutation with some ties merged
    std::vector<long> p(n); for (size_t i = 0; i < n; ++i) p[i] = (long)i; r.shuffle(p);
    long div = 1 + (long)(n / (size_t)std::max(1L, levels));
    for (size_t i = 0; i < n; ++i) v[i] = (double)(p[i] / div + off) * scale;
    how = "perm/" + vh::str(div);
  } else if (style == 2) {    // smooth-ish: random walk in C order, plateaus likely
    long cur = 0;
    for (auto& x : v) { cur += r.range(-1, 1); x = (double)(cur + off) * scale; }
    how = "walk";
  } else {                    // two-level background with a few outliers (checkerboard-like traps)
    for (auto& x : v) x = (double)((r.below(2) ? 0 : levels) + (r.chance(1, 6) ? r.range(-2, 2) : 0) + off) * scale;
    how = "two_level";
  }
  return v;
}

// Optional decorations of generated values (the routines only compare values):
//   allow_inf: with probability 1/4 the top level becomes +inf and / or the bottom level -inf;
//   with probability 1/4 every zero gets a random sign (+0.0 / -0.0 compare equal: a tie).
inline std::string decorate_values(vh::Case& c, std::vector<double>& v, bool allow_inf) {
  vh::Rng& r = c.rng;
  std::string how;
  if (v.empty()) return how;
  if (allow_inf && r.chance(1, 4)) {
    const double mx = *std::max_element(v.begin(), v.end()), mn = *std::min_element(v.begin(), v.end());
    const int m = (int)r.below(3);
    if (m != 1) { for (auto& x : v) if (x == mx) x = kInf; how += ",top=+inf"; c.count("inputs.with_pos_inf"); }
    if (m != 0 && mn != mx) { for (auto& x : v) if (x == mn) x = -kInf; how += ",bottom=-inf"; c.count("inputs.with_neg_inf"); }
  }
  if (r.chance(1, 4)) {
    int pos = 0, neg = 0;
    for (auto& x : v) if (x == 0) { if (r.below(2)) { x = -0.0; ++neg; } else { x = 0.0; ++pos; } }
    if (pos && neg) { how += ",signed_zeros"; c.count("inputs.with_mixed_signed_zeros"); }
  }
  return how;
}

inline long pick_levels(vh::Rng& r, size_t n) {
  switch (r.below(6)) { case 0: return 2; case 1: return 3; case 2: return 4; case 3: return std::max<long>(2, n / 3); case 4: return std::max<long>(2, n); default: return std::max<long>(2, 3 * n); }
}

}  // namespace c14r
#endif

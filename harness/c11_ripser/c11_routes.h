// C11 — driver side: builds every accepted input form from a model Input, runs the Ripser engine through every route
// (ripser_auto, ripser, and help2 with each of the three simplex encodings), collects what is streamed through the
// output_dim / output_pair callbacks and compares it with the independent expectation and with GUDHI's own
// Rips_complex -> Simplex_tree -> Persistent_cohomology pipeline.
#ifndef VERIF_C11_ROUTES_H_
#define VERIF_C11_ROUTES_H_
#include <gudhi/ripser.h>
#include <memory>
#include <climits>
#include <sys/wait.h>
#include <sys/time.h>
#include "c11_model.h"
#include "c11_pipeline.h"
#include "c11_guard.h"

namespace c11 {
namespace rp = Gudhi::ripser;

template <class T> struct ValName;
template <> struct ValName<float> { static const char* get() { return "f"; } };
template <> struct ValName<double> { static const char* get() { return "d"; } };

// ------------------------------------------------------------------------------------------------ the observer
template <class T> struct Sink {
  Diagram out;
  int dim_max, cur = -1000;
  bool pair_before_dim = false, dim_out_of_range = false;
  long raw_pairs = 0, zero_len = 0, dim_calls = 0;
  bool fold = false;   // huge inputs: the essential H_0 bars [0,inf) are counted instead of stored
  long ess0 = 0;
  struct DimCb { Sink* s; void operator()(int d) const { s->cur = d; s->dim_calls++; if (d < 0 || d > s->dim_max) s->dim_out_of_range = true; } };
  struct PairCb {
    Sink* s;
    void operator()(T b, T d) const {
      s->raw_pairs++;
      if (s->cur == -1000) { s->pair_before_dim = true; return; }
      if (b == d) { s->zero_len++; return; }
      if (s->fold && s->cur == 0 && b == 0 && d == std::numeric_limits<T>::infinity()) { s->ess0++; return; }
      s->out.push_back(oracle::Interval{s->cur, (double)b, (double)d});
    }
  };
  DimCb od; PairCb op;
  explicit Sink(int dm) : dim_max(dm), od{this}, op{this} {}
  Sink(const Sink&) = delete;
};
template <class T> using DimCb = typename Sink<T>::DimCb;
template <class T> using PairCb = typename Sink<T>::PairCb;

enum Route { R_AUTO = 0, R_DIRECT, R_BF64, R_BF128, R_CNS, R_COUNT };
inline const char* route_name(int r) { static const char* n[] = {"auto", "direct", "enc_bf64", "enc_bf128", "enc_cns128"}; return n[r]; }

// the callbacks are always the same two lvalue types, so that help2 / compute_pairs are instantiated once per
// (matrix type, encoding, coefficient mode) — exactly the instantiations the dispatcher itself creates
template <class T, class M>
void call_engine(M m, int route, int dim_max, T thr, unsigned p, DimCb<T>& od, PairCb<T>& op) {
  typedef rp::TParams<false, uint64_t, T> P64n; typedef rp::TParams<true, uint64_t, T> P64c;
  typedef rp::TParams<false, Gudhi::numbers::uint128_t, T> P128n; typedef rp::TParams<true, Gudhi::numbers::uint128_t, T> P128c;
  switch (route) {
    case R_AUTO: rp::ripser_auto(std::move(m), dim_max, thr, p, od, op); break;
    case R_DIRECT: rp::ripser(std::move(m), dim_max, thr, p, od, op); break;
    case R_BF64:
      if (p == 2) rp::help2<P64n, rp::Bitfield_encoding<P64n>>(std::move(m), dim_max, thr, p, od, op);
      else rp::help2<P64c, rp::Bitfield_encoding<P64c>>(std::move(m), dim_max, thr, p, od, op);
      break;
    case R_BF128:
      if (p == 2) rp::help2<P128n, rp::Bitfield_encoding<P128n>>(std::move(m), dim_max, thr, p, od, op);
      else rp::help2<P128c, rp::Bitfield_encoding<P128c>>(std::move(m), dim_max, thr, p, od, op);
      break;
    default:
      if (p == 2) rp::help2<P128n, rp::Cns_encoding<P128n>>(std::move(m), dim_max, thr, p, od, op);
      else rp::help2<P128c, rp::Cns_encoding<P128c>>(std::move(m), dim_max, thr, p, od, op);
      break;
  }
}

// a user-side matrix (what the Python binding does with a numpy array): the source for the converting constructors
template <class T> struct SrcMat {
  typedef rp::Tag_dense Category;
  typedef int vertex_t;
  typedef T value_t;
  const Input* in;
  int size() const { return in->n; }
  T operator()(int i, int j) const { return (T)in->D[i][j]; }
};

template <class T> using Par = rp::TParams2<T>;   // the Params ripser_auto itself uses for the matrices it creates
template <class T> using MFull = rp::Full_distance_matrix<Par<T>>;
template <class T> using MLower = rp::Compressed_distance_matrix<Par<T>, rp::LOWER_TRIANGULAR>;
template <class T> using MUpper = rp::Compressed_distance_matrix<Par<T>, rp::UPPER_TRIANGULAR>;
template <class T> using MSparse = rp::Sparse_distance_matrix<Par<T>>;
template <class T> using MEuclid = rp::Euclidean_distance_matrix<Par<T>>;

template <class T> std::vector<T> lower_vector(const Input& in) {
  std::vector<T> v; for (int i = 1; i < in.n; ++i) for (int j = 0; j < i; ++j) v.push_back((T)in.D[i][j]); return v;
}
template <class T> std::vector<T> upper_vector(const Input& in) {
  std::vector<T> v; for (int i = 0; i < in.n; ++i) for (int j = i + 1; j < in.n; ++j) v.push_back((T)in.D[i][j]); return v;
}
// edge list (every finite entry of D) -> sorted neighbour lists, the way both the command-line tool and the Python
// binding build them; the edges are fed in random order and random orientation
template <class T> MSparse<T> sparse_from_edges(const Input& in, vh::Rng& r) {
  typedef typename MSparse<T>::vertex_diameter_t VD;
  struct E { int i, j; T v; };
  std::vector<E> es;
  for (int i = 0; i < in.n; ++i) for (int j = 0; j < i; ++j) if (in.D[i][j] != INF) { if (r.chance(1, 2)) es.push_back({i, j, (T)in.D[i][j]}); else es.push_back({j, i, (T)in.D[i][j]}); }
  r.shuffle(es);
  std::vector<std::vector<VD>> nb(in.n);
  for (auto& e : es) { nb[e.i].emplace_back(e.j, e.v); nb[e.j].emplace_back(e.i, e.v); }
  for (auto& l : nb) std::sort(l.begin(), l.end());
  return MSparse<T>(std::move(nb), es.size());
}
template <class T> MEuclid<T> euclid_from_points(const Input& in) {
  std::vector<std::vector<T>> p;
  for (auto& q : in.pts) { std::vector<T> x; for (long c : q) x.push_back((T)c / (T)in.den); p.push_back(x); }   // exact: den is a power of two
  return MEuclid<T>(std::move(p));
}

// ------------------------------------------------------------------------------------------------ one comparison
template <class T> struct Ctx {
  vh::Case& c;
  std::string form;          // full lower upper sparse euclid
  std::string cfgkind;       // small / big
  std::string gen, thrcls;
  int n, dim_max; long p;
  Expectation exp;
  bool have_pipeline = false, pipeline_ok = true;
  Diagram pipeline;
  long routes_ok = 0;
  long fold_ess0 = -1;       // >= 0: the intervals (0;0,inf) are folded into this expected count (huge inputs)
  // dim_max as handed to ripser_auto / ripser when it differs from dim_max (values above n-2, e.g. INT_MAX as the Python
  // binding passes: the public entry points clamp to n-2, so the expectation is the one for dim_max = n-2); the explicit
  // help2 routes always get dim_max itself
  int dim_arg = -1;
  bool isolate_all = false;    // every route runs in a forked child (configs whose known failure mode is a memory error)
  bool refuse_ok_all = false;  // the documented std::overflow_error refusal is an accepted outcome of every route
  std::string widecls;         // class of the case inside a "wide" config (counter prefix)
  unsigned route_mask = ~0u;   // routes engine_routes may run (bit = Route); used to keep the slowest cases short
};
template <class T> int engine_dim(const Ctx<T>& x, int rt) { return (rt <= 1 && x.dim_arg >= 0) ? x.dim_arg : x.dim_max; }   // rt <= R_DIRECT
template <class T> int sink_dim(const Ctx<T>& x) { return std::max(x.dim_max, x.dim_arg); }

template <class T> std::string base_sig(const Ctx<T>& x, const std::string& route, const std::string& variant) {
  return "form=" + x.form + ",val=" + ValName<T>::get() + ",route=" + route + ",ctor=" + variant + ",thr=" + x.thrcls + ",p=" + pclass(x.p) + "," + x.cfgkind;
}

template <class T, class F>
bool check_route_isolated(Ctx<T>& x, const std::string& route, const std::string& variant, F&& f, bool may_refuse = false);

// runs f(od, op) (which builds the matrix and calls the engine), then compares.  Returns false when the case must stop.
template <class T, class F>
bool check_route(Ctx<T>& x, const std::string& route, const std::string& variant, bool may_refuse, F&& f) {
  if (x.isolate_all) return check_route_isolated<T>(x, route, variant, f, may_refuse || x.refuse_ok_all);
  vh::Case& c = x.c;
  Sink<T> s(sink_dim(x));
  s.fold = x.fold_ess0 >= 0;
  c.log("run route=" + route + " ctor=" + variant);
  c.count("route." + x.form + "." + route);
  c.count("ctor." + x.form + "." + variant);
  try {
    f(s.od, s.op);
  } catch (const std::overflow_error& e) {
    if (may_refuse) { c.count("enc.refused." + route); return true; }   // documented: the encoding does not fit
    c.violation("ripser.exception", base_sig(x, route, variant) + ",overflow_error", std::string("unexpected overflow_error: ") + e.what());
    return false;
  } catch (const std::exception& e) {
    c.violation("ripser.exception", base_sig(x, route, variant), std::string("unexpected exception: ") + e.what());
    return false;
  }
  c.count("cmp.protocol");
  if (s.pair_before_dim || s.dim_out_of_range) {
    c.violation("ripser.protocol", base_sig(x, route, variant) + (s.pair_before_dim ? ",pair_before_dim" : ",dim_out_of_range"),
                "output_pair before any output_dim, or output_dim outside [0,dim_max]");
    return false;
  }
  std::sort(s.out.begin(), s.out.end());
  c.count("cmp.intervals");
  c.count("obs.raw_pairs", (uint64_t)s.raw_pairs);
  c.count("obs.zero_length_dropped", (uint64_t)s.zero_len);
  std::string dc = diff_class(s.out, x.exp.dgm);
  if (dc.empty() && s.fold && s.ess0 != x.fold_ess0) dc = "dim0_essential_count";
  if (!dc.empty()) {
    std::string third = !x.have_pipeline ? "pipeline=not_run" : (x.pipeline == x.exp.dgm ? "pipeline=agrees_with_oracle" : x.pipeline == s.out ? "pipeline=agrees_with_ripser" : "pipeline=differs_from_both");
    c.violation("ripser.intervals", base_sig(x, route, variant) + "," + dc + "," + third,
                "n=" + vh::str(x.n) + " dim_max=" + vh::str(x.dim_max) + " p=" + vh::str(x.p) + "\n ripser : " + oracle::show(s.out) +
                "\n oracle : " + oracle::show(x.exp.dgm) + (s.fold ? "\n essential H0 bars [0,inf): ripser " + vh::str(s.ess0) + " oracle " + vh::str(x.fold_ess0) : "") + (x.have_pipeline ? "\n gudhi simplex-tree pipeline: " + oracle::show(x.pipeline) : ""));
    return false;
  }
  x.routes_ok++;
  if (x.exp.has_finite_high) c.count("nt." + x.form + "." + route);
  return true;
}

// Same comparison, but the route runs in a forked child: used for the constructions whose question is memory safety
// (a copy that outlives its original, the converting constructor of the upper layout).  A sanitizer report / crash of
// the child becomes an ordinary violation record with a descriptive signature, the parent (and its counters) live on.
template <class T, class F>
bool check_route_isolated(Ctx<T>& x, const std::string& route, const std::string& variant, F&& f, bool may_refuse) {
  vh::Case& c = x.c;
  may_refuse = may_refuse || x.refuse_ok_all;
  c.log("run (forked child) route=" + route + " ctor=" + variant);
  c.count("route." + x.form + "." + route);
  c.count("ctor." + x.form + "." + variant);
  int fds[2];
  if (pipe(fds) != 0) { c.count("skip.pipe_failed"); return true; }
  fflush(stderr);
  pid_t pid = fork();
  if (pid < 0) { close(fds[0]); close(fds[1]); c.count("skip.fork_failed"); return true; }
  if (pid == 0) {
    close(fds[0]);
    dup2(fds[1], 2);                       // sanitizer reports of the child go to the pipe
    vh::G().cur_case = -1;                 // the fatal hooks of the child must not write into the parent's record file
    struct itimerval it = {}; it.it_value.tv_sec = kCpuBudgetSeconds; signal(SIGVTALRM, SIG_DFL); setitimer(ITIMER_VIRTUAL, &it, nullptr);
    int code = 0; std::string msg;
    try {
      Sink<T> s(sink_dim(x));
      f(s.od, s.op);
      std::sort(s.out.begin(), s.out.end());
      if (s.pair_before_dim || s.dim_out_of_range) { code = 4; msg = "protocol"; }
      else { std::string dc = diff_class(s.out, x.exp.dgm); if (!dc.empty()) { code = 3; msg = dc + "\n ripser : " + oracle::show(s.out) + "\n oracle : " + oracle::show(x.exp.dgm); } }
    } catch (const std::overflow_error& e) { code = may_refuse ? 6 : 7; msg = e.what(); }
    catch (const std::length_error& e) { code = 8; msg = e.what(); }
    catch (const std::bad_alloc& e) { code = 9; msg = e.what(); }
    catch (const std::exception& e) { code = 5; msg = e.what(); }
    ssize_t w = ::write(fds[1], msg.data(), msg.size()); (void)w;
    _exit(code);
  }
  close(fds[1]);
  std::string text; char buf[4096]; ssize_t got;
  while ((got = ::read(fds[0], buf, sizeof buf)) > 0) if (text.size() < (1u << 16)) text.append(buf, (size_t)got);
  close(fds[0]);
  int st = 0; waitpid(pid, &st, 0);
  if (WIFEXITED(st) && WEXITSTATUS(st) == 6) {   // documented refusal: the encoding (or the dimension type) does not fit
    c.count("enc.refused." + route);
    if (x.isolate_all) c.count("wide." + x.widecls + ".refused." + route);
    return true;
  }
  c.count("cmp.intervals"); c.count("cmp.isolated");
  if (WIFEXITED(st) && WEXITSTATUS(st) == 0) {
    x.routes_ok++;
    if (x.isolate_all && x.exp.has_finite_high) c.count("nt." + x.form + "." + route);
    if (x.isolate_all) c.count("wide." + x.widecls + ".answered." + route);
    return true;
  }
  std::string sig = base_sig(x, route, variant);
  if (WIFEXITED(st) && WEXITSTATUS(st) >= 7 && WEXITSTATUS(st) <= 9) {
    const char* what[] = {"overflow_error", "length_error", "bad_alloc"};
    c.violation("ripser.exception", sig + "," + what[WEXITSTATUS(st) - 7] + ",isolated", std::string("unexpected std::") + what[WEXITSTATUS(st) - 7] + ": " + text);
    return false;
  }
  if (WIFEXITED(st) && WEXITSTATUS(st) == 3) { c.violation("ripser.intervals", sig + "," + text.substr(0, text.find('\n')) + ",isolated", text); return false; }
  if (WIFEXITED(st) && WEXITSTATUS(st) == 4) { c.violation("ripser.protocol", sig + ",isolated", text); return false; }
  if (WIFEXITED(st) && WEXITSTATUS(st) == 5) { c.violation("ripser.exception", sig + ",isolated", text); return false; }
  const char* kinds[] = {"heap-use-after-free", "heap-buffer-overflow", "stack-buffer-overflow", "container-overflow", "store to null pointer",
                         "load of null pointer", "null pointer", "SEGV", "Assertion", "signed integer overflow", "out of bounds"};
  std::string kind = WIFSIGNALED(st) && WTERMSIG(st) == SIGVTALRM ? "cpu_budget_exceeded" : "other";
  for (const char* k : kinds) if (text.find(k) != std::string::npos) { kind = k; break; }
  for (char& ch : kind) if (ch == ' ') ch = '_';
  c.violation("ripser.memory_safety", "form=" + x.form + ",ctor=" + variant + ",child_died," + kind + (x.isolate_all ? ",route=" + route + ",p=" + pclass(x.p) + "," + x.cfgkind : std::string()),
              "the forked child running this route died (" + (WIFSIGNALED(st) ? "signal " + vh::str(WTERMSIG(st)) : "exit " + vh::str(WEXITSTATUS(st))) + ")\n" + text.substr(0, 2500));
  return false;
}

// the third opinion, once per case (small primes only: Field_Zp builds its inverse table in O(p^2))
const long kPipelineBelow = 256;
template <class T> bool run_pipeline(Ctx<T>& x, const Input& graph_in, double thr) {
  if (x.p >= kPipelineBelow) { x.c.count("pipeline.skipped_big_prime"); return true; }
  x.c.log("run gudhi Rips_complex->Simplex_tree->Persistent_cohomology pipeline");
  x.pipeline = gudhi_pipeline(graph_in.D, thr, x.dim_max, (int)x.p);
  x.have_pipeline = true;
  x.c.count("pipeline.compared");
  std::string dc = diff_class(x.pipeline, x.exp.dgm);
  if (!dc.empty()) x.pipeline_ok = false;   // attributed after the Ripser routes ran (two-against-one)
  return true;
}
template <class T> void finish_pipeline(Ctx<T>& x) {
  if (x.have_pipeline && !x.pipeline_ok && !x.c.failed) {
    // every Ripser route agreed with the oracle, GUDHI's simplex-tree pipeline is the odd one out: the equality stated
    // by the property fails, the fault is on the pipeline side
    x.c.violation("pipeline.intervals", "form=" + x.form + ",thr=" + x.thrcls + ",p=" + pclass(x.p) + "," + x.cfgkind + "," + diff_class(x.pipeline, x.exp.dgm) + ",ripser=agrees_with_oracle",
                  "n=" + vh::str(x.n) + " dim_max=" + vh::str(x.dim_max) + " p=" + vh::str(x.p) + "\n pipeline: " + oracle::show(x.pipeline) + "\n oracle : " + oracle::show(x.exp.dgm));
  }
}

template <class T> T thr_value(const Threshold& t) {
  if (!t.none) return (T)t.value;
  return t.cls == "none_max" ? std::numeric_limits<T>::max() : std::numeric_limits<T>::infinity();
}

// ------------------------------------------------------------------------------------------------ forms
// Every form offers   static void routes(Ctx&, const Input& in, const Threshold& thr, vh::Rng&, bool big)
// `in` is complete for the dense forms / euclid; for the sparse form the finite entries of `in` ARE the edge list.

template <class T, class M, class Build>
bool engine_routes(Ctx<T>& x, const std::string& variant, T thrT, bool big, bool with_auto, vh::Rng& r, int only_route, Build&& build) {
  for (int rt = 0; rt < R_COUNT; ++rt) {
    if (only_route >= 0 && rt != only_route) continue;
    if (rt == R_AUTO && !with_auto) continue;
    if (!(x.route_mask >> rt & 1u)) continue;
    bool may_refuse = big && rt >= R_BF64;
    if (!check_route<T>(x, route_name(rt), variant, may_refuse, [&](DimCb<T>& od, PairCb<T>& op) {
          call_engine<T, M>(build(), rt, engine_dim(x, rt), thrT, (unsigned)x.p, od, op);
        })) return false;
  }
  return true;
}

// the copy is used after the object it was copied from has been destroyed (copies must be independent values)
template <class T, class M, class Build>
bool orphan_copy_route(Ctx<T>& x, T thrT, Build&& build) {
  return check_route_isolated<T>(x, "direct", "copy_outlives_original", [&](DimCb<T>& od, PairCb<T>& op) {
    std::unique_ptr<M> a(new M(build()));
    M b(*a);
    a.reset();
    call_engine<T, M>(std::move(b), R_DIRECT, x.dim_max, thrT, (unsigned)x.p, od, op);
  });
}

// copy / move ASSIGNMENT of the compressed layouts: the target held another matrix (of another size) before, the source
// is destroyed before the target is used.  Also a self-assignment, which must leave the value unchanged.
template <class T, class M, class Build>
bool assign_route(Ctx<T>& x, T thrT, vh::Rng& r, Build&& build) {
  unsigned mode = (unsigned)r.below(5);
  int kind = mode < 2 ? 0 : mode < 4 ? 1 : 2;
  const char* names[] = {"copy_assigned_outlives_original", "move_assigned", "copy_then_self_assigned"};
  int n2 = 2 + (int)r.below(8);
  int rt = (int)r.below(2);   // ripser_auto or ripser
  x.c.log("assignment target held a " + vh::str(n2) + "-point matrix before");
  return check_route_isolated<T>(x, route_name(rt), names[kind], [&](DimCb<T>& od, PairCb<T>& op) {
    std::unique_ptr<M> a(new M(build()));
    M b(std::vector<T>((size_t)n2 * (n2 - 1) / 2, (T)7));
    if (kind == 0) b = *a;
    else if (kind == 1) b = std::move(*a);
    else { b = *a; M& self = b; b = self; }
    a.reset();
    call_engine<T, M>(std::move(b), rt, x.dim_max, thrT, (unsigned)x.p, od, op);
  });
}

template <class T> struct FormFull {
  static const char* name() { return "full"; }
  static const bool sparse = false, cloud_only = false;
  static void routes(Ctx<T>& x, const Input& in, const Threshold& thr, vh::Rng& r, bool big) {
    T thrT = thr_value<T>(thr);
    if (!engine_routes<T, MFull<T>>(x, "from_matrix", thrT, big, true, r, -1, [&] { return MFull<T>(SrcMat<T>{&in}); })) return;
    if (r.chance(1, 4)) {   // Full built from another adaptor
      if (!engine_routes<T, MFull<T>>(x, "from_lower", thrT, big, true, r, (int)r.below(R_COUNT), [&] { return MFull<T>(MLower<T>(lower_vector<T>(in))); })) return;
    }
    if (r.chance(1, 25)) orphan_copy_route<T, MFull<T>>(x, thrT, [&] { return MFull<T>(SrcMat<T>{&in}); });
  }
};

template <class T> struct FormLower {
  static const char* name() { return "lower"; }
  static const bool sparse = false, cloud_only = false;
  static void routes(Ctx<T>& x, const Input& in, const Threshold& thr, vh::Rng& r, bool big) {
    T thrT = thr_value<T>(thr);
    if (!engine_routes<T, MLower<T>>(x, "from_vector", thrT, big, true, r, -1, [&] { return MLower<T>(lower_vector<T>(in)); })) return;
    if (r.chance(1, 3)) {
      if (!engine_routes<T, MLower<T>>(x, "from_matrix", thrT, big, true, r, (int)r.below(R_COUNT), [&] { return MLower<T>(SrcMat<T>{&in}); })) return;
    }
    if (r.chance(1, 3)) {   // what the command-line tool does with an upper-distance file
      if (!engine_routes<T, MLower<T>>(x, "from_upper", thrT, big, true, r, (int)r.below(R_COUNT), [&] { return MLower<T>(MUpper<T>(upper_vector<T>(in))); })) return;
    }
    if (r.chance(1, 25)) { if (!orphan_copy_route<T, MLower<T>>(x, thrT, [&] { return MLower<T>(lower_vector<T>(in)); })) return; }
    if (r.chance(1, 12)) assign_route<T, MLower<T>>(x, thrT, r, [&] { return MLower<T>(lower_vector<T>(in)); });
  }
};

template <class T> struct FormUpper {
  static const char* name() { return "upper"; }
  static const bool sparse = false, cloud_only = false;
  static void routes(Ctx<T>& x, const Input& in, const Threshold& thr, vh::Rng& r, bool big) {
    T thrT = thr_value<T>(thr);
    if (!engine_routes<T, MUpper<T>>(x, "from_vector", thrT, big, true, r, -1, [&] { return MUpper<T>(upper_vector<T>(in)); })) return;
    if (r.chance(1, 25)) { if (!orphan_copy_route<T, MUpper<T>>(x, thrT, [&] { return MUpper<T>(upper_vector<T>(in)); })) return; }
    if (r.chance(1, 12)) { if (!assign_route<T, MUpper<T>>(x, thrT, r, [&] { return MUpper<T>(upper_vector<T>(in)); })) return; }
    if (r.chance(1, 25)) {  // the converting constructor of the upper layout
      int rt = (int)r.below(2);   // ripser_auto or ripser (never refused)
      check_route_isolated<T>(x, route_name(rt), "from_matrix", [&](DimCb<T>& od, PairCb<T>& op) {
        call_engine<T, MUpper<T>>(MUpper<T>(SrcMat<T>{&in}), rt, x.dim_max, thrT, (unsigned)x.p, od, op);
      });
    }
  }
};

// a user-defined matrix type of category Tag_dense handed to the engine as it is (what the Python binding does with a
// numpy array): the engine is instantiated on a type that is not one of the library's own containers
template <class T> struct FormUser {
  static const char* name() { return "user"; }
  static const bool sparse = false, cloud_only = false;
  static void routes(Ctx<T>& x, const Input& in, const Threshold& thr, vh::Rng& r, bool big) {
    T thrT = thr_value<T>(thr);
    engine_routes<T, SrcMat<T>>(x, "user_matrix_direct", thrT, big, true, r, -1, [&] { return SrcMat<T>{&in}; });
  }
};

// sparse: `edges` holds the edge list (finite entries); when it is the threshold graph of a complete matrix, `full`
// points to that matrix and full_thr is the threshold (for the Sparse_distance_matrix(matrix, threshold) constructor)
template <class T> struct FormSparse {
  static const char* name() { return "sparse"; }
  static const bool sparse = true, cloud_only = false;
  static void routes(Ctx<T>& x, const Input& edges, const Input* full, double full_thr, vh::Rng& r, bool big) {
    // the threshold argument is documented as ignored for sparse input: pass +inf, max(), or the largest edge
    double maxe = 0; for (double v : edges.distinct_values()) maxe = std::max(maxe, v);
    unsigned k = (unsigned)r.below(3);
    T thrT = k == 0 ? std::numeric_limits<T>::infinity() : k == 1 ? std::numeric_limits<T>::max() : (T)maxe;
    x.c.log("sparse threshold argument = " + vh::str((double)thrT));
    if (!engine_routes<T, MSparse<T>>(x, "from_edge_list", thrT, big, true, r, -1, [&] { return sparse_from_edges<T>(edges, r); })) return;
    if (full && r.chance(1, 2)) {
      T ft = (T)full_thr;
      if (!engine_routes<T, MSparse<T>>(x, "from_matrix_and_threshold", ft, big, true, r, (int)r.below(R_COUNT), [&] { return MSparse<T>(SrcMat<T>{full}, ft); })) return;
    }
  }
};

template <class T> struct FormEuclid {
  static const char* name() { return "euclid"; }
  static const bool sparse = false, cloud_only = true;
  static void routes(Ctx<T>& x, const Input& in, const Threshold& thr, vh::Rng& r, bool big) {
    T thrT = thr_value<T>(thr);
    // the point cloud itself goes through ripser_auto only ("do not feed this directly to ripser")
    if (!check_route<T>(x, "auto", "points", false, [&](DimCb<T>& od, PairCb<T>& op) {
          rp::ripser_auto(euclid_from_points<T>(in), engine_dim(x, R_AUTO), thrT, (unsigned)x.p, od, op);
        })) return;
    // what the command-line tool does: points + threshold -> sparse ; points alone -> compressed lower
    if (!engine_routes<T, MSparse<T>>(x, "sparse_from_points", thrT, big, false, r, big || r.chance(1, 2) ? -1 : 1 + (int)r.below(R_COUNT - 1),
                                      [&] { return MSparse<T>(euclid_from_points<T>(in), thrT); })) return;
    if (!engine_routes<T, MLower<T>>(x, "lower_from_points", thrT, big, true, r, big || r.chance(1, 2) ? -1 : (int)r.below(R_COUNT),
                                     [&] { return MLower<T>(euclid_from_points<T>(in)); })) return;
  }
};

// ------------------------------------------------------------------------------------------------ cases
template <class T, class Form> void common_counters(Ctx<T>& x, const Input& in) {
  vh::Case& c = x.c;
  c.count("gen." + in.gen); c.count("thr." + x.thrcls); c.count("p." + pname(x.p));
  if (!in.pts.empty()) c.count(in.den == 1 ? "cloud.integer_coordinates" : "cloud.noninteger_coordinates");
  c.count("n." + std::string(x.n <= 4 ? "2_4" : x.n <= 7 ? "5_7" : x.n <= 10 ? "8_10" : x.n <= 20 ? "11_20" : x.n <= 40 ? "21_40" : x.n <= 128 ? "41_128" : "129plus"));
  c.count("dimmax." + std::string(x.dim_max == 0 ? "0" : x.dim_max == 1 ? "1" : x.dim_max == 2 ? "2" : x.dim_max <= 4 ? "3_4" : x.dim_max <= 8 ? "5_8" : x.dim_max <= 60 ? "9plus" : "61plus"));
  c.count(std::string("dispatch.") + dispatch_class(x.n, x.dim_max, x.p));
  for (auto& iv : x.exp.dgm) c.count(std::string("bars.") + (iv.death == INF ? "essential" : "finite") + ".dim" + (iv.dim >= 3 ? std::string("3plus") : vh::str(iv.dim)));
  c.count("complex.simplices", x.exp.complex_size);
}

template <class T, class Form> void finish_case(Ctx<T>& x, const Input& in) {
  finish_pipeline(x);
  vh::Case& c = x.c;
  if (!c.failed && x.exp.has_finite_high) c.nontrivial(vh::hash_str(vh::G().history));
  if (!c.failed) c.count("cases.completed");
  c.sample("{\"form\":\"" + x.form + "\",\"value_type\":\"" + ValName<T>::get() + "\",\"history\":\"" + vh::jesc(vh::G().history.substr(0, 900)) + "\",\"expected\":\"" +
           vh::jesc(oracle::show(x.exp.dgm)) + "\",\"routes_compared\":" + vh::str(x.routes_ok) + "}");
}

// n <= 10, every generator, every threshold class, dim_max 0..n-2, every prime
template <class T, class Form> void small_case(vh::Case& c) {
  vh::Rng& r = c.rng;
  CaseGuard guard;
  Ctx<T> x{c};
  x.form = Form::name(); x.cfgkind = "small";
  int n = 2 + (int)r.below(9);
  if (r.chance(1, 3)) n = 4 + (int)r.below(5);
  // 11-13 points with dim_max <= 2 (complete complexes beyond the 2^n sweep of oracle/flag.h; mostly without threshold,
  // so that the dense enumerators and the enclosing-radius shortcut meet more than 10 points)
  const bool mid = r.chance(1, 10);
  if (mid) n = 11 + (int)r.below(3);
  Input in;
  gen_small<T>(in, r, n, Form::cloud_only);
  Threshold thr = pick_threshold<T>(in, r, true);
  if (mid && r.chance(1, 2)) { thr.none = true; thr.cls = r.chance(1, 2) ? "none_inf" : "none_max"; thr.value = INF; }
  x.n = n; x.gen = in.gen; x.thrcls = thr.cls;
  x.dim_max = (int)r.below((uint64_t)(n - 1));           // 0 .. n-2
  if (n >= 6 && r.chance(1, 2)) x.dim_max = (int)r.below(4);   // keep the interesting low dimensions frequent
  if ((in.gen == "crosspoly" || in.gen == "cloud_octa") && r.chance(1, 2)) x.dim_max = std::min(n - 2, std::max(1, n / 2 - 2 + (int)r.below(3)));
  if (mid) x.dim_max = (int)r.below(3);
  // dim_max above n-2 through the public entry points (they clamp it to n-2; INT_MAX is what the Python binding passes
  // for "all dimensions"): the expectation is the complete barcode, i.e. the one for dim_max = n-2
  if (!mid && r.chance(1, 12)) { x.dim_max = n - 2; x.dim_arg = r.chance(1, 2) ? INT_MAX : n - 1 + (int)r.below(4); }
  x.p = pick_prime(r);
  c.log(in.show());
  c.log("threshold class=" + thr.cls + " value=" + vh::str(thr.value) + " dim_max=" + vh::str(x.dim_max) + " p=" + vh::str(x.p) + " value_type=" + ValName<T>::get());
  if (x.dim_arg >= 0) { c.log("ripser_auto / ripser are called with dim_max=" + vh::str(x.dim_arg) + " (above n-2)"); c.count(x.dim_arg == INT_MAX ? "dimarg.int_max" : "dimarg.above_n_minus_2"); }
  if (mid) { c.count("small.n11_13"); if (thr.none) c.count("small.n11_13.no_threshold"); if (!Form::sparse && thr.none) c.count("small.n11_13.no_threshold.dense_form"); }

  if constexpr (Form::sparse) {
    // the edge list: either the threshold graph of the matrix, or a random subgraph of it
    Input edges = in;
    bool sub = r.chance(1, 2);
    unsigned keep = 3 + 2 * (unsigned)r.below(4);
    for (int i = 0; i < n; ++i) for (int j = 0; j < i; ++j)
      if (in.D[i][j] > thr.value || (sub && !r.chance(keep, 10))) set(edges, i, j, INF);
    if (sub) { edges.gen += "+subgraph"; x.gen = edges.gen; }
    c.log("edge list: " + edges.show());
    x.exp = expect(threshold_graph(edges, INF), x.dim_max, x.p, 100000);
    common_counters<T, Form>(x, edges);
    run_pipeline(x, edges, INF);
    Form::routes(x, edges, sub ? nullptr : &in, thr.none ? INF : thr.value, r, false);
    finish_case<T, Form>(x, edges);
  } else {
    x.exp = expect(threshold_graph(in, thr.value), x.dim_max, x.p, 100000);
    common_counters<T, Form>(x, in);
    run_pipeline(x, in, thr.value);
    Form::routes(x, in, thr, r, false);
    finish_case<T, Form>(x, in);
  }
}

// 12 <= n <= 40, sparse complexes, finite threshold; (n, dim_max, p) steered to both sides of the 64-bit and 128-bit
// limits of the dispatcher; includes the projective-plane inputs on which Z_2 and odd primes disagree
template <class T, class Form> void big_case(vh::Case& c) {
  vh::Rng& r = c.rng;
  CaseGuard guard;
  Ctx<T> x{c};
  x.form = Form::name(); x.cfgkind = "big";
  BigInput b;
  for (int tries = 0;; ++tries) { b = gen_big<T>(r, c.thorough); if (!Form::cloud_only || !b.in.pts.empty()) break; }
  Input& in = b.in;
  const int n = in.n;
  x.n = n; x.gen = in.gen; x.thrcls = "finite_small"; x.p = pick_prime(r);
  // steer dim_max towards one of the three encodings
  const char* targets[] = {"bf64", "bf128", "cns128"};
  std::string target = targets[r.below(3)];
  std::vector<int> dims;
  for (int d = 0; d <= n - 2; ++d) if (encodable(n, d, x.p) && target == dispatch_class(n, d, x.p)) dims.push_back(d);
  if (dims.empty()) for (int d = 0; d <= n - 2; ++d) if (encodable(n, d, x.p)) dims.push_back(d);
  x.dim_max = dims[r.below(dims.size())];
  if (b.hint_dim >= 0 && encodable(n, b.hint_dim, x.p)) x.dim_max = std::min(b.hint_dim, n - 2);
  Threshold thr; thr.cls = "finite_small"; thr.none = false; thr.value = (double)(T)b.thr;
  // the model graph: finite entries <= threshold
  Input edges = in;
  for (int i = 0; i < n; ++i) for (int j = 0; j < i; ++j) if (in.D[i][j] > thr.value) set(edges, i, j, INF);
  const size_t cap = 9000;
  x.exp = expect(threshold_graph(edges, INF), x.dim_max, x.p, cap);
  if (x.exp.too_big) { c.count("skip.complex_too_big"); return; }
  if constexpr (!Form::sparse) fill_missing(in, r, thr.value);
  c.log((Form::sparse ? edges : in).show());
  c.log("threshold value=" + vh::str(thr.value) + " dim_max=" + vh::str(x.dim_max) + " p=" + vh::str(x.p) + " value_type=" + ValName<T>::get() + " expected dispatcher class=" + dispatch_class(n, x.dim_max, x.p));
  common_counters<T, Form>(x, in);
  c.count("big.top_clique." + std::string(x.exp.top_clique <= 4 ? "le4" : x.exp.top_clique <= 8 ? "5_8" : "9plus"));
  // coverage accounting only (documented layout of the bit-field encoding: vertex k of a simplex is shifted by
  // (k-1)*bits_per_vertex, then the whole index by the coefficient bits)
  {
    int top = std::min(x.exp.top_clique, x.dim_max + 2);
    int bits = log2up(n) * (top - 1) + log2up(n) + (x.p == 2 ? 0 : log2up(x.p - 1));
    if (top >= 2) c.count(bits > 64 ? "enc.index_bits.over64" : bits > 32 ? "enc.index_bits.33_64" : "enc.index_bits.le32");
  }
  if (in.gen == "big_rp2") {
    Diagram d2 = expect(threshold_graph(edges, INF), x.dim_max, 2, cap).dgm, d3 = expect(threshold_graph(edges, INF), x.dim_max, 3, cap).dgm;
    if (d2 != d3) { c.count("torsion.z2_ne_z3"); c.count(x.p == 2 ? "torsion.run_with_p2" : "torsion.run_with_odd_p"); }
  }
  run_pipeline(x, edges, INF);
  if constexpr (Form::sparse) Form::routes(x, edges, nullptr, INF, r, true);
  else Form::routes(x, in, thr, r, true);
  finish_case<T, Form>(x, in);
}

// ------------------------------------------------------------------------------------------------ wide inputs
// kind 0 ("dimwide"): 126-131 vertices, dim_max from 61 up to n-2 and beyond (n-1.., INT_MAX), p in {2,3,5}.  The engine's
//   dimension type is 8 bits wide; the accepted outcomes of every route are the correct barcode or the documented
//   std::overflow_error refusal - never a wrong barcode, a memory error or another exception.  Every route runs in a
//   forked child, so that a sanitizer report becomes an ordinary violation record and the counters survive.
// kind 1 ("topclique"): 100-128 vertices with a 14-16-clique on the highest labels and dim_max = clique size - 2 or - 1.
template <class T, class Form, int Kind> void wide_case(vh::Case& c) {
  vh::Rng& r = c.rng;
  CaseGuard guard;
  Ctx<T> x{c};
  x.form = Form::name();
  BigInput b = Kind == 0 ? gen_dimwide(r) : gen_topclique(r);
  Input& in = b.in;
  const int n = in.n;
  x.n = n; x.gen = in.gen; x.thrcls = "finite_small";
  if (Kind == 0) {
    unsigned k = (unsigned)r.below(10);
    int d = k < 3 ? 61 + (int)r.below(63) : k == 3 ? 124 : k == 4 ? 125 : k == 5 ? 126 : k < 8 ? n - 2 : k == 8 ? n - 1 + (int)r.below(3) : INT_MAX;
    const bool wider = n > 131;
    if (wider && k < 4) d = r.chance(1, 2) ? 253 + (int)r.below(8) : 125 + (int)r.below(6);   // around the wrap of 8 bits / the edge of 7
    x.widecls = d > n - 2 ? "dm_above_n-2" : d > 124 ? "dm_125_n-2" : "dm_61_124";
    x.dim_max = std::min(d, n - 2);
    if (d > n - 2) x.dim_arg = d;
    k = (unsigned)r.below(10);
    x.p = k < 5 ? 2 : k < 9 ? 3 : 5;
    x.cfgkind = std::string(wider ? "dimwide_n257plus," : "dimwide,") + x.widecls;
    if (wider) c.count("wide.n257plus");
    x.isolate_all = true; x.refuse_ok_all = true;
  } else {
    x.dim_max = b.hint_dim;
    x.p = pick_prime(r);
    x.widecls = "topclique";
    x.cfgkind = "topclique";
    // for these inputs ripser and the explicit Bitfield-128 call are the same computation (the dispatcher picks
    // Bitfield-128, Bitfield-64 cannot hold 14+ vertices of 7 bits): run ripser_auto, CNS-128 and one of those two
    x.route_mask = (1u << R_AUTO) | (1u << R_CNS) | (r.chance(1, 2) ? (1u << R_DIRECT) : (1u << R_BF128));
  }
  Threshold thr; thr.cls = "finite_small"; thr.none = false; thr.value = (double)(T)b.thr;
  Input edges = in;
  for (int i = 0; i < n; ++i) for (int j = 0; j < i; ++j) if (in.D[i][j] > thr.value) set(edges, i, j, INF);
  x.exp = expect(threshold_graph(edges, INF), x.dim_max, x.p, Kind == 0 ? 9000 : 70000);
  if (x.exp.too_big) { c.count("skip.complex_too_big"); return; }
  if (x.exp.fast_checked) {
    c.count("oracle.fast_path_cross_checked");
    if (!x.exp.fast_ok) { c.violation("harness.oracle_fast_path", "differs_from_oracle_simplicial_diagram", "c11::simplicial_diagram_fast disagrees with oracle::simplicial_diagram"); return; }
  }
  if constexpr (!Form::sparse) fill_missing(in, r, thr.value);
  c.log((Form::sparse ? edges : in).show());
  c.log("threshold value=" + vh::str(thr.value) + " dim_max=" + vh::str(x.dim_max) + " p=" + vh::str(x.p) + " value_type=" + ValName<T>::get() + " expected dispatcher class=" + dispatch_class(n, x.dim_max, x.p));
  if (x.dim_arg >= 0) c.log("ripser_auto / ripser are called with dim_max=" + vh::str(x.dim_arg) + " (above n-2)");
  common_counters<T, Form>(x, in);
  c.count("wide." + x.widecls);
  c.count("wide.top_clique." + vh::str(x.exp.top_clique));
  if (Kind == 1) {
    // coverage accounting only: the largest combinatorial-number-system index is C(n-1, k) + ... for the top simplex of the
    // clique with k = min(clique, dim_max+2) vertices, about C(n, k)
    int k = std::min(x.exp.top_clique, x.dim_max + 2);
    double lg = (std::lgamma(n + 1.0) - std::lgamma(k + 1.0) - std::lgamma(n - k + 1.0)) / std::log(2.0);
    if (lg > 64.5) c.count("wide.cns_index_over64");
    if (log2up(n) * k > 100) c.count("wide.bitfield_index_over100bits");
  }
  // third opinion: not for the 16-cliques (it would double the time of the slowest cases)
  if (x.exp.complex_size <= 40000) run_pipeline(x, edges, INF); else c.count("pipeline.skipped_large_complex");
  if constexpr (Form::sparse) Form::routes(x, edges, nullptr, INF, r, true);
  else Form::routes(x, in, thr, r, true);
  finish_case<T, Form>(x, in);
}

// ------------------------------------------------------------------------------------------------ huge sparse inputs
// Tens of thousands of vertices (16-18 bits per vertex in the bit-field encodings), all isolated except m = 25-40
// active ones that carry a sphere-like or few-valued metric with many ties, so that the reduction in dimension
// dim_max really adds columns (coefficients of summed pivots are rewritten) on simplices whose encoded entry
// (index << coefficient bits) exceeds 2^64 when the active vertices have the highest labels.  The oracle works on the
// active vertices only (relabelled 0..m-1); the n-m isolated vertices add n-m essential H_0 bars [0,inf), which are
// counted instead of stored on both sides.
template <class T> MSparse<T> sparse_from_active(int n, const std::vector<int>& label, const Input& act, vh::Rng& r) {
  typedef typename MSparse<T>::vertex_diameter_t VD;
  struct E { int i, j; T v; };
  std::vector<E> es;
  for (int a = 0; a < act.n; ++a) for (int b = 0; b < a; ++b) if (act.D[a][b] != INF) { if (r.chance(1, 2)) es.push_back({label[a], label[b], (T)act.D[a][b]}); else es.push_back({label[b], label[a], (T)act.D[a][b]}); }
  r.shuffle(es);
  std::vector<std::vector<VD>> nb(n);
  for (auto& e : es) { nb[e.i].emplace_back(e.j, e.v); nb[e.j].emplace_back(e.i, e.v); }
  for (int v : label) std::sort(nb[v].begin(), nb[v].end());
  return MSparse<T>(std::move(nb), es.size());
}

template <class T> void huge_case(vh::Case& c) {
  vh::Rng& r = c.rng;
  CaseGuard guard;
  Ctx<T> x{c};
  x.form = "sparse";
  const int m = 25 + (int)r.below(16);
  x.dim_max = r.chance(7, 10) ? 2 : 1;
  { unsigned k = (unsigned)r.below(20); x.p = k < 3 ? 2 : k < 9 ? 3 : k < 13 ? 5 : k < 17 ? 7 : k < 18 ? 13 : k < 19 ? 32749 : 65521; }
  // in dimension 1 an entry only exceeds 64 bits with a 15/16-bit coefficient field
  if (x.dim_max == 1 && r.chance(3, 5)) x.p = r.chance(1, 2) ? 32749 : 65521;
  // the active metric: multiples of 1/8 (exact in float and double), many ties
  Input act; init(act, m, "");
  unsigned kind = (unsigned)r.below(3);
  double thr;
  if (kind < 2) {
    int sd = (kind == 0) ? x.dim_max : 2;             // points of the circle / 2-sphere
    act.gen = sd == 1 ? "huge_circle" : "huge_sphere";
    std::vector<std::vector<double>> pts;
    while ((int)pts.size() < m) {
      std::vector<double> q(sd + 1); double r2 = 0;
      for (auto& v : q) { v = 2.0 * r.unit() - 1.0; r2 += v * v; }
      if (r2 > 1 || r2 < 0.01) continue;
      for (auto& v : q) v /= std::sqrt(r2);
      pts.push_back(q);
    }
    for (int a = 0; a < m; ++a) for (int b = 0; b < a; ++b) {
      double d2 = 0; for (int k2 = 0; k2 <= sd; ++k2) d2 += (pts[a][k2] - pts[b][k2]) * (pts[a][k2] - pts[b][k2]);
      set(act, a, b, std::ceil(std::sqrt(d2) * 8.0) / 8.0);
    }
    thr = sd == 1 ? 0.25 * (double)(2 + r.below(6)) : 0.125 * (double)(7 + r.below(6));   // circle .5-1.75, sphere .875-1.5
  } else {
    act.gen = "huge_fewvalued";                        // random symmetric matrix on 5 values
    for (int a = 0; a < m; ++a) for (int b = 0; b < a; ++b) set(act, a, b, 1.0 + 0.25 * (double)r.below(5));
    thr = 1.0 + 0.25 * (double)r.below(3);              // keeps 20-60 % of the pairs
  }
  for (int a = 0; a < m; ++a) for (int b = 0; b < a; ++b) if (act.D[a][b] > thr) set(act, a, b, INF);
  // number of vertices and where the active ones sit
  int n = r.chance(1, 5) ? 131073 + (int)r.below(100000) : 32769 + (int)r.below(98000);
  if (x.dim_max == 1 && n <= 65536) n += 65536;       // 17 bits per vertex at least
  unsigned place = (unsigned)r.below(20);
  std::vector<int> label(m);
  std::string placement;
  if (place < 14) { placement = "high"; for (int a = 0; a < m; ++a) label[a] = n - m + a; }
  else if (place < 17) { placement = "low"; for (int a = 0; a < m; ++a) label[a] = a; }
  else { placement = "scattered"; std::set<int> st; while ((int)st.size() < m) st.insert((int)r.below((uint64_t)n)); int a = 0; for (int v : st) label[a++] = v; }
  { std::vector<int> perm = label; r.shuffle(perm); if (r.chance(1, 2)) label = perm; }   // active point a -> label[a], monotone or not
  x.cfgkind = "huge_" + placement; x.gen = act.gen; x.thrcls = "finite"; x.n = n;
  Expectation e = expect(threshold_graph(act, INF), x.dim_max, x.p, 7000);
  if (e.too_big) { c.count("skip.complex_too_big"); c.count("huge.skip_too_big"); return; }
  // fold the essential H_0 bars
  long ess0 = 0; Diagram rest;
  for (auto& iv : e.dgm) { if (iv.dim == 0 && iv.birth == 0 && iv.death == INF) ++ess0; else rest.push_back(iv); }
  e.dgm = rest; x.exp = e; x.fold_ess0 = ess0 + (n - m);
  bool top_bar = false, top_finite = false;
  for (auto& iv : x.exp.dgm) if (iv.dim == x.dim_max) { top_bar = true; if (iv.death != INF) top_finite = true; }
  // coverage accounting (documented layout of the bit field): a (dim_max+1)-simplex on the highest active vertices is
  // encoded as (v_top << bits*(dim_max+1) | ...) << coefficient bits
  std::vector<int> sorted = label; std::sort(sorted.begin(), sorted.end());
  int vtop = sorted[std::min(m - 1, x.dim_max + 1)];
  int entry_bits = log2up((long)vtop + 1) + log2up(n) * (x.dim_max + 1) + (x.p == 2 ? 0 : log2up(x.p - 1));
  bool over64 = entry_bits > 64 && e.top_clique >= x.dim_max + 2;
  c.log("huge sparse input: n=" + vh::str(n) + " active=" + vh::str(m) + " placement=" + placement + " labels=" + vh::vstr(label));
  c.log("active metric (entries above the threshold removed): " + act.show());
  c.log("threshold=" + vh::str(thr) + " dim_max=" + vh::str(x.dim_max) + " p=" + vh::str(x.p) + " value_type=" + ValName<T>::get() + " expected dispatcher class=" + dispatch_class(n, x.dim_max, x.p) + " entry_bits~" + vh::str(entry_bits));
  c.count("gen." + act.gen); c.count("p." + pname(x.p)); c.count("huge.placement." + placement); c.count("huge.dim_max." + vh::str(x.dim_max));
  c.count(std::string("dispatch.") + dispatch_class(n, x.dim_max, x.p)); c.count("n.32769plus");
  c.count("complex.simplices", x.exp.complex_size);
  for (auto& iv : x.exp.dgm) c.count(std::string("bars.") + (iv.death == INF ? "essential" : "finite") + ".dim" + (iv.dim >= 3 ? std::string("3plus") : vh::str(iv.dim)));
  if (over64) c.count("huge.entry_over64");
  if (over64 && x.p > 2) c.count("huge.entry_over64.odd_p");
  if (over64 && x.p > 2 && top_bar) c.count("huge.entry_over64.odd_p.top_dim_bar");
  if (over64 && x.p > 2 && top_finite) c.count("huge.entry_over64.odd_p.top_dim_finite_bar");
  if (over64 && x.p == 2 && top_bar) c.count("huge.entry_over64.p2_control.top_dim_bar");
  if (!over64 && x.p > 2 && top_bar) c.count("huge.entry_le64_control.odd_p.top_dim_bar");
  // third opinion on the active vertices alone
  if (x.p < kPipelineBelow) {
    c.log("run gudhi Rips_complex->Simplex_tree->Persistent_cohomology pipeline on the active vertices");
    Diagram pl = gudhi_pipeline(act.D, INF, x.dim_max, (int)x.p);
    long pe = 0;
    for (auto& iv : pl) { if (iv.dim == 0 && iv.birth == 0 && iv.death == INF) ++pe; else x.pipeline.push_back(iv); }
    x.have_pipeline = true; c.count("pipeline.compared");
    x.pipeline_ok = (x.pipeline == x.exp.dgm) && pe == ess0;
  } else c.count("pipeline.skipped_big_prime");
  unsigned k = (unsigned)r.below(3);
  T thrT = k == 0 ? std::numeric_limits<T>::infinity() : k == 1 ? std::numeric_limits<T>::max() : (T)thr;
  c.log("sparse threshold argument = " + vh::str((double)thrT));
  engine_routes<T, MSparse<T>>(x, "from_edge_list", thrT, true, true, r, -1, [&] { return sparse_from_active<T>(n, label, act, r); });
  finish_pipeline(x);
  if (!c.failed && top_bar) c.nontrivial(vh::hash_str(vh::G().history));
  if (!c.failed) c.count("cases.completed");
  c.sample("{\"form\":\"sparse(huge)\",\"value_type\":\"" + std::string(ValName<T>::get()) + "\",\"history\":\"" + vh::jesc(vh::G().history.substr(0, 900)) + "\",\"expected_without_essential_H0\":\"" +
           vh::jesc(oracle::show(x.exp.dgm)) + "\",\"essential_H0\":" + vh::str(x.fold_ess0) + ",\"routes_compared\":" + vh::str(x.routes_ok) + "}");
}

}  // namespace c11
#endif

// C11 — input form "euclid", value type float (one translation unit per form x value type keeps compile times short)
#include "c11_routes.h"
VH_CONFIG("euclid_f", (c11::small_case<float, c11::FormEuclid<float>>));
VH_CONFIG("euclid_f_big", (c11::big_case<float, c11::FormEuclid<float>>));

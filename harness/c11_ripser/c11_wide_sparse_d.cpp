// C11 — wide inputs (dim_max at the edge of the 8-bit dimension type; 14-16-cliques on the highest labels), sparse form, double
#include "c11_routes.h"
VH_CONFIG("sparse_d_dimwide", (c11::wide_case<double, c11::FormSparse<double>, 0>));
VH_CONFIG("sparse_d_topclique", (c11::wide_case<double, c11::FormSparse<double>, 1>));

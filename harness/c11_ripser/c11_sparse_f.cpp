// C11 — input form "sparse", value type float (one translation unit per form x value type keeps compile times short)
#include "c11_routes.h"
VH_CONFIG("sparse_f", (c11::small_case<float, c11::FormSparse<float>>));
VH_CONFIG("sparse_f_big", (c11::big_case<float, c11::FormSparse<float>>));
VH_CONFIG("sparse_f_huge", (c11::huge_case<float>));

// C11 — Ripser computes the persistence of the Rips filtration, for every input form.  See spec.py for the rule.
#include "common/vh.h"
#include "c11_guard.h"
#include <sys/time.h>

// Runaway protection (a wrong reduction can loop forever while its working column grows): the resident set is capped by
// ASan itself, and every case has a CPU-time budget far above what any legitimate case needs.  Both end the process;
// the orchestrator attributes the death to the running case and restarts the shard behind it.
extern "C" const char* __asan_default_options() { return "hard_rss_limit_mb=4000"; }

namespace c11 {
static void on_cpu_budget(int) {
  static const char msg[] = "C11-WATCHDOG: case exceeded its CPU budget (runaway computation in the engine)\n";
  ssize_t w = ::write(2, msg, sizeof msg - 1); (void)w;
  ::vh::dump_history_on_fatal();
  signal(SIGABRT, SIG_DFL);
  abort();
}
CaseGuard::CaseGuard() {
  static bool installed = false;
  if (!installed) { signal(SIGVTALRM, on_cpu_budget); installed = true; }
  struct itimerval it = {};
  it.it_value.tv_sec = kCpuBudgetSeconds;
  setitimer(ITIMER_VIRTUAL, &it, nullptr);
}
CaseGuard::~CaseGuard() {
  struct itimerval it = {};
  setitimer(ITIMER_VIRTUAL, &it, nullptr);
}
}  // namespace c11

VH_MAIN()

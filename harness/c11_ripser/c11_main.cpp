// C11 — Ripser computes the persistence of the Rips filtration, for every input form.  See spec.py for the rule.
#include "common/vh.h"
VH_MAIN()

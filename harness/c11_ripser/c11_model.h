// C11 — model side (NO GUDHI header here): inputs (dissimilarities / weighted graphs / point clouds),
// threshold classes, the independent expectation (brute-force clique complex of the threshold graph + textbook
// Z_p column reduction), comparison helpers.
#ifndef VERIF_C11_MODEL_H_
#define VERIF_C11_MODEL_H_
#include "common/vh.h"
#include "oracle/flag.h"
#include "oracle/zp_reduce.h"
#include <cmath>
#include <limits>

namespace c11 {

typedef std::vector<oracle::Interval> Diagram;
const double INF = std::numeric_limits<double>::infinity();

// One input.  D is symmetric with zero diagonal; every finite entry is exactly representable in the value type T the
// case runs with (float or double).  D[i][j] = +inf means "no such edge" (only produced for the sparse form).
struct Input {
  int n = 0;
  std::vector<std::vector<double>> D;
  std::vector<std::vector<long>> pts;  // when the input is a point cloud: numerators of the coordinates, else empty
  long den = 1;                        // the coordinates are pts / den (den a power of two: integer or dyadic non-integer points)
  std::string gen;
  bool complete() const {
    for (int i = 0; i < n; ++i) for (int j = 0; j < i; ++j) if (D[i][j] == INF) return false;
    return true;
  }
  std::vector<double> distinct_values() const {
    std::vector<double> v;
    for (int i = 0; i < n; ++i) for (int j = 0; j < i; ++j) if (D[i][j] != INF) v.push_back(D[i][j]);
    std::sort(v.begin(), v.end()); v.erase(std::unique(v.begin(), v.end()), v.end());
    return v;
  }
  std::string show() const {
    std::ostringstream o; o.precision(17);
    o << "gen=" << gen << " n=" << n;
    if (!pts.empty() && den != 1) o << " coordinates=pts/" << den;
    if (!pts.empty()) { o << " pts="; for (auto& p : pts) { o << "("; for (size_t k = 0; k < p.size(); ++k) { if (k) o << ","; o << p[k]; } o << ")"; } }
    o << " lower=";
    for (int i = 1; i < n; ++i) { o << "["; for (int j = 0; j < i; ++j) { if (j) o << ","; o << D[i][j]; } o << "]"; }
    return o.str();
  }
};

inline void init(Input& in, int n, const std::string& gen) {
  in.n = n; in.gen = gen; in.pts.clear(); in.den = 1;
  in.D.assign(n, std::vector<double>(n, 0.0));
}
inline void set(Input& in, int i, int j, double v) { in.D[i][j] = in.D[j][i] = v; }

// relabel the vertices with a random permutation
inline void permute(Input& in, vh::Rng& r) {
  std::vector<int> perm(in.n); for (int i = 0; i < in.n; ++i) perm[i] = i;
  r.shuffle(perm);
  Input out = in;
  for (int i = 0; i < in.n; ++i) for (int j = 0; j < in.n; ++j) out.D[perm[i]][perm[j]] = in.D[i][j];
  if (!in.pts.empty()) for (int i = 0; i < in.n; ++i) out.pts[perm[i]] = in.pts[i];
  in = out;
}

// Euclidean distance as Euclidean_distance_matrix<T> must compute it.  The coordinates are a / den with small integer
// numerators and den a power of two: every difference, square and partial sum is a multiple of 1/den^2 below 2^24/den^2,
// hence exact in T in whatever order it is accumulated, and IEEE sqrt is correctly rounded, so this is *the* value of
// type T, whoever computes it.
template <class T> double euclid(const std::vector<long>& a, const std::vector<long>& b, long den = 1) {
  long s = 0; for (size_t k = 0; k < a.size(); ++k) s += (a[k] - b[k]) * (a[k] - b[k]);
  return (double)std::sqrt((T)s / (T)(den * den));
}

// ---------------------------------------------------------------------------------------------- small generators
template <class T> void gen_cloud(Input& in, vh::Rng& r, int n) {
  init(in, n, "cloud");
  int dim = 1 + (int)r.below(3);
  long side = 2 + (long)r.below(5);
  bool allow_dup = r.chance(1, 4);
  if (allow_dup) in.gen = "cloud_dup";
  // half of the clouds have non-integer (dyadic) coordinates: multiples of 1/2, 1/8 or 1/16 in the same box
  const long dens[] = {2, 8, 16};
  const long den = r.chance(1, 2) ? dens[r.below(3)] : 1;
  if (n >= 4 && r.chance(1, 4)) {
    // vertices of a cross-polytope (+- s along each axis, shifted to non-negative coordinates): spheres, so finite
    // intervals in dimension d-1 >= 1; the remaining points are random
    in.gen = "cloud_octa";
    dim = 2 + (int)r.below((uint64_t)std::min(3, n / 2 - 1));
    // half-width sn/den: 1, 2 or 3 for integer clouds, any multiple of 1/den in (0,3] otherwise (e.g. 3/2, 5/16)
    long sn = den == 1 ? 1 + (long)r.below(3) : 1 + (long)r.below((uint64_t)(3 * den));
    side = (2 * sn + den - 1) / den;
    for (int a = 0; a < dim; ++a) for (int sg = -1; sg <= 1; sg += 2) { std::vector<long> p(dim, sn); p[a] += sg * sn; in.pts.push_back(p); }
  }
  in.den = den;
  for (int i = (int)in.pts.size(); i < n; ++i) {
    for (int tries = 0; tries < 50; ++tries) {
      std::vector<long> p(dim); for (auto& x : p) x = r.range(0, side * den);
      if (allow_dup && den != 1 && !in.pts.empty() && r.chance(1, 4)) p = in.pts[r.below(in.pts.size())];   // a fine grid seldom repeats a point by itself
      bool dup = false; for (auto& q : in.pts) if (q == p) dup = true;
      if (!dup || allow_dup || tries == 49) { in.pts.push_back(p); break; }
    }
  }
  r.shuffle(in.pts);
  for (int i = 0; i < n; ++i) for (int j = 0; j < i; ++j) set(in, i, j, euclid<T>(in.pts[i], in.pts[j], in.den));
}

inline void gen_grid6(Input& in, vh::Rng& r, int n) {
  init(in, n, "grid6");
  double step = 0.5 * (1 + (double)r.below(3));
  bool zeros = r.chance(1, 6);
  if (zeros) in.gen = "grid6_zeros";
  for (int i = 0; i < n; ++i) for (int j = 0; j < i; ++j) {
    double v = step * (double)(1 + r.below(6));
    if (zeros && r.chance(1, 8)) v = 0;
    set(in, i, j, v);
  }
}

// hop metric of a random connected graph (cycle + chords), scaled: many ties, long cycles -> H_1 classes
inline void gen_graphmetric(Input& in, vh::Rng& r, int n) {
  init(in, n, "graphmetric");
  std::vector<std::vector<int>> d(n, std::vector<int>(n, 1000));
  for (int i = 0; i < n; ++i) { d[i][i] = 0; int j = (i + 1) % n; if (n > 1) d[i][j] = d[j][i] = 1; }
  int chords = (int)r.below(1 + n / 2);
  for (int c = 0; c < chords; ++c) { int a = (int)r.below(n), b = (int)r.below(n); if (a != b) d[a][b] = d[b][a] = 1; }
  for (int k = 0; k < n; ++k) for (int i = 0; i < n; ++i) for (int j = 0; j < n; ++j) d[i][j] = std::min(d[i][j], d[i][k] + d[k][j]);
  double scale = 0.25 * (double)(1 + r.below(8));
  for (int i = 0; i < n; ++i) for (int j = 0; j < i; ++j) set(in, i, j, scale * d[i][j]);
  permute(in, r);
}

// cross-polytope-like: antipodal pairs far apart, everything else near (spheres: H_1 at n=4, H_2 at n=6, H_3 at n=8)
inline void gen_crosspoly(Input& in, vh::Rng& r, int n) {
  init(in, n, "crosspoly");
  bool noisy = r.chance(1, 2);
  for (int i = 0; i < n; ++i) for (int j = 0; j < i; ++j) {
    bool antipodal = (i / 2 == j / 2);
    double v = antipodal ? (noisy ? 3.0 + 0.5 * (double)r.below(3) : 3.0) : (noisy ? 1.0 + 0.5 * (double)r.below(3) : 1.0);
    set(in, i, j, v);
  }
  permute(in, r);
}

inline void gen_twolevel(Input& in, vh::Rng& r, int n) {
  init(in, n, "twolevel");
  unsigned num = 1 + (unsigned)r.below(5);
  for (int i = 0; i < n; ++i) for (int j = 0; j < i; ++j) set(in, i, j, r.chance(num, 6) ? 1.0 : 2.0);
}

template <class T> void gen_small(Input& in, vh::Rng& r, int n, bool cloud_only) {
  if (cloud_only) { gen_cloud<T>(in, r, n); return; }
  switch (r.below(10)) {
    case 0: case 1: case 2: gen_cloud<T>(in, r, n); break;
    case 3: case 4: case 5: gen_grid6(in, r, n); break;
    case 6: gen_graphmetric(in, r, n); break;
    case 7: case 8: gen_crosspoly(in, r, n); break;
    default: if (r.chance(1, 2)) gen_twolevel(in, r, n); else gen_graphmetric(in, r, n); break;
  }
}

// ---------------------------------------------------------------------------------------------- thresholds
struct Threshold {
  std::string cls;   // none_inf none_max below_min equal between at_max above_max
  bool none = false;
  double value = INF;  // the threshold as a double that is exactly representable in T (INF when none)
};

template <class T> Threshold pick_threshold(const Input& in, vh::Rng& r, bool allow_none) {
  Threshold t;
  std::vector<double> v = in.distinct_values();
  unsigned k = (unsigned)r.below(allow_none ? 8 : 6);
  if (v.empty()) k = allow_none ? 6 : 0;
  switch (k) {
    case 0: t.cls = "below_min"; t.value = (v.empty() ? 0.0 : v.front()) - 0.5; break;
    case 1: case 2: t.cls = "equal"; t.value = v[r.below(v.size())]; break;
    case 3:
      if (v.size() >= 2) { size_t i = r.below(v.size() - 1); t.cls = "between"; t.value = (double)(T)(0.5 * (v[i] + v[i + 1])); if (t.value == v[i] || t.value == v[i+1]) t.cls = "equal"; }
      else { t.cls = "equal"; t.value = v[0]; }
      break;
    case 4: t.cls = "at_max"; t.value = v.back(); break;
    case 5: t.cls = "above_max"; t.value = v.back() + 1.0; break;
    case 6: t.cls = "none_inf"; t.none = true; break;
    default: t.cls = "none_max"; t.none = true; break;
  }
  t.value = t.none ? INF : (double)(T)t.value;
  return t;
}

// ---------------------------------------------------------------------------------------------- oracle
inline oracle::WGraph threshold_graph(const Input& in, double thr) {
  oracle::WGraph g = oracle::make_graph(in.n);
  for (int i = 0; i < in.n; ++i) for (int j = 0; j < in.n; ++j)
    if (i != j && in.D[i][j] != INF && in.D[i][j] <= thr) g.w[i][j] = in.D[i][j];
  return g;
}

// naive recursive clique enumeration (for inputs with more vertices than the 2^n sweep of oracle/flag.h can take).
// Same definition: every clique with at most max_dim+1 vertices, value = largest edge (vertices have value 0).
inline void cliques_rec(const oracle::WGraph& g, int max_dim, oracle::Simplex& cur, double val, const std::vector<int>& cand,
                        std::map<oracle::Simplex, double>& out, size_t cap) {
  for (size_t a = 0; a < cand.size(); ++a) {
    if (out.size() > cap) return;
    int v = cand[a];
    double nv = val;
    for (long u : cur) nv = std::max(nv, g.w[(int)u][v]);
    cur.push_back(v);
    out[cur] = nv;
    if ((int)cur.size() <= max_dim) {
      std::vector<int> nc;
      for (size_t b = a + 1; b < cand.size(); ++b) if (g.has_edge(v, cand[b])) nc.push_back(cand[b]);
      cliques_rec(g, max_dim, cur, nv, nc, out, cap);
    }
    cur.pop_back();
  }
}
inline std::map<oracle::Simplex, double> clique_complex(const oracle::WGraph& g, int max_dim, size_t cap) {
  std::map<oracle::Simplex, double> out;
  std::vector<int> all(g.n()); for (int i = 0; i < g.n(); ++i) all[i] = i;
  oracle::Simplex cur;
  cliques_rec(g, max_dim, cur, 0.0, all, out, cap);
  return out;
}

struct Expectation {
  Diagram dgm;          // dimensions 0..dim_max, zero-length intervals dropped, sorted
  size_t complex_size = 0;
  bool too_big = false;
  bool has_finite_high = false;   // a finite positive-length interval in dimension >= 1
  int top_clique = 0;
  bool fast_checked = false, fast_ok = true;   // simplicial_diagram_fast cross-checked against oracle::simplicial_diagram
};

// The same diagram as oracle::simplicial_diagram (filtration order = (value, dimension, lexicographic), boundary sign
// (-1)^k for deleting the k-th vertex, reduction by oracle::reduce), with the bookkeeping done on sorted vectors instead
// of std::map look-ups inside the sort: needed for the complexes with 10^4-10^5 simplices (a 14-16-clique).  Complexes
// below kFastCheckBelow simplices that take this path are also run through oracle::simplicial_diagram and compared.
inline Diagram simplicial_diagram_fast(const std::map<oracle::Simplex, double>& cx, long p) {
  typedef std::pair<const oracle::Simplex, double> Entry;
  std::vector<const Entry*> lex; lex.reserve(cx.size());          // lexicographic order (the order of the map)
  for (auto& kv : cx) lex.push_back(&kv);
  std::vector<int> order(lex.size());                             // filtration order, as indices into lex
  for (size_t i = 0; i < order.size(); ++i) order[i] = (int)i;
  std::sort(order.begin(), order.end(), [&](int a, int b) {
    if (lex[a]->second != lex[b]->second) return lex[a]->second < lex[b]->second;
    if (lex[a]->first.size() != lex[b]->first.size()) return lex[a]->first.size() < lex[b]->first.size();
    return a < b;
  });
  std::vector<int> pos(lex.size());                               // lex index -> position in the filtration
  for (size_t q = 0; q < order.size(); ++q) pos[order[q]] = (int)q;
  std::vector<oracle::Cell> cells(lex.size());
  std::vector<double> vals(lex.size());
  oracle::Simplex f;
  for (size_t q = 0; q < order.size(); ++q) {
    const oracle::Simplex& s = lex[order[q]]->first;
    vals[q] = lex[order[q]]->second;
    cells[q].dim = (int)s.size() - 1;
    if (s.size() > 1)
      for (size_t k = 0; k < s.size(); ++k) {
        f.clear(); for (size_t t = 0; t < s.size(); ++t) if (t != k) f.push_back(s[t]);
        auto it = std::lower_bound(lex.begin(), lex.end(), f, [](const Entry* e, const oracle::Simplex& key) { return e->first < key; });
        cells[q].bdry.emplace_back((it == lex.end() || (*it)->first != f) ? -1 : pos[it - lex.begin()], (k % 2 == 0) ? 1 : -1);
      }
  }
  return oracle::diagram(oracle::reduce(cells, p).bars, vals, true);
}
const size_t kFastAbove = 9000, kFastCheckBelow = 20000;

// persistence of the flag complex of the threshold graph, dimensions 0..dim_max (uses simplices up to dim_max+1)
inline Expectation expect(const oracle::WGraph& g, int dim_max, long p, size_t cap) {
  Expectation e;
  std::map<oracle::Simplex, double> cx;
  if (g.n() <= 10) cx = oracle::flag_complex(g, dim_max + 1);
  else cx = clique_complex(g, dim_max + 1, cap);
  e.complex_size = cx.size();
  if (cx.size() > cap) { e.too_big = true; return e; }
  for (auto& kv : cx) e.top_clique = std::max(e.top_clique, (int)kv.first.size());
  Diagram all;
  if (cx.size() > kFastAbove) {
    all = simplicial_diagram_fast(cx, p);
    if (cx.size() < kFastCheckBelow) { e.fast_checked = true; e.fast_ok = (all == oracle::simplicial_diagram(cx, p, true)); }
  } else all = oracle::simplicial_diagram(cx, p, true);
  for (auto& iv : all) if (iv.dim <= dim_max) {
    e.dgm.push_back(iv);
    if (iv.dim >= 1 && iv.death != INF) e.has_finite_high = true;
  }
  std::sort(e.dgm.begin(), e.dgm.end());
  return e;
}

// first dimension in which two sorted diagrams differ, as a coarse class; "" when equal
inline std::string diff_class(const Diagram& got, const Diagram& want) {
  if (got == want) return "";
  int dmax = 0;
  for (auto& i : got) dmax = std::max(dmax, i.dim);
  for (auto& i : want) dmax = std::max(dmax, i.dim);
  for (int d = 0; d <= dmax; ++d) {
    Diagram a, b;
    for (auto& i : got) if (i.dim == d) a.push_back(i);
    for (auto& i : want) if (i.dim == d) b.push_back(i);
    if (a != b) {
      std::string k = d >= 3 ? "3plus" : vh::str(d);
      std::string how = a.size() < b.size() ? "missing" : a.size() > b.size() ? "extra" : "values";
      return "dim" + k + "_" + how;
    }
  }
  return "order";
}

inline std::string pclass(long p) { return p == 2 ? "2" : p <= 13 ? "odd_small" : "big"; }

const long kPrimes[] = {2, 3, 5, 7, 11, 13, 32749, 65521};
inline const std::vector<long>& all_primes() {   // every prime below 65536 (the moduli the engine accepts)
  static const std::vector<long> ps = [] {
    std::vector<char> comp(65536, 0); std::vector<long> v;
    for (long q = 2; q < 65536; ++q) { if (comp[q]) continue; v.push_back(q); for (long m = q * q; m < 65536; m += q) comp[m] = 1; }
    return v;
  }();
  return ps;
}
inline bool listed_prime(long p) { for (long q : kPrimes) if (q == p) return true; return false; }
// counter name of a modulus: the eight listed ones by value, the others by size class
inline std::string pname(long p) { return listed_prime(p) ? vh::str(p) : p < 256 ? "other_lt256" : p < 32768 ? "other_lt32768" : "other_ge32768"; }
inline long pick_prime(vh::Rng& r) {
  // ~30 %: any prime below 65536 (half of those uniform over the 6542 primes, half among the 60 smallest, so that
  // small coefficient fields other than the listed ones are frequent too)
  if (r.chance(3, 10)) { const std::vector<long>& ps = all_primes(); return r.chance(1, 2) ? ps[r.below(ps.size())] : ps[r.below(60)]; }
  // Z_2 and Z_3 get more weight (hard-coded Z_2 path / smallest coefficient storage), every listed prime is reached
  unsigned k = (unsigned)r.below(12);
  if (k < 3) return 2;
  if (k < 5) return 3;
  return kPrimes[2 + (k - 5) % 6];
}

inline int log2up(long n) { --n; int k = 0; while (n > 0) { n >>= 1; ++k; } return k; }
// only used to *account* for which encoding the dispatcher is expected to pick (coverage counters / workload steering),
// never to decide a verdict
inline int dispatch_bits(int n, int dim_max, long p) { return log2up(n) * (std::min(dim_max, n - 2) + 2) + log2up(p - 1); }
inline const char* dispatch_class(int n, int dim_max, long p) {
  int b = dispatch_bits(n, dim_max, p);
  return b <= 64 ? "bf64" : b <= 128 ? "bf128" : "cns128";
}

// Workload steering only: the engine documents (by throwing std::overflow_error) that it refuses inputs whose simplices
// cannot be numbered in 128 bits together with a coefficient, and its dimension type is 8 bits wide.  The big configs
// stay inside that domain with a margin: C(n, min(n/2, dim_max+2)) * 2^coeffbits < 2^116 and dim_max <= 60.
inline bool encodable(int n, int dim_max, long p) {
  if (dim_max > 60) return false;
  int k = std::min(n / 2, dim_max + 2);
  double lg = (std::lgamma(n + 1.0) - std::lgamma(k + 1.0) - std::lgamma(n - k + 1.0)) / std::log(2.0);
  return lg + log2up(p - 1) < 116.0;
}

// ---------------------------------------------------------------------------------------------- big generators
// 12-vertex flag triangulation of the projective plane (no empty triangle, no K4: its clique complex is the surface).
// Found by stellar subdivision of the 6-vertex RP^2; nothing about it is trusted: the oracle recomputes everything
// from the graph, and the counter torsion.z2_ne_z3 measures that Z_2 and Z_3 really disagree.
const int kRp2Tri[22][3] = {{0,1,2},{0,8,2},{2,11,8},{11,3,8},{0,8,6},{8,3,6},{6,4,3},{5,9,0},{9,6,0},{4,7,6},{5,9,7},
                            {9,6,7},{0,5,1},{1,2,4},{2,11,10},{11,3,10},{10,5,3},{3,4,1},{4,7,2},{2,10,7},{10,5,7},{5,1,3}};

struct BigInput { Input in; double thr; int hint_dim = -1; };

// all big generators produce a sparse weighted graph (missing = INF) and a finite threshold; `fill` turns it into a
// complete dissimilarity by giving the missing pairs values above the threshold
inline void fill_missing(Input& in, vh::Rng& r, double thr) {
  for (int i = 0; i < in.n; ++i) for (int j = 0; j < i; ++j) if (in.D[i][j] == INF) set(in, i, j, thr + 0.5 * (double)(1 + r.below(4)));
}
inline void all_missing(Input& in) { for (int i = 0; i < in.n; ++i) for (int j = 0; j < i; ++j) set(in, i, j, INF); }

template <class T> BigInput gen_big(vh::Rng& r, bool thorough) {
  BigInput b; Input& in = b.in;
  unsigned kind = (unsigned)r.below(12);
  if (kind >= 10) {
    // many vertices (8-9 bits per vertex in the bit-field encodings), a clique of 8-10 vertices on the highest labels
    // (its top simplices have indices beyond 2^64 in the 128-bit field), a few sparse edges elsewhere
    int n = 129 + (int)r.below(220);
    init(in, n, "big_wide"); all_missing(in);
    int cs = 8 + (int)r.below(3);
    for (int i = n - cs; i < n; ++i) for (int j = n - cs; j < i; ++j) set(in, i, j, 0.5 * (double)(1 + r.below(4)));
    int extra = n / 2 + (int)r.below((uint64_t)n);
    for (int k = 0; k < extra; ++k) { int a = (int)r.below(n), c2 = (int)r.below(n); if (a != c2 && in.D[a][c2] == INF) set(in, a, c2, 0.5 * (double)(1 + r.below(6))); }
    b.thr = 0.5 * (double)(4 + r.below(3));
    if (r.chance(2, 3)) b.hint_dim = cs - 2 + (int)r.below(4);
  } else if (kind < 3) {                       // distinct integer grid points, geometric threshold
    int n = 12 + (int)r.below(29);
    init(in, n, "big_gridgeo");
    long w = 3 + (long)r.below(6), h = (2 * n + w) / w + (long)r.below(3);
    std::vector<std::vector<long>> cells;
    for (long x = 0; x < w; ++x) for (long y = 0; y < h; ++y) cells.push_back({x, y});
    r.shuffle(cells); cells.resize(n); in.pts = cells;
    const long sq[] = {1, 2, 4, 5};
    b.thr = (double)std::sqrt((T)sq[r.below(4)]);
    for (int i = 0; i < n; ++i) for (int j = 0; j < i; ++j) set(in, i, j, euclid<T>(in.pts[i], in.pts[j]));
  } else if (kind < 5) {                // sparse random graph with grid weights
    int n = 12 + (int)r.below(29);
    init(in, n, "big_randsparse"); all_missing(in);
    unsigned c = 2 + (unsigned)r.below(5);
    for (int i = 0; i < n; ++i) for (int j = 0; j < i; ++j) if (r.chance(c, (unsigned)n)) set(in, i, j, 0.5 * (double)(1 + r.below(6)));
    b.thr = 0.5 * (double)(3 + r.below(4));
  } else if (kind < 7) {                // clusters (small complete blobs) joined by a few edges; optionally one large clique
    int n = 12 + (int)r.below(29);
    init(in, n, "big_clusters"); all_missing(in);
    std::vector<int> cl(n); int c = 0, left = 0;
    bool bigclique = r.chance(1, 4);
    int bigsize = bigclique ? (thorough ? 10 + (int)r.below(3) : 10 + (int)r.below(2)) : 0;
    if (bigclique) in.gen = "big_bigclique";
    // the large clique sits on the highest labels (largest simplex indices in every encoding)
    for (int i = 0; i < n; ++i) {
      if (i >= n - bigsize) { cl[i] = -1; continue; }
      if (left == 0) { ++c; left = 2 + (int)r.below(5); }
      cl[i] = c; --left;
    }
    for (int i = 0; i < n; ++i) for (int j = 0; j < i; ++j)
      if (cl[i] == cl[j]) set(in, i, j, 0.5 * (double)(1 + r.below(6)));
      else if (r.chance(1, (unsigned)(2 * n))) set(in, i, j, 0.5 * (double)(1 + r.below(6)));
    b.thr = 0.5 * (double)(4 + r.below(3));
    if (!bigclique) permute(in, r);
  } else {                              // projective plane + decorations: Z_2 and odd primes disagree
    int extra = (int)r.below(7);
    int n = 12 + extra;
    init(in, n, "big_rp2"); all_missing(in);
    for (auto& t : kRp2Tri) for (int a = 0; a < 3; ++a) for (int bb = 0; bb < a; ++bb) set(in, t[a], t[bb], 0.5 * (double)(1 + r.below(4)));
    for (int v = 12; v < n; ++v) { int deg = 1 + (int)r.below(3); for (int k = 0; k < deg; ++k) { int u = (int)r.below(v); set(in, v, u, 0.5 * (double)(1 + r.below(6))); } }
    int chords = (int)r.below(4);
    for (int k = 0; k < chords; ++k) { int a = (int)r.below(12), c2 = (int)r.below(12); if (a != c2 && in.D[a][c2] == INF) set(in, a, c2, 0.5 * (double)(5 + r.below(2))); }
    b.thr = 0.5 * (double)(3 + r.below(4));
    permute(in, r);
  }
  return b;
}

// ---------------------------------------------------------------------------------------------- wide generators
// 126-131 vertices (the only sizes at which dim_max can reach 125 = the edge of the engine's 8-bit dimension type while
// C(n, n/2) still fits the 128-bit index), very sparse: cycles with chords (H_1), an octahedron (H_2) and a 5-7-clique on
// the highest labels, a few random edges.  The work stays tiny whatever dim_max is.  One input in six has 257-400
// vertices instead: there n-2 does not even fit 8 bits (it wraps to a small non-negative number), no encoding can number
// the simplices of dimension dim_max >= 125, and the only acceptable outcome besides the full barcode is the refusal.
inline BigInput gen_dimwide(vh::Rng& r) {
  BigInput b; Input& in = b.in;
  const bool wider = r.chance(1, 6);
  int n = wider ? 257 + (int)r.below(144) : 126 + (int)r.below(6);
  init(in, n, wider ? "dimwide_n257plus" : "dimwide"); all_missing(in);
  int ncyc = 1 + (int)r.below(3), at = 0;
  for (int k = 0; k < ncyc; ++k) {
    int len = 4 + (int)r.below(17);
    for (int i = 0; i < len; ++i) set(in, at + i, at + (i + 1) % len, 0.5 * (double)(1 + r.below(4)));
    int chords = (int)r.below(3);
    for (int q = 0; q < chords; ++q) { int a = at + (int)r.below(len), c2 = at + (int)r.below(len); if (a != c2 && in.D[a][c2] == INF) set(in, a, c2, 0.5 * (double)(3 + r.below(4))); }
    at += len;
  }
  int cs = 5 + (int)r.below(3);
  int o = n - cs - 6 - (int)r.below(4);                      // octahedron: antipodal pairs (2k, 2k+1) far apart
  for (int a = 0; a < 6; ++a) for (int c2 = 0; c2 < a; ++c2) set(in, o + a, o + c2, a / 2 == c2 / 2 ? 3.0 : 1.0 + 0.5 * (double)r.below(2));
  for (int i = n - cs; i < n; ++i) for (int j = n - cs; j < i; ++j) set(in, i, j, 0.5 * (double)(1 + r.below(4)));
  int extra = n / 4 + (int)r.below((uint64_t)n);
  for (int k = 0; k < extra; ++k) { int a = (int)r.below(n), c2 = (int)r.below(n); if (a != c2 && in.D[a][c2] == INF) set(in, a, c2, 0.5 * (double)(1 + r.below(6))); }
  b.thr = 0.5 * (double)(4 + r.below(3));                    // 2, 2.5 (the H_2 class is essential) or 3 (it dies)
  if (r.chance(1, 3)) { permute(in, r); in.gen += "_permuted"; }
  return b;
}

// 100-128 vertices, a clique of 14-16 vertices on the highest labels (2-4 distinct values), a few sparse edges: simplices
// with up to 16 vertices whose combinatorial-number-system index exceeds 2^64 and whose bit-field index reaches 2^112
inline BigInput gen_topclique(vh::Rng& r) {
  BigInput b; Input& in = b.in;
  int n = r.chance(7, 10) ? 120 + (int)r.below(9) : 100 + (int)r.below(20);
  init(in, n, "topclique"); all_missing(in);
  unsigned k = (unsigned)r.below(10);
  int cs = k < 5 ? 16 : k < 8 ? 15 : 14;
  unsigned levels = 2 + (unsigned)r.below(3);
  for (int i = n - cs; i < n; ++i) for (int j = n - cs; j < i; ++j) set(in, i, j, 1.0 + 0.5 * (double)r.below(levels));
  int extra = n / 2 + (int)r.below((uint64_t)n);
  for (int q = 0; q < extra; ++q) { int a = (int)r.below(n), c2 = (int)r.below(n); if (a != c2 && in.D[a][c2] == INF) set(in, a, c2, 1.0 + 0.5 * (double)r.below(4)); }
  b.thr = 2.5;
  b.hint_dim = cs - 2 + (int)r.below(2);
  return b;
}

}  // namespace c11
#endif

// C11 — a user-defined Tag_dense matrix handed to the engine directly, value type double
#include "c11_routes.h"
VH_CONFIG("user_d", (c11::small_case<double, c11::FormUser<double>>));
VH_CONFIG("user_d_big", (c11::big_case<double, c11::FormUser<double>>));

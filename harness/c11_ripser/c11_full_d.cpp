// C11 — input form "full", value type double (one translation unit per form x value type keeps compile times short)
#include "c11_routes.h"
VH_CONFIG("full_d", (c11::small_case<double, c11::FormFull<double>>));
VH_CONFIG("full_d_big", (c11::big_case<double, c11::FormFull<double>>));

// C11 — thorough tier only, plain (sanitizer-free) build: Full_distance_matrix with more than 46 340 points, i.e. more
// than INT_MAX cells (8.6 GB of float).  One case: n = 46 341 + a little, every pair at distance 2 except a small random
// graph of length-1 edges on the m = 5..9 highest labels (the last row is the one whose cell numbers exceed INT_MAX);
// ripser_auto with threshold 1.5, dim_max 1.  Expected: the barcode of the small graph (oracle on the active vertices
// only) plus n-m essential H_0 bars, counted on both sides instead of stored.  The construction and the run happen in a
// forked child, so that a crash of the engine is an ordinary violation record with a stable signature.
#include <gudhi/ripser.h>
#include <sys/wait.h>
#include <sys/time.h>
#include <unistd.h>
#include "c11_model.h"

namespace c11 {
namespace rp = Gudhi::ripser;

struct BigSrc {   // the user-side matrix the Full_distance_matrix is built from
  typedef rp::Tag_dense Category;
  typedef int vertex_t;
  typedef float value_t;
  int n, m;
  const Input* act;   // m x m, entries 1 or 2, on the labels n-m .. n-1
  int size() const { return n; }
  float operator()(int i, int j) const {
    if (i == j) return 0;
    if (i >= n - m && j >= n - m) return (float)act->D[i - (n - m)][j - (n - m)];
    return 2;
  }
};

static void fullbig_case(vh::Case& c) {
  vh::Rng& r = c.rng;
  const int n = 46341 + (int)r.below(60), m = 5 + (int)r.below(5);
  const int dim_max = 1; const long p = r.chance(1, 2) ? 2 : 3;
  Input act; init(act, m, "fullbig");
  for (int a = 0; a < m; ++a) for (int b = 0; b < a; ++b) set(act, a, b, 2.0);
  for (int a = 0; a < m; ++a) set(act, a, (a + 1) % m, 1.0);                          // a cycle: one H_1 class ...
  if (r.chance(1, 2)) { int a = (int)r.below(m), b = (int)r.below(m); if (a != b) set(act, a, b, 1.0); }   // ... or two / a filled triangle
  c.log("n=" + vh::str(n) + " (n*n=" + vh::str((long long)n * n) + " cells > INT_MAX), float, every pair at distance 2 except on the " + vh::str(m) + " highest labels: " + act.show());
  c.log("Full_distance_matrix(user matrix) -> ripser_auto, threshold 1.5, dim_max 1, p=" + vh::str(p));
  Expectation e = expect(threshold_graph(act, 1.5), dim_max, p, 10000);
  long ess0 = 0; Diagram rest;
  for (auto& iv : e.dgm) { if (iv.dim == 0 && iv.birth == 0 && iv.death == INF) ++ess0; else rest.push_back(iv); }
  const long want_ess0 = ess0 + (n - m);
  c.count("fullbig.cases");

  int fds[2];
  if (pipe(fds) != 0) { c.count("skip.pipe_failed"); return; }
  fflush(stderr);
  pid_t pid = fork();
  if (pid < 0) { close(fds[0]); close(fds[1]); c.count("skip.fork_failed"); return; }
  if (pid == 0) {
    close(fds[0]);
    dup2(fds[1], 2);
    vh::G().cur_case = -1;
    struct itimerval it = {}; it.it_value.tv_sec = 600; signal(SIGVTALRM, SIG_DFL); setitimer(ITIMER_VIRTUAL, &it, nullptr);
    int code = 0; std::string msg;
    try {
      Diagram out; long got_ess0 = 0; int cur = -1000; bool bad = false;
      auto od = [&](int d) { cur = d; if (d < 0 || d > dim_max) bad = true; };
      auto op = [&](float b, float d) {
        if (cur == -1000) { bad = true; return; }
        if (b == d) return;
        if (cur == 0 && b == 0 && d == std::numeric_limits<float>::infinity()) { ++got_ess0; return; }
        out.push_back(oracle::Interval{cur, (double)b, (double)d});
      };
      rp::Full_distance_matrix<rp::TParams2<float>> mat(BigSrc{n, m, &act});
      // the cells of the last row, read back through the public accessor
      for (int a = 0; a < m && code == 0; ++a) for (int b = 0; b < m; ++b)
        if (mat(n - m + a, n - m + b) != (float)act.D[a][b]) { code = 2; msg = "cell_read_back"; break; }
      if (code == 0) {
        rp::ripser_auto(std::move(mat), dim_max, 1.5f, (unsigned)p, od, op);
        std::sort(out.begin(), out.end());
        if (bad) { code = 4; msg = "protocol"; }
        else {
          std::string dc = diff_class(out, rest);
          if (dc.empty() && got_ess0 != want_ess0) dc = "dim0_essential_count";
          if (!dc.empty()) { code = 3; msg = dc + "\n ripser : " + oracle::show(out) + " + " + vh::str(got_ess0) + " x (0;0,inf)\n oracle : " + oracle::show(rest) + " + " + vh::str(want_ess0) + " x (0;0,inf)"; }
        }
      }
    } catch (const std::bad_alloc&) { code = 10; msg = "bad_alloc"; }
    catch (const std::exception& ex) { code = 5; msg = ex.what(); }
    ssize_t w = ::write(fds[1], msg.data(), msg.size()); (void)w;
    _exit(code);
  }
  close(fds[1]);
  std::string text; char buf[4096]; ssize_t got;
  while ((got = ::read(fds[0], buf, sizeof buf)) > 0) if (text.size() < (1u << 16)) text.append(buf, (size_t)got);
  close(fds[0]);
  int st = 0; waitpid(pid, &st, 0);
  const std::string sig = "form=full,val=f,route=auto,ctor=from_matrix,n_over_46340";
  if (WIFEXITED(st) && WEXITSTATUS(st) == 10) { c.count("skip.fullbig_out_of_memory"); return; }   // the machine cannot hold 8.6 GB: nothing observed
  c.count("cmp.intervals");
  if (WIFEXITED(st) && WEXITSTATUS(st) == 0) {
    c.count("fullbig.completed"); c.count("cases.completed");
    c.nontrivial(vh::hash_str(vh::G().history));
    c.sample("{\"form\":\"full(n>46340)\",\"history\":\"" + vh::jesc(vh::G().history.substr(0, 600)) + "\"}");
    return;
  }
  if (WIFEXITED(st) && WEXITSTATUS(st) == 2) { c.violation("ripser.matrix_cells", sig + ",cell_read_back", "a cell of the last row read back through operator() differs from the source matrix"); return; }
  if (WIFEXITED(st) && WEXITSTATUS(st) == 3) { c.violation("ripser.intervals", sig + "," + text.substr(0, text.find('\n')), text); return; }
  if (WIFEXITED(st) && WEXITSTATUS(st) == 4) { c.violation("ripser.protocol", sig, text); return; }
  if (WIFEXITED(st) && WEXITSTATUS(st) == 5) { c.violation("ripser.exception", sig, text); return; }
  std::string kind = WIFSIGNALED(st) ? (WTERMSIG(st) == SIGVTALRM ? std::string("cpu_budget_exceeded") : WTERMSIG(st) == SIGSEGV ? std::string("SEGV") : "signal_" + vh::str(WTERMSIG(st))) : "exit_" + vh::str(WEXITSTATUS(st));
  if (text.find("signed integer overflow") != std::string::npos) kind = "signed_integer_overflow";
  c.violation("ripser.memory_safety", "form=full,ctor=from_matrix,child_died," + kind + ",n_over_46340",
              "the forked child that builds Full_distance_matrix from a " + vh::str(n) + "-point matrix and runs ripser_auto died\n" + text.substr(0, 2500));
}
VH_CONFIG("full_f_n46341", fullbig_case);
}  // namespace c11

VH_MAIN()

// C11 — input form "sparse", value type double (one translation unit per form x value type keeps compile times short)
#include "c11_routes.h"
VH_CONFIG("sparse_d", (c11::small_case<double, c11::FormSparse<double>>));
VH_CONFIG("sparse_d_big", (c11::big_case<double, c11::FormSparse<double>>));
VH_CONFIG("sparse_d_huge", (c11::huge_case<double>));

// C11 — a user-defined Tag_dense matrix handed to the engine directly, value type float
#include "c11_routes.h"
VH_CONFIG("user_f", (c11::small_case<float, c11::FormUser<float>>));
VH_CONFIG("user_f_big", (c11::big_case<float, c11::FormUser<float>>));

// C11 — input form "full", value type float (one translation unit per form x value type keeps compile times short)
#include "c11_routes.h"
VH_CONFIG("full_f", (c11::small_case<float, c11::FormFull<float>>));
VH_CONFIG("full_f_big", (c11::big_case<float, c11::FormFull<float>>));

// C11 — the "third opinion" named by the property: GUDHI's own Rips_complex -> Simplex_tree::expansion ->
// Persistent_cohomology pipeline.  Compiled in its own translation unit (c11_pipeline.cpp).
#ifndef VERIF_C11_PIPELINE_H_
#define VERIF_C11_PIPELINE_H_
#include "c11_model.h"
namespace c11 {
// D: symmetric matrix, INF = no edge.  thr may be INF.  Returns the intervals of dimension 0..dim_max with
// zero-length intervals dropped, sorted.  p must be a prime <= 46337 (Field_Zp limit); only small p are used.
Diagram gudhi_pipeline(const std::vector<std::vector<double>>& D, double thr, int dim_max, int p);
}
#endif

// C11 — per-case CPU-time budget (user CPU time of the process, so machine load does not matter).  Defined in c11_main.cpp.
#ifndef VERIF_C11_GUARD_H_
#define VERIF_C11_GUARD_H_
namespace c11 {
const int kCpuBudgetSeconds = 10;
struct CaseGuard { CaseGuard(); ~CaseGuard(); CaseGuard(const CaseGuard&) = delete; };
}
#endif

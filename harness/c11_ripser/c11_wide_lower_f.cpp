// C11 — wide inputs (dim_max at the edge of the 8-bit dimension type; 14-16-cliques on the highest labels), lower form, float
#include "c11_routes.h"
VH_CONFIG("lower_f_dimwide", (c11::wide_case<float, c11::FormLower<float>, 0>));
VH_CONFIG("lower_f_topclique", (c11::wide_case<float, c11::FormLower<float>, 1>));

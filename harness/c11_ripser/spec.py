_FORMS = ["full", "lower", "upper", "sparse", "euclid"]
_ROUTES = ["auto", "direct", "enc_bf64", "enc_bf128", "enc_cns128"]
_SRC = ["c11_main.cpp", "c11_pipeline.cpp"] + ["c11_%s_%s.cpp" % (f, v) for f in _FORMS + ["user"] for v in ("f", "d")]
_CONFIGS = {}
for _f in _FORMS:
    for _v in ("f", "d"):
        _CONFIGS["%s_%s" % (_f, _v)] = {"quick": 1000, "thorough": 100000}
        _CONFIGS["%s_%s_big" % (_f, _v)] = {"quick": 300, "thorough": 30000}
for _v in ("f", "d"):
    _CONFIGS["sparse_%s_huge" % _v] = {"quick": 250, "thorough": 12500}
    # a user-defined Tag_dense matrix handed to the engine directly (own translation units: the engine is instantiated on it)
    _CONFIGS["user_%s" % _v] = {"quick": 600, "thorough": 60000}
    _CONFIGS["user_%s_big" % _v] = {"quick": 150, "thorough": 15000}
# unit "wide" (small shards: single cases take up to ~3 s)
_WIDE_SRC = ["c11_main.cpp", "c11_pipeline.cpp"] + ["c11_wide_%s_%s.cpp" % (f, v) for f in ("sparse", "lower") for v in ("f", "d")]
_WIDE = {}
for _f in ("sparse", "lower"):
    for _v in ("f", "d"):
        _WIDE["%s_%s_dimwide" % (_f, _v)] = {"quick": 120, "thorough": 12000}
        _WIDE["%s_%s_topclique" % (_f, _v)] = {"quick": 8, "thorough": 800}

# floors: roughly half of what a normal quick run (13 000 inputs, seed 1) measures; thorough = 50 x quick floors (half of the 100 x larger run)
_QF = {"_distinct_nontrivial": 2000, "cases.completed": 6000, "cmp.intervals": 35000, "pipeline.compared": 5000,
       "torsion.z2_ne_z3": 200, "dispatch.bf128": 400, "dispatch.cns128": 150, "big.top_clique.9plus": 100,
       "enc.index_bits.over64": 120, "enc.index_bits.33_64": 150, "gen.big_wide": 150, "gen.big_rp2": 250, "cmp.isolated": 150,
       "bars.finite.dim1": 4000, "bars.finite.dim2": 150, "bars.finite.dim3plus": 60, "bars.essential.dim1": 4000,
       # (no floor on obs.zero_length_dropped: whether the engine streams zero-length intervals at all is left open by the
       #  property - a benign change that stops emitting them made such a floor fail, see DESIGN section 12)
       "thr.none_inf": 400, "thr.none_max": 400, "thr.below_min": 400, "thr.equal": 1000, "thr.between": 400,
       "thr.at_max": 400, "thr.above_max": 400, "thr.finite_small": 1400,
       "p.2": 1400, "p.3": 900, "p.5": 900, "p.7": 400, "p.11": 400, "p.13": 400, "p.32749": 400, "p.65521": 400,
       "ctor.sparse.from_matrix_and_threshold": 150, "ctor.lower.from_upper": 300, "ctor.lower.from_matrix": 300,
       "ctor.euclid.points": 1300}
for _f in _FORMS:
    for _r in _ROUTES:
        _QF["nt.%s.%s" % (_f, _r)] = 300          # inputs with a finite H_1+ interval, per (form x route/encoding)
# huge sparse inputs (entries of the 128-bit field beyond 2^64 meeting real Z_p reduction work in the top dimension)
_QF.update({"huge.entry_over64": 150, "huge.entry_over64.odd_p": 140, "huge.entry_over64.odd_p.top_dim_bar": 70,
            "huge.entry_over64.odd_p.top_dim_finite_bar": 30, "huge.entry_le64_control.odd_p.top_dim_bar": 40,
            "huge.placement.high": 150, "huge.placement.low": 40, "huge.placement.scattered": 35,
            "gen.huge_sphere": 120, "gen.huge_fewvalued": 80, "huge.dim_max.1": 75, "huge.dim_max.2": 150})
# the gaps closed after the audit: moduli outside the eight listed ones, non-integer point clouds, 11-13 points (mostly without
# threshold), dim_max above n-2 through the public entry points, a user-defined dense matrix handed over directly, copy / move /
# self assignment of the compressed layouts
_QF.update({"p.other_lt256": 800, "p.other_lt32768": 650, "p.other_ge32768": 500, "cloud.noninteger_coordinates": 1200,
            "small.n11_13": 550, "small.n11_13.no_threshold": 330, "small.n11_13.no_threshold.dense_form": 280,
            "dimarg.int_max": 200, "dimarg.above_n_minus_2": 200, "ctor.user.user_matrix_direct": 3700,
            "ctor.lower.copy_assigned_outlives_original": 35, "ctor.lower.move_assigned": 40, "ctor.lower.copy_then_self_assigned": 20,
            "ctor.upper.copy_assigned_outlives_original": 35, "ctor.upper.move_assigned": 35, "ctor.upper.copy_then_self_assigned": 18})
for _r in _ROUTES:
    _QF["nt.user.%s" % _r] = 190
# wide inputs: dim_max on both sides of what the 8-bit dimension type can hold (below: answered correctly; above: answered or
# refused with std::overflow_error), and the 14-16-cliques on the highest labels
_QF.update({"wide.dm_61_124": 80, "wide.dm_125_n-2": 65, "wide.dm_above_n-2": 50, "wide.dm_61_124.answered.auto": 80,
            "wide.dm_61_124.answered.direct": 80, "wide.dm_61_124.answered.enc_cns128": 80,
            "wide.n257plus": 35, "wide.topclique": 16, "wide.top_clique.16": 8, "wide.cns_index_over64": 4, "wide.bitfield_index_over100bits": 12})
_TF = {k: (25 if k.startswith(("huge.", "gen.huge")) else 50) * v for k, v in _QF.items()}
_TF["fullbig.completed"] = 1      # thorough only: Full_distance_matrix with more than INT_MAX cells
_TF["oracle.fast_path_cross_checked"] = 50

SPEC = {
    "property": "C11",
    "rule": "Each case draws one dissimilarity: (small configs) 2-10 points (one case in ten: 11-13 points with dim_max <= 2, half of those "
            "without threshold) from point clouds with integer or, for half of them, non-integer dyadic coordinates (multiples of 1/2, 1/8, "
            "1/16; incl. duplicate points and cross-polytope vertices), random symmetric matrices on a 6-value grid (ties, non-metric, sometimes "
            "zero entries), hop metrics of cycle+chord graphs, cross-polytope two-level matrices; a threshold class from {none as +inf, none as "
            "max(), below the minimum, equal to a distance, between two distances, at the maximum, above it}; dim_max in 0..n-2, and one case "
            "in twelve hands a dim_max ABOVE n-2 (n-1..n+2 or INT_MAX, what the Python binding passes) to ripser_auto / ripser, which clamp "
            "it (expected: the barcode for n-2); a modulus from {2,3,5,7,11,13,32749,65521} or, for 30 % of the cases, any prime below 65536; "
            "(big configs) 12-40 points with a sparse threshold graph (grid clouds, sparse random graphs, clusters incl. one 10-12-clique on "
            "the highest labels, a 12-vertex flag projective plane with decorations, and 129-348 points with an 8-10-clique on the highest labels so "
            "that simplex indices of the bit-field encodings exceed 2^64) and (n, dim_max, modulus) steered to both sides of the "
            "64-bit and 128-bit limits of the encoding dispatcher; (huge configs, sparse form) 32 769-231 072 vertices, all isolated except 25-40 "
            "active ones placed on the highest labels (or, as controls, the lowest / scattered labels) that carry circle / 2-sphere samples "
            "with distances rounded up to multiples of 1/8 or a random 5-valued matrix (many ties, so the Z_p reduction in dimension dim_max "
            "really adds columns), dim_max 1-2, moduli {3,5,7,13,32749,65521} and 2 as control: encoded entries (index << coefficient bits) "
            "exceed 2^64 while coefficients of summed pivots are rewritten; there the oracle runs on the active vertices only and the "
            "n-m essential H_0 bars of the isolated vertices are counted on both sides instead of stored; (wide configs, sparse and compressed-lower "
            "form, every route in a forked child) 126-131 (one in six: 257-400) very sparse vertices with dim_max in {61..124, 125, 126, "
            "253..260, n-2, n-1.., INT_MAX} and p in {2,3,5}, i.e. on both sides of what the engine's 8-bit dimension type holds: accepted outcomes are the correct barcode or "
            "the documented std::overflow_error refusal, never a wrong barcode, a memory error or another exception; and 100-128 vertices "
            "with a 14-16-clique on the highest labels, dim_max = clique size - 2 or - 1 (simplices of 16 vertices, CNS indices beyond 2^64, "
            "bit-field indices up to 2^112; 3 of the 5 routes, third opinion only up to 40 000 simplices); (thorough tier only, plain build) one "
            "Full_distance_matrix with 46 341+ points, i.e. more than INT_MAX cells. The input is handed to the engine in one of six forms "
            "(Full_distance_matrix, Compressed lower, Compressed upper, Sparse edge list, Euclidean point cloud, a user-defined Tag_dense "
            "matrix type passed as it is; float and double; several constructors per form, incl. copies and copy / move / self ASSIGNMENT "
            "of the compressed layouts whose source is destroyed before use) and run through ripser_auto, ripser, and help2 with each of "
            "Bitfield-64 / Bitfield-128 / CNS-128. The "
            "intervals streamed through output_dim/output_pair (zero-length dropped) are compared as a multiset per dimension with the "
            "barcode of the brute-force clique complex of the threshold graph (oracle/flag.h for n<=10, a naive recursive clique "
            "enumeration above) reduced by oracle/zp_reduce.h; without threshold the oracle uses the FULL filtration (so the enclosing-radius "
            "shortcut is checked, not assumed); for moduli < 256 GUDHI's Rips_complex->Simplex_tree::expansion->Persistent_cohomology pipeline "
            "is run on the same graph as third opinion and a mismatch is attributed two-against-one. Two constructions whose question is memory "
            "safety (a copy of a matrix used after its original was destroyed; the converting constructor of the upper layout) run in a forked "
            "child so that a sanitizer report becomes an ordinary violation record. Every case has a 10 s CPU budget and the process a 4 GB "
            "RSS cap (a wrong reduction can loop forever). non-trivial = input (distinct by hash of "
            "its full description) whose expected barcode has a finite positive-length interval in dimension >= 1.",
    "assumptions": [
        "dissimilarities are finite, non-negative, symmetric with zero diagonal and exactly representable in the value type (point clouds "
        "have integer or dyadic coordinates k/2, k/8, k/16 with small k: every difference, square and partial sum of the squared distance is "
        "exact in float whatever the order of accumulation and IEEE sqrt is correctly rounded, so float and double runs each have their own "
        "exact oracle input; coordinates whose squared distance has to be rounded are NOT exercised - the result would depend on the "
        "order of summation, which the property leaves open)",
        "n >= 2 (n <= 1 is excluded: 'dim_max up to n-2' is empty there, and the compressed layouts compute n*(n-1)/2 and n-2 on it); "
        "0 <= dim_max <= n-2 is the quantifier of the property; larger values are only handed to ripser_auto / ripser, whose code clamps them "
        "to n-2, never to help2 directly; moduli are primes < 65536 (all of them are drawn)",
        "dim_max >= 125 (possible from 127 points on) does not fit the engine's 8-bit dimension type: there the correct barcode and a "
        "std::overflow_error refusal are both accepted, from every route; the coverage floors wide.dm_61_124.answered.* make sure that "
        "dim_max <= 124 is really answered",
        "sparse form: the edge list is the graph (no duplicate edges / self loops, neighbour lists sorted as the bindings do); the threshold "
        "argument is documented as ignored there and is passed as +inf, max() or the largest edge",
        "big configs stay inside the domain the engine accepts: C(n, min(n/2, dim_max+2)) * 2^coeffbits < 2^116 and dim_max <= 60; the wide "
        "configs go beyond (dim_max 61..INT_MAX with 126-131 points, where C(n, n/2) is within a factor 4 of 2^128) and accept the "
        "documented std::overflow_error refusal from every route",
        "explicit help2 calls may refuse an encoding that does not fit with std::overflow_error (documented); the dispatcher may not",
        "the third opinion is skipped for moduli >= 256 (Field_Zp builds its inverse table in O(p^2)) and for complexes above 40 000 simplices",
        "Full_distance_matrix with more than INT_MAX cells (n > 46 340, 8.6 GB) is exercised by one case of the thorough tier only, in a "
        "sanitizer-free build; the other containers are never that large",
        "which encoding the dispatcher picked is not observable; the dispatch.* counters are computed from the documented rule",
        "trusted: oracle/flag.h, oracle/zp_reduce.h, the recursive clique enumerator in c11_model.h (used above 10 points) and, for "
        "complexes above 9 000 simplices (the 14-16-cliques), c11::simplicial_diagram_fast, which restates oracle::simplicial_diagram on "
        "sorted vectors and is cross-checked against it on every such complex below 20 000 simplices",
    ],
    "units": [
        {"name": "ripser", "src": _SRC, "variant": "asan", "configs": _CONFIGS, "chunk": 25},
        {"name": "wide", "src": _WIDE_SRC, "variant": "asan", "configs": _WIDE, "chunk": 2},
        # one case, 8.6 GB, about 1 minute: Full_distance_matrix with more than INT_MAX cells (plain build, no sanitizer)
        {"name": "fullbig", "src": ["c11_fullbig.cpp"], "variant": "gnative", "configs": {"full_f_n46341": {"quick": 0, "thorough": 1}},
         "chunk": 1, "tiers": ["thorough"]},
    ],
    "floors": {"quick": _QF, "thorough": _TF},
    "timeout": {"quick": 900, "thorough": 7200},
    "exhaustive": {"quick": False, "thorough": False},
    "manifest": {
        "text": "Runtime monitor: thousands of random small dissimilarities (ties, non-metric, duplicate points, spheres, a flag projective plane "
                "where Z_2 and odd primes disagree) are given to the Ripser engine in all five input forms, float and double, through "
                "ripser_auto, ripser and each of the three simplex encodings, under ASan+UBSan; the intervals streamed by the callbacks are "
                "compared exactly (multiset per dimension, zero-length dropped) with a brute-force clique complex + textbook Z_p column "
                "reduction, and with GUDHI's own simplex-tree / persistent-cohomology pipeline. Also covered: a user-defined dense matrix type "
                "passed directly, every prime modulus below 65536, non-integer (dyadic) point clouds, copy / move assignment of the compressed "
                "layouts, dim_max above n-2 (INT_MAX) through the public entry points, and dim_max 61..n-2 with 126-131 points, where the "
                "engine must answer correctly or refuse with std::overflow_error. Held on what was observed, not a proof: "
                "dense complexes have at most 13 points (dim_max <= 2 above 10), sparse ones at most 348 points with cliques of at most 16 "
                "vertices, plus sparse inputs with up to 231 072 vertices of which 25-40 are not isolated (dim_max <= 2); simplex indices above "
                "about 2^112 (and CNS indices above 2^67) are never produced.",
        "note": "trusted: oracle/flag.h + oracle/zp_reduce.h + the recursive clique enumerator of the harness; values are exactly "
                "representable so no tolerance is used; n>=2, dim_max<=n-2 (larger values only through the clamping entry points), prime "
                "modulus<65536; dim_max>=125 may be refused; third opinion only for moduli<256",
        "technique": "runtime monitoring: randomized inputs x input forms x routes/encodings, independent reference oracle + N-version "
                     "comparison, under AddressSanitizer/UBSan",
    },
}

#include <gudhi/Rips_complex.h>
#include <gudhi/Simplex_tree.h>
#include <gudhi/Persistent_cohomology.h>
#include "c11_pipeline.h"

namespace c11 {
Diagram gudhi_pipeline(const std::vector<std::vector<double>>& D, double thr, int dim_max, int p) {
  typedef Gudhi::Simplex_tree<> ST;
  const int n = (int)D.size();
  // Rips_complex keeps the pairs with distance <= threshold; "no edge" is encoded as +inf in D, so the threshold handed
  // to Rips_complex is capped at the largest finite entry (same graph, and inf <= inf can never let a non-edge in).
  double maxfinite = -1.0;
  std::vector<std::vector<double>> lower(n);
  for (int i = 0; i < n; ++i) for (int j = 0; j < i; ++j) { lower[i].push_back(D[i][j]); if (D[i][j] != INF) maxfinite = std::max(maxfinite, D[i][j]); }
  double t = std::min(thr, maxfinite);
  Gudhi::rips_complex::Rips_complex<double> rips(lower, t);
  ST st;
  rips.create_complex(st, dim_max + 1);
  Gudhi::persistent_cohomology::Persistent_cohomology<ST, Gudhi::persistent_cohomology::Field_Zp> pc(st, true);
  pc.init_coefficients(p);
  pc.compute_persistent_cohomology(-1.0);
  Diagram d;
  for (auto& pr : pc.get_persistent_pairs()) {
    auto b = std::get<0>(pr), e = std::get<1>(pr);
    int dim = st.dimension(b);
    if (dim > dim_max) continue;
    double bv = st.filtration(b);
    double dv = (e == st.null_simplex()) ? INF : st.filtration(e);
    if (bv == dv) continue;
    d.push_back(oracle::Interval{dim, bv, dv});
  }
  std::sort(d.begin(), d.end());
  return d;
}
}  // namespace c11

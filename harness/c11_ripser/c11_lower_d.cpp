// C11 — input form "lower", value type double (one translation unit per form x value type keeps compile times short)
#include "c11_routes.h"
VH_CONFIG("lower_d", (c11::small_case<double, c11::FormLower<double>>));
VH_CONFIG("lower_d_big", (c11::big_case<double, c11::FormLower<double>>));

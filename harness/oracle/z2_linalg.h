// Independent oracle: dense Z_2 linear algebra on bit vectors (ranks, span membership), for <= a few hundred rows.
#ifndef VERIF_ORACLE_Z2_LINALG_H_
#define VERIF_ORACLE_Z2_LINALG_H_
#include <vector>
#include <cstdint>
#include <cstddef>

namespace oracle {

struct BitVec {
  std::vector<uint64_t> w;
  BitVec() {}
  explicit BitVec(size_t nbits) : w((nbits + 63) / 64, 0) {}
  void set(size_t i) { w[i >> 6] |= (uint64_t(1) << (i & 63)); }
  void flip(size_t i) { w[i >> 6] ^= (uint64_t(1) << (i & 63)); }
  bool get(size_t i) const { return (w[i >> 6] >> (i & 63)) & 1; }
  void operator^=(const BitVec& o) { for (size_t k = 0; k < w.size(); ++k) w[k] ^= o.w[k]; }
  bool zero() const { for (uint64_t x : w) if (x) return false; return true; }
  // index of highest set bit or -1
  long top() const { for (size_t k = w.size(); k-- > 0;) if (w[k]) return (long)(k * 64 + 63 - __builtin_clzll(w[k])); return -1; }
  bool operator==(const BitVec& o) const { return w == o.w; }
};

// incremental echelon basis of a span
struct Span {
  std::vector<BitVec> basis;   // each with distinct top bit
  std::vector<long> tops;
  // reduces v against the basis; returns true and adds it if independent
  bool reduce(BitVec& v) const {
    bool changed = true;
    while (changed) {
      changed = false;
      long t = v.top();
      if (t < 0) return false;
      for (size_t i = 0; i < basis.size(); ++i) if (tops[i] == t) { v ^= basis[i]; changed = true; break; }
    }
    return !v.zero();
  }
  bool add(BitVec v) { if (reduce(v)) { tops.push_back(v.top()); basis.push_back(v); return true; } return false; }
  bool contains(BitVec v) const { return !reduce(v); }
  size_t rank() const { return basis.size(); }
};

}  // namespace oracle
#endif

// Independent oracle: textbook left-to-right column reduction of a filtered boundary matrix over Z_p.
// No clearing, no twist, no compression, no GUDHI header.  Deliberately naive.
#ifndef VERIF_ORACLE_ZP_REDUCE_H_
#define VERIF_ORACLE_ZP_REDUCE_H_
#include <vector>
#include <map>
#include <algorithm>
#include <cstdint>
#include <cmath>
#include <limits>
#include <string>
#include <sstream>
#include <tuple>

namespace oracle {

typedef long long i64;

inline i64 mod_norm(i64 a, i64 p) { a %= p; if (a < 0) a += p; return a; }
inline i64 mod_pow(i64 b, i64 e, i64 p) { i64 r = 1; b = mod_norm(b, p); while (e) { if (e & 1) r = (i64)((__int128)r * b % p); b = (i64)((__int128)b * b % p); e >>= 1; } return r; }
inline i64 mod_inv(i64 a, i64 p) { return mod_pow(a, p - 2, p); }

// a cell of a filtered complex: dimension and boundary as (position of the face in the filtration, coefficient)
struct Cell {
  int dim = 0;
  std::vector<std::pair<int, i64>> bdry;
};

struct Bar {
  int dim; int birth; int death;  // positions in the filtration; death = -1 for an essential class
  bool operator<(const Bar& o) const { return std::tie(dim, birth, death) < std::tie(o.dim, o.birth, o.death); }
  bool operator==(const Bar& o) const { return dim == o.dim && birth == o.birth && death == o.death; }
};

typedef std::map<int, i64> Col;  // sparse column: row -> non-zero coefficient in [1, p-1]

inline void col_axpy(Col& y, i64 a, const Col& x, i64 p) {  // y += a * x
  for (auto& kv : x) {
    i64 v = mod_norm((y.count(kv.first) ? y[kv.first] : 0) + (i64)((__int128)a * kv.second % p), p);
    if (v == 0) y.erase(kv.first); else y[kv.first] = v;
  }
}

struct Reduction {
  std::vector<Col> R, V;            // R = D * V, V upper triangular with unit diagonal
  std::vector<int> low;             // low[j] = pivot row of R[j] or -1
  std::vector<int> pivot_owner;     // pivot_owner[i] = j with low[j]==i, or -1
  std::vector<Bar> bars;
};

inline Reduction reduce(const std::vector<Cell>& cells, i64 p, bool want_V = false) {
  const int n = (int)cells.size();
  Reduction red;
  red.R.assign(n, Col()); if (want_V) red.V.assign(n, Col());
  red.low.assign(n, -1); red.pivot_owner.assign(n, -1);
  for (int j = 0; j < n; ++j) {
    Col& c = red.R[j];
    for (auto& fc : cells[j].bdry) {
      i64 v = mod_norm((c.count(fc.first) ? c[fc.first] : 0) + fc.second, p);
      if (v == 0) c.erase(fc.first); else c[fc.first] = v;
    }
    if (want_V) red.V[j][j] = 1;
    while (!c.empty()) {
      int l = c.rbegin()->first;
      int o = red.pivot_owner[l];
      if (o < 0) break;
      i64 coef = mod_norm(-(i64)((__int128)c.rbegin()->second * mod_inv(red.R[o].rbegin()->second, p) % p), p);
      col_axpy(c, coef, red.R[o], p);
      if (want_V) col_axpy(red.V[j], coef, red.V[o], p);
    }
    if (!c.empty()) { red.low[j] = c.rbegin()->first; red.pivot_owner[red.low[j]] = j; }
  }
  for (int j = 0; j < n; ++j) {
    if (red.low[j] >= 0) red.bars.push_back(Bar{cells[red.low[j]].dim, red.low[j], j});
  }
  for (int j = 0; j < n; ++j) {
    if (red.low[j] < 0 && red.pivot_owner[j] < 0) red.bars.push_back(Bar{cells[j].dim, j, -1});
  }
  std::sort(red.bars.begin(), red.bars.end());
  return red;
}

// ---------------------------------------------------------------- simplicial helpers
typedef std::vector<long> Simplex;  // sorted vertex labels

// cells from simplices listed in a valid filtration order; boundary sign (-1)^i for deleting the i-th vertex
inline std::vector<Cell> cells_from_simplices(const std::vector<Simplex>& order) {
  std::map<Simplex, int> pos;
  for (int i = 0; i < (int)order.size(); ++i) pos[order[i]] = i;
  std::vector<Cell> cells(order.size());
  for (int i = 0; i < (int)order.size(); ++i) {
    const Simplex& s = order[i];
    cells[i].dim = (int)s.size() - 1;
    if (s.size() > 1)
      for (size_t k = 0; k < s.size(); ++k) {
        Simplex f; for (size_t t = 0; t < s.size(); ++t) if (t != k) f.push_back(s[t]);
        auto it = pos.find(f);
        cells[i].bdry.emplace_back(it == pos.end() ? -1 : it->second, (k % 2 == 0) ? 1 : -1);
      }
  }
  return cells;
}

// a valid filtration order of a filtered simplicial complex: by (value, dimension, lexicographic)
template <class Value>
inline std::vector<Simplex> filtration_order(const std::map<Simplex, Value>& cx) {
  std::vector<Simplex> order;
  for (auto& kv : cx) order.push_back(kv.first);
  std::stable_sort(order.begin(), order.end(), [&](const Simplex& a, const Simplex& b) {
    Value fa = cx.at(a), fb = cx.at(b);
    if (fa != fb) return fa < fb;
    if (a.size() != b.size()) return a.size() < b.size();
    return a < b;
  });
  return order;
}

// persistence diagram in values: multiset of (dim, birth value, death value), death = +inf for essential classes
struct Interval {
  int dim; double birth; double death;
  bool operator<(const Interval& o) const { return std::tie(dim, birth, death) < std::tie(o.dim, o.birth, o.death); }
  bool operator==(const Interval& o) const { return dim == o.dim && birth == o.birth && death == o.death; }
};

inline std::vector<Interval> diagram(const std::vector<Bar>& bars, const std::vector<double>& value_at_pos,
                                     bool drop_zero_length = true) {
  std::vector<Interval> d;
  for (auto& b : bars) {
    double bi = value_at_pos[b.birth];
    double de = b.death < 0 ? std::numeric_limits<double>::infinity() : value_at_pos[b.death];
    if (drop_zero_length && bi == de) continue;
    d.push_back(Interval{b.dim, bi, de});
  }
  std::sort(d.begin(), d.end());
  return d;
}

template <class Value>
inline std::vector<Interval> simplicial_diagram(const std::map<Simplex, Value>& cx, i64 p, bool drop_zero_length = true) {
  std::vector<Simplex> order = filtration_order(cx);
  std::vector<double> vals; for (auto& s : order) vals.push_back((double)cx.at(s));
  return diagram(reduce(cells_from_simplices(order), p).bars, vals, drop_zero_length);
}

inline std::string show(const std::vector<Interval>& d) {
  std::ostringstream o; o.precision(17);
  for (auto& i : d) o << "(" << i.dim << ";" << i.birth << "," << i.death << ")";
  return o.str();
}
inline std::string show(const std::vector<Bar>& d) {
  std::ostringstream o;
  for (auto& i : d) o << "(" << i.dim << ";" << i.birth << "," << i.death << ")";
  return o.str();
}
inline std::string show(const Simplex& s) {
  std::ostringstream o; o << "[";
  for (size_t i = 0; i < s.size(); ++i) { if (i) o << ","; o << s[i]; }
  o << "]"; return o.str();
}

// Betti numbers of the whole complex over Z_p
inline std::vector<int> betti(const std::vector<Cell>& cells, i64 p) {
  int md = 0; for (auto& c : cells) md = std::max(md, c.dim);
  std::vector<int> b(md + 1, 0);
  for (auto& bar : reduce(cells, p).bars) if (bar.death < 0) b[bar.dim]++;
  return b;
}

}  // namespace oracle
#endif

// Independent oracle: abstract filtered simplicial complex as a map from sorted vertex words to values,
// with the operations of Simplex_tree as the property text (C01) defines them.
#ifndef VERIF_ORACLE_COMPLEX_MODEL_H_
#define VERIF_ORACLE_COMPLEX_MODEL_H_
#include "oracle/zp_reduce.h"
#include <set>

namespace oracle {

struct ComplexModel {
  std::map<Simplex, double> cx;

  bool has(const Simplex& s) const { return cx.count(s) > 0; }
  static std::vector<Simplex> facets(const Simplex& s) {
    std::vector<Simplex> r;
    if (s.size() <= 1) return r;
    for (size_t k = 0; k < s.size(); ++k) { Simplex f; for (size_t t = 0; t < s.size(); ++t) if (t != k) f.push_back(s[t]); r.push_back(f); }
    return r;
  }
  static std::vector<Simplex> faces_all(const Simplex& s) {  // all non-empty subsets
    std::vector<Simplex> r;
    for (unsigned m = 1; m < (1u << s.size()); ++m) { Simplex f; for (size_t t = 0; t < s.size(); ++t) if (m >> t & 1) f.push_back(s[t]); r.push_back(f); }
    return r;
  }
  bool facets_present(const Simplex& s) const { for (auto& f : facets(s)) if (!has(f)) return false; return true; }
  static bool is_face(const Simplex& f, const Simplex& s) { return std::includes(s.begin(), s.end(), f.begin(), f.end()); }

  // insert_simplex: new takes the value, existing keeps the smaller.  returns true if newly inserted
  bool insert_one(const Simplex& s, double v) {
    auto it = cx.find(s);
    if (it == cx.end()) { cx[s] = v; return true; }
    if (v < it->second) it->second = v;
    return false;
  }
  // insert_simplex_and_subfaces: every face gets the rule of insert_one with the same value
  void insert_with_faces(const Simplex& s, double v) { for (auto& f : faces_all(s)) insert_one(f, v); }
  // batch vertex insertion: existing vertices untouched
  void insert_vertices(const std::vector<long>& vs, double v) { for (long x : vs) { Simplex s{x}; if (!has(s)) cx[s] = v; } }
  bool is_maximal(const Simplex& s) const { for (auto& kv : cx) if (kv.first.size() == s.size() + 1 && is_face(s, kv.first)) return false; return true; }
  void remove_maximal(const Simplex& s) { cx.erase(s); }
  // returns whether something was removed
  bool prune_above_filtration(double v) { bool ch = false; for (auto it = cx.begin(); it != cx.end();) { if (it->second > v) { it = cx.erase(it); ch = true; } else ++it; } return ch; }
  bool prune_above_dimension(int d) { bool ch = false; for (auto it = cx.begin(); it != cx.end();) { if ((int)it->first.size() - 1 > d) { it = cx.erase(it); ch = true; } else ++it; } return ch; }
  void clear() { cx.clear(); }

  int dimension() const { int d = -1; for (auto& kv : cx) d = std::max(d, (int)kv.first.size() - 1); return d; }
  size_t num_vertices() const { size_t c = 0; for (auto& kv : cx) c += kv.first.size() == 1; return c; }
  std::vector<size_t> by_dimension() const { std::vector<size_t> r(dimension() + 1, 0); for (auto& kv : cx) r[kv.first.size() - 1]++; return r; }
  std::set<Simplex> star(const Simplex& s) const { std::set<Simplex> r; for (auto& kv : cx) if (is_face(s, kv.first)) r.insert(kv.first); return r; }
  // cofaces of codimension k (k = 0: the whole star)
  std::set<Simplex> cofaces(const Simplex& s, int k) const {
    std::set<Simplex> r;
    for (auto& kv : cx) if (is_face(s, kv.first) && (k == 0 || kv.first.size() == s.size() + k)) r.insert(kv.first);
    return r;
  }
  std::set<Simplex> skeleton(int d) const { std::set<Simplex> r; for (auto& kv : cx) if ((int)kv.first.size() - 1 <= d) r.insert(kv.first); return r; }
  std::set<long> vertices() const { std::set<long> r; for (auto& kv : cx) if (kv.first.size() == 1) r.insert(kv.first[0]); return r; }
  bool closed() const { for (auto& kv : cx) if (!facets_present(kv.first)) return false; return true; }
  bool monotone() const { for (auto& kv : cx) for (auto& f : facets(kv.first)) if (has(f) && cx.at(f) > kv.second) return false; return true; }
  // least monotone function above the current values: value = max over all faces
  std::map<Simplex, double> monotone_closure() const {
    std::map<Simplex, double> r;
    for (auto& kv : cx) { double v = kv.second; for (auto& f : faces_all(kv.first)) { auto it = cx.find(f); if (it != cx.end()) v = std::max(v, it->second); } r[kv.first] = v; }
    return r;
  }
};

}  // namespace oracle
#endif

// Independent oracle: brute-force clique (flag) complex of a small weighted graph.
#ifndef VERIF_ORACLE_FLAG_H_
#define VERIF_ORACLE_FLAG_H_
#include "oracle/zp_reduce.h"
#include <functional>

namespace oracle {

// graph on vertices with arbitrary (sorted, distinct) labels
struct WGraph {
  std::vector<long> label;                    // label[i] of vertex i, strictly increasing
  std::vector<double> vval;                   // filtration value of vertex i
  std::vector<std::vector<double>> w;         // w[i][j] = edge value, NaN = no edge
  int n() const { return (int)label.size(); }
  bool has_edge(int i, int j) const { return i != j && w[i][j] == w[i][j]; }
};

inline WGraph make_graph(int n) {
  WGraph g; g.label.resize(n); g.vval.assign(n, 0.0);
  for (int i = 0; i < n; ++i) g.label[i] = i;
  g.w.assign(n, std::vector<double>(n, std::numeric_limits<double>::quiet_NaN()));
  return g;
}

// all cliques with at most max_dim+1 vertices (max_dim < 0: no limit); value = max over vertices and edges
inline std::map<Simplex, double> flag_complex(const WGraph& g, int max_dim) {
  std::map<Simplex, double> cx;
  const int n = g.n();
  for (unsigned long m = 1; m < (1ul << n); ++m) {
    int sz = __builtin_popcountl(m);
    if (max_dim >= 0 && sz > max_dim + 1) continue;
    bool ok = true; double val = -std::numeric_limits<double>::infinity();
    for (int i = 0; i < n && ok; ++i) if (m >> i & 1) {
      val = std::max(val, g.vval[i]);
      for (int j = i + 1; j < n; ++j) if (m >> j & 1) {
        if (!g.has_edge(i, j)) { ok = false; break; }
        val = std::max(val, g.w[i][j]);
      }
    }
    if (!ok) continue;
    Simplex s; for (int i = 0; i < n; ++i) if (m >> i & 1) s.push_back(g.label[i]);
    cx[s] = val;
  }
  return cx;
}

// largest subcomplex of cx (closed under faces) that contains no simplex for which blocked(s) is true
inline std::map<Simplex, double> largest_unblocked(const std::map<Simplex, double>& cx,
                                                   const std::function<bool(const Simplex&)>& blocked) {
  std::vector<Simplex> ss; for (auto& kv : cx) ss.push_back(kv.first);
  std::stable_sort(ss.begin(), ss.end(), [](const Simplex& a, const Simplex& b) { return a.size() < b.size(); });
  std::map<Simplex, double> out;
  for (auto& s : ss) {
    bool faces = true;
    if (s.size() > 1)
      for (size_t k = 0; k < s.size() && faces; ++k) {
        Simplex f; for (size_t t = 0; t < s.size(); ++t) if (t != k) f.push_back(s[t]);
        if (!out.count(f)) faces = false;
      }
    if (faces && !blocked(s)) out[s] = cx.at(s);
  }
  return out;
}

inline int clique_number(const WGraph& g) {
  int best = 0;
  for (auto& kv : flag_complex(g, -1)) best = std::max(best, (int)kv.first.size());
  return best;
}

}  // namespace oracle
#endif

// Self-test of the shared oracles against closed forms (run by `vcheck setup`).
#include "oracle/zp_reduce.h"
#include "oracle/flag.h"
#include "oracle/complex_model.h"
#include "oracle/z2_linalg.h"
#include <cstdio>
using namespace oracle;
static int fails = 0;
#define CHECK(c) do { if (!(c)) { printf("SELFTEST FAIL %s:%d %s\n", __FILE__, __LINE__, #c); fails++; } } while (0)

static std::vector<Cell> cells_of(const std::vector<Simplex>& tops) {
  ComplexModel m; for (auto& t : tops) m.insert_with_faces(t, 0.0);
  return cells_from_simplices(filtration_order(m.cx));
}
int main() {
  // boundary of a tetrahedron = S^2
  { auto b = betti(cells_of({{0,1,2},{0,1,3},{0,2,3},{1,2,3}}), 2); CHECK(b.size()==3 && b[0]==1 && b[1]==0 && b[2]==1);
    auto b3 = betti(cells_of({{0,1,2},{0,1,3},{0,2,3},{1,2,3}}), 3); CHECK(b3[0]==1 && b3[1]==0 && b3[2]==1); }
  // circle
  { auto b = betti(cells_of({{0,1},{1,2},{0,2}}), 5); CHECK(b[0]==1 && b[1]==1); }
  // 6-vertex RP^2: Z_2: 1,1,1 ; Z_3: 1,0,0
  { std::vector<Simplex> rp2 = {{0,1,2},{0,2,3},{0,3,4},{0,4,5},{0,1,5},{1,2,4},{2,3,5},{1,3,4},{2,4,5},{1,3,5}};
    auto b2 = betti(cells_of(rp2), 2), b3 = betti(cells_of(rp2), 3);
    CHECK(b2[0]==1 && b2[1]==1 && b2[2]==1); CHECK(b3[0]==1 && b3[1]==0 && b3[2]==0); }
  // 7-vertex torus: 1,2,1 over any field
  { std::vector<Simplex> t; for (int i = 0; i < 7; ++i) { Simplex a{i, (i+1)%7, (i+3)%7}, b{i, (i+2)%7, (i+3)%7}; std::sort(a.begin(), a.end()); std::sort(b.begin(), b.end()); t.push_back(a); t.push_back(b); }
    for (long p : {2, 3, 7}) { auto b = betti(cells_of(t), p); CHECK(b[0]==1 && b[1]==2 && b[2]==1); } }
  // filtered: two points merging at 1, triangle boundary closing at 2, filled at 3
  { std::map<Simplex,double> cx = {{{0},0},{{1},0},{{2},0.5},{{0,1},1},{{1,2},1.5},{{0,2},2},{{0,1,2},3}};
    auto d = simplicial_diagram(cx, 2);
    std::vector<Interval> want = {{0,0,1},{0,0,std::numeric_limits<double>::infinity()},{0,0.5,1.5},{1,2,3}};
    std::sort(want.begin(), want.end()); CHECK(d == want); }
  // flag complex of K4 with max_dim 2: 4+6+4
  { WGraph g = make_graph(4); for (int i=0;i<4;++i) for (int j=0;j<4;++j) if (i!=j) g.w[i][j]=1.0;
    CHECK(flag_complex(g, 2).size()==14); CHECK(flag_complex(g,-1).size()==15); CHECK(clique_number(g)==4);
    auto un = largest_unblocked(flag_complex(g,-1), [](const Simplex& s){ return s.size()==3 && s[0]==0; });
    CHECK(un.size()==4+6+1); }
  // span
  { Span s; BitVec a(10), b(10), c(10); a.set(1); a.set(3); b.set(3); b.set(5); c.set(1); c.set(5);
    CHECK(s.add(a)); CHECK(s.add(b)); CHECK(!s.add(c)); CHECK(s.contains(c)); CHECK(s.rank()==2); }
  // reduction identities R = D V
  { auto cells = cells_of({{0,1,2},{0,2,3},{1,2,3}}); auto red = reduce(cells, 3, true);
    for (size_t j = 0; j < cells.size(); ++j) { Col acc; for (auto& kv : red.V[j]) { Col d; for (auto& fc : cells[kv.first].bdry) d[fc.first] = mod_norm(fc.second,3); col_axpy(acc, kv.second, d, 3);} CHECK(acc == red.R[j]); } }
  if (fails) { printf("SELFTEST FAILED (%d)\n", fails); return 1; }
  printf("oracle selftest ok\n"); return 0;
}

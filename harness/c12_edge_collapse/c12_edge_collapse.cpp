// C12 harness binary.  The same source is built four times (spec.py): flat-map neighbours / dense array
// (GUDHI_COLLAPSE_USE_DENSE_ARRAY), each with std::sort / tbb::parallel_sort (GUDHI_USE_TBB).
#ifndef C12_BUILD
#error "C12_BUILD must be defined by spec.py (flat | dense | flat_tbb | dense_tbb | ...)"
#endif
#define C12_STR2(x) #x
#define C12_STR(x) C12_STR2(x)
#define C12_BUILD_NAME C12_STR(C12_BUILD)
#include "c12_common.h"

static void small_int_double(vh::Case& c) { c12::small_case<int, double>(c, "int"); }
static void small_short_float(vh::Case& c) { c12::small_case<short, float>(c, "short"); }
static void small_ushort_float(vh::Case& c) { c12::small_case<unsigned short, float>(c, "ushort"); }
static void medium_int_double(vh::Case& c) { c12::medium_case<int, double>(c, "int"); }
static void big_int_double(vh::Case& c) { c12::big_case<int, double>(c, "int"); }
static void big_short_float(vh::Case& c) { c12::big_case<short, float>(c, "short"); }

// config names carry the build name: the orchestrator keys its shard files by config name, and the four builds run concurrently
VH_CONFIG(C12_STR(C12_BUILD) ".small_int_double", small_int_double);
VH_CONFIG(C12_STR(C12_BUILD) ".small_short_float", small_short_float);
VH_CONFIG(C12_STR(C12_BUILD) ".small_ushort_float", small_ushort_float);
VH_CONFIG(C12_STR(C12_BUILD) ".medium_int_double", medium_int_double);
VH_CONFIG(C12_STR(C12_BUILD) ".big_int_double", big_int_double);
VH_CONFIG(C12_STR(C12_BUILD) ".big_short_float", big_short_float);
VH_MAIN()
